(* C11 lag, kernel side (1): invariants of one inotify instance that every kernel primitive and every reader function
   keeps - distinct inodes and descriptors per watch, descriptors and cookies below the counters. *)
Require Import WD.Base.Prelude WD.Base.BStr WD.Model.SubEvents WD.Model.Emitter WD.Model.Fs WD.Model.Reader.
Require Import WD.Proofs.ReaderFixProofs WD.Proofs.ContractProofs
               WD.Proofs.C11KernelProofs WD.Proofs.C11ReaderProofs WD.Proofs.C11SeqProofs.
Local Open Scope N_scope.

(* ------------------------------------------------------------------ a property of kernels closed under the two primitives
   the reader uses is kept by the reader *)
Section Closed.
  Variable C : cfg.
  Variable P : kst -> Prop.
  Hypothesis Padd : forall k t p k' wd, P k -> kadd_watch k t p (c_mask C) = Some (k', wd) -> P k'.
  Hypothesis Prm : forall k wd, P k -> P (krm_watch k wd).

  Lemma cl_add_watch r k t p r' k' wd : P k -> add_watch C r k t p = Some (r', k', wd) -> P k'.
  Proof.
    intros H. unfold add_watch. destruct (mem_nat _ _); [discriminate|].
    destruct (kadd_watch k t p (c_mask C)) as [[k1 w]|] eqn:E; [|discriminate].
    intros X; inversion X; subst. eapply Padd; eassumption.
  Qed.

  Lemma cl_sim_dirs t root ds : forall r k acc, P k -> P (snd (fst (sim_dirs C r k t root ds acc))).
  Proof.
    induction ds as [|d ds IH]; intros r k acc H; cbn [sim_dirs]; [exact H|].
    destruct (add_watch C r k t (join root d)) as [[[r1 k1] wd]|] eqn:Ea; apply IH; [|exact H].
    eapply cl_add_watch; eassumption.
  Qed.

  Lemma cl_simulate t w : forall r k acc r' k' out, P k -> simulate C r k t w acc = Done (r', k', out) -> P k'.
  Proof.
    induction w as [|[[root ds] fls] w IH]; intros r k acc r' k' out H X; cbn [simulate] in X.
    - inversion X; subst. exact H.
    - pose proof (cl_sim_dirs t root ds r k acc H) as H1.
      destruct (sim_dirs C r k t root ds acc) as [[r1 k1] a1]. cbn [fst snd] in H1.
      destruct (sim_files C r1 root fls a1); [|discriminate]. eapply IH; eassumption.
  Qed.

  Lemma cl_add_dirs t ps : forall r k, P k -> P (snd (add_dirs C r k t ps)).
  Proof.
    induction ps as [|p ps IH]; intros r k H; cbn [add_dirs]; [exact H|].
    destruct (add_watch C r k t p) as [[[r1 k1] wd]|] eqn:Ea; [|exact H].
    apply IH. eapply cl_add_watch; eassumption.
  Qed.

  Lemma cl_forget_tree keys p : forall r k, P k -> P (snd (forget_tree keys p r k)).
  Proof.
    induction keys as [|[q x] keys IH]; intros r k H; cbn [forget_tree]; [exact H|].
    destruct (beqb q p || starts (p ++ [sep]) q); [|apply IH; exact H].
    destruct (alookup beqb q (wfp r)) as [wd|]; [|apply IH; exact H].
    destruct (alookup N.eqb wd (pfw r)) as [q'|]; [|apply IH; exact H].
    destruct (beqb q' q); apply IH; [apply Prm|]; exact H.
  Qed.

  Lemma cl_settle r k e : P k -> P (snd (settle_pending C r k e)).
  Proof.
    intros H. unfold settle_pending. destruct (c_fix_moveout C); [|exact H].
    destruct (pend r) as [[c p]|]; [|exact H].
    destruct (is_moved_to (k_mask e) && N.eqb (k_cookie e) c && amem N.eqb (k_wd e) (pfw r)); [exact H|].
    apply cl_forget_tree. exact H.
  Qed.

  Lemma cl_ro_move t r k e wdp : P k -> P (snd (fst (ro_move C t r k e wdp))).
  Proof.
    intros H. unfold ro_move. destruct (is_moved_from (k_mask e)); [exact H|].
    destruct (is_moved_to (k_mask e)); [|exact H].
    assert (A : forall (b : bool) ps (ev : raw),
      P (snd (fst (if b then let '(r', k') := add_dirs C r k t ps in (r', k', ev) else (r, k, ev))))).
    { intros b ps ev. destruct b; [|exact H]. pose proof (cl_add_dirs t ps r k H) as X.
      destruct (add_dirs C r k t ps). exact X. }
    destruct (alookup N.eqb (k_cookie e) (mvf r)) as [msrc|]; [|apply A].
    destruct (alookup beqb msrc (wfp r)); [exact H | apply A].
  Qed.

  Lemma cl_body t r k acc e r' k' out : P k -> read_one_body C t (r, k, acc) e = Done (r', k', out) -> P k'.
  Proof.
    intros H. rewrite read_one_body_factored. destruct (alookup N.eqb (k_wd e) (pfw r)) as [wdp|].
    2:{ destruct (c_fix_moveout C); [|discriminate]. intros X; inversion X; subst. exact H. }
    pose proof (cl_ro_move t r k e wdp H) as Hm.
    destruct (ro_move C t r k e wdp) as [[r1 k1] ev1]. cbn [fst snd] in Hm.
    destruct (ro_ignored C r1 e) as [r2|]; [|discriminate].
    destruct (c_recursive C && is_directory (k_mask e) && is_create (k_mask e)).
    - destruct (add_watch C r2 k1 t (r_path ev1)) as [[[r3 k3] wd]|] eqn:Ea.
      + intros X. eapply cl_simulate; [|exact X]. eapply cl_add_watch; eassumption.
      + intros X; inversion X; subst. exact Hm.
    - intros X; inversion X; subst. exact Hm.
  Qed.

  Lemma cl_read_one t r k acc e r' k' out : P k -> read_one C t (r, k, acc) e = Done (r', k', out) -> P k'.
  Proof. intros H. rewrite read_one_settle. apply cl_body. apply cl_settle. exact H. Qed.

  Lemma cl_read_batch t b : forall r k acc r' k' out, P k -> read_batch C t (r, k, acc) b = Done (r', k', out) -> P k'.
  Proof.
    induction b as [|e b IH]; intros r k acc r' k' out H X; cbn [read_batch] in X.
    - inversion X; subst. exact H.
    - destruct (read_one C t (r, k, acc) e) as [[[r1 k1] a1]|] eqn:E1; [|discriminate].
      eapply IH; [|exact X]. eapply cl_read_one; eassumption.
  Qed.
End Closed.

(* ------------------------------------------------------------------ watches: distinct inodes, distinct descriptors, bounded *)
Definition kwf (k : kst) : Prop :=
  NoDup (map kw_ino (k_watches k)) /\ NoDup (map kw_wd (k_watches k)) /\
  (forall w, In w (k_watches k) -> kw_wd w < k_next_wd k).

Lemma NoDup_map_filter' {A B} (f : A -> B) p (l : list A) : NoDup (map f l) -> NoDup (map f (filter p l)).
Proof. apply NoDup_key_filter. Qed.

Lemma find_none_all {A} (f : A -> bool) l : find f l = None -> forall x, In x l -> f x = false.
Proof. intros H x Hx. eapply find_none; eassumption. Qed.

Lemma kwf_add k t p m k' wd : kwf k -> kadd_watch k t p m = Some (k', wd) -> kwf k'.
Proof.
  intros [H1 [H2 H3]]. unfold kadd_watch. destruct (flookup p t) as [e|]; [|discriminate].
  destruct (watch_of_ino k (f_ino e)) as [w0|] eqn:Ew; intros X; inversion X; subst; unfold kwf; cbn [k_watches k_next_wd].
  - split; [|split].
    + rewrite map_map. erewrite map_ext; [exact H1|]. intros x. destruct (N.eqb (kw_wd x) (kw_wd w0)); reflexivity.
    + rewrite map_map. erewrite map_ext; [exact H2|]. intros x. destruct (N.eqb (kw_wd x) (kw_wd w0)); reflexivity.
    + intros w Hw. apply in_map_iff in Hw as [x [<- Hx]]. destruct (N.eqb (kw_wd x) (kw_wd w0)); cbn [kw_wd]; apply H3; exact Hx.
  - unfold watch_of_ino in Ew. pose proof (find_none_all _ _ Ew) as Hn. split; [|split].
    + rewrite map_app. cbn [map kw_ino]. apply NoDup_snoc; [exact H1|].
      intros Hin. apply in_map_iff in Hin as [x [Hx Hin]]. specialize (Hn x Hin). cbn beta in Hn.
      rewrite Hx, N.eqb_refl in Hn. discriminate.
    + rewrite map_app. cbn [map kw_wd]. apply NoDup_snoc; [exact H2|].
      intros Hin. apply in_map_iff in Hin as [x [Hx Hin]]. specialize (H3 x Hin). lia.
    + intros w Hw. apply in_app_or in Hw as [Hw|[<-|[]]]; [specialize (H3 w Hw); lia | cbn [kw_wd]; lia].
Qed.

Lemma kwf_filter k (f : kwatch -> bool) q c :
  kwf k -> kwf {| k_watches := filter f (k_watches k); k_next_wd := k_next_wd k; k_queue := q; k_next_cookie := c |}.
Proof.
  intros [H1 [H2 H3]]. split; [|split]; cbn [k_watches k_next_wd].
  - apply NoDup_map_filter'. exact H1.
  - apply NoDup_map_filter'. exact H2.
  - intros w Hw. apply filter_In in Hw as [Hw _]. apply H3. exact Hw.
Qed.

Lemma kwf_rm k wd : kwf k -> kwf (krm_watch k wd).
Proof. intros H. unfold krm_watch. destruct (find _ _); [|exact H]. apply kwf_filter. exact H. Qed.

Lemma kwf_same_watches k k' : k_watches k' = k_watches k -> k_next_wd k' = k_next_wd k -> kwf k -> kwf k'.
Proof. intros E1 E2 [H1 [H2 H3]]. unfold kwf. rewrite E1, E2. repeat split; assumption. Qed.

Lemma kwf_knotify k ino bit isdir c name : kwf k -> kwf (knotify k ino bit isdir c name).
Proof.
  intros H. apply (kwf_same_watches k); [apply knotify_watches | apply (knotify_counters k ino bit isdir c name) | exact H].
Qed.

Lemma kwf_kgone k ino af : kwf k -> kwf (kgone k ino af).
Proof.
  intros H. unfold kgone. destruct (watch_of_ino k ino); [|exact H].
  apply kwf_filter. apply kwf_knotify. destruct af; [apply kwf_knotify|]; exact H.
Qed.

Lemma kwf_kernel_op k t o : kwf k -> kwf (kernel_op k t o).
Proof.
  intros H. destruct o; cbn [kernel_op]; repeat first [apply kwf_knotify | apply kwf_kgone | exact H].
  - destruct (fisdir p t); repeat first [apply kwf_knotify | exact H].
  - assert (H0 : kwf {| k_watches := k_watches k; k_next_wd := k_next_wd k; k_queue := k_queue k;
                        k_next_cookie := k_next_cookie k + 1 |}) by exact H.
    destruct (fisdir q t); repeat first [apply kwf_kgone | apply kwf_knotify | exact H0].
Qed.

Lemma kwf_read_batch C t b r k acc r' k' out : kwf k -> read_batch C t (r, k, acc) b = Done (r', k', out) -> kwf k'.
Proof. apply (cl_read_batch C kwf (fun k t p => kwf_add k t p (c_mask C)) kwf_rm). Qed.

Lemma kwf_drained k : kwf k -> kwf (Contract.kdrained k).
Proof. intros H. exact H. Qed.
