(* C20 - Windows and macOS translation layers meet the same contract on well-formed input; the two
   binary buffer codecs round-trip.  Only statements; every proof is `exact <lemma>`. *)
Require Import WD.Base.Prelude WD.Base.Le32.
Require WD.Model.CodecInotify WD.Proofs.CodecInotifyProofs.
Require WD.Model.CodecWin WD.Proofs.CodecWinProofs.

(* ================================================================ the inotify buffer *)
Module Inotify.
Import WD.Model.CodecInotify WD.Proofs.CodecInotifyProofs.

(* For every list of records (any count), each with any name length and any number pad >= 0 of NUL
   padding bytes (so also: empty name with len = 0, non-empty name without any padding), fields in
   the range of their C types and a name that does not end in NUL: Inotify._parse_event_buffer
   yields exactly the records that were encoded. *)
Theorem C20_inotify_roundtrip : forall rs : list (irec * nat),
  valid rs -> decode (encode rs) = Some (map fst rs).
Proof. exact inotify_roundtrip. Qed.
Print Assumptions C20_inotify_roundtrip.

(* The fuel of the model (= len(buffer)) never runs out: [decode] answers on every buffer,
   well-formed or not, so the [Some] above is not an artefact of a totalised definition. *)
Theorem C20_inotify_total : forall buf, decode buf <> None.
Proof. exact decode_total. Qed.
Print Assumptions C20_inotify_total.

(* Every real file name (no NUL byte at all) satisfies the name condition of [valid]. *)
Theorem C20_inotify_names : forall s, no_nul s = true -> ends_nul s = false.
Proof. exact no_nul_ends. Qed.
Print Assumptions C20_inotify_names.

(* The name condition is necessary: a name ending in NUL is cut by rstrip. *)
Theorem C20_inotify_trailing_nul_refuted : exists r p, decode (encode [(r, p)]) <> Some [r].
Proof. exact trailing_nul_refuted. Qed.
Print Assumptions C20_inotify_trailing_nul_refuted.

Example C20_inotify_nonvacuous :
  let rs := [(IRec 1 256 0 [97; 98; 99], 13%nat);            (* kernel style: padded to 16 *)
             (IRec (-1) 16384 0 [], 0%nat);                   (* IN_Q_OVERFLOW: wd = -1, len = 0 *)
             (IRec 2 1073741952 77 [100], 0%nat);             (* non-empty name, no padding at all *)
             (IRec 3 2 0 [], 16%nat)]%N in                    (* empty name, 16 NULs *)
  forallb valid_recb rs = true /\ length (encode rs) = 97%nat /\
  decode (encode rs) = Some (map fst rs).
Proof. vm_compute. repeat split. Qed.
End Inotify.

(* ================================================================ the ReadDirectoryChangesW buffer *)
Module Win.
Import WD.Model.CodecWin WD.Proofs.CodecWinProofs.

(* For every chain of FILE_NOTIFY_INFORMATION entries (any count), each with any name made of
   Unicode scalar values (any length; encoded as UTF-16-LE, surrogate pairs above U+FFFF), any
   padding bytes after the name, NextEntryOffset = entry size and 0 in the last entry, followed by
   arbitrary bytes [junk] (the unused rest of the 64000-byte buffer): winapi._parse_event_buffer
   with the repaired codec ("utf-16-le") returns exactly (Action, name) of every entry. *)
Theorem C20_win_roundtrip : forall (rs : list (wrec * bytes)) (junk : bytes),
  valid rs ->
  parse dec_utf16_le (encode rs ++ junk) (N.of_nat (length (encode rs))) = Ok (map fst rs).
Proof. exact win_roundtrip. Qed.
Print Assumptions C20_win_roundtrip.

(* n_bytes units of fuel are enough on every input. *)
Theorem C20_win_fuel : forall dec buf n, parse dec buf n <> NoFuel.
Proof. exact parse_fuel. Qed.
Print Assumptions C20_win_fuel.

(* The pinned code decodes with "utf-16", which honours a byte-order mark: refuted (finding F8). *)
Theorem C20_win_bom_refuted :
  exists rs, valid rs /\
    parse dec_utf16_bom (encode rs) (N.of_nat (length (encode rs))) <> Ok (map fst rs).
Proof. exact win_bom_refuted. Qed.
Print Assumptions C20_win_bom_refuted.

(* The defect is confined to names whose first character is U+FEFF or U+FFFE. *)
Theorem C20_win_bom_confined : forall s, forallb is_scalar s = true ->
  match s with c :: _ => c <> 65279%N /\ c <> 65534%N | [] => True end ->
  dec_utf16_bom (units_bytes (utf16_units s)) = dec_utf16_le (units_bytes (utf16_units s)).
Proof. exact dec_bom_agrees. Qed.
Print Assumptions C20_win_bom_confined.

Example C20_win_nonvacuous :
  let rs := [(WRec 1 [97; 98; 99], [0; 0]);                   (* "abc", 2 bytes of alignment *)
             (WRec 4 [65279; 97], []);                         (* starts with U+FEFF *)
             (WRec 5 [128512; 233], [7; 7]);                   (* astral character: surrogate pair *)
             (WRec 3 [], [])]%N in                             (* empty name *)
  forallb valid_recb rs = true /\
  parse dec_utf16_le (encode rs ++ [1; 2; 3]%N) (N.of_nat (length (encode rs))) = Ok (map fst rs) /\
  parse dec_utf16_bom (encode rs) (N.of_nat (length (encode rs)))
    = Ok [WRec 1 [97; 98; 99]; WRec 4 [97]; WRec 5 [128512; 233]; WRec 3 []]%N.
Proof. vm_compute. repeat split. Qed.
End Win.
