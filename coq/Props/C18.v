(* C18 - Tricks: debounced batches complete, ordered; one child at a time; stop ends all.
   Only statements; every proof is `exact <lemma>`.

   Part 1: EventDebouncer.  The model [deb_lts true interval] follows the REPAIRED run() loop
   (fixes/F5-debouncer-wait-loop.diff); [deb_lts false interval] is the pinned loop, kept for the
   refutations.  Every theorem quantifies over every label list (= every interleaving of
   handle_event / stop critical sections, thread steps and clock ticks), without length bound. *)
Require Import WD.Base.Prelude WD.Base.Lts WD.Model.Debouncer WD.Proofs.DebouncerProofs.
Require WD.Model.Restart WD.Proofs.RestartProofs WD.Proofs.RestartSerialProofs WD.Proofs.RestartSerialMain.
Require WD.Model.ShellTrick WD.Proofs.ShellTrickProofs.

(* Safety, "exactly once, in arrival order": the delivered batches, concatenated, followed by what is
   still pending (swapped-out batch whose callback has not run yet, then _events) are exactly the
   events handed over, in hand-over order.  Hence: nothing delivered twice, nothing invented,
   nothing skipped (the delivered events are a prefix of the arrival sequence). *)
Theorem C18_debouncer_exactly_once_in_order : forall interval tr s,
  run (deb_lts true interval) init_state tr = Some s ->
  concat (batches s) ++ pending s = handed s.
Proof. exact deb_concat. Qed.
Print Assumptions C18_debouncer_exactly_once_in_order.

(* The callback is never called with an empty batch. *)
Theorem C18_debouncer_batches_nonempty : forall interval tr s,
  run (deb_lts true interval) init_state tr = Some s -> Forall (fun b => b <> []) (batches s).
Proof. exact deb_nonempty. Qed.
Print Assumptions C18_debouncer_batches_nonempty.

(* Nothing is delivered after stop(): once the critical section of stop() has run, the list of
   deliveries never changes again (events pending at that moment are discarded). *)
Theorem C18_debouncer_nothing_after_stop : forall interval tr1 tr2 s1 s',
  run (deb_lts true interval) init_state tr1 = Some s1 ->
  run (deb_lts true interval) s1 (Stop :: tr2) = Some s' ->
  delivered s' = delivered s1.
Proof. exact nothing_after_stop. Qed.
Print Assumptions C18_debouncer_nothing_after_stop.

(* Quiet-interval rule (interval > 0): every delivery (td, tc, b) was decided at clock td by a timed
   wait that expired un-notified and made at clock tc >= td; no event at all arrived in the window
   (td - interval, td): every event handed over so far arrived at least [interval] before td, or
   not before td (the latter are the ones that slip in between the expiry and the re-acquisition of
   the lock; they are part of the same batch). *)
Theorem C18_debouncer_quiet_interval : forall interval tr s,
  run (deb_lts true interval) init_state tr = Some s -> interval <> 0%N ->
  forall td tc b, In (td, tc, b) (delivered s) ->
    (td <= tc)%N /\ forall e, In e (handed s) -> (snd e + interval <= td \/ td <= snd e)%N.
Proof. exact deb_quiet. Qed.
Print Assumptions C18_debouncer_quiet_interval.

(* No deadlock: in every reachable state in which run() has not returned, the thread has an enabled
   step, or sits in the timed wait with its deadline ahead, or is idle in the un-timed wait with
   nothing pending and stop() not called. *)
Theorem C18_debouncer_no_deadlock : forall interval tr s,
  run (deb_lts true interval) init_state tr = Some s -> pcs s <> PDone ->
  thr_step true interval s <> None \/ timer_pending s = true \/
  (pcs s = POuterWait /\ notified s = false /\ events s = [] /\ stopped s = false).
Proof. exact deb_no_deadlock. Qed.
Print Assumptions C18_debouncer_no_deadlock.

(* The thread always exits on stop(): after stop() the thread's next step is always enabled until
   run() has returned, and in every continuation (any interleaving with further handle_event/stop/
   ticks) it makes at most [exit_rank s <= 5] own steps; exit_rank = 0 iff run() returned. *)
Theorem C18_debouncer_exits_on_stop : forall interval tr s,
  run (deb_lts true interval) init_state tr = Some s -> stopped s = true ->
  (pcs s <> PDone -> thr_step true interval s <> None) /\
  (exit_rank true s <= 5)%nat /\
  forall tr' s', run (deb_lts true interval) s tr' = Some s' ->
    stopped s' = true /\ (exit_rank true s' + count_thr tr' <= exit_rank true s)%nat.
Proof. exact deb_exit. Qed.
Print Assumptions C18_debouncer_exits_on_stop.

Theorem C18_debouncer_exit_rank_zero : forall s, exit_rank true s = 0%nat <-> pcs s = PDone.
Proof. exact exit_rank_zero. Qed.
Print Assumptions C18_debouncer_exit_rank_zero.

(* "Every event ... exactly once" - the liveness half, until stop(): whenever something is pending
   and stop() has not been called, the thread is never stuck (its step is enabled or its timer is
   pending), every own step either completes the delivery of EVERYTHING handed over so far or
   strictly decreases a measure bounded by 8 while keeping the pending list, and clock ticks change
   neither.  (A further handle_event may restart the timer: that is the debounce semantics.) *)
Theorem C18_debouncer_delivery_progress : forall interval tr s,
  run (deb_lts true interval) init_state tr = Some s -> stopped s = false -> pending s <> [] ->
  (thr_step true interval s <> None \/ timer_pending s = true) /\
  (deliver_rank interval s <= 8)%nat /\
  (forall s', thr_step true interval s = Some s' ->
     (pending s' = [] /\ concat (batches s') = handed s') \/
     (pending s' = pending s /\ stopped s' = false /\ (deliver_rank interval s' < deliver_rank interval s)%nat)) /\
  (forall d s', deb_step true interval s (Tick d) = Some s' ->
     pending s' = pending s /\ stopped s' = stopped s /\ deliver_rank interval s' = deliver_rank interval s).
Proof. exact deb_progress. Qed.
Print Assumptions C18_debouncer_delivery_progress.

(* Finding F5, pinned loop (unconditional first wait): start(); stop() with stop's notify before the
   thread's first wait leaves the thread blocked for ever although stop() has been called ... *)
Theorem C18_debouncer_pinned_deadlock_refuted : exists tr s,
  run (deb_lts false 0) init_state tr = Some s /\ stopped s = true /\ deadlockedb false 0 s = true.
Proof. exact pinned_deadlock. Qed.
Print Assumptions C18_debouncer_pinned_deadlock_refuted.

(* ... and an event handed over in the same window is held back however long one waits (even with
   debounce interval 0), until the next handle_event. *)
Theorem C18_debouncer_pinned_event_held_refuted : exists tr s,
  run (deb_lts false 0) init_state tr = Some s /\ stopped s = false /\ events s <> [] /\
  delivered s = [] /\ deadlockedb false 0 s = true /\
  forall d, exists s', run (deb_lts false 0) s [Tick d] = Some s' /\ deadlockedb false 0 s' = true /\ events s' = events s.
Proof. exact pinned_event_held. Qed.
Print Assumptions C18_debouncer_pinned_event_held_refuted.

(* Non-vacuity: interval 2; the thread goes idle, event 1 arrives at 0, event 2 at 1 restarts the
   timer, the wait expires at 3, one batch [1;2] decided and delivered at 3; event 3 at 3 is
   pending when stop() runs and is discarded; the thread exits. *)
Example C18_debouncer_nonvacuous :
  let tr := [Thr; Thr; HandleEvent 1; Thr; Thr; Thr; Thr; Tick 1; HandleEvent 2; Thr; Thr; Thr;
             Tick 2; Thr; Thr; Thr; Thr; Thr; HandleEvent 3; Stop; Thr; Thr; Thr; Thr; Thr] in
  exists s, run (deb_lts true 2) init_state tr = Some s /\
    delivered s = [(3, 3, [(1, 0); (2, 1)])]%N /\ pending s = [(3, 3)]%N /\ stopped s = true /\
    pcs s = PDone /\ handed s = [(1, 0); (2, 1); (3, 3)]%N.
Proof. eexists. vm_compute. repeat split. Qed.

(* the same start(); stop() schedule that deadlocks the pinned loop ends the repaired one *)
Example C18_debouncer_repaired_witness :
  exists s, run (deb_lts true 0) init_state [Stop; Thr; Thr; Thr; Thr] = Some s /\ pcs s = PDone.
Proof. eexists. vm_compute. repeat split. Qed.

(* ================================================================== Part 3: ShellCommandTrick *)
Module Shell.
Import WD.Model.ShellTrick WD.Proofs.ShellTrickProofs.

(* With wait_for_process or drop_during_process (or both), for every interleaving of events (handled
   one at a time by the dispatching thread), child exits and watcher steps: at most one command is
   running, in every state and right after every Popen. *)
Theorem C18_shell_no_overlap : forall wait_for_process drop_during_process,
  (wait_for_process || drop_during_process)%bool = true ->
  forall tr s, run (shell_lts wait_for_process drop_during_process) init_state tr = Some s ->
  (alive_children s <= 1)%nat /\ (max_alive s <= 1)%nat.
Proof. exact shell_no_overlap. Qed.
Print Assumptions C18_shell_no_overlap.

(* the hypothesis is needed: without either option two events give two running commands *)
Theorem C18_shell_overlap_without_options_refuted : exists tr s,
  run (shell_lts false false) init_state tr = Some s /\ alive_children s = 2%nat.
Proof. exact shell_overlap_without_options. Qed.
Print Assumptions C18_shell_overlap_without_options_refuted.

Example C18_shell_nonvacuous :
  exists s, run (shell_lts false true) init_state [Event; Event; Exit 0; Event; WStep 0; Event] = Some s /\
    started s = 2%nat /\ dropped s = 2%nat /\ alive_children s = 1%nat.
Proof. eexists. vm_compute. repeat split. Qed.
End Shell.

(* ================================================================== Part 2: AutoRestartTrick *)
Module Restart.
Import WD.Model.Restart WD.Proofs.RestartProofs.

(* The REPAIRED protocol (fix F15, fixes/F15-autorestart-serialise-restart.diff: _restart_process runs
   under the re-entrant _stopping_lock), [serial = true]: every label list, any number of triggers,
   self-exits and watcher threads, any kill_after, restart_on_command_exit on or off.
   Proof: the invariant [Inv] of Proofs/RestartSerialProofs.v - the lock owner is the unique thread
   inside _restart_process; once _is_trick_stopping is set no restarter is past its check; the writers
   of process / process_watcher exclude each other; process = Some p for the only child that may be
   alive; every watcher other than the current one has been told to stop. *)

(* Never more than one child alive: in every reachable state, and right after every Popen. *)
Theorem C18_restart_one_child : forall restart_on_exit kill_after tr s,
  run (restart_lts true restart_on_exit kill_after) (init_state restart_on_exit) tr = Some s ->
  (alive_children s <= 1)%nat /\ (max_alive s <= 1)%nat.
Proof. exact RestartSerialMain.one_child. Qed.
Print Assumptions C18_restart_one_child.

(* After stop() has returned: no child is alive, and in every continuation no child is ever started
   again (spawns is frozen), none is alive, and every ProcessWatcher thread has finished or has its
   stopped flag set ([watcher_live] false).  What is NOT claimed (and false, known finding
   C18-superseded-watcher-not-joined): that every watcher has finished - a superseded watcher that
   was told to stop may still have its last steps (poll, then the flag test -> WDone) to do; it can start nothing. *)
Theorem C18_restart_after_stop : forall restart_on_exit kill_after tr s,
  run (restart_lts true restart_on_exit kill_after) (init_state restart_on_exit) tr = Some s ->
  mpcs s = MReturned ->
  alive_children s = 0%nat /\
  forallb (fun w => negb (watcher_live w)) (watchers s) = true /\
  forall tr' s', run (restart_lts true restart_on_exit kill_after) s tr' = Some s' ->
    spawns s' = spawns s /\ alive_children s' = 0%nat /\ mpcs s' = MReturned /\
    forallb (fun w => negb (watcher_live w)) (watchers s') = true.
Proof. exact RestartSerialMain.after_stop. Qed.
Print Assumptions C18_restart_after_stop.

(* Restart accounting.  [admitted] counts the _restart_process calls - made by the triggering thread
   (one per event, or per debouncer batch) and by a watcher whose child exited by itself while the
   watcher had not been told to stop - that found _is_trick_stopping unset; [pending] (0 or 1) is the
   admitted call of the lock holder that has not reached Popen yet.  Children started =
   1 (start()) + admitted calls - the pending one: each admitted call starts exactly one child, calls
   arriving after stop() set the flag start none; child ids are 0 .. spawns-1. *)
Theorem C18_restart_count : forall restart_on_exit kill_after tr s,
  run (restart_lts true restart_on_exit kill_after) (init_state restart_on_exit) tr = Some s ->
  (spawns s + pending s = S (admitted s))%nat /\ (pending s <= 1)%nat /\ length (children s) = spawns s.
Proof. exact RestartSerialMain.spawn_count. Qed.
Print Assumptions C18_restart_count.

(* Non-vacuity: an event restart (child 0 -> 1), a self-exit restart by watcher 1 (child 1 -> 2), then
   stop(): MReturned, three children started, two admitted calls, none alive, all watchers done. *)
Example C18_restart_nonvacuous :
  let T := repeat TStep in let W := fun i => repeat (WStep i) in let Mn := repeat MStep in
  let tr := [Trigger] ++ T 5 ++ [Exit 0%nat] ++ T 8 ++ W 0%nat 2 ++ [Exit 1%nat] ++ W 1%nat 14 ++
            [StopCall] ++ Mn 5 ++ [Exit 2%nat] ++ Mn 4 ++ W 2%nat 2 ++ Mn 1 in
  exists s, run (restart_lts true true 4) (init_state true) tr = Some s /\
    mpcs s = MReturned /\ spawns s = 3%nat /\ admitted s = 2%nat /\ children s = [false; false; false] /\
    max_alive s = 1%nat /\ forallb (fun w => match w_pc w with WDone => true | _ => false end) (watchers s) = true.
Proof. eexists. vm_compute. repeat split. Qed.

(* "Once per triggering event" needs the watcher's SECOND look at its stop flag (WNoticed).  A watcher
   that tests the flag only before poll() (rs_step_norecheck: the flag test and poll() are separate steps,
   there is no lock around them) restarts twice for one trigger, with no child exiting by itself: both
   Exit labels of the witness follow a stop signal.  Refuted by a witness run, repaired lock included. *)
Theorem C18_restart_watcher_without_recheck_refuted : exists tr s,
  run (restart_lts_norecheck true true 4) (init_state true) tr = Some s /\
  count_trigger tr = 1%nat /\ spawns s = 3%nat /\ admitted s = 2%nat /\ children s = [false; false; true].
Proof. exact norecheck_double_restart. Qed.
Print Assumptions C18_restart_watcher_without_recheck_refuted.

(* the same schedule in the model of the real watcher: one restart, the stopped watcher just finishes *)
Example C18_restart_watcher_recheck_witness : exists s,
  run (restart_lts true true 4) (init_state true)
      ([WStep 0%nat; WStep 0] ++ [Trigger] ++ repeat TStep 5 ++ [Exit 0%nat] ++ repeat TStep 8 ++ repeat (WStep 0%nat) 2)
    = Some s /\ spawns s = 2%nat /\ admitted s = 1%nat /\ children s = [false; true] /\
  watcher_done s 0 = true.
Proof. exact recheck_single_restart. Qed.

(* Pinned protocol (no lock around _restart_process): a self-exit restart racing an event restart
   leaves two children alive, self.process pointing at the younger one (the other is orphaned) ... *)
Theorem C18_restart_two_children_refuted : exists tr s,
  run (restart_lts false true 4) (init_state true) tr = Some s /\ alive_children s = 2%nat /\ process s = Some 2%nat.
Proof. exact two_children_pinned. Qed.
Print Assumptions C18_restart_two_children_refuted.

(* ... and the orphan is still alive after stop() has returned. *)
Theorem C18_restart_orphan_survives_stop_refuted : exists tr s,
  run (restart_lts false true 4) (init_state true) tr = Some s /\ mpcs s = MReturned /\ alive_children s = 1%nat.
Proof. exact orphan_survives_stop_pinned. Qed.
Print Assumptions C18_restart_orphan_survives_stop_refuted.

(* Pinned protocol: stop() racing an event restart that is still waiting for the child to die
   returns early (flag _is_process_stopping) while the child is alive. *)
Theorem C18_restart_alive_after_stop_refuted : exists tr s,
  run (restart_lts false true 4) (init_state true) tr = Some s /\ mpcs s = MReturned /\ alive_children s = 1%nat.
Proof. exact alive_after_stop_pinned. Qed.
Print Assumptions C18_restart_alive_after_stop_refuted.

(* The race schedule is not a run of the repaired protocol (the second restarter blocks on the lock). *)
Theorem C18_restart_race_blocked_when_serial_partial :
  run (restart_lts true true 4) (init_state true) race_trace = None.
Proof. exact race_trace_not_serial. Qed.
Print Assumptions C18_restart_race_blocked_when_serial_partial.
End Restart.
