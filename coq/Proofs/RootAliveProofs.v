(* C07, "later changes in the tree do not go unreported" for the watched root itself:
   as long as no operation removes or renames the root (or one of its ancestors), after EVERY history of operations,
   reads of any size, emitter steps and clock ticks, and under every set of failing inotify_add_watch calls,
     - the kernel still watches the root's inode,
     - the reader still maps that descriptor to the root path, and no stale entry can overwrite it,
   so a change made directly in the root is translated under its true path (the root_probe lemmas).
   This holds in particular in the stale-bookkeeping situations of the known findings F10/F10b-d. *)
Require Import WD.Base.Prelude WD.Base.BStr WD.Model.SubEvents WD.Model.Emitter WD.Model.Fs WD.Model.Reader
               WD.Model.DelayQueue WD.Model.Grouping WD.Model.Pipeline WD.Model.PathTypes.
Require Import WD.Proofs.ReaderFixProofs WD.Proofs.NoCrashProofs WD.Proofs.PathProofs WD.Proofs.CoverProofs.
Local Open Scope N_scope.

(* ------------------------------------------------------------------ find *)
Lemma find_filter_keep {A} (p q : A -> bool) l x : find p l = Some x -> q x = true -> find p (filter q l) = Some x.
Proof.
  induction l as [|a l IH]; simpl; [discriminate|]. intros H Hq.
  destruct (p a) eqn:Ep.
  - inversion H; subst. rewrite Hq. simpl. now rewrite Ep.
  - destruct (q a); simpl; [rewrite Ep|]; auto.
Qed.

Lemma find_map_same {A} (p : A -> bool) (f : A -> A) l x :
  (forall y, p (f y) = p y) -> find p l = Some x -> find p (map f l) = Some (f x).
Proof.
  intros Hp. induction l as [|a l IH]; simpl; [discriminate|]. rewrite Hp.
  destruct (p a); intros H; [now inversion H | auto].
Qed.

(* ------------------------------------------------------------------ the root entry of the file system *)
Definition root_ent (root : bytes) (i : N) (t : fs) : Prop :=
  exists e, In e t /\ f_path e = root /\ f_ino e = i /\ f_dir e = true.

Definition keeps_root (root : bytes) (o : op) : Prop :=
  match o with
  | Rmdir p => p <> root
  | Rename p q => p <> root /\ under p root = false /\ q <> root
  | _ => True
  end.

Lemma in_fremove p t e : In e t -> f_path e <> p -> In e (fremove p t).
Proof.
  intros Hin Hne. unfold fremove. apply filter_In. split; [exact Hin|].
  apply negb_true_iff. apply beqb_neq. congruence.
Qed.

Lemma in_frename p q t e : In e t -> f_path e <> p -> under p (f_path e) = false -> In e (frename p q t).
Proof.
  intros Hin Hne Hu. unfold frename. apply in_map_iff. exists e. split; [|exact Hin].
  apply beqb_neq in Hne. rewrite Hne, Hu. reflexivity.
Qed.

Lemma root_ent_apply root i w o w' :
  wf_fs w -> root_ent root i (w_fs w) -> keeps_root root o -> apply_op w o = Some w' -> root_ent root i (w_fs w').
Proof.
  intros W (e & Hin & Hp & Hi & Hd) Hk H.
  assert (Hl : flookup root (w_fs w) = Some e) by (rewrite <- Hp; apply flookup_in; [apply W | exact Hin]).
  assert (Hfile : forall p x, flookup p (w_fs w) = Some x -> f_dir x = false -> f_path e <> p).
  { intros p x Hx Hxd Heq. rewrite Hp in Heq. subst p. rewrite Hl in Hx. inversion Hx; subst. congruence. }
  exists e. split; [|auto].
  destruct o as [p|p|p|p|p|p|p q]; simpl in H.
  - destruct (fisdir (dirname p) (w_fs w) && negb (fexists p (w_fs w))); inversion H; subst; simpl.
    apply in_app_iff. now left.
  - destruct (flookup p (w_fs w)) as [x|]; [|discriminate]. destruct (f_dir x); inversion H; subst. exact Hin.
  - destruct (fexists p (w_fs w)); inversion H; subst. exact Hin.
  - destruct (flookup p (w_fs w)) as [x|] eqn:E; [|discriminate]. destruct (f_dir x) eqn:Ex; inversion H; subst; simpl.
    apply in_fremove; [exact Hin | eapply Hfile; eauto].
  - destruct (fisdir (dirname p) (w_fs w) && negb (fexists p (w_fs w))); inversion H; subst; simpl.
    apply in_app_iff. now left.
  - destruct (flookup p (w_fs w)) as [x|]; [|discriminate].
    destruct (f_dir x && negb (has_children p (w_fs w))); inversion H; subst; simpl.
    apply in_fremove; [exact Hin | simpl in Hk; congruence].
  - destruct Hk as (Hk1 & Hk2 & Hk3).
    destruct (flookup p (w_fs w)) as [x|]; [|discriminate].
    destruct (beqb p q || under p q || negb (fisdir (dirname q) (w_fs w))); [discriminate|].
    assert (Hren : forall t, In e t -> In e (frename p q t)).
    { intros t Ht. apply in_frename; [exact Ht | congruence | now rewrite Hp]. }
    assert (Hrem : In e (fremove q (w_fs w))) by (apply in_fremove; [exact Hin | congruence]).
    destruct (flookup q (w_fs w)) as [v|].
    + destruct (f_dir x).
      * destruct (f_dir v && negb (has_children q (w_fs w))); inversion H; subst; simpl. now apply Hren.
      * destruct (f_dir v); inversion H; subst; simpl. now apply Hren.
    + inversion H; subst; simpl. now apply Hren.
Qed.

(* ------------------------------------------------------------------ the kernel keeps watching the root inode *)
Definition root_watch (i w0 : N) (k : kst) : Prop := exists kw, watch_of_ino k i = Some kw /\ kw_wd kw = w0.

Lemma root_watch_same i w0 k k' : k_watches k' = k_watches k -> root_watch i w0 k -> root_watch i w0 k'.
Proof. intros E (kw & H & Hw). exists kw. split; [|exact Hw]. unfold watch_of_ino in *. now rewrite E. Qed.

Lemma root_watch_knotify i w0 k ino bit isdir cookie name :
  root_watch i w0 k -> root_watch i w0 (knotify k ino bit isdir cookie name).
Proof. apply root_watch_same. apply knotify_watches. Qed.

Lemma root_watch_kgone i w0 k ino a :
  NoDup (map kw_wd (k_watches k)) -> ino <> i -> root_watch i w0 k -> root_watch i w0 (kgone k ino a).
Proof.
  intros ND Hne (kw & H & Hw). unfold kgone. destruct (watch_of_ino k ino) as [w|] eqn:E; [|exists kw; auto].
  exists kw. split; [|exact Hw]. unfold watch_of_ino. simpl.
  set (k1 := if a then knotify k ino IN_ATTRIB true 0 [] else k).
  assert (E1 : k_watches (knotify k1 ino IN_DELETE_SELF false 0 []) = k_watches k).
  { rewrite (proj1 (knotify_watches _ _ _ _ _ _)). unfold k1. destruct a; [apply knotify_watches | reflexivity]. }
  rewrite E1. apply find_filter_keep; [exact H|].
  apply negb_true_iff. apply N.eqb_neq. intros Heq.
  assert (kw = w).
  { apply (nodup_wd_unique (k_watches k)); [exact ND | eapply NoCrashProofs.watch_of_ino_in; eauto | eapply NoCrashProofs.watch_of_ino_in; eauto | exact Heq]. }
  subst w. unfold watch_of_ino in H, E. apply find_some in H as [_ H]. apply find_some in E as [_ E].
  apply N.eqb_eq in H, E. congruence.
Qed.

Lemma ino_of_not_root root i w p x :
  wf_fs w -> root_ent root i (w_fs w) -> flookup p (w_fs w) = Some x -> p <> root -> ino_of (w_fs w) p <> i.
Proof.
  intros W (e & Hin & Hp & Hi & _) Hl Hne Heq. unfold ino_of in Heq. rewrite Hl in Heq.
  apply flookup_some in Hl as [Hx Hxp]. assert (x = e) by (eapply ino_inj; eauto; congruence). subst x. congruence.
Qed.

Lemma root_watch_kernel_op root i w0 w o w' k :
  wf_fs w -> root_ent root i (w_fs w) -> keeps_root root o -> apply_op w o = Some w' ->
  NoDup (map kw_wd (k_watches k)) -> root_watch i w0 k -> root_watch i w0 (kernel_op k (w_fs w) o).
Proof.
  intros W Hr Hk Ha ND H. destruct o as [p|p|p|p|p|p|p q]; simpl.
  - now repeat apply root_watch_knotify.
  - now repeat apply root_watch_knotify.
  - destruct (fisdir p (w_fs w)); now repeat apply root_watch_knotify.
  - now apply root_watch_knotify.
  - now apply root_watch_knotify.
  - apply root_watch_knotify. apply root_watch_kgone; [exact ND| |exact H].
    simpl in Ha. destruct (flookup p (w_fs w)) as [x|] eqn:E; [|discriminate].
    eapply ino_of_not_root; eauto.
  - destruct Hk as (Hk1 & Hk2 & Hk3).
    set (k0 := {| k_watches := k_watches k; k_next_wd := k_next_wd k; k_queue := k_queue k;
                  k_next_cookie := k_next_cookie k + 1 |}).
    assert (H0 : root_watch i w0 k0) by (eapply root_watch_same; [|exact H]; reflexivity).
    destruct (fisdir q (w_fs w)) eqn:Eq; [|now repeat apply root_watch_knotify].
    apply root_watch_kgone.
    + rewrite (proj1 (knotify_watches _ _ _ _ _ _)), (proj1 (knotify_watches _ _ _ _ _ _)). exact ND.
    + unfold fisdir in Eq. destruct (flookup q (w_fs w)) as [v|] eqn:E; [|discriminate].
      eapply ino_of_not_root; eauto.
    + now repeat apply root_watch_knotify.
Qed.

(* inotify_add_watch: the root's descriptor is returned only for the root path itself *)
Lemma root_watch_kadd root i w0 w k p mask k' wd :
  wf_fs w -> root_ent root i (w_fs w) ->
  NoDup (map kw_wd (k_watches k)) -> (forall x, In x (k_watches k) -> kw_wd x < k_next_wd k) ->
  root_watch i w0 k -> kadd_watch k (w_fs w) p mask = Some (k', wd) ->
  root_watch i w0 k' /\ (wd = w0 -> p = root).
Proof.
  intros W (e & Hin & Hp & Hi & _) ND BW (kw & H & Hw) Ha. unfold kadd_watch in Ha.
  destruct (flookup p (w_fs w)) as [x|] eqn:E; [|discriminate].
  destruct (watch_of_ino k (f_ino x)) as [v|] eqn:Ev; inversion Ha; subst; clear Ha.
  - split.
    + exists (if N.eqb (kw_wd kw) (kw_wd v) then {| kw_wd := kw_wd kw; kw_ino := kw_ino kw; kw_mask := mask |} else kw).
      split; [|destruct (N.eqb (kw_wd kw) (kw_wd v)); reflexivity].
      unfold watch_of_ino in *. simpl.
      apply (find_map_same (fun w1 => N.eqb (kw_ino w1) (f_ino e))
               (fun x0 => if N.eqb (kw_wd x0) (kw_wd v) then {| kw_wd := kw_wd x0; kw_ino := kw_ino x0; kw_mask := mask |} else x0));
        [|exact H].
      intros y. destruct (N.eqb (kw_wd y) (kw_wd v)); reflexivity.
    + intros Heq. assert (v = kw).
      { apply (nodup_wd_unique (k_watches k)); [exact ND | eapply NoCrashProofs.watch_of_ino_in; eauto | eapply NoCrashProofs.watch_of_ino_in; eauto | congruence]. } subst v.
      unfold watch_of_ino in H, Ev. apply find_some in H as [_ H]. apply find_some in Ev as [_ Ev].
      apply N.eqb_eq in H, Ev. apply flookup_some in E as [Hx Hxp].
      assert (x = e) by (eapply ino_inj; eauto; congruence). subst x. congruence.
  - split.
    + exists kw. split; [|reflexivity]. unfold watch_of_ino in *. simpl. rewrite find_app, H. reflexivity.
    + intros Heq. apply NoCrashProofs.watch_of_ino_in in H. apply BW in H. lia.
Qed.

(* ------------------------------------------------------------------ kernel watch table: distinct, bounded descriptors *)
Definition KW (k : kst) : Prop :=
  NoDup (map kw_wd (k_watches k)) /\ (forall x, In x (k_watches k) -> kw_wd x < k_next_wd k).

Lemma ki_kw pending k r : KI pending k r -> KW k.
Proof. intros [_ _ ND BW _]. split; assumption. Qed.

Lemma kw_kadd k t p mask k' wd : KW k -> kadd_watch k t p mask = Some (k', wd) -> KW k'.
Proof.
  intros [ND BW] H. unfold kadd_watch in H. destruct (flookup p t) as [x|]; [|discriminate].
  destruct (watch_of_ino k (f_ino x)) as [v|]; inversion H; subst; clear H; split; simpl.
  - rewrite map_map. erewrite map_ext; [exact ND|]. intros y. simpl. destruct (N.eqb (kw_wd y) (kw_wd v)); reflexivity.
  - intros y Hy. apply in_map_iff in Hy as [z [<- Hz]]. destruct (N.eqb (kw_wd z) (kw_wd v)); simpl; auto.
  - rewrite map_app. simpl. apply NoDup_snoc; [exact ND|]. intros Hin. apply in_map_iff in Hin as [z [Hz Hin]].
    apply BW in Hin. lia.
  - intros y Hy. apply in_app_iff in Hy as [Hy|[<-|[]]]; [apply BW in Hy; lia | simpl; lia].
Qed.

Lemma kw_krm k wd : KW k -> KW (krm_watch k wd).
Proof.
  intros [ND BW]. unfold krm_watch. destruct (find (fun w => N.eqb (kw_wd w) wd) (k_watches k)); [|split; assumption].
  split; simpl.
  - apply nodup_map_filter. exact ND.
  - intros x Hx. apply filter_In in Hx as [Hx _]. auto.
Qed.

Lemma root_watch_krm i w0 k wd : wd <> w0 -> root_watch i w0 k -> root_watch i w0 (krm_watch k wd).
Proof.
  intros Hne (kw & H & Hw). unfold krm_watch. destruct (find (fun w => N.eqb (kw_wd w) wd) (k_watches k)); [|exists kw; auto].
  exists kw. split; [|exact Hw]. unfold watch_of_ino in *. simpl. apply find_filter_keep; [exact H|].
  apply negb_true_iff. apply N.eqb_neq. congruence.
Qed.

Lemma rooted_length root p : rooted root p -> (length root <= length p)%nat.
Proof. intros [rel [_ ->]]. rewrite app_length. lia. Qed.

(* ------------------------------------------------------------------ reader side *)
Section ReaderRoot.
  Variable C : cfg.
  Notation root := (c_root C).
  Hypothesis Hne : root <> [].
  Hypothesis Hsep : last_is_sep root = false.
  Variables (i w0 : N) (w : world).
  Hypothesis W : wf_fs w.
  Hypothesis Hnames : fs_names_ok (w_fs w).
  Hypothesis Hroot : root_ent root i (w_fs w).
  Notation t := (w_fs w).
  Notation PathInv := (path_inv root).

  (* the reader's part: the root's descriptor maps to the root, and only the root's path maps to it;
     no remembered rename source is the root *)
  Record RD (r : rstate) : Prop := {
    rd_pfw : alookup N.eqb w0 (pfw r) = Some root;
    rd_wfp : forall p, alookup beqb p (wfp r) = Some w0 -> p = root;
    rd_mvf : forall c p, alookup N.eqb c (mvf r) = Some p -> p <> root;
    rd_pend : forall c p, pend r = Some (c, p) -> p <> root }.

  Definition RR (k : kst) (r : rstate) : Prop := KW k /\ root_watch i w0 k /\ RD r.

  Lemma rd_bump r : RD r -> RD (bump r).
  Proof. intros [A B D E]. constructor; assumption. Qed.

  Lemma add_watch_rr r k p r' k' wd : RR k r -> add_watch C r k t p = Some (r', k', wd) -> RR k' r'.
  Proof.
    intros (K & Hk & [A B D E0]) H. unfold add_watch in H.
    destruct (mem_nat (calls r) (c_faults C)); [discriminate|].
    destruct (kadd_watch k t p (c_mask C)) as [[k1 w1]|] eqn:E; [|discriminate]. inversion H; subst; clear H.
    destruct (root_watch_kadd root i w0 w k p (c_mask C) k' wd W Hroot (proj1 K) (proj2 K) Hk E) as [Hk' Hwd].
    split; [eapply kw_kadd; eauto|]. split; [exact Hk'|]. constructor; simpl.
    - destruct (N.eq_dec w0 wd) as [<-|Hn]; [rewrite Hwd by reflexivity; apply pset_eq | rewrite pset_neq; auto].
    - intros q Hq. destruct (bytes_eq_dec q p) as [->|Hn].
      + rewrite wset_eq in Hq. inversion Hq; subst. now apply Hwd.
      + rewrite wset_neq in Hq by exact Hn. apply ReaderFixProofs.unlabel_sub in Hq. now apply B.
    - exact D.
    - exact E0.
  Qed.

  Lemma sim_dirs_rr rt ds : forall r k acc r' k' acc',
    RR k r -> sim_dirs C r k t rt ds acc = (r', k', acc') -> RR k' r'.
  Proof.
    induction ds as [|d ds IH]; simpl; intros r k acc r' k' acc' H Hs.
    - inversion Hs; subst. exact H.
    - destruct (add_watch C r k t (join rt d)) as [[[r1 k1] wd]|] eqn:E.
      + eapply IH; [|exact Hs]. eapply add_watch_rr; eauto.
      + eapply IH; [|exact Hs]. destruct H as (K & Hk & Hd). split; [exact K | split; [exact Hk | now apply rd_bump]].
  Qed.

  Lemma simulate_rr wl : forall r k acc r' k' acc',
    RR k r -> simulate C r k t wl acc = Done (r', k', acc') -> RR k' r'.
  Proof.
    induction wl as [|[[rt ds] fls] wl IH]; simpl; intros r k acc r' k' acc' H Hs.
    - inversion Hs; subst. exact H.
    - destruct (sim_dirs C r k t rt ds acc) as [[r1 k1] acc1] eqn:E.
      destruct (sim_files C r1 rt fls acc1) as [acc2|]; [|discriminate].
      eapply IH; [|exact Hs]. eapply sim_dirs_rr; eauto.
  Qed.

  Lemma add_dirs_rr ps : forall r k r' k', RR k r -> add_dirs C r k t ps = (r', k') -> RR k' r'.
  Proof.
    induction ps as [|p ps IH]; simpl; intros r k r' k' H Ha.
    - inversion Ha; subst. exact H.
    - destruct (add_watch C r k t p) as [[[r1 k1] wd]|] eqn:E.
      + eapply IH; [|exact Ha]. eapply add_watch_rr; eauto.
      + inversion Ha; subst. destruct H as (K & Hk & Hd). split; [exact K | split; [exact Hk | now apply rd_bump]].
  Qed.

  (* the re-key loop after a directory rename never touches the root's entries: the renamed source lies below the root *)
  Lemma rekey_loop_rd src dst : rooted root src -> forall keys r, RD r -> RD (rekey_loop keys src dst r).
  Proof.
    intros Hs. induction keys as [|[p x] keys IH]; intros r H; cbn [rekey_loop]; [exact H|].
    destruct (starts (src ++ [sep]) p) eqn:Est; [|now apply IH].
    destruct (alookup beqb p (wfp r)) as [wd|] eqn:El; [|now apply IH]. apply IH.
    destruct H as [A B D E].
    assert (Hwd : wd <> w0).
    { intros ->. apply B in El. subst p. change (under src root = true) in Est.
      apply CoverProofs.under_length in Est. apply rooted_length in Hs. lia. }
    constructor; simpl.
    - rewrite pset_neq; auto.
    - intros q Hq. destruct (bytes_eq_dec q (replace_first src dst p)) as [->|Hn].
      + rewrite wset_eq in Hq. congruence.
      + rewrite wset_neq in Hq by exact Hn. destruct (bytes_eq_dec q p) as [->|Hn2].
        * rewrite wrem_eq in Hq. discriminate.
        * rewrite wrem_neq in Hq by exact Hn2. now apply B.
    - exact D.
    - exact E.
  Qed.

  (* _forget_tree(p) for a path p below the root never touches the root's entries nor its watch *)
  Lemma forget_tree_rr p : rooted root p -> p <> root -> forall keys r k r' k',
    RR k r -> forget_tree keys p r k = (r', k') -> RR k' r'.
  Proof.
    intros Hp Hpr. induction keys as [|[q x] keys IH]; simpl; intros r k r' k' H Hf.
    - inversion Hf; subst. exact H.
    - destruct (beqb q p || starts (p ++ [sep]) q) eqn:Em; [|eauto].
      destruct (alookup beqb q (wfp r)) as [wd|] eqn:El; [|eauto].
      destruct H as (K & Hk & [A B D E]).
      assert (Hwd : wd <> w0).
      { intros ->. apply B in El. subst q. apply orb_true_iff in Em as [Em|Em].
        - apply beqb_eq in Em. congruence.
        - change (under p root = true) in Em. apply CoverProofs.under_length in Em. apply rooted_length in Hp. lia. }
      assert (Hrem : forall q0, alookup beqb q0 (aremove beqb q (wfp r)) = Some w0 -> q0 = root).
      { intros q0 Hq. destruct (bytes_eq_dec q0 q) as [->|Hn]; [rewrite wrem_eq in Hq; discriminate|].
        rewrite wrem_neq in Hq by exact Hn. now apply B. }
      assert (H1 : RR k {| wfp := aremove beqb q (wfp r); pfw := pfw r; mvf := mvf r; calls := calls r; pend := pend r |}).
      { split; [exact K|]. split; [exact Hk|]. constructor; simpl; auto. }
      destruct (alookup N.eqb wd (pfw r)) as [q'|]; [|eauto].
      destruct (beqb q' q); [|eauto].
      eapply IH; [|exact Hf]. split; [apply kw_krm; exact K|]. split; [apply root_watch_krm; assumption|].
      constructor; simpl; auto. rewrite prem_neq; auto.
  Qed.

  Lemma settle_pending_rr r k e r' k' :
    path_inv root r -> RR k r -> settle_pending C r k e = (r', k') -> RR k' r'.
  Proof.
    intros Hi H Hs. unfold settle_pending in Hs. destruct (c_fix_moveout C); [|inversion Hs; subst; exact H].
    destruct (pend r) as [[c p]|] eqn:Ep; [|inversion Hs; subst; exact H].
    destruct H as (K & Hk & [A B D E]).
    assert (H0 : RR k {| wfp := wfp r; pfw := pfw r; mvf := mvf r; calls := calls r; pend := None |}).
    { split; [exact K|]. split; [exact Hk|]. constructor; simpl; auto. intros ? ? Hx. discriminate Hx. }
    destruct (is_moved_to (k_mask e) && N.eqb (k_cookie e) c && amem N.eqb (k_wd e) (pfw r)); [inversion Hs; subst; exact H0|].
    eapply forget_tree_rr; [| |exact H0|exact Hs].
    - eapply pi_pend; eauto.
    - eapply E; eauto.
  Qed.

  (* one raw record *)
  Lemma read_one_body_rr e rest r k acc r' k' acc' :
    KI (e :: rest) k r -> PathInv r -> kraw_ok e -> RR k r ->
    read_one_body C t (r, k, acc) e = Done (r', k', acc') -> RR k' r'.
  Proof.
    intros HK Hi He (K & Hk & Hd) H.
    (* an IN_IGNORED record never carries the descriptor of the root's live watch *)
    assert (Hign : Emitter.is_ignored (k_mask e) = true -> k_wd e <> w0).
    { intros Hig Heq. destruct Hk as (kw & Hkw & Hw). apply NoCrashProofs.watch_of_ino_in in Hkw.
      destruct HK as [_ NI _ _ _]. apply (NI e (or_introl eq_refl) Hig kw Hkw). congruence. }
    unfold read_one_body in H.
    destruct (alookup N.eqb (k_wd e) (pfw r)) as [wd_path|] eqn:Ewd.
    2: { destruct (c_fix_moveout C); [|discriminate]. inversion H; subst. split; [exact K | split; assumption]. }
    assert (Hwd : rooted root wd_path).
    { apply PathProofs.alookup_in in Ewd as [wd' [Hin _]]. eapply pi_pfw; eauto. }
    set (src_path := match k_name e with [] => wd_path | _ :: _ => join wd_path (k_name e) end) in *.
    match type of H with context [match ?X with pair _ _ => _ end] => destruct X as [[r1 k1] ev1] eqn:EX end.
    assert (H1 : RR k1 r1).
    { destruct (is_moved_from (k_mask e)) eqn:Emf.
      - inversion EX; subst; clear EX. split; [exact K|]. split; [exact Hk|].
        destruct Hd as [A B D E].
        assert (Hb : below root src_path).
        { unfold src_path. destruct He as [Hv|[_ Hnp]].
          - destruct (k_name e) eqn:En; [discriminate|]. rewrite <- En in *. now apply join_below.
          - exfalso. unfold noparent in Hnp. repeat (apply andb_true_iff in Hnp as [Hnp ?]).
            match goal with Hx : negb (is_moved_from _) = true |- _ => apply negb_true_iff in Hx; congruence end. }
        assert (Hsr : src_path <> root) by (intros Heq; rewrite Heq in Hb; revert Hb; now apply not_below_root).
        constructor; simpl; auto.
        2: { intros c p Hp. destruct (c_fix_moveout C && c_recursive C && is_directory (k_mask e)); [|eapply E; eauto].
             inversion Hp; subst. exact Hsr. }
        intros c p Hp. destruct (N.eq_dec c (k_cookie e)) as [->|Hn].
        + rewrite pset_eq in Hp. inversion Hp; subst p. exact Hsr.
        + rewrite pset_neq in Hp by exact Hn. eapply D; eauto.
      - destruct (is_moved_to (k_mask e)); [|inversion EX; subst; split; [exact K | split; assumption]].
        assert (Hmovein : forall (ev' : raw) r0 k0 ev0,
          (if c_fix_movein C && c_recursive C && is_directory (k_mask e) && fisdir src_path t
           then let '(r', k') := add_dirs C r k t (src_path :: walk_dirs t src_path) in (r', k', ev')
           else (r, k, ev')) = (r0, k0, ev0) -> RR k0 r0).
        { intros ev' r0 k0 ev0 Hm.
          destruct (c_fix_movein C && c_recursive C && is_directory (k_mask e) && fisdir src_path t).
          - destruct (add_dirs C r k t (src_path :: walk_dirs t src_path)) as [r2 k2] eqn:Ea.
            inversion Hm; subst. eapply add_dirs_rr; [|exact Ea]. split; [exact K | split; assumption].
          - inversion Hm; subst. split; [exact K | split; assumption]. }
        destruct (alookup N.eqb (k_cookie e) (mvf r)) as [msrc|] eqn:Emv; [|eapply Hmovein; exact EX].
        destruct (alookup beqb msrc (wfp r)) as [mwd|] eqn:Emw; [|eapply Hmovein; exact EX].
        inversion EX; subst; clear EX. split; [exact K|]. split; [exact Hk|].
        assert (Hms : rooted root msrc).
        { apply PathProofs.alookup_in in Emv as [c' [Hin _]]. eapply pi_mvf; eauto. }
        destruct Hd as [A B D E].
        assert (Hmwd : mwd <> w0).
        { intros ->. apply B in Emw. eapply D; eauto. }
        assert (Hd' : RD {| wfp := aset beqb src_path mwd (aremove beqb msrc (wfp r));
                            pfw := aset N.eqb mwd src_path (pfw r); mvf := mvf r; calls := calls r; pend := pend r |}).
        { constructor; simpl.
          - rewrite pset_neq; auto.
          - intros q Hq. destruct (bytes_eq_dec q src_path) as [->|Hn].
            + rewrite wset_eq in Hq. congruence.
            + rewrite wset_neq in Hq by exact Hn. destruct (bytes_eq_dec q msrc) as [->|Hn2].
              * rewrite wrem_eq in Hq. discriminate.
              * rewrite wrem_neq in Hq by exact Hn2. now apply B.
          - exact D.
          - exact E. }
        destruct (c_recursive C); [now apply rekey_loop_rd | exact Hd']. }
    clear EX.
    match type of H with
    | context [match ?X with Done _ => _ | Crash s => Crash s end] => destruct X as [r2|] eqn:E2; [|discriminate]
    end.
    assert (H2 : RR k1 r2).
    { destruct (Emitter.is_ignored (k_mask e)) eqn:Eig; [|inversion E2; subst; exact H1].
      specialize (Hign eq_refl).
      destruct (alookup N.eqb (k_wd e) (pfw r1)) as [path|]; [|discriminate].
      destruct H1 as (K1 & Hk1 & [A B D E]).
      assert (Hrp : RD {| wfp := wfp r1; pfw := aremove N.eqb (k_wd e) (pfw r1); mvf := mvf r1; calls := calls r1;
                          pend := pend r1 |}).
      { constructor; simpl; auto. rewrite prem_neq; auto. }
      cbn [wfp pfw mvf calls] in E2.
      destruct (alookup beqb path (wfp r1)) as [x|].
      - destruct (N.eqb x (k_wd e)); inversion E2; subst; (split; [exact K1 | split; [exact Hk1|]]); [|exact Hrp].
        destruct Hrp as [A' B' D' E']. constructor; simpl in *; auto.
        intros q Hq. destruct (bytes_eq_dec q path) as [->|Hn].
        + rewrite wrem_eq in Hq. discriminate.
        + rewrite wrem_neq in Hq by exact Hn. now apply B'.
      - destruct (c_fix_ignored C); [|discriminate]. inversion E2; subst. split; [exact K1 | split; assumption]. }
    destruct (c_recursive C && is_directory (k_mask e) && is_create (k_mask e)).
    - destruct (add_watch C r2 k1 t (r_path ev1)) as [[[r3 k3] wd3]|] eqn:Eaw.
      + eapply simulate_rr; [|exact H]. eapply add_watch_rr; eauto.
      + inversion H; subst. destruct H2 as (K2 & Hk2 & Hd2). split; [exact K2 | split; [exact Hk2 | now apply rd_bump]].
    - inversion H; subst. exact H2.
  Qed.

  Hypothesis Hfix_ign : c_fix_ignored C = true.
  Hypothesis Hfix_sim : c_fix_simulate C = true.
  Hypothesis Hfix_mo : c_fix_moveout C = true.

  Lemma read_one_rr e rest r k acc r' k' acc' :
    KI (e :: rest) k r -> PathInv r -> kraw_ok e -> RR k r ->
    read_one C t (r, k, acc) e = Done (r', k', acc') -> RR k' r'.
  Proof.
    intros HK Hi He HR H. unfold read_one in H. destruct (settle_pending C r k e) as [r0 k0] eqn:Es.
    eapply read_one_body_rr; [| | exact He | | exact H].
    - eapply settle_pending_ki; eauto.
    - eapply settle_pending_inv; eauto.
    - eapply settle_pending_rr; eauto.
  Qed.
End ReaderRoot.

(* ------------------------------------------------------------------ batches *)
Section BatchRoot.
  Variable C : cfg.
  Notation root := (c_root C).
  Hypothesis Hne : root <> [].
  Hypothesis Hsep : last_is_sep root = false.
  Hypothesis Hfix_ign : c_fix_ignored C = true.
  Hypothesis Hfix_sim : c_fix_simulate C = true.
  Hypothesis Hfix_mo : c_fix_moveout C = true.
  Variables (i w0 : N) (w : world).
  Hypothesis W : wf_fs w.
  Hypothesis Hnames : fs_names_ok (w_fs w).
  Hypothesis Hroot : root_ent root i (w_fs w).

  Lemma read_batch_rr b : forall r k acc r' k' acc',
    KI b k r -> path_inv root r -> Forall (raw_ok root) acc -> Forall kraw_ok b -> RR C i w0 k r ->
    read_batch C (w_fs w) (r, k, acc) b = Done (r', k', acc') -> RR C i w0 k' r'.
  Proof.
    induction b as [|e b IH]; intros r k acc r' k' acc' HK Hi Ha Hb HR H; cbn [read_batch] in H.
    - inversion H; subst. exact HR.
    - inversion Hb as [|? ? He Hb']; subst.
      destruct (read_one_ki C Hfix_ign Hfix_sim Hfix_mo (w_fs w) e b r k acc HK) as [r1 [k1 [acc1 [E1 HK1]]]].
      rewrite E1 in H.
      destruct (PathProofs.read_one_inv C Hne Hsep (w_fs w) r k acc e r1 k1 acc1 Hnames Hi Ha He E1) as [Hi1 Ha1].
      eapply IH; [exact HK1 | exact Hi1 | exact Ha1 | exact Hb' | | exact H].
      eapply read_one_rr; eauto.
  Qed.

  (* what "the root's descriptor maps to the root" buys: a record the kernel delivers on that descriptor about a
     named entry (not a rename half, not IN_IGNORED, not a new sub-directory) is translated under root/<name> *)
  Lemma root_probe r k acc m c n ns :
    pend r = None ->
    alookup N.eqb w0 (pfw r) = Some root ->
    is_moved_from m = false -> is_moved_to m = false -> Emitter.is_ignored m = false ->
    is_directory m && is_create m = false ->
    read_one C (w_fs w) (r, k, acc) {| k_wd := w0; k_mask := m; k_cookie := c; k_name := n :: ns |} =
    Done (r, k, acc ++ [{| r_wd := w0; r_mask := m; r_cookie := c; r_name := n :: ns; r_path := join root (n :: ns) |}]).
  Proof.
    intros Hpd Hp H1 H2 H3 H4. rewrite ReaderFixProofs.read_one_body_eq by exact Hpd.
    unfold read_one_body. cbn [k_wd k_mask k_cookie k_name]. rewrite Hp, H1, H2, H3.
    rewrite <- andb_assoc, H4, andb_false_r. reflexivity.
  Qed.
End BatchRoot.

(* ------------------------------------------------------------------ the pipeline *)
Section PipeRoot.
  Variable P : pcfg.
  Notation C := (pc_reader P).
  Notation root := (c_root (pc_reader P)).
  Hypothesis Hne : root <> [].
  Hypothesis Hsep : last_is_sep root = false.
  Hypothesis Hfix_ign : c_fix_ignored C = true.
  Hypothesis Hfix_sim : c_fix_simulate C = true.
  Hypothesis Hfix_mo : c_fix_moveout C = true.

  Definition op_ok (o : op) : Prop := op_np o /\ op_names_ok o /\ keeps_root root o.

  Record RA (i w0 : N) (s : pstate) : Prop := {
    ra_ki : PI s;
    ra_pinv : PInv P s;
    ra_wf : wf_fs (p_world s);
    ra_root : root_ent root i (w_fs (p_world s));
    ra_rr : RR C i w0 (p_k s) (p_r s) }.

  Lemma pstep_ra i w0 s a s' ob :
    RA i w0 s -> (forall o, a = AOp o -> op_ok o) -> pstep P s a = Done (s', ob) -> RA i w0 s'.
  Proof.
    intros [H1 H2 H3 H4 H5] Ha H.
    assert (H1' : PI s').
    { destruct (pstep_safe P Hfix_ign Hfix_sim Hfix_mo s a H1) as [s2 [o2 [E HP]]]. rewrite H in E. now inversion E; subst. }
    assert (H2' : PInv P s').
    { eapply pstep_inv; [exact Hne | exact Hsep | exact H2 | | exact H]. intros o Ho. apply Ha in Ho. apply Ho. }
    constructor; [exact H1' | exact H2' | | |]; destruct a as [o|n| |d]; cbn [pstep] in H.
    - destruct (apply_op (p_world s) o) as [w'|] eqn:E; inversion H; subst; clear H; [|exact H3]. simpl.
      eapply wf_apply_op; [exact H3 | | exact E]. apply (Ha o eq_refl).
    - destruct (deleted_self (snd (p_buf s))); [now inversion H; subst|].
      match type of H with context [read_batch ?A ?B ?X ?Y] => destruct (read_batch A B X Y) as [[[r' k'] evs]|] end; [|discriminate].
      destruct (number C (p_next s) evs) as [nevs tbl].
      destruct (gstep (pc_delay P) (p_buf s) (RRead nevs)); inversion H; subst; exact H3.
    - destruct (p_stopped s); [now inversion H; subst|].
      destruct (gstep (pc_delay P) (p_buf s) (Q GetEnter)) as [b1|]; [|now inversion H; subst].
      destruct (gstep (pc_delay P) b1 (Q GetDelay)) as [b2|]; [|now inversion H; subst].
      destruct (gstep (pc_delay P) b2 (Q GetPop)) as [b3|]; [|now inversion H; subst].
      destruct (rev (delivered b3)) as [|it l]; [now inversion H; subst|].
      destruct (item_to_emit (p_tbl s) it) as [eit|]; [|now inversion H; subst].
      destruct (emit_filtered _ _ _ _ _ eit) as [evs stop]. inversion H; subst. exact H3.
    - destruct (gstep (pc_delay P) (p_buf s) (Q (Tick d))); inversion H; subst; exact H3.
    - destruct (apply_op (p_world s) o) as [w'|] eqn:E; inversion H; subst; clear H; [|exact H4]. simpl.
      eapply root_ent_apply; [exact H3 | exact H4 | | exact E]. apply (Ha o eq_refl).
    - destruct (deleted_self (snd (p_buf s))); [now inversion H; subst|].
      match type of H with context [read_batch ?A ?B ?X ?Y] => destruct (read_batch A B X Y) as [[[r' k'] evs]|] end; [|discriminate].
      destruct (number C (p_next s) evs) as [nevs tbl].
      destruct (gstep (pc_delay P) (p_buf s) (RRead nevs)); inversion H; subst; exact H4.
    - destruct (p_stopped s); [now inversion H; subst|].
      destruct (gstep (pc_delay P) (p_buf s) (Q GetEnter)) as [b1|]; [|now inversion H; subst].
      destruct (gstep (pc_delay P) b1 (Q GetDelay)) as [b2|]; [|now inversion H; subst].
      destruct (gstep (pc_delay P) b2 (Q GetPop)) as [b3|]; [|now inversion H; subst].
      destruct (rev (delivered b3)) as [|it l]; [now inversion H; subst|].
      destruct (item_to_emit (p_tbl s) it) as [eit|]; [|now inversion H; subst].
      destruct (emit_filtered _ _ _ _ _ eit) as [evs stop]. inversion H; subst. exact H4.
    - destruct (gstep (pc_delay P) (p_buf s) (Q (Tick d))); inversion H; subst; exact H4.
    - destruct (apply_op (p_world s) o) as [w'|] eqn:E; inversion H; subst; clear H; [|exact H5]. simpl.
      destruct H5 as (K & Hk & Hd). split; [|split; [|exact Hd]].
      + eapply ki_kw. exact H1'.
      + eapply root_watch_kernel_op; [exact H3 | exact H4 | apply (Ha o eq_refl) | exact E | apply K | exact Hk].
    - destruct (deleted_self (snd (p_buf s))); [now inversion H; subst|].
      set (k0 := {| k_watches := k_watches (p_k s); k_next_wd := k_next_wd (p_k s);
                    k_queue := skipn n (k_queue (p_k s)); k_next_cookie := k_next_cookie (p_k s) |}) in *.
      destruct (read_batch C (w_fs (p_world s)) (p_r s, k0, []) (firstn n (k_queue (p_k s)))) as [[[r' k'] evs]|] eqn:E;
        [|discriminate].
      assert (HR : RR C i w0 k' r').
      { eapply (read_batch_rr C Hne Hsep Hfix_ign Hfix_sim Hfix_mo i w0 (p_world s) H3); [| exact H4 | | | | | | exact E].
        - apply H2.
        - unfold PI in H1. destruct H1 as [L NI ND BW BQ]. simpl in *. constructor; simpl; rewrite ?firstn_skipn; auto.
        - apply H2.
        - constructor.
        - apply Forall_firstn'. apply H2.
        - destruct H5 as (K & Hk & Hd). split; [exact K | split; [|exact Hd]].
          eapply root_watch_same; [|exact Hk]. reflexivity. }
      destruct (number C (p_next s) evs) as [nevs tbl].
      destruct (gstep (pc_delay P) (p_buf s) (RRead nevs)); inversion H; subst; [exact HR | exact H5].
    - destruct (p_stopped s); [now inversion H; subst|].
      destruct (gstep (pc_delay P) (p_buf s) (Q GetEnter)) as [b1|]; [|now inversion H; subst].
      destruct (gstep (pc_delay P) b1 (Q GetDelay)) as [b2|]; [|now inversion H; subst].
      destruct (gstep (pc_delay P) b2 (Q GetPop)) as [b3|]; [|now inversion H; subst].
      destruct (rev (delivered b3)) as [|it l]; [now inversion H; subst|].
      destruct (item_to_emit (p_tbl s) it) as [eit|]; [|now inversion H; subst].
      destruct (emit_filtered _ _ _ _ _ eit) as [evs stop]. inversion H; subst. exact H5.
    - destruct (gstep (pc_delay P) (p_buf s) (Q (Tick d))); inversion H; subst; exact H5.
  Qed.

  Lemma construct_rr w r k : wf_fs w -> construct C kinit (w_fs w) = Some (r, k) ->
    exists i w0, root_ent root i (w_fs w) /\ RR C i w0 k r.
  Proof.
    intros W H. unfold construct in H. destruct (fisdir root (w_fs w)) eqn:Ed; [|discriminate].
    unfold fisdir in Ed. destruct (flookup root (w_fs w)) as [e|] eqn:El; [|discriminate].
    destruct (flookup_some _ _ _ El) as [Hin Hp].
    assert (Hroot : root_ent root (f_ino e) (w_fs w)) by (exists e; auto).
    destruct (add_watch C rinit0 kinit (w_fs w) root) as [[[r1 k1] wd]|] eqn:Ea; [|discriminate].
    exists (f_ino e), wd. split; [exact Hroot|].
    assert (H1 : RR C (f_ino e) wd k1 r1).
    { unfold add_watch in Ea. destruct (mem_nat (calls rinit0) (c_faults C)); [discriminate|].
      unfold kadd_watch in Ea. rewrite El in Ea. simpl in Ea.
      rewrite ReaderFixProofs.unlabel_fresh in Ea by reflexivity. simpl in Ea. inversion Ea; subst; clear Ea.
      split; [|split].
      - split; simpl; [repeat constructor; intros [] | intros x [<-|[]]; simpl; lia].
      - exists {| kw_wd := 1; kw_ino := f_ino e; kw_mask := c_mask C |}. split; [|reflexivity].
        unfold watch_of_ino. simpl. now rewrite N.eqb_refl.
      - constructor; simpl.
        + reflexivity.
        + intros p Hq. destruct (beqb p root) eqn:Eb; [now apply beqb_eq in Eb | discriminate].
        + intros c p Hq. discriminate.
        + intros c p Hq. discriminate. }
    destruct (c_recursive C); [|inversion H; subst; exact H1].
    clear Ea. revert r1 k1 H1 H. generalize (walk_dirs (w_fs w) root). intros ps.
    induction ps as [|p ps IH]; intros r1 k1 H1 H.
    - inversion H; subst. exact H1.
    - destruct (add_watch C r1 k1 (w_fs w) p) as [[[r2 k2] wd2]|] eqn:E2; [|discriminate].
      eapply IH; [|exact H]. eapply add_watch_rr; eauto.
  Qed.

  Lemma pinit_ra w s0 : wf_fs w -> fs_names_ok (w_fs w) -> pinit P w = Some s0 -> exists i w0, RA i w0 s0.
  Proof.
    intros W Hn H. assert (H1 := pinit_pi P w s0 H). assert (H2 := pinit_inv P Hne Hsep w s0 Hn H).
    unfold pinit in H. destruct (construct C kinit (w_fs w)) as [[r k]|] eqn:E; [|discriminate].
    destruct (construct_rr w r k W E) as (i & w0 & Hr & HR). exists i, w0.
    inversion H; subst. constructor; simpl; auto.
  Qed.

  Lemma prun_ra i w0 h : forall s acc s' obs,
    RA i w0 s -> (forall o, In (AOp o) h -> op_ok o) -> prun P s h acc = Done (s', obs) -> RA i w0 s'.
  Proof.
    induction h as [|a h IH]; intros s acc s' obs Hi Hh H; cbn [prun] in H.
    - now inversion H; subst.
    - destruct (pstep P s a) as [[s1 o1]|] eqn:E; [|discriminate].
      eapply IH; [| | exact H].
      + eapply pstep_ra; [exact Hi | | exact E]. intros o ->. apply Hh. now left.
      + intros o Ho. apply Hh. now right.
  Qed.

  (* For every well-formed world, every history (operations that leave the root and its ancestors in place, reads of
     any size, emitter steps, clock ticks) and every set of failing inotify_add_watch calls:
     the root directory is still there, the kernel watches its inode, the reader maps that descriptor to the root
     path and nothing else to that descriptor. *)
  Theorem root_alive w s0 h s obs :
    wf_fs w -> fs_names_ok (w_fs w) -> (forall o, In (AOp o) h -> op_ok o) ->
    pinit P w = Some s0 -> prun P s0 h [] = Done (s, obs) ->
    exists e kw,
      In e (w_fs (p_world s)) /\ f_path e = root /\ f_dir e = true /\
      watch_of_ino (p_k s) (f_ino e) = Some kw /\
      alookup N.eqb (kw_wd kw) (pfw (p_r s)) = Some root /\
      (forall p, alookup beqb p (wfp (p_r s)) = Some (kw_wd kw) -> p = root).
  Proof.
    intros W Hn Hh Hi Hr. destruct (pinit_ra w s0 W Hn Hi) as (i & w0 & H0).
    destruct (prun_ra i w0 h s0 [] s obs H0 Hh Hr) as [_ _ _ (e & Hin & Hp & Hino & Hd) (_ & (kw & Hkw & Hw) & [A B _])].
    exists e, kw. subst i w0. repeat split; auto.
  Qed.
End PipeRoot.
