(* Conversions between wire atoms and the extracted Coq number types. *)
open Sexp
open BinNums

let rec pos_of_int (n : int) : positive =
  if n <= 1 then Coq_xH
  else if n land 1 = 0 then Coq_xO (pos_of_int (n lsr 1))
  else Coq_xI (pos_of_int (n lsr 1))
let n_of_int (n : int) : coq_N = if n <= 0 then N0 else Npos (pos_of_int n)
let rec int_of_pos = function Coq_xH -> 1 | Coq_xO p -> 2 * int_of_pos p | Coq_xI p -> 2 * int_of_pos p + 1
let int_of_n = function N0 -> 0 | Npos p -> int_of_pos p
let z_of_int (n : int) : coq_Z = if n = 0 then Z0 else if n > 0 then Zpos (pos_of_int n) else Zneg (pos_of_int (- n))
let int_of_z = function Z0 -> 0 | Zpos p -> int_of_pos p | Zneg p -> - (int_of_pos p)
let rec nat_of_int (n : int) : Datatypes.nat = if n <= 0 then Datatypes.O else Datatypes.S (nat_of_int (n - 1))
let rec int_of_nat = function Datatypes.O -> 0 | Datatypes.S n -> 1 + int_of_nat n

let int_of = function A a -> int_of_string a | _ -> failwith "int expected"
let n_of x = n_of_int (int_of x)
let z_of x = z_of_int (int_of x)
let nat_of x = nat_of_int (int_of x)
let bool_of = function A "1" | A "true" | A "T" -> true | A "0" | A "false" | A "F" -> false | _ -> failwith "bool expected"
let sx_int (i : int) = A (string_of_int i)
let sx_n n = sx_int (int_of_n n)
let sx_z z = sx_int (int_of_z z)
let sx_nat n = sx_int (int_of_nat n)
let sx_bool b = A (if b then "1" else "0")
let list_of f = function L l -> Stdlib.List.map f l | _ -> failwith "list expected"
let sx_list f l = L (Stdlib.List.map f l)
let opt_of f = function L [] -> None | L [x] -> Some (f x) | _ -> failwith "option expected"
let sx_opt f = function None -> L [] | Some x -> L [f x]

(* byte strings: atom "x<hex>" ("x" = empty); code-point strings: list of ints *)
let hexv c = match c with
  | '0'..'9' -> Char.code c - 48 | 'a'..'f' -> Char.code c - 87 | 'A'..'F' -> Char.code c - 55
  | _ -> failwith "hex"
let bytes_of = function
  | A a when Stdlib.String.length a >= 1 && a.[0] = 'x' ->
    let n = (Stdlib.String.length a - 1) / 2 in
    Stdlib.List.init n (fun i -> n_of_int (hexv a.[1 + 2*i] * 16 + hexv a.[2 + 2*i]))
  | L l -> Stdlib.List.map n_of l
  | _ -> failwith "bytes expected"
let sx_bytes (b : coq_N list) =
  if Stdlib.List.for_all (fun c -> int_of_n c < 256) b then begin
    let buf = Buffer.create 16 in
    Buffer.add_char buf 'x';
    Stdlib.List.iter (fun c -> Buffer.add_string buf (Printf.sprintf "%02x" (int_of_n c))) b;
    A (Buffer.contents buf)
  end else L (Stdlib.List.map sx_n b)
