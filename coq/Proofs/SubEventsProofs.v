Require Import WD.Base.Prelude WD.Base.BStr WD.Model.SubEvents.

Section TreeInd.
  Variable P : tree -> Prop.
  Hypothesis HNode : forall ds fs, Forall (fun d => P (snd d)) ds -> P (Node ds fs).
  Fixpoint tree_ind' (t : tree) : P t :=
    match t with
    | Node ds fs =>
      HNode ds fs
        ((fix go (l : list (bytes * tree)) : Forall (fun d => P (snd d)) l :=
            match l with
            | [] => Forall_nil _
            | d :: l' => Forall_cons d (tree_ind' (snd d)) (go l')
            end) ds)
    end.
End TreeInd.

Lemma relsuffix_app a b : relsuffix (a ++ b) = relsuffix a ++ relsuffix b.
Proof. unfold relsuffix. now rewrite map_app, concat_app. Qed.

Lemma relsuffix_one n : relsuffix [n] = sep :: n.
Proof. unfold relsuffix. simpl. now rewrite app_nil_r. Qed.

Lemma last_is_sep_root dest rel :
  last_is_sep dest = false -> forallb valid_name rel = true ->
  last_is_sep (dest ++ relsuffix rel) = false.
Proof.
  intros Hd Hv. destruct (rev rel) as [|n r] eqn:E.
  - assert (rel = []) as -> by (apply (f_equal (@rev bytes)) in E; rewrite rev_involutive in E; exact E).
    unfold relsuffix. simpl. now rewrite app_nil_r.
  - assert (rel = rev r ++ [n]) as ->.
    { apply (f_equal (@rev bytes)) in E. rewrite rev_involutive in E. exact E. }
    rewrite forallb_app in Hv. apply andb_true_iff in Hv as [_ Hn]. simpl in Hn.
    rewrite andb_true_r in Hn.
    rewrite relsuffix_app, relsuffix_one.
    change (sep :: n) with ([sep] ++ n). rewrite !app_assoc.
    now apply last_is_sep_app_name.
Qed.

Lemma join_root dest rel n :
  dest <> [] -> last_is_sep dest = false -> forallb valid_name rel = true ->
  valid_name n = true ->
  join (dest ++ relsuffix rel) n = dest ++ relsuffix (rel ++ [n]).
Proof.
  intros Hne Hd Hv Hn. rewrite join_name.
  - rewrite relsuffix_app, relsuffix_one, <- app_assoc. reflexivity.
  - destruct dest; [contradiction | discriminate].
  - now apply last_is_sep_root.
  - exact Hn.
Qed.

Lemma wf_tree_node ds fs :
  wf_tree (Node ds fs) = true ->
  forallb valid_name fs = true /\
  Forall (fun d => valid_name (fst d) = true /\ wf_tree (snd d) = true) ds.
Proof.
  simpl. intros H. apply andb_true_iff in H as [Hf Hd]. split; [exact Hf|].
  induction ds as [|[n s] ds IH]; [constructor|].
  apply andb_true_iff in Hd as [Hd1 Hd2]. apply andb_true_iff in Hd1 as [Hn Hs].
  constructor; [split; assumption | apply IH; exact Hd2].
Qed.

Section Moved.
  Variables src dest : bytes.
  Hypothesis Hsrc : src <> [].
  Hypothesis Hdest : dest <> [].
  Hypothesis Hsep : last_is_sep dest = false.

  Definition expect_moved (d : kind * list bytes) : kind * bytes * bytes :=
    (fst d, src ++ relsuffix (snd d), dest ++ relsuffix (snd d)).

  Lemma renamed_first q :
    renamed replace_first src dest (dest ++ relsuffix q) = src ++ relsuffix q.
  Proof.
    unfold renamed. destruct src as [|c s] eqn:E; [contradiction|].
    now apply replace_first_prefix.
  Qed.

  Lemma moved_gen t : forall rel,
    wf_tree t = true -> forallb valid_name rel = true ->
    flat_map (moved_step replace_first src dest) (walk (dest ++ relsuffix rel) t)
    = map expect_moved (desc rel t).
  Proof.
    induction t as [ds fs IH] using tree_ind'. intros rel Hwf Hrel.
    apply wf_tree_node in Hwf as [Hfs Hds].
    cbn [walk desc flat_map moved_step]. rewrite !map_app. rewrite <- app_assoc.
    f_equal; [|f_equal].
    - rewrite !map_map. apply map_ext_in. intros [n s] Hin. cbn [fst snd].
      rewrite Forall_forall in Hds. destruct (Hds _ Hin) as [Hn _]. cbn [fst] in Hn.
      rewrite join_root by assumption. rewrite renamed_first. reflexivity.
    - rewrite !map_map. apply map_ext_in. intros f Hin.
      rewrite forallb_forall in Hfs. specialize (Hfs _ Hin).
      rewrite join_root by assumption. rewrite renamed_first. reflexivity.
    - induction ds as [|[n s] ds IHds]; [reflexivity|].
      inversion IH as [|? ? IHs IHrest]; subst. inversion Hds as [|? ? [Hn Hs] Hds']; subst.
      cbn [fst snd] in *.
      rewrite flat_map_app, map_app. f_equal.
      + rewrite join_root by assumption. apply IHs; [exact Hs|].
        rewrite forallb_app. simpl. now rewrite Hrel, Hn.
      + apply IHds; assumption.
  Qed.

  Theorem sub_moved_correct t :
    wf_tree t = true ->
    sub_moved_events replace_first src dest t = map expect_moved (desc [] t).
  Proof.
    intros Hwf. unfold sub_moved_events.
    assert (H := moved_gen t [] Hwf eq_refl).
    unfold relsuffix in H at 1. simpl in H. rewrite app_nil_r in H. exact H.
  Qed.
End Moved.

Section Created.
  Variable src : bytes.
  Hypothesis Hsrc : src <> [].
  Hypothesis Hsep : last_is_sep src = false.

  Definition expect_created (d : kind * list bytes) : kind * bytes :=
    (fst d, src ++ relsuffix (snd d)).

  Lemma created_gen t : forall rel,
    wf_tree t = true -> forallb valid_name rel = true ->
    flat_map created_step (walk (src ++ relsuffix rel) t) = map expect_created (desc rel t).
  Proof.
    induction t as [ds fs IH] using tree_ind'. intros rel Hwf Hrel.
    apply wf_tree_node in Hwf as [Hfs Hds].
    cbn [walk desc flat_map created_step]. rewrite !map_app. rewrite <- app_assoc.
    f_equal; [|f_equal].
    - rewrite !map_map. apply map_ext_in. intros [n s] Hin. cbn [fst snd].
      rewrite Forall_forall in Hds. destruct (Hds _ Hin) as [Hn _]. cbn [fst] in Hn.
      rewrite join_root by assumption. reflexivity.
    - rewrite !map_map. apply map_ext_in. intros f Hin.
      rewrite forallb_forall in Hfs. specialize (Hfs _ Hin).
      rewrite join_root by assumption. reflexivity.
    - induction ds as [|[n s] ds IHds]; [reflexivity|].
      inversion IH as [|? ? IHs IHrest]; subst. inversion Hds as [|? ? [Hn Hs] Hds']; subst.
      cbn [fst snd] in *.
      rewrite flat_map_app, map_app. f_equal.
      + rewrite join_root by assumption. apply IHs; [exact Hs|].
        rewrite forallb_app. simpl. now rewrite Hrel, Hn.
      + apply IHds; assumption.
  Qed.

  Theorem sub_created_correct t :
    wf_tree t = true ->
    sub_created_events src t = map expect_created (desc [] t).
  Proof.
    intros Hwf. unfold sub_created_events.
    assert (H := created_gen t [] Hwf eq_refl).
    unfold relsuffix in H at 1. simpl in H. rewrite app_nil_r in H. exact H.
  Qed.
End Created.

(* Parents come before their children in the descendant order. *)
Definition parents_first (l : list (kind * list bytes)) (base : list bytes) : Prop :=
  forall l1 k q n l2, l = l1 ++ (k, base ++ q ++ [n]) :: l2 -> q <> [] ->
                      In (KDir, base ++ q) l1.

Lemma desc_shape t : forall rel e, In e (desc rel t) -> exists q, q <> [] /\ snd e = rel ++ q.
Proof.
  induction t as [ds fs IH] using tree_ind'. intros rel e Hin.
  cbn [desc] in Hin. rewrite !in_app_iff in Hin. destruct Hin as [Hin|[Hin|Hin]].
  - apply in_map_iff in Hin as [d [<- _]]. exists [fst d]. split; [discriminate | reflexivity].
  - apply in_map_iff in Hin as [f [<- _]]. exists [f]. split; [discriminate | reflexivity].
  - induction ds as [|[n s] ds IHds]; [contradiction|].
    inversion IH as [|? ? IHs IHrest]; subst. apply in_app_iff in Hin as [Hin|Hin].
    + destruct (IHs _ _ Hin) as [q [Hq Hs]]. exists (n :: q). split; [discriminate|].
      rewrite Hs. now rewrite <- app_assoc.
    + now apply IHds.
Qed.

Lemma app_inj_base {A} (base a b : list A) : base ++ a = base ++ b -> a = b.
Proof. apply app_inv_head. Qed.

Lemma split_in {A} (l1 l2 m1 m2 : list A) x :
  l1 ++ l2 = m1 ++ x :: m2 ->
  (exists r, l1 = m1 ++ x :: r /\ m2 = r ++ l2) \/
  (exists r, m1 = l1 ++ r /\ l2 = r ++ x :: m2).
Proof.
  revert m1; induction l1 as [|a l1 IH]; intros m1 H; simpl in *.
  - right. exists m1. split; [reflexivity | exact H].
  - destruct m1 as [|b m1]; simpl in *.
    + inversion H; subst. left. exists l1. split; reflexivity.
    + inversion H; subst. destruct (IH _ H2) as [[r [-> ->]]|[r [-> ->]]].
      * left. exists r. split; reflexivity.
      * right. exists r. split; reflexivity.
Qed.

Lemma desc_parents_first t : forall rel, parents_first (desc rel t) rel.
Proof.
  induction t as [ds fs IH] using tree_ind'. intros rel l1 k q n l2 Heq Hq.
  cbn [desc] in Heq.
  set (G := (fix go (l : list (bytes * tree)) : list (kind * list bytes) :=
               match l with
               | [] => []
               | (n, sub) :: l' => desc (rel ++ [n]) sub ++ go l'
               end)) in *.
  set (D := map (fun d : bytes * tree => (KDir, rel ++ [fst d])) ds) in *.
  set (F := map (fun f : bytes => (KFile, rel ++ [f])) fs) in *.
  (* the entry has >= 2 components below rel, so it is in the G part *)
  assert (Hnot : forall e, In e (D ++ F) -> snd e <> rel ++ q ++ [n]).
  { intros e He Hs. apply in_app_iff in He as [He|He];
      apply in_map_iff in He as [x [<- _]]; cbn [snd] in Hs;
      apply app_inv_head in Hs; destruct q as [|a [|b q]]; try contradiction; discriminate. }
  rewrite app_assoc in Heq.
  apply split_in in Heq as [[r [H1 _]]|[r [-> H2]]].
  { exfalso. apply (Hnot (k, rel ++ q ++ [n])); [|reflexivity]. rewrite H1.
    apply in_app_iff. right. left. reflexivity. }
  (* now work inside G ds, remembering that D is a prefix of l1 *)
  assert (HD : forall d, In d ds -> In (KDir, rel ++ [fst d]) (D ++ F)).
  { intros d Hd. apply in_app_iff. left. unfold D. apply in_map_iff. exists d. split; auto. }
  clearbody D F. clear Hnot.
  revert r H2. induction ds as [|[m s] ds IHds]; intros r H2.
  - destruct r; discriminate.
  - inversion IH as [|? ? IHs IHrest]; subst. cbn [G] in H2. fold G in H2.
    apply split_in in H2 as [[r' [H1 _]]|[r' [-> H3]]].
    + (* entry is in desc (rel ++ [m]) s *)
      assert (Hin : In (k, rel ++ q ++ [n]) (desc (rel ++ [m]) s)).
      { rewrite H1. apply in_app_iff. right. left. reflexivity. }
      destruct (desc_shape _ _ _ Hin) as [q' [Hq' Hs]]. cbn [snd] in Hs.
      rewrite <- app_assoc in Hs. apply app_inv_head in Hs.
      (* q ++ [n] = m :: q' *)
      destruct q as [|a q]; [contradiction|]. simpl in Hs. inversion Hs; subst a.
      destruct q as [|b q].
      * (* parent is rel ++ [m], a direct child: found in D *)
        apply in_app_iff. left. apply (HD (m, s)). left. reflexivity.
      * assert (Hpf := IHs (rel ++ [m]) r (k) (b :: q) n r').
        rewrite <- !app_assoc in Hpf. simpl in Hpf.
        apply in_app_iff. right. apply Hpf; [|discriminate].
        rewrite H1. simpl. reflexivity.
    + (* entry is later *)
      assert (Hgoal : In (KDir, rel ++ q) ((D ++ F) ++ r')).
      { apply IHds; [exact IHrest | | exact H3]. intros d Hd. apply HD. right. exact Hd. }
      apply in_app_iff in Hgoal as [Hg|Hg]; apply in_app_iff; [left; exact Hg | right].
      apply in_app_iff. right. exact Hg.
Qed.

Theorem desc_parents_first_root t : parents_first (desc [] t) [].
Proof. apply desc_parents_first. Qed.

(* Re-key step of the reader *)
Lemma rekey_first_correct src dst p :
  src <> [] ->
  rekey_path replace_first src dst p =
    if beqb p src then dst
    else if starts (src ++ [sep]) p then dst ++ skipn (length src) p
    else p.
Proof.
  intros Hne. unfold rekey_path. destruct (beqb p src); [reflexivity|].
  destruct (starts (src ++ [sep]) p) eqn:E; [|reflexivity].
  apply starts_spec in E as [r ->]. rewrite <- app_assoc.
  rewrite replace_first_prefix by assumption. now rewrite skipn_app_length.
Qed.

(* The pinned code (replace-all) is wrong: a descendant whose name repeats the
   destination directory's (relative) path gets a corrupted source. *)
Definition b_ : bytes := [98%N].
Definition a_ : bytes := [97%N].
Lemma replace_all_refuted :
  exists src dest t, wf_tree t = true /\ src <> [] /\ dest <> [] /\ last_is_sep dest = false /\
    sub_moved_events replace_all src dest t <> map (expect_moved src dest) (desc [] t).
Proof.
  exists a_, b_, (Node [(b_, Node [] [])] []).
  repeat split; try discriminate; vm_compute; discriminate.
Qed.
