(* C02 / C01: the cover invariant of the inotify reader over the file-system + kernel model.
   Part 1: path algebra, association lists, well-formed file systems and their preservation by apply_op.
   Part 2: the watch invariant (WInv), Cover, construct, and one lemma per operation kind.
   Part 3: sequential histories, probe, non-recursive watch, pinned-code refutations. *)
Require Import WD.Base.Prelude WD.Base.BStr WD.Model.SubEvents WD.Model.Emitter WD.Model.Fs WD.Model.Reader.
Require Import WD.Proofs.SubEventsProofs WD.Proofs.ReaderFixProofs.

Local Arguments sep : simpl never.
Local Opaque sep.

(* ================================================================== paths *)
Definition gpath (p : bytes) : Prop := p <> [] /\ last_is_sep p = false.
Definition npath (p : bytes) : Prop :=
  exists d n, p = d ++ sep :: n /\ gpath d /\ valid_name n = true.

Lemma valid_name_nosep n : valid_name n = true -> ~ In sep n.
Proof.
  unfold valid_name. destruct n as [|c n]; [discriminate|]. intros H Hin.
  rewrite forallb_forall in H. apply H in Hin. rewrite N.eqb_refl in Hin. discriminate.
Qed.

Lemma valid_name_ne n : valid_name n = true -> n <> [].
Proof. destruct n; [discriminate | discriminate]. Qed.

Lemma npath_gpath p : npath p -> gpath p.
Proof.
  intros (d & n & -> & [Hd Hs] & Hn). split.
  - destruct d; discriminate.
  - change (d ++ sep :: n) with (d ++ [sep] ++ n). rewrite app_assoc. now apply last_is_sep_app_name.
Qed.

Lemma drop_to_sep_rev_app a x : ~ In sep a -> drop_to_sep_rev (a ++ sep :: x) = sep :: x.
Proof.
  induction a as [|c a IH]; intros Hn; cbn [app drop_to_sep_rev].
  - now rewrite N.eqb_refl.
  - destruct (N.eqb c sep) eqn:E.
    + apply N.eqb_eq in E. exfalso. apply Hn. left. exact E.
    + apply IH. intros H. apply Hn. now right.
Qed.

Lemma basename_rev_app a x acc : ~ In sep a -> basename_rev (a ++ sep :: x) acc = rev a ++ acc.
Proof.
  revert acc; induction a as [|c a IH]; intros acc Hn; cbn [app basename_rev rev].
  - now rewrite N.eqb_refl.
  - destruct (N.eqb c sep) eqn:E.
    + apply N.eqb_eq in E. exfalso. apply Hn. left. exact E.
    + rewrite IH by (intros H; apply Hn; now right). now rewrite <- app_assoc.
Qed.

Lemma gpath_rev d : gpath d -> exists c r, rev d = c :: r /\ N.eqb c sep = false.
Proof.
  intros [Hd Hs]. unfold last_is_sep in Hs. destruct (rev d) as [|c r] eqn:E.
  - apply (f_equal (@rev N)) in E. rewrite rev_involutive in E. contradiction.
  - exists c, r. split; [reflexivity | exact Hs].
Qed.

Lemma dirname_np d n : gpath d -> valid_name n = true -> dirname (d ++ sep :: n) = d.
Proof.
  intros Hd Hn. unfold dirname. rewrite rev_app_distr. simpl rev. rewrite <- app_assoc. simpl.
  rewrite drop_to_sep_rev_app by (rewrite <- in_rev; now apply valid_name_nosep).
  simpl rev. rewrite rev_involutive. unfold rstrip_sep. rewrite rev_app_distr. simpl.
  rewrite N.eqb_refl. destruct (gpath_rev d Hd) as (c & r & E & Hc). rewrite E. simpl. rewrite Hc.
  rewrite <- E, rev_involutive. destruct d; [destruct Hd; contradiction | reflexivity].
Qed.

Lemma basename_np d n : valid_name n = true -> basename (d ++ sep :: n) = n.
Proof.
  intros Hn. unfold basename. rewrite rev_app_distr. simpl rev. rewrite <- app_assoc. simpl.
  rewrite basename_rev_app by (rewrite <- in_rev; now apply valid_name_nosep).
  now rewrite rev_involutive, app_nil_r.
Qed.

Lemma join_np d n : gpath d -> valid_name n = true -> join d n = d ++ sep :: n.
Proof. intros [Hd Hs] Hn. now apply join_name. Qed.

Lemma npath_parts p : npath p ->
  p = dirname p ++ sep :: basename p /\ gpath (dirname p) /\ valid_name (basename p) = true /\
  join (dirname p) (basename p) = p.
Proof.
  intros (d & n & -> & Hd & Hn). rewrite dirname_np, basename_np by assumption.
  repeat split; try assumption; try apply Hd. now apply join_np.
Qed.

Lemma under_spec d p : under d p = true <-> exists rest, p = d ++ sep :: rest.
Proof.
  unfold under. rewrite starts_spec. split; intros [r Hr]; exists r; rewrite Hr, <- app_assoc; reflexivity.
Qed.

Lemma under_app d rest : under d (d ++ sep :: rest) = true.
Proof. apply under_spec. now exists rest. Qed.

Lemma under_trans a b c : under a b = true -> under b c = true -> under a c = true.
Proof.
  rewrite !under_spec. intros [r1 ->] [r2 ->]. exists (r1 ++ sep :: r2). now rewrite <- app_assoc.
Qed.

Lemma under_length d p : under d p = true -> length d < length p.
Proof. rewrite under_spec. intros [r ->]. rewrite app_length. simpl. lia. Qed.

Lemma under_irrefl d : under d d = false.
Proof. destruct (under d d) eqn:E; [apply under_length in E; lia | reflexivity]. Qed.

Lemma under_antisym a b : under a b = true -> under b a = false.
Proof.
  intros H. destruct (under b a) eqn:E; [|reflexivity].
  apply under_length in H. apply under_length in E. lia.
Qed.

(* the parent of a normal path below x is x or below x *)
Lemma np_under_split x dd n : valid_name n = true -> under x (dd ++ sep :: n) = true ->
  dd = x \/ under x dd = true.
Proof.
  intros Hn H. apply under_spec in H as [rest H]. symmetry in H.
  apply app_eq_app in H as [l [[H1 H2]|[H1 H2]]].
  - destruct l as [|c l].
    + left. now rewrite app_nil_r in H1.
    + simpl in H2. inversion H2; subst. exfalso. apply (valid_name_nosep _ Hn).
      apply in_or_app. right. now left.
  - destruct l as [|c l].
    + left. now rewrite app_nil_r in H1.
    + simpl in H2. inversion H2; subst. right. apply under_app.
Qed.

Lemma under_np d n : under d (d ++ sep :: n) = true.
Proof. apply under_app. Qed.

Lemma under_dirname p : npath p -> under (dirname p) p = true.
Proof. intros H. destruct (npath_parts p H) as (E & _). rewrite E at 2. apply under_app. Qed.

(* q is not below p, p is not below q, p <> q: nothing below q is below p *)
Lemma under_disjoint p q rest : p <> q -> under p q = false -> under q p = false ->
  under p (q ++ sep :: rest) = false.
Proof.
  intros Hne Hpq Hqp. destruct (under p (q ++ sep :: rest)) eqn:E; [|reflexivity]. exfalso.
  apply under_spec in E as [r E]. apply app_eq_app in E as [l [[H1 H2]|[H1 H2]]].
  - destruct l as [|c l].
    + rewrite app_nil_r in H1. congruence.
    + simpl in H2. inversion H2; subst. rewrite under_app in Hpq. discriminate.
  - destruct l as [|c l].
    + rewrite app_nil_r in H1. congruence.
    + simpl in H2. inversion H2; subst. rewrite under_app in Hqp. discriminate.
Qed.

Lemma under_cmp a b e : under a e = true -> under b e = true -> a = b \/ under a b = true \/ under b a = true.
Proof.
  intros Ha Hb. apply under_spec in Ha as [r1 ->]. apply under_spec in Hb as [r2 E].
  apply app_eq_app in E as [l [[H1 H2]|[H1 H2]]].
  - destruct l as [|c l]; [left; now rewrite app_nil_r in H1|]. simpl in H2. inversion H2; subst.
    right. right. apply under_app.
  - destruct l as [|c l]; [left; now rewrite app_nil_r in H1|]. simpl in H2. inversion H2; subst.
    right. left. apply under_app.
Qed.

Lemma app_sep_inj {A} (a b r1 r2 : list A) : length a = length b -> a ++ r1 = b ++ r2 -> a = b /\ r1 = r2.
Proof.
  revert b; induction a as [|x a IH]; intros [|y b] Hl H; simpl in *; try discriminate.
  - now split.
  - inversion H; subst. destruct (IH b) as [-> ->]; auto.
Qed.

(* ================================================================== association lists *)
Section ALemmas.
  Context {K V : Type} (keq : K -> K -> bool).
  Hypothesis keq_eq : forall a b, keq a b = true <-> a = b.

  Lemma keq_refl a : keq a a = true. Proof. now apply keq_eq. Qed.
  Lemma keq_neq a b : a <> b -> keq a b = false.
  Proof. intros H. destruct (keq a b) eqn:E; [apply keq_eq in E; contradiction | reflexivity]. Qed.

  Lemma alookup_aset_eq k (v : V) m : alookup keq k (aset keq k v m) = Some v.
  Proof.
    induction m as [|[k' v'] m IH]; simpl.
    - now rewrite keq_refl.
    - destruct (keq k k') eqn:E; simpl; rewrite E; [reflexivity | exact IH].
  Qed.

  Lemma alookup_aset_neq k k' (v : V) m : k' <> k -> alookup keq k' (aset keq k v m) = alookup keq k' m.
  Proof.
    intros Hne. induction m as [|[k2 v2] m IH]; simpl.
    - now rewrite keq_neq.
    - destruct (keq k k2) eqn:E; simpl.
      + apply keq_eq in E. subst k2. now rewrite keq_neq.
      + destruct (keq k' k2); [reflexivity | exact IH].
  Qed.

  Lemma alookup_aremove_eq k (m : list (K * V)) : alookup keq k (aremove keq k m) = None.
  Proof.
    induction m as [|[k' v'] m IH]; simpl; [reflexivity|].
    destruct (keq k k') eqn:E; simpl; [exact IH | rewrite E; exact IH].
  Qed.

  Lemma alookup_aremove_neq k k' (m : list (K * V)) : k' <> k ->
    alookup keq k' (aremove keq k m) = alookup keq k' m.
  Proof.
    intros Hne. induction m as [|[k2 v2] m IH]; simpl; [reflexivity|].
    destruct (keq k k2) eqn:E; simpl.
    - apply keq_eq in E. subst k2. now rewrite keq_neq.
    - destruct (keq k' k2); [reflexivity | exact IH].
  Qed.

  Lemma alookup_in k (v : V) m : alookup keq k m = Some v -> In (k, v) m.
  Proof.
    induction m as [|[k' v'] m IH]; simpl; [discriminate|].
    destruct (keq k k') eqn:E; intros H.
    - apply keq_eq in E. inversion H; subst. now left.
    - right. now apply IH.
  Qed.

  (* dictionaries: keys without repetition *)
  Lemma in_keys_aset k (v : V) m x : In x (map fst (aset keq k v m)) -> x = k \/ In x (map fst m).
  Proof.
    induction m as [|[k' v'] m IH]; simpl.
    - intros [<-|[]]. now left.
    - destruct (keq k k') eqn:E; simpl; intros [<-|H]; auto. destruct (IH H); auto.
  Qed.

  Lemma keys_aset k (v : V) m : NoDup (map fst m) -> NoDup (map fst (aset keq k v m)).
  Proof.
    induction m as [|[k' v'] m IH]; simpl; intros H.
    - constructor; [intros []|constructor].
    - inversion H; subst. destruct (keq k k') eqn:E; simpl; constructor; auto.
      intros Hin. apply in_keys_aset in Hin as [->|Hin]; [|contradiction]. rewrite keq_refl in E. discriminate.
  Qed.

  Lemma in_keys_aremove k (m : list (K * V)) x : In x (map fst (aremove keq k m)) -> In x (map fst m).
  Proof.
    induction m as [|[k' v'] m IH]; simpl; [auto|]. destruct (keq k k'); simpl; [auto|]. intros [<-|H]; auto.
  Qed.

  Lemma keys_aremove k (m : list (K * V)) : NoDup (map fst m) -> NoDup (map fst (aremove keq k m)).
  Proof.
    induction m as [|[k' v'] m IH]; simpl; intros H; [constructor|]. inversion H; subst.
    destruct (keq k k'); simpl; [auto|]. constructor; auto. intros Hin. now apply in_keys_aremove in Hin.
  Qed.

  Lemma in_alookup k (v : V) m : NoDup (map fst m) -> In (k, v) m -> alookup keq k m = Some v.
  Proof.
    induction m as [|[k' v'] m IH]; simpl; intros H Hin; [contradiction|]. destruct Hin as [E|Hin]; inversion H; subst.
    - inversion E; subst. now rewrite keq_refl.
    - destruct (keq k k') eqn:E; [|auto]. apply keq_eq in E. subst k'. exfalso. apply H2.
      change k with (fst (k, v)). now apply in_map.
  Qed.

  Lemma key_alookup k (m : list (K * V)) : In k (map fst m) -> exists v, alookup keq k m = Some v.
  Proof.
    induction m as [|[k' v'] m IH]; simpl; intros H; [contradiction|].
    destruct (keq k k') eqn:E; [eauto|]. destruct H as [->|H]; [rewrite keq_refl in E; discriminate|auto].
  Qed.

  Lemma alookup_aset_inv k (v : V) m k' v' : alookup keq k' (aset keq k v m) = Some v' ->
    (k' = k /\ v' = v) \/ (k' <> k /\ alookup keq k' m = Some v').
  Proof.
    intros H. destruct (keq k' k) eqn:E.
    - apply keq_eq in E. subst k'. rewrite alookup_aset_eq in H. left. split; congruence.
    - assert (k' <> k) by (intros ->; rewrite keq_refl in E; discriminate).
      rewrite alookup_aset_neq in H by assumption. now right.
  Qed.

  Lemma alookup_aremove_inv k (m : list (K * V)) k' v' : alookup keq k' (aremove keq k m) = Some v' ->
    k' <> k /\ alookup keq k' m = Some v'.
  Proof.
    intros H. destruct (keq k' k) eqn:E.
    - apply keq_eq in E. subst k'. rewrite alookup_aremove_eq in H. discriminate.
    - assert (k' <> k) by (intros ->; rewrite keq_refl in E; discriminate).
      rewrite alookup_aremove_neq in H by assumption. now split.
  Qed.
End ALemmas.

Lemma Neqb_eq' a b : N.eqb a b = true <-> a = b. Proof. apply N.eqb_eq. Qed.

Definition wset_eq := @alookup_aset_eq bytes N beqb beqb_eq.
Definition wset_neq := @alookup_aset_neq bytes N beqb beqb_eq.
Definition wrem_eq := @alookup_aremove_eq bytes N beqb.
Definition wrem_neq := @alookup_aremove_neq bytes N beqb beqb_eq.
Definition pset_eq := @alookup_aset_eq N bytes N.eqb Neqb_eq'.
Definition pset_neq := @alookup_aset_neq N bytes N.eqb Neqb_eq'.
Definition prem_eq := @alookup_aremove_eq N bytes N.eqb.
Definition prem_neq := @alookup_aremove_neq N bytes N.eqb Neqb_eq'.
Definition wkeys_set := @keys_aset bytes N beqb beqb_eq.
Definition wkeys_rem := @keys_aremove bytes N beqb.
Definition pset_inv := @alookup_aset_inv N bytes N.eqb Neqb_eq'.
Definition prem_inv := @alookup_aremove_inv N bytes N.eqb Neqb_eq'.
Definition wset_inv := @alookup_aset_inv bytes N beqb beqb_eq.
Definition wrem_inv := @alookup_aremove_inv bytes N beqb beqb_eq.

(* ================================================================== file systems *)
Definition isdir_in (p : bytes) (t : fs) : Prop := exists e, In e t /\ f_path e = p /\ f_dir e = true.

Record wf_fs (w : world) : Prop := {
  wf_paths : NoDup (map f_path (w_fs w));
  wf_inos : NoDup (map f_ino (w_fs w));
  wf_fresh : forall e, In e (w_fs w) -> (0 < f_ino e < w_next_ino w)%N;
  wf_np : forall e, In e (w_fs w) -> npath (f_path e);
  (* parent-closed: an entry lying below another entry has its parent directory in the file system;
     the remaining entries are the top entries *)
  wf_parent : forall e d, In e (w_fs w) -> In d (w_fs w) -> under (f_path d) (f_path e) = true ->
              isdir_in (dirname (f_path e)) (w_fs w);
  wf_next : (0 < w_next_ino w)%N          (* inode 0 is "no such entry" (ino_of) *)
}.

Lemma flookup_some p t e : flookup p t = Some e -> In e t /\ f_path e = p.
Proof.
  induction t as [|x t IH]; simpl; [discriminate|].
  destruct (beqb p (f_path x)) eqn:E; intros H.
  - inversion H; subst. apply beqb_eq in E. split; [now left | now symmetry].
  - destruct (IH H). split; [now right | assumption].
Qed.

Lemma flookup_none p t : flookup p t = None <-> ~ In p (map f_path t).
Proof.
  induction t as [|x t IH]; simpl; [tauto|].
  destruct (beqb p (f_path x)) eqn:E.
  - apply beqb_eq in E. split; [discriminate | intros H; exfalso; apply H; left; now symmetry].
  - apply beqb_neq in E. rewrite IH. split; intros H; [intros [H1|H1]; [congruence | contradiction] | tauto].
Qed.

Lemma flookup_in t e : NoDup (map f_path t) -> In e t -> flookup (f_path e) t = Some e.
Proof.
  induction t as [|x t IH]; simpl; intros Hnd Hin; [contradiction|].
  inversion Hnd as [|? ? Hx Hnd']; subst. destruct Hin as [->|Hin].
  - now rewrite beqb_refl.
  - destruct (beqb (f_path e) (f_path x)) eqn:E.
    + apply beqb_eq in E. exfalso. apply Hx. rewrite <- E. now apply in_map.
    + now apply IH.
Qed.

Lemma fisdir_in p t : fisdir p t = true -> isdir_in p t.
Proof.
  unfold fisdir. destruct (flookup p t) as [e|] eqn:E; [|discriminate]. intros Hd.
  apply flookup_some in E as [H1 H2]. now exists e.
Qed.

Lemma in_fisdir p t : NoDup (map f_path t) -> isdir_in p t -> fisdir p t = true.
Proof. intros Hnd (e & Hin & <- & Hd). unfold fisdir. now rewrite (flookup_in t e Hnd Hin). Qed.

Lemma fexists_false p t : fexists p t = false -> ~ In p (map f_path t).
Proof. unfold fexists. destruct (flookup p t) eqn:E; [discriminate|]. intros _. now apply flookup_none. Qed.

Lemma path_inj t a b : NoDup (map f_path t) -> In a t -> In b t -> f_path a = f_path b -> a = b.
Proof.
  intros Hnd Ha Hb E. apply (flookup_in t a Hnd) in Ha. apply (flookup_in t b Hnd) in Hb.
  rewrite E in Ha. congruence.
Qed.

(* ------------------------------------------------------------------ the ancestor chain *)
Lemma chain_gen w : wf_fs w -> forall n e, length (f_path e) <= n -> In e (w_fs w) ->
  forall x d, In d (w_fs w) -> under x (f_path e) = true -> (x = f_path d \/ under (f_path d) x = true) ->
  isdir_in x (w_fs w).
Proof.
  intros W. induction n as [|n IH]; intros e Hl He x d Hd Hx Hxd.
  - apply under_length in Hx. lia.
  - assert (Hde : under (f_path d) (f_path e) = true).
    { destruct Hxd as [<-|Hxd]; [exact Hx | eapply under_trans; eassumption]. }
    destruct (wf_parent w W e d He Hd Hde) as (pe & Hpe & Epe & Dpe).
    destruct (npath_parts _ (wf_np w W e He)) as (Ee & Gd & Vn & _).
    rewrite Ee in Hx. apply np_under_split in Hx; [|exact Vn]. destruct Hx as [Hx|Hx].
    + exists pe. repeat split; congruence.
    + apply (IH pe) with (d := d); try assumption.
      * rewrite Epe. rewrite Ee in Hl. rewrite app_length in Hl. simpl in Hl. lia.
      * now rewrite Epe.
Qed.

Lemma chain w e x d : wf_fs w -> In e (w_fs w) -> In d (w_fs w) -> under x (f_path e) = true ->
  (x = f_path d \/ under (f_path d) x = true) -> isdir_in x (w_fs w).
Proof. intros W He Hd. eapply chain_gen; eauto. Qed.

(* an entry below x whose parent directory exists: x exists, is a directory and has a child *)
Lemma chain_child_gen w : wf_fs w -> forall n e, length (f_path e) <= n -> In e (w_fs w) ->
  forall x d, In d (w_fs w) -> under x (f_path e) = true -> (x = f_path d \/ under (f_path d) x = true) ->
  exists c, In c (w_fs w) /\ dirname (f_path c) = x /\ (c = e \/ under (f_path c) (f_path e) = true).
Proof.
  intros W. induction n as [|n IH]; intros e Hl He x d Hd Hx Hxd.
  - apply under_length in Hx. lia.
  - assert (Hde : under (f_path d) (f_path e) = true).
    { destruct Hxd as [<-|Hxd]; [exact Hx | eapply under_trans; eassumption]. }
    destruct (wf_parent w W e d He Hd Hde) as (pe & Hpe & Epe & Dpe).
    destruct (npath_parts _ (wf_np w W e He)) as (Ee & Gd & Vn & _).
    assert (Hx' := Hx). rewrite Ee in Hx'. apply np_under_split in Hx'; [|exact Vn]. destruct Hx' as [Hx'|Hx'].
    + exists e. repeat split; auto.
    + destruct (IH pe) with (x := x) (d := d) as (c & Hc & Ec & Hce); try assumption.
      * rewrite Epe. rewrite Ee in Hl. rewrite app_length in Hl. simpl in Hl. lia.
      * now rewrite Epe.
      * exists c. repeat split; try assumption. right.
        assert (Hu : under (f_path pe) (f_path e) = true) by (rewrite Epe; apply under_dirname; now apply (wf_np w W)).
        destruct Hce as [->|Hce]; [exact Hu | eapply under_trans; eassumption].
Qed.

Lemma is_child_np d p : npath p -> is_child d p = true <-> dirname p = d.
Proof.
  intros Hp. unfold is_child. rewrite andb_true_iff, beqb_eq, negb_true_iff, beqb_neq. split; [tauto|].
  intros <-. split; [reflexivity|]. intros E. apply under_dirname in Hp. rewrite <- E in Hp.
  rewrite under_irrefl in Hp. discriminate.
Qed.

Lemma has_children_false d t : has_children d t = false -> forall e, In e t -> is_child d (f_path e) = false.
Proof.
  unfold has_children. intros H e He. destruct (is_child d (f_path e)) eqn:E; [|reflexivity].
  assert (existsb (fun e => is_child d (f_path e)) t = true) by (apply existsb_exists; eauto). congruence.
Qed.

(* nothing lies below a path that is absent, a file, or an empty directory (its parent being present) *)
Lemma nothing_below w q d : wf_fs w -> In d (w_fs w) -> under (f_path d) q = true ->
  (~ isdir_in q (w_fs w) \/ has_children q (w_fs w) = false) ->
  forall e, In e (w_fs w) -> under q (f_path e) = false.
Proof.
  intros W Hd Hq Hc e He. destruct (under q (f_path e)) eqn:E; [|reflexivity]. exfalso.
  destruct Hc as [Hc|Hc].
  - apply Hc. apply (chain w e q d W He Hd E). now right.
  - destruct (chain_child_gen w W _ e (le_n _) He q d Hd E (or_intror Hq)) as (c & Hc1 & Hc2 & _).
    assert (Hf := has_children_false _ _ Hc _ Hc1). apply is_child_np in Hc2; [congruence | now apply (wf_np w W)].
Qed.

(* ================================================================== apply_op preserves wf_fs *)
Definition op_np (o : op) : Prop :=
  match o with
  | Touch p | Write p | Chmod p | Unlink p | Mkdir p | Rmdir p => npath p
  | Rename p q => npath p /\ npath q
  end.

Lemma NoDup_snoc {A} (l : list A) x : NoDup l -> ~ In x l -> NoDup (l ++ [x]).
Proof.
  induction l as [|a l IH]; simpl; intros Hnd Hx.
  - constructor; [tauto | constructor].
  - inversion Hnd; subst. constructor.
    + rewrite in_app_iff. simpl. intros [H|[H|[]]]; [contradiction | subst; tauto].
    + apply IH; tauto.
Qed.

Lemma NoDup_map_filter {A B} (f : A -> B) g (l : list A) : NoDup (map f l) -> NoDup (map f (filter g l)).
Proof.
  induction l as [|a l IH]; simpl; intros H; [constructor|]. inversion H; subst.
  destruct (g a); simpl; [constructor|]; auto.
  intros Hin. apply H2. apply in_map_iff in Hin as (x & Hx & Hin). apply filter_In in Hin as [Hin _].
  rewrite <- Hx. now apply in_map.
Qed.

Lemma NoDup_map_in {A B} (g : A -> B) (l : list A) :
  (forall a b, In a l -> In b l -> g a = g b -> a = b) -> NoDup l -> NoDup (map g l).
Proof.
  induction l as [|a l IH]; simpl; intros Hinj Hnd; [constructor|]. inversion Hnd; subst. constructor.
  - intros Hin. apply in_map_iff in Hin as (x & Hx & Hin). assert (x = a) by (apply Hinj; auto). subst. contradiction.
  - apply IH; auto.
Qed.

Lemma isdir_in_mono p t t' : (forall e, In e t -> In e t') -> isdir_in p t -> isdir_in p t'.
Proof. intros H (e & He & E & D). exists e. auto. Qed.

Lemma wf_add w p isd : wf_fs w -> npath p -> fisdir (dirname p) (w_fs w) = true -> fexists p (w_fs w) = false ->
  wf_fs {| w_fs := w_fs w ++ [{| f_path := p; f_ino := w_next_ino w; f_dir := isd |}];
           w_next_ino := w_next_ino w + 1 |}.
Proof.
  intros W Hp Hd Hx. apply fisdir_in in Hd. apply fexists_false in Hx. assert (Hn := wf_next w W).
  constructor; simpl; [| | | | |lia].
  - rewrite map_app. simpl. apply NoDup_snoc; [apply W | exact Hx].
  - rewrite map_app. simpl. apply NoDup_snoc; [apply W|].
    intros Hin. apply in_map_iff in Hin as (e & Ee & He). apply (wf_fresh w W) in He. lia.
  - intros e He. apply in_app_iff in He as [He|[<-|[]]]; simpl; [apply (wf_fresh w W) in He|]; lia.
  - intros e He. apply in_app_iff in He as [He|[<-|[]]]; simpl; [now apply (wf_np w W) | exact Hp].
  - intros e d He Hdd Hu.
    apply isdir_in_mono with (t := w_fs w); [intros; apply in_app_iff; now left|].
    apply in_app_iff in He as [He|[<-|[]]]; simpl in *; [|exact Hd].
    apply in_app_iff in Hdd as [Hdd|[<-|[]]]; simpl in *.
    + eapply (wf_parent w W); eauto.
    + destruct Hd as (dp & Hdp & Edp & _).
      apply (wf_parent w W e dp He Hdp). rewrite Edp.
      eapply under_trans; [apply under_dirname; exact Hp | exact Hu].
Qed.

Lemma wf_remove w p : wf_fs w ->
  (forall e, In e (w_fs w) -> dirname (f_path e) = p -> f_path e <> p -> isdir_in p (w_fs w) -> False) ->
  wf_fs {| w_fs := fremove p (w_fs w); w_next_ino := w_next_ino w |}.
Proof.
  intros W Hc. unfold fremove. constructor; simpl; [| | | | |apply W].
  - apply NoDup_map_filter, W.
  - apply NoDup_map_filter, W.
  - intros e He. apply filter_In in He as [He _]. now apply (wf_fresh w W).
  - intros e He. apply filter_In in He as [He _]. now apply (wf_np w W).
  - intros e d He Hd Hu. apply filter_In in He as [He Hne]. apply filter_In in Hd as [Hd _].
    destruct (wf_parent w W e d He Hd Hu) as (pe & Hpe & Epe & Dpe).
    exists pe. repeat split; try assumption. apply filter_In. split; [assumption|].
    apply negb_true_iff, beqb_neq. intros E. apply negb_true_iff, beqb_neq in Hne.
    apply (Hc e He); [congruence | congruence |]. exists pe. repeat split; congruence.
Qed.

(* the path rewrite of frename *)
Definition rk (p q x : bytes) : bytes :=
  if beqb x p then q else if under p x then q ++ skipn (length p) x else x.
Definition ren (p q : bytes) (e : fent) : fent :=
  if beqb (f_path e) p then {| f_path := q; f_ino := f_ino e; f_dir := f_dir e |}
  else if under p (f_path e)
       then {| f_path := q ++ skipn (length p) (f_path e); f_ino := f_ino e; f_dir := f_dir e |}
       else e.

Lemma frename_map p q t : frename p q t = map (ren p q) t.
Proof. reflexivity. Qed.

Lemma ren_path p q e : f_path (ren p q e) = rk p q (f_path e).
Proof. unfold ren, rk. destruct (beqb (f_path e) p); [reflexivity|]. now destruct (under p (f_path e)). Qed.
Lemma ren_ino p q e : f_ino (ren p q e) = f_ino e.
Proof. unfold ren. destruct (beqb (f_path e) p); [reflexivity|]. now destruct (under p (f_path e)). Qed.
Lemma ren_dir p q e : f_dir (ren p q e) = f_dir e.
Proof. unfold ren. destruct (beqb (f_path e) p); [reflexivity|]. now destruct (under p (f_path e)). Qed.

Lemma rk_self p q : rk p q p = q.
Proof. unfold rk. now rewrite beqb_refl. Qed.
Lemma rk_under p q r : rk p q (p ++ sep :: r) = q ++ sep :: r.
Proof.
  unfold rk. destruct (beqb (p ++ sep :: r) p) eqn:E.
  - apply beqb_eq in E. apply (f_equal (@length N)) in E. rewrite app_length in E. simpl in E. lia.
  - now rewrite under_app, skipn_app_length.
Qed.
Lemma rk_other p q x : x <> p -> under p x = false -> rk p q x = x.
Proof. intros H1 H2. unfold rk. apply beqb_neq in H1. now rewrite H1, H2. Qed.

Lemma last_is_sep_app a b : b <> [] -> last_is_sep (a ++ b) = last_is_sep b.
Proof.
  intros Hb. unfold last_is_sep. rewrite rev_app_distr. destruct (rev b) as [|c r] eqn:E; [|reflexivity].
  apply (f_equal (@rev N)) in E. rewrite rev_involutive in E. contradiction.
Qed.

(* re-basing a normal path from below p to below q *)
Lemma np_rebase p q x : npath x -> under p x = true -> gpath q ->
  npath (rk p q x) /\ dirname (rk p q x) = rk p q (dirname x) /\ basename (rk p q x) = basename x.
Proof.
  intros (dd & n & -> & Gd & Vn) Hu Gq.
  rewrite dirname_np, basename_np by assumption.
  assert (Hu' := Hu). apply np_under_split in Hu'; [|exact Vn]. destruct Hu' as [->|Hu'].
  - rewrite rk_under, rk_self. rewrite dirname_np, basename_np by assumption.
    split; [|now split]. exists q, n. split; [reflexivity | split; assumption].
  - apply under_spec in Hu' as [r ->]. rewrite <- app_assoc. simpl. rewrite !rk_under.
    assert (Gq' : gpath (q ++ sep :: r)).
    { destruct Gd as [_ Hs]. split; [destruct q; discriminate|].
      rewrite last_is_sep_app in * by discriminate. exact Hs. }
    change (q ++ sep :: r ++ sep :: n) with (q ++ (sep :: r) ++ sep :: n). rewrite app_assoc.
    rewrite dirname_np, basename_np by assumption.
    split; [|now split]. exists (q ++ sep :: r), n. split; [reflexivity | split; assumption].
Qed.

Lemma wf_rename w p q ep : wf_fs w -> npath p -> npath q ->
  In ep (w_fs w) -> f_path ep = p -> p <> q -> under p q = false ->
  isdir_in (dirname q) (w_fs w) -> ~ In q (map f_path (w_fs w)) ->
  (forall e, In e (w_fs w) -> under q (f_path e) = false) ->
  wf_fs {| w_fs := frename p q (w_fs w); w_next_ino := w_next_ino w |}.
Proof.
  intros W Np Nq Hep Eep Hne Hpq (dq & Hdq & Edq & Ddq) Hq Hbelow.
  assert (Gq := npath_gpath _ Nq).
  assert (Hqp : under q p = false) by (rewrite <- Eep; now apply Hbelow).
  (* the parent of q is not renamed *)
  assert (Rdq : rk p q (f_path dq) = f_path dq).
  { apply rk_other.
    - intros E. rewrite Edq in E. rewrite <- E in Hpq. rewrite under_dirname in Hpq by assumption. discriminate.
    - destruct (under p (f_path dq)) eqn:E; [|reflexivity].
      rewrite Edq in E. rewrite (under_trans _ _ _ E (under_dirname _ Nq)) in Hpq. discriminate. }
  rewrite frename_map. constructor; simpl; [| | | | |apply W].
  - rewrite map_map. rewrite (map_ext _ (fun e => rk p q (f_path e))) by apply ren_path.
    rewrite <- map_map. apply NoDup_map_in; [|apply W].
    intros a b Ha Hb E.
    assert (Hcls : forall x, In x (map f_path (w_fs w)) ->
              (x = p /\ rk p q x = q) \/ (exists r, x = p ++ sep :: r /\ rk p q x = q ++ sep :: r) \/
              (x <> p /\ under p x = false /\ rk p q x = x)).
    { intros x _. destruct (bytes_eq_dec x p) as [->|Hx]; [left; split; [reflexivity | apply rk_self]|].
      right. destruct (under p x) eqn:Eu.
      - left. apply under_spec in Eu as [r ->]. exists r. split; [reflexivity | apply rk_under].
      - right. repeat split; try assumption. now apply rk_other. }
    assert (Hnq : forall x r, In x (map f_path (w_fs w)) -> x = q ++ sep :: r -> False).
    { intros x r Hx Ex. apply in_map_iff in Hx as (e & Ee & He). specialize (Hbelow e He).
      rewrite Ee, Ex, under_app in Hbelow. discriminate. }
    destruct (Hcls a Ha) as [[-> Ra]|[(ra & -> & Ra)|(Na & Ua & Ra)]];
      destruct (Hcls b Hb) as [[-> Rb]|[(rb & -> & Rb)|(Nb & Ub & Rb)]]; rewrite ?Ra, ?Rb in E; try reflexivity.
    + apply (f_equal (@length N)) in E. rewrite app_length in E. simpl in E. lia.
    + subst b. contradiction.
    + apply (f_equal (@length N)) in E. rewrite app_length in E. simpl in E. lia.
    + apply app_inv_head in E. congruence.
    + exfalso. eapply Hnq; [exact Hb | symmetry; exact E].
    + subst a. contradiction.
    + exfalso. eapply Hnq; [exact Ha | exact E].
    + exact E.
  - rewrite map_map. rewrite (map_ext _ f_ino) by apply ren_ino. apply W.
  - intros e' He'. apply in_map_iff in He' as (e & <- & He). rewrite ren_ino. now apply (wf_fresh w W).
  - intros e' He'. apply in_map_iff in He' as (e & <- & He). rewrite ren_path.
    destruct (bytes_eq_dec (f_path e) p) as [E|E]; [rewrite E, rk_self; exact Nq|].
    destruct (under p (f_path e)) eqn:Eu.
    + apply np_rebase; [now apply (wf_np w W) | exact Eu | exact Gq].
    + rewrite rk_other by assumption. now apply (wf_np w W).
  - intros e' d' He' Hd' Hu.
    apply in_map_iff in He' as (e & <- & He). apply in_map_iff in Hd' as (d & <- & Hd).
    rewrite !ren_path in *.
    destruct (bytes_eq_dec (f_path e) p) as [E|E].
    { rewrite E, rk_self. exists (ren p q dq). rewrite ren_path, ren_dir. repeat split; try congruence.
      now apply in_map. }
    destruct (under p (f_path e)) eqn:Eu.
    { destruct (np_rebase p q (f_path e) (wf_np w W e He) Eu Gq) as (_ & -> & _).
      assert (Hpe : under (f_path ep) (f_path e) = true) by now rewrite Eep.
      destruct (wf_parent w W e ep He Hep Hpe) as (pe & Hpe' & Epe & Dpe).
      exists (ren p q pe). rewrite ren_path, ren_dir. repeat split; try congruence. now apply in_map. }
    rewrite (rk_other p q (f_path e) E Eu) in *.
    assert (Hd0 : under (f_path d) (f_path e) = true).
    { destruct (bytes_eq_dec (f_path d) p) as [Ed|Ed].
      - rewrite Ed, rk_self in Hu. rewrite Hbelow in Hu by assumption. discriminate.
      - destruct (under p (f_path d)) eqn:Eud.
        + apply under_spec in Eud as [r Er]. rewrite Er, rk_under in Hu.
          assert (under q (f_path e) = true) by (eapply under_trans; [apply under_app | exact Hu]).
          rewrite Hbelow in H by assumption. discriminate.
        + now rewrite rk_other in Hu by assumption. }
    destruct (wf_parent w W e d He Hd Hd0) as (pe & Hpe & Epe & Dpe).
    exists (ren p q pe). rewrite ren_path, ren_dir. repeat split; try assumption; [now apply in_map|].
    rewrite Epe. apply rk_other.
    + intros E'. rewrite <- E' in Eu. rewrite under_dirname in Eu by now apply (wf_np w W). discriminate.
    + destruct (under p (dirname (f_path e))) eqn:E'; [|reflexivity].
      rewrite (under_trans _ _ _ E' (under_dirname _ (wf_np w W e He))) in Eu. discriminate.
Qed.

Lemma fremove_in p t e : In e (fremove p t) <-> In e t /\ f_path e <> p.
Proof.
  unfold fremove. rewrite filter_In, negb_true_iff, beqb_neq. split; intros [H1 H2]; split; auto.
Qed.

(* removing a file or an empty directory *)
Lemma wf_remove_leaf w p e : wf_fs w -> flookup p (w_fs w) = Some e ->
  (f_dir e = false \/ has_children p (w_fs w) = false) ->
  wf_fs {| w_fs := fremove p (w_fs w); w_next_ino := w_next_ino w |}.
Proof.
  intros W Hl Hleaf. apply wf_remove; [exact W|]. intros c Hc Ec Nc (pe & Hpe & Epe & Dpe).
  apply flookup_some in Hl as [He Ee]. destruct Hleaf as [Hf|Hch].
  - assert (pe = e) by (apply (path_inj (w_fs w)); [apply W | | | congruence]; assumption). congruence.
  - assert (Hf := has_children_false _ _ Hch _ Hc). apply is_child_np in Ec; [congruence | now apply (wf_np w W)].
Qed.

Theorem wf_apply_op w o w' : wf_fs w -> op_np o -> apply_op w o = Some w' -> wf_fs w'.
Proof.
  intros W Hnp H. destruct o as [p|p|p|p|p|p|p q]; simpl in H, Hnp.
  - destruct (fisdir (dirname p) (w_fs w)) eqn:Ed; [|discriminate].
    destruct (fexists p (w_fs w)) eqn:Ex; [discriminate|]. simpl in H. inversion H; subst.
    now apply wf_add.
  - destruct (flookup p (w_fs w)) as [e|]; [|discriminate]. destruct (f_dir e); inversion H; now subst.
  - destruct (fexists p (w_fs w)); inversion H; now subst.
  - destruct (flookup p (w_fs w)) as [e|] eqn:El; [|discriminate].
    destruct (f_dir e) eqn:Ed; inversion H; subst. eapply wf_remove_leaf; eauto.
  - destruct (fisdir (dirname p) (w_fs w)) eqn:Ed; [|discriminate].
    destruct (fexists p (w_fs w)) eqn:Ex; [discriminate|]. simpl in H. inversion H; subst.
    now apply wf_add.
  - destruct (flookup p (w_fs w)) as [e|] eqn:El; [|discriminate].
    destruct (f_dir e) eqn:Ed; [|discriminate]. simpl in H.
    destruct (has_children p (w_fs w)) eqn:Ec; [discriminate|]. simpl in H. inversion H; subst.
    eapply wf_remove_leaf; eauto.
  - destruct Hnp as [Np Nq].
    destruct (flookup p (w_fs w)) as [e|] eqn:El; [|discriminate].
    destruct (beqb p q) eqn:Epq; [discriminate|]. destruct (under p q) eqn:Eu; [discriminate|].
    destruct (fisdir (dirname q) (w_fs w)) eqn:Edq; [|discriminate]. simpl in H.
    apply beqb_neq in Epq. apply fisdir_in in Edq. destruct (flookup_some _ _ _ El) as [He Ee].
    assert (Hdq := Edq). destruct Hdq as (dq & Hdq & Edq' & Ddq).
    assert (Udq : under (f_path dq) q = true) by (rewrite Edq'; now apply under_dirname).
    destruct (flookup q (w_fs w)) as [v|] eqn:Elq.
    + (* replacing v *)
      assert (Hleaf : f_dir v = false \/ has_children q (w_fs w) = false).
      { destruct (f_dir e), (f_dir v), (has_children q (w_fs w)); simpl in H; try discriminate; auto. }
      assert (H' : w' = {| w_fs := frename p q (fremove q (w_fs w)); w_next_ino := w_next_ino w |}).
      { destruct (f_dir e), (f_dir v), (has_children q (w_fs w)); simpl in H; try discriminate; now inversion H. }
      subst w'. clear H.
      assert (W1 := wf_remove_leaf w q v W Elq Hleaf).
      destruct (flookup_some _ _ _ Elq) as [Hv Ev].
      assert (Hbelow : forall c, In c (w_fs w) -> under q (f_path c) = false).
      { apply (nothing_below w q dq W Hdq Udq). destruct Hleaf as [Hf|Hch]; [left|now right].
        intros (x & Hx & Ex & Dx). assert (x = v) by (apply (path_inj (w_fs w)); [apply W| | |congruence]; assumption).
        congruence. }
      apply (wf_rename {| w_fs := fremove q (w_fs w); w_next_ino := w_next_ino w |} p q e W1 Np Nq); simpl;
        try assumption.
      * apply fremove_in. split; [assumption | congruence].
      * exists dq. repeat split; try assumption. apply fremove_in. split; [assumption|].
        rewrite Edq'. intros E. apply under_dirname in Nq. rewrite E, under_irrefl in Nq. discriminate.
      * intros Hin. apply in_map_iff in Hin as (x & Ex & Hx). apply fremove_in in Hx. tauto.
      * intros c Hc. apply fremove_in in Hc as [Hc _]. now apply Hbelow.
    + injection H as <-.
      apply (wf_rename w p q e W Np Nq); try assumption.
      * now apply flookup_none.
      * apply (nothing_below w q dq W Hdq Udq). left. intros (x & Hx & Ex & _).
        apply flookup_none in Elq. apply Elq. rewrite <- Ex. now apply in_map.
Qed.

(* ================================================================== os.walk over the file-system model *)
Definition dirs_of (w : list (bytes * list bytes * list bytes)) : list bytes :=
  flat_map (fun w : bytes * list bytes * list bytes => let '(root, ds, _) := w in map (join root) ds) w.

Lemma walk_unfold root ds fs :
  walk root (Node ds fs) = (root, map fst ds, fs) :: flat_map (fun ns => walk (join root (fst ns)) (snd ns)) ds.
Proof.
  cbn [walk]. f_equal. induction ds as [|[n sub] ds IH]; [reflexivity|].
  cbn [flat_map fst snd]. now rewrite IH.
Qed.

Lemma dirs_of_app a b : dirs_of (a ++ b) = dirs_of a ++ dirs_of b.
Proof. unfold dirs_of. now rewrite flat_map_app. Qed.

Lemma dirs_of_flat_map {A} (f : A -> list (bytes * list bytes * list bytes)) l :
  dirs_of (flat_map f l) = flat_map (fun a => dirs_of (f a)) l.
Proof. induction l; simpl; [reflexivity|]. now rewrite dirs_of_app, IHl. Qed.

Lemma flat_map_ext_in {A B} (f g : A -> list B) l : (forall a, In a l -> f a = g a) -> flat_map f l = flat_map g l.
Proof. induction l; simpl; intros H; [reflexivity|]. rewrite H by now left. f_equal. apply IHl. intros; apply H; now right. Qed.

Definition cdirs (t : fs) (d : bytes) : list fent := filter (fun e => is_child d (f_path e) && f_dir e) t.
Definition WD (t : fs) (k : nat) (d : bytes) : list bytes := dirs_of (walk d (content_fuel k t d)).

Lemma in_cdirs t d e : In e (cdirs t d) <-> In e t /\ is_child d (f_path e) = true /\ f_dir e = true.
Proof. unfold cdirs. rewrite filter_In, andb_true_iff. tauto. Qed.

Lemma WD_S w k d : wf_fs w ->
  WD (w_fs w) (S k) d = map f_path (cdirs (w_fs w) d) ++ flat_map (fun e => WD (w_fs w) k (f_path e)) (cdirs (w_fs w) d).
Proof.
  intros W. unfold WD. cbn [content_fuel]. rewrite walk_unfold. fold (cdirs (w_fs w) d).
  match goal with |- dirs_of (?a :: ?l) = _ => change (a :: l) with ([a] ++ l) end. rewrite dirs_of_app.
  assert (J : forall e, In e (cdirs (w_fs w) d) -> join d (basename (f_path e)) = f_path e).
  { intros e He. apply in_cdirs in He as (He & Hc & _). assert (Np := wf_np w W e He).
    apply is_child_np in Hc; [|exact Np]. subst d. now apply npath_parts. }
  f_equal.
  - cbn. rewrite app_nil_r, !map_map. cbn [fst]. now apply map_ext_in.
  - rewrite dirs_of_flat_map, flat_map_concat_map, map_map, <- flat_map_concat_map.
    apply flat_map_ext_in. intros e He. cbn [fst snd]. now rewrite J.
Qed.

Lemma WD_sound w : wf_fs w -> forall k d x, In x (WD (w_fs w) k d) ->
  exists e, In e (w_fs w) /\ f_path e = x /\ f_dir e = true /\ under d x = true.
Proof.
  intros W. induction k as [|k IH]; intros d x Hx.
  - cbn in Hx. contradiction.
  - rewrite WD_S in Hx by assumption. apply in_app_iff in Hx as [Hx|Hx].
    + apply in_map_iff in Hx as (e & <- & He). apply in_cdirs in He as (He & Hc & Hd).
      exists e. repeat split; try assumption. assert (Np := wf_np w W e He).
      apply is_child_np in Hc; [|exact Np]. subst d. now apply under_dirname.
    + apply in_flat_map in Hx as (c & Hc & Hx). apply IH in Hx as (e & He & Ee & De & Ue).
      exists e. repeat split; try assumption. apply in_cdirs in Hc as (Hc & Hcc & _).
      assert (Np := wf_np w W c Hc). apply is_child_np in Hcc; [|exact Np]. subst d.
      eapply under_trans; [apply under_dirname; exact Np | exact Ue].
Qed.

Lemma filter_length_le {A} (f : A -> bool) l : length (filter f l) <= length l.
Proof. induction l; simpl; [lia|]. destruct (f a); simpl; lia. Qed.

Lemma filter_length_lt {A} (f g : A -> bool) l c :
  (forall x, f x = true -> g x = true) -> In c l -> f c = false -> g c = true ->
  length (filter f l) < length (filter g l).
Proof.
  intros Hfg. induction l as [|a l IH]; simpl; intros Hin Hf Hg; [contradiction|].
  assert (Hle : length (filter f l) <= length (filter g l)).
  { clear -Hfg. induction l as [|b l IH]; simpl; [lia|]. destruct (f b) eqn:E.
    - rewrite (Hfg _ E). simpl. lia.
    - destruct (g b); simpl; lia. }
  destruct Hin as [->|Hin].
  - rewrite Hf, Hg. simpl. lia.
  - specialize (IH Hin Hf Hg). destruct (f a) eqn:E; [rewrite (Hfg _ E)|destruct (g a)]; simpl; lia.
Qed.

Lemma WD_complete w : wf_fs w -> forall k d de, In de (w_fs w) -> f_path de = d ->
  length (filter (fun e => under d (f_path e)) (w_fs w)) < k ->
  forall e, In e (w_fs w) -> f_dir e = true -> under d (f_path e) = true -> In (f_path e) (WD (w_fs w) k d).
Proof.
  intros W. induction k as [|k IH]; intros d de Hde Ede Hk e He De Ue; [lia|].
  rewrite WD_S by assumption.
  destruct (chain_child_gen w W _ e (le_n _) He d de Hde Ue (or_introl (eq_sym Ede))) as (c & Hc & Ec & Hce).
  assert (Nc := wf_np w W c Hc).
  assert (Dc : f_dir c = true).
  { destruct Hce as [->|Hce]; [exact De|].
    assert (Hx : isdir_in (f_path c) (w_fs w)).
    { apply (chain w e (f_path c) c W He Hc Hce). now left. }
    destruct Hx as (c' & Hc' & Ec' & Dc'). assert (c' = c) by (apply (path_inj (w_fs w)); [apply W| | |]; assumption).
    congruence. }
  assert (Hcd : In c (cdirs (w_fs w) d)).
  { apply in_cdirs. repeat split; try assumption. now apply is_child_np. }
  apply in_app_iff. destruct Hce as [->|Hce]; [left; now apply in_map|].
  right. apply in_flat_map. exists c. split; [exact Hcd|].
  apply (IH (f_path c) c Hc eq_refl); try assumption.
  assert (Ucd : under d (f_path c) = true) by (rewrite <- Ec; now apply under_dirname).
  assert (Hlt : length (filter (fun e => under (f_path c) (f_path e)) (w_fs w)) <
                length (filter (fun e => under d (f_path e)) (w_fs w))).
  { apply filter_length_lt with (c := c); try assumption.
    - intros x Hx. eapply under_trans; eassumption.
    - apply under_irrefl. }
  lia.
Qed.

(* walk_dirs lists exactly the directories below p *)
Lemma walk_dirs_spec w p : wf_fs w -> fisdir p (w_fs w) = true ->
  forall x, In x (walk_dirs (w_fs w) p) <->
            exists e, In e (w_fs w) /\ f_path e = x /\ f_dir e = true /\ under p x = true.
Proof.
  intros W Hp x. unfold walk_dirs, content. rewrite Hp. fold (dirs_of (walk p (content_fuel (length (w_fs w)) (w_fs w) p))).
  fold (WD (w_fs w) (length (w_fs w)) p). split.
  - now apply WD_sound.
  - intros (e & He & <- & De & Ue). apply fisdir_in in Hp as (pe & Hpe & Epe & _).
    apply (WD_complete w W _ p pe); try assumption.
    assert (H := filter_length_lt (fun e => under p (f_path e)) (fun _ => true) (w_fs w) pe).
    assert (Ht : filter (fun _ : fent => true) (w_fs w) = w_fs w) by (generalize (w_fs w); intros l; induction l as [|a l IHl]; simpl; [reflexivity | now rewrite IHl]).
    rewrite Ht in H. apply H; auto. rewrite Epe. apply under_irrefl.
Qed.

(* ================================================================== the watch invariant and Cover *)
Lemma find_none_iff {A} (f : A -> bool) l : find f l = None <-> forall x, In x l -> f x = false.
Proof.
  induction l as [|a l IH]; simpl; [split; [intros _ x [] | reflexivity]|].
  destruct (f a) eqn:E.
  - split; [discriminate | intros H; specialize (H a (or_introl eq_refl)); congruence].
  - rewrite IH. split; [intros H x [<-|Hx]; auto | intros H x Hx; apply H; now right].
Qed.

Lemma find_app {A} (f : A -> bool) l1 l2 : find f (l1 ++ l2) = match find f l1 with Some x => Some x | None => find f l2 end.
Proof. induction l1 as [|a l1 IH]; simpl; [reflexivity|]. destruct (f a); [reflexivity | exact IH]. Qed.

Lemma find_unique {A B} (g : A -> B) (f : A -> bool) l x :
  NoDup (map g l) -> (forall a b, f a = true -> f b = true -> g a = g b) -> In x l -> f x = true -> find f l = Some x.
Proof.
  intros Hnd Hf. induction l as [|a l IH]; simpl; intros Hin Hx; [contradiction|].
  inversion Hnd; subst. destruct (f a) eqn:E.
  - destruct Hin as [->|Hin]; [reflexivity|]. exfalso. apply H1. rewrite (Hf a x E Hx). now apply in_map.
  - destruct Hin as [->|Hin]; [congruence|]. now apply IH.
Qed.

Lemma watch_of_ino_in k i kw : NoDup (map kw_ino (k_watches k)) -> In kw (k_watches k) -> kw_ino kw = i ->
  watch_of_ino k i = Some kw.
Proof.
  intros Hnd Hin E. unfold watch_of_ino. apply (find_unique kw_ino); try assumption.
  - intros a b Ha Hb. apply N.eqb_eq in Ha, Hb. congruence.
  - now apply N.eqb_eq.
Qed.

Lemma watch_of_ino_some k i kw : watch_of_ino k i = Some kw -> In kw (k_watches k) /\ kw_ino kw = i.
Proof. unfold watch_of_ino. intros H. apply find_some in H as [H1 H2]. apply N.eqb_eq in H2. now split. Qed.

Lemma ino_inj w a b : wf_fs w -> In a (w_fs w) -> In b (w_fs w) -> f_ino a = f_ino b -> a = b.
Proof.
  intros W. generalize (wf_inos w W). generalize (w_fs w). intros t. induction t as [|x t IH]; simpl; intros Hnd Ha Hb E; [contradiction|].
  inversion Hnd; subst. destruct Ha as [->|Ha], Hb as [->|Hb]; auto.
  - exfalso. apply H1. rewrite E. now apply in_map.
  - exfalso. apply H1. rewrite <- E. now apply in_map.
Qed.

Lemma alookup_aset_same_w p (wd : N) m x : alookup beqb p m = Some wd -> alookup beqb x (aset beqb p wd m) = alookup beqb x m.
Proof.
  intros H. destruct (bytes_eq_dec x p) as [->|Hne]; [now rewrite wset_eq | now apply wset_neq].
Qed.
Lemma alookup_aset_same_p wd (p : bytes) m x : alookup N.eqb wd m = Some p -> alookup N.eqb x (aset N.eqb wd p m) = alookup N.eqb x m.
Proof.
  intros H. destruct (N.eq_dec x wd) as [->|Hne]; [now rewrite pset_eq | now apply pset_neq].
Qed.

Section Cover.
  Variable C : cfg.
  Hypothesis Hfaults : c_faults C = [].
  Let root := c_root C.

  Definition scope (p : bytes) : Prop :=
    if c_recursive C then (p = root \/ under root p = true) else p = root.

  Definition cov (k : kst) (r : rstate) (e : fent) (kw : kwatch) : Prop :=
    watch_of_ino k (f_ino e) = Some kw /\
    alookup N.eqb (kw_wd kw) (pfw r) = Some (f_path e) /\
    alookup beqb (f_path e) (wfp r) = Some (kw_wd kw).

  (* C02: every directory in scope carries a kernel watch whose recorded path is its current path *)
  Definition Cover (t : fs) (k : kst) (r : rstate) : Prop :=
    forall e, In e t -> f_dir e = true -> scope (f_path e) -> exists kw, cov k r e kw.

  Record WInv (t : fs) (k : kst) (r : rstate) : Prop := {
    wi_lt : forall kw, In kw (k_watches k) -> (kw_wd kw < k_next_wd k)%N;
    wi_wds : NoDup (map kw_wd (k_watches k));
    wi_inos : NoDup (map kw_ino (k_watches k));
    wi_mask : forall kw, In kw (k_watches k) -> kw_mask kw = c_mask C;
    (* no stale kernel watch: every watch is the cover of a directory in scope *)
    wi_exact : forall kw, In kw (k_watches k) ->
      exists e, In e t /\ f_dir e = true /\ scope (f_path e) /\ f_ino e = kw_ino kw /\
                alookup N.eqb (kw_wd kw) (pfw r) = Some (f_path e) /\
                alookup beqb (f_path e) (wfp r) = Some (kw_wd kw);
    (* no stale key in _wd_for_path *)
    wi_tight : forall x wd, alookup beqb x (wfp r) = Some wd ->
      (exists kw, In kw (k_watches k) /\ kw_wd kw = wd) /\ alookup N.eqb wd (pfw r) = Some x;
    wi_mvf : forall c x, alookup N.eqb c (mvf r) = Some x -> (c < k_next_cookie k)%N;
    (* no stale key in _path_for_wd: every descriptor the reader knows is the descriptor of a kernel watch *)
    wi_pfw : forall wd x, alookup N.eqb wd (pfw r) = Some x -> exists kw, In kw (k_watches k) /\ kw_wd kw = wd;
    (* _wd_for_path is a dictionary (no shadowed entry) *)
    wi_keys : NoDup (map fst (wfp r))
  }.

  Lemma ino_inj_k k a b : NoDup (map kw_ino (k_watches k)) -> In a (k_watches k) -> In b (k_watches k) ->
    kw_ino a = kw_ino b -> a = b.
  Proof.
    generalize (k_watches k). intros l. induction l as [|x l IH]; simpl; intros Hnd Ha Hb E; [contradiction|].
    inversion Hnd; subst. destruct Ha as [->|Ha], Hb as [->|Hb]; auto.
    - exfalso. apply H1. rewrite E. now apply in_map.
    - exfalso. apply H1. rewrite <- E. now apply in_map.
  Qed.

  Lemma wd_inj k a b : NoDup (map kw_wd (k_watches k)) -> In a (k_watches k) -> In b (k_watches k) ->
    kw_wd a = kw_wd b -> a = b.
  Proof.
    generalize (k_watches k). intros l. induction l as [|x l IH]; simpl; intros Hnd Ha Hb E; [contradiction|].
    inversion Hnd; subst. destruct Ha as [->|Ha], Hb as [->|Hb]; auto.
    - exfalso. apply H1. rewrite E. now apply in_map.
    - exfalso. apply H1. rewrite <- E. now apply in_map.
  Qed.

  (* a key of _wd_for_path is the path of a directory in scope, covered by that wd *)
  Lemma tight_entry w k r x wd : WInv (w_fs w) k r -> alookup beqb x (wfp r) = Some wd ->
    exists e kw, In e (w_fs w) /\ f_dir e = true /\ scope (f_path e) /\ f_path e = x /\
                 In kw (k_watches k) /\ kw_wd kw = wd /\ kw_ino kw = f_ino e.
  Proof.
    intros I H. destruct (wi_tight _ _ _ I x wd H) as ((kw & Hkw & Ewd) & Hp).
    destruct (wi_exact _ _ _ I kw Hkw) as (e & He & De & Se & Ie & Pe & We).
    rewrite Ewd in Pe. exists e, kw. repeat split; try assumption; congruence.
  Qed.

  (* the reader's two tables mention descriptors of live kernel watches only: every key of _path_for_wd and every value
     of _wd_for_path (all entries of the association lists, not only the visible ones) is the wd of a kernel watch *)
  Definition tables_live (k : kst) (r : rstate) : Prop :=
    (forall wd, In wd (map fst (pfw r)) -> In wd (map kw_wd (k_watches k))) /\
    (forall wd, In wd (map snd (wfp r)) -> In wd (map kw_wd (k_watches k))).

  Lemma pfw_live t k r : WInv t k r -> tables_live k r.
  Proof.
    intros I. split; intros wd H.
    - destruct (key_alookup N.eqb Neqb_eq' wd (pfw r) H) as [x Hx]. destruct (wi_pfw _ _ _ I _ _ Hx) as (kw & Hk & <-).
      now apply in_map.
    - apply in_map_iff in H as ([x wd'] & E & H). cbn in E. subst wd'.
      apply (in_alookup beqb beqb_eq x wd (wfp r) (wi_keys _ _ _ I)) in H.
      destruct (wi_tight _ _ _ I _ _ H) as [(kw & Hk & <-) _]. now apply in_map.
  Qed.

  Lemma add_watch_ok w k r e : wf_fs w -> WInv (w_fs w) k r -> In e (w_fs w) -> f_dir e = true -> scope (f_path e) ->
    exists r' k' wd, add_watch C r k (w_fs w) (f_path e) = Some (r', k', wd) /\
      WInv (w_fs w) k' r' /\ k_queue k' = k_queue k /\ k_next_cookie k' = k_next_cookie k /\ mvf r' = mvf r /\
      (exists kw, cov k' r' e kw /\ kw_wd kw = wd) /\
      (forall e0 kw0, In e0 (w_fs w) -> cov k r e0 kw0 -> cov k' r' e0 kw0) /\
      (forall x, x <> f_path e -> alookup beqb x (wfp r') = alookup beqb x (wfp r)).
  Proof.
    intros W I He De Se. unfold add_watch. rewrite Hfaults. cbn [mem_nat].
    unfold kadd_watch. rewrite (flookup_in _ e (wf_paths w W) He).
    destruct (watch_of_ino k (f_ino e)) as [kw|] eqn:Ew.
    - (* already watched: nothing changes *)
      destruct (watch_of_ino_some _ _ _ Ew) as [Hkw Ei].
      destruct (wi_exact _ _ _ I kw Hkw) as (e' & He' & De' & Se' & Ie' & Pe' & We').
      assert (e' = e) by (apply (ino_inj w); try assumption; congruence). subst e'.
      assert (Hmap : map (fun x => if N.eqb (kw_wd x) (kw_wd kw)
                                   then {| kw_wd := kw_wd x; kw_ino := kw_ino x; kw_mask := c_mask C |} else x)
                         (k_watches k) = k_watches k).
      { rewrite <- (map_id (k_watches k)) at 2. apply map_ext_in. intros x Hx.
        destruct (N.eqb (kw_wd x) (kw_wd kw)); [|reflexivity].
        rewrite <- (wi_mask _ _ _ I x Hx). now destruct x. }
      eexists _, _, _. split; [reflexivity|].
      rewrite (ReaderFixProofs.unlabel_same C _ (kw_wd kw) (f_path e)) by exact Pe'.
      cbn [wfp pfw mvf calls k_queue k_next_cookie].
      assert (Lw := fun x => alookup_aset_same_w _ _ (wfp r) x We').
      assert (Lp := fun x => alookup_aset_same_p _ _ (pfw r) x Pe').
      split; [|split; [reflexivity|split; [reflexivity|split; [reflexivity|split; [|split]]]]].
      + constructor; cbn [k_watches k_next_wd k_next_cookie wfp pfw mvf]; rewrite ?Hmap; try apply I.
        * intros kw0 H0. destruct (wi_exact _ _ _ I kw0 H0) as (e0 & ? & ? & ? & ? & ? & ?).
          exists e0. rewrite Lw, Lp. repeat split; assumption.
        * intros x wd. rewrite Lw, Lp. apply I.
        * intros wd x. rewrite Lp. apply I.
        * apply wkeys_set. apply I.
      + exists kw. split; [|reflexivity]. unfold cov, watch_of_ino. cbn [k_watches wfp pfw]. rewrite Hmap, Lw, Lp.
        repeat split; assumption.
      + intros e0 kw0 _ (H1 & H2 & H3). unfold cov, watch_of_ino in *. cbn [k_watches wfp pfw]. rewrite Hmap, Lw, Lp.
        repeat split; assumption.
      + intros x _. apply Lw.
    - (* a new watch *)
      assert (Hnone : forall x, In x (k_watches k) -> kw_ino x <> f_ino e).
      { intros x Hx. unfold watch_of_ino in Ew. rewrite find_none_iff in Ew. apply Ew in Hx. now apply N.eqb_neq in Hx. }
      eexists _, _, _. split; [reflexivity|].
      (* the new descriptor is not a key of _path_for_wd: every key is a live watch, below the counter *)
      assert (Hfr : alookup N.eqb (k_next_wd k) (pfw r) = None).
      { destruct (alookup N.eqb (k_next_wd k) (pfw r)) as [x0|] eqn:E; [|reflexivity].
        destruct (wi_pfw _ _ _ I _ _ E) as (kw0 & H0 & E0). apply (wi_lt _ _ _ I) in H0. lia. }
      rewrite (ReaderFixProofs.unlabel_fresh C _ (k_next_wd k) (f_path e)) by exact Hfr.
      cbn [wfp pfw mvf calls k_queue k_next_cookie].
      set (nw := {| kw_wd := k_next_wd k; kw_ino := f_ino e; kw_mask := c_mask C |}).
      assert (Hold : forall kw0, In kw0 (k_watches k) -> kw_wd kw0 <> k_next_wd k).
      { intros kw0 H0. apply (wi_lt _ _ _ I) in H0. lia. }
      assert (Hcov : forall e0 kw0, In e0 (w_fs w) -> cov k r e0 kw0 ->
                cov {| k_watches := k_watches k ++ [nw]; k_next_wd := k_next_wd k + 1; k_queue := k_queue k;
                       k_next_cookie := k_next_cookie k |}
                    {| wfp := aset beqb (f_path e) (k_next_wd k) (wfp r); pfw := aset N.eqb (k_next_wd k) (f_path e) (pfw r);
                       mvf := mvf r; calls := S (calls r); pend := pend r |} e0 kw0).
      { intros e0 kw0 He0 (H1 & H2 & H3). destruct (watch_of_ino_some _ _ _ H1) as [Hk0 Ei0].
        unfold cov, watch_of_ino. cbn [k_watches wfp pfw].
        rewrite find_app. fold (watch_of_ino k (f_ino e0)). rewrite H1.
        rewrite pset_neq by now apply Hold. rewrite wset_neq; [repeat split; assumption|].
        intros E. assert (e0 = e) by (apply (path_inj (w_fs w)); [apply W| | |]; assumption). subst e0.
        apply (Hnone kw0); assumption. }
      split; [|split; [reflexivity|split; [reflexivity|split; [reflexivity|split; [|split]]]]].
      + constructor; cbn [k_watches k_next_wd k_next_cookie wfp pfw mvf].
        * intros kw0 H0. apply in_app_iff in H0 as [H0|[<-|[]]]; [apply (wi_lt _ _ _ I) in H0|cbn]; lia.
        * rewrite map_app. apply NoDup_snoc; [apply I|]. cbn. intros Hin. apply in_map_iff in Hin as (x & Ex & Hx).
          now apply (Hold x).
        * rewrite map_app. apply NoDup_snoc; [apply I|]. cbn. intros Hin. apply in_map_iff in Hin as (x & Ex & Hx).
          now apply (Hnone x).
        * intros kw0 H0. apply in_app_iff in H0 as [H0|[<-|[]]]; [now apply (wi_mask _ _ _ I) | reflexivity].
        * intros kw0 H0. apply in_app_iff in H0 as [H0|[<-|[]]].
          -- destruct (wi_exact _ _ _ I kw0 H0) as (e0 & He0 & D0 & S0 & I0 & P0 & W0).
             exists e0. repeat split; try assumption.
             ++ now rewrite pset_neq by now apply Hold.
             ++ rewrite wset_neq; [assumption|]. intros E.
                assert (e0 = e) by (apply (path_inj (w_fs w)); [apply W| | |]; assumption). subst e0.
                now apply (Hnone kw0).
          -- exists e. cbn. rewrite pset_eq, wset_eq. repeat split; assumption.
        * intros x wd Hx. destruct (bytes_eq_dec x (f_path e)) as [->|Hne].
          -- rewrite wset_eq in Hx. inversion Hx; subst wd. rewrite pset_eq. split; [|reflexivity].
             exists nw. split; [apply in_app_iff; right; now left | reflexivity].
          -- rewrite wset_neq in Hx by assumption. destruct (wi_tight _ _ _ I x wd Hx) as ((kw0 & Hk0 & E0) & Hp).
             split; [exists kw0; split; [apply in_app_iff; now left | assumption]|].
             rewrite pset_neq; [assumption|]. rewrite <- E0. now apply Hold.
        * apply I.
        * intros wd x Hx. apply pset_inv in Hx as [[-> _]|[Hne Hx]].
          -- exists nw. split; [apply in_app_iff; right; now left | reflexivity].
          -- destruct (wi_pfw _ _ _ I _ _ Hx) as (kw0 & Hk0 & E0). exists kw0. split; [apply in_app_iff; now left | assumption].
        * apply wkeys_set. apply I.
      + exists nw. split; [|reflexivity]. unfold cov, watch_of_ino. cbn [k_watches wfp pfw].
        rewrite find_app. fold (watch_of_ino k (f_ino e)). rewrite Ew. cbn. rewrite N.eqb_refl.
        rewrite pset_eq, wset_eq. now repeat split.
      + exact Hcov.
      + intros x Hx. now apply wset_neq.
  Qed.

  (* ------------------------------------------------------------------ installing watches for a list of directories *)
  Definition Ext (t : fs) (k : kst) (r : rstate) (k' : kst) (r' : rstate) : Prop :=
    k_queue k' = k_queue k /\ k_next_cookie k' = k_next_cookie k /\ mvf r' = mvf r /\
    (forall e0 kw0, In e0 t -> cov k r e0 kw0 -> cov k' r' e0 kw0).

  Lemma Ext_refl t k r : Ext t k r k r.
  Proof. unfold Ext. auto. Qed.
  Lemma Ext_trans t k1 r1 k2 r2 k3 r3 : Ext t k1 r1 k2 r2 -> Ext t k2 r2 k3 r3 -> Ext t k1 r1 k3 r3.
  Proof. intros (A1 & A2 & A3 & A4) (B1 & B2 & B3 & B4). unfold Ext. split; [congruence|split; [congruence|split; [congruence|intros; auto]]]. Qed.

  Definition cgo (t : fs) :=
    fix go (r : rstate) (k : kst) (ps : list bytes) : option (rstate * kst) :=
      match ps with
      | [] => Some (r, k)
      | p :: ps' => match add_watch C r k t p with
                    | Some (r', k', _) => go r' k' ps'
                    | None => None
                    end
      end.

  Definition dir_in_scope (t : fs) (p : bytes) : Prop :=
    exists e, In e t /\ f_path e = p /\ f_dir e = true /\ scope p.

  Lemma cgo_ok w : wf_fs w -> forall ps k r, WInv (w_fs w) k r -> Forall (dir_in_scope (w_fs w)) ps ->
    exists r' k', cgo (w_fs w) r k ps = Some (r', k') /\ add_dirs C r k (w_fs w) ps = (r', k') /\
      WInv (w_fs w) k' r' /\ Ext (w_fs w) k r k' r' /\
      (forall e, In e (w_fs w) -> In (f_path e) ps -> exists kw, cov k' r' e kw) /\
      (forall x, ~ In x ps -> alookup beqb x (wfp r') = alookup beqb x (wfp r)).
  Proof.
    intros W. induction ps as [|p ps IH]; intros k r I Hps.
    - exists r, k. split; [reflexivity|]. split; [reflexivity|]. split; [exact I|]. split; [apply Ext_refl|].
      split; [intros e _ [] | reflexivity].
    - inversion Hps as [|? ? (e & He & Ee & De & Se) Hps']; subst.
      destruct (add_watch_ok w k r e W I He De Se) as (r1 & k1 & wd & Ha & I1 & Q1 & N1 & M1 & (kw & Ck & _) & P1 & L1).
      destruct (IH k1 r1 I1 Hps') as (r2 & k2 & Hg & Hd & I2 & X2 & Cv & L2).
      exists r2, k2. cbn [cgo add_dirs]. rewrite Ha. fold (cgo (w_fs w)). split; [exact Hg|]. split; [exact Hd|].
      split; [exact I2|]. split; [|split].
      + eapply Ext_trans; [|exact X2]. unfold Ext. auto.
      + intros e0 He0 [E|Hin]; [|now apply Cv].
        assert (e0 = e) by (apply (path_inj (w_fs w)); [apply W| | |]; congruence). subst e0.
        exists kw. destruct X2 as (_ & _ & _ & X). now apply X.
      + intros x Hx. rewrite L2 by (intros H; apply Hx; now right). apply L1. intros E. apply Hx. left. congruence.
  Qed.

  (* installing watches and re-keying leave the move-out candidate alone *)
  Lemma add_watch_pend r k t p r' k' wd : add_watch C r k t p = Some (r', k', wd) -> pend r' = pend r.
  Proof.
    unfold add_watch. destruct (mem_nat (calls r) (c_faults C)); [discriminate|].
    destruct (kadd_watch k t p (c_mask C)) as [[k1 wd1]|]; [|discriminate]. intros H. now injection H as <- _ _.
  Qed.

  Lemma add_dirs_pend t ps : forall r k, pend (fst (add_dirs C r k t ps)) = pend r.
  Proof.
    induction ps as [|p ps IH]; intros r k; cbn [add_dirs]; [reflexivity|].
    destruct (add_watch C r k t p) as [[[r1 k1] wd]|] eqn:E; [|reflexivity].
    rewrite IH. eapply add_watch_pend; eassumption.
  Qed.

  Lemma cgo_pend t ps : forall r k r' k', cgo t r k ps = Some (r', k') -> pend r' = pend r.
  Proof.
    induction ps as [|p ps IH]; intros r k r' k' H; cbn [cgo] in H; [now injection H as <- _|].
    destruct (add_watch C r k t p) as [[[r1 k1] wd]|] eqn:E; [|discriminate].
    fold (cgo t) in H. rewrite (IH _ _ _ _ H). eapply add_watch_pend; eassumption.
  Qed.

  Lemma rekey_loop_pend keys src dst : forall r, pend (rekey_loop keys src dst r) = pend r.
  Proof.
    induction keys as [|[p wd] keys IH]; intros r; cbn [rekey_loop]; [reflexivity|].
    destruct (starts (src ++ [sep]) p); [|apply IH]. destruct (alookup beqb p (wfp r)); [|apply IH]. now rewrite IH.
  Qed.

  (* the re-key loop keeps _wd_for_path a dictionary and introduces no descriptor *)
  Lemma rekey_loop_keys keys src dst : forall r, NoDup (map fst (wfp r)) -> NoDup (map fst (wfp (rekey_loop keys src dst r))).
  Proof.
    induction keys as [|[p wd] keys IH]; intros r H; cbn [rekey_loop]; [exact H|].
    destruct (starts (src ++ [sep]) p); [|now apply IH]. destruct (alookup beqb p (wfp r)); [|now apply IH].
    apply IH. cbn [wfp]. now apply wkeys_set, wkeys_rem.
  Qed.

  Lemma rekey_loop_pfw keys src dst : forall r wd x, alookup N.eqb wd (pfw (rekey_loop keys src dst r)) = Some x ->
    (exists x', alookup N.eqb wd (pfw r) = Some x') \/ (exists y, alookup beqb y (wfp r) = Some wd).
  Proof.
    induction keys as [|[p wd0] keys IH]; intros r wd x H; cbn [rekey_loop] in H; [left; eauto|].
    destruct (starts (src ++ [sep]) p); [|now apply IH in H]. destruct (alookup beqb p (wfp r)) as [w1|] eqn:E; [|now apply IH in H].
    apply IH in H as [[x' H]|[y H]]; cbn [pfw wfp] in H.
    - apply pset_inv in H as [[-> _]|[_ H]]; [right|left]; eauto.
    - apply wset_inv in H as [[_ ->]|[_ H]]; [right; eauto|]. apply wrem_inv in H as [_ H]. right; eauto.
  Qed.

  Lemma WInv_init t : WInv t kinit rinit0.
  Proof. constructor; cbn; try constructor; try (intros ? []); try discriminate. Qed.

  (* 2a: construct establishes the invariant and Cover *)
  Theorem construct_cover w : wf_fs w -> fisdir root (w_fs w) = true ->
    exists r k, construct C kinit (w_fs w) = Some (r, k) /\ WInv (w_fs w) k r /\ Cover (w_fs w) k r /\
                k_queue k = [] /\ mvf r = [] /\ pend r = None.
  Proof.
    intros W Hroot. unfold construct. fold root. rewrite Hroot.
    destruct (fisdir_in _ _ Hroot) as (er & Her & Eer & Der).
    assert (Sr : scope (f_path er)).
    { unfold scope. rewrite Eer. destruct (c_recursive C); auto. }
    destruct (add_watch_ok w kinit rinit0 er W (WInv_init _) Her Der Sr)
      as (r1 & k1 & wd & Ha & I1 & Q1 & N1 & M1 & (kw & Ck & _) & P1 & _).
    fold root in Ha. rewrite <- Eer, Ha. destruct (c_recursive C) eqn:Erec.
    - assert (Hps : Forall (dir_in_scope (w_fs w)) (walk_dirs (w_fs w) (f_path er))).
      { apply Forall_forall. intros x Hx. rewrite Eer in Hx. apply (walk_dirs_spec w root W Hroot) in Hx as (e & He & Ee & De & Ue).
        exists e. repeat split; try assumption. unfold scope. rewrite Erec. now right. }
      destruct (cgo_ok w W _ k1 r1 I1 Hps) as (r2 & k2 & Hg & _ & I2 & (Q2 & N2 & M2 & X2) & Cv & _).
      exists r2, k2. fold (cgo (w_fs w)). split; [exact Hg|]. split; [exact I2|]. split; [|split; [rewrite Q2, Q1; reflexivity | split; [rewrite M2, M1; reflexivity | rewrite (cgo_pend _ _ _ _ _ _ Hg), (add_watch_pend _ _ _ _ _ _ _ Ha); reflexivity]]].
      intros e He De Se. unfold scope in Se. rewrite Erec in Se. destruct Se as [Se|Se].
      + assert (e = er) by (apply (path_inj (w_fs w)); [apply W| | |]; congruence). subst e.
        exists kw. now apply X2.
      + apply Cv; [exact He|]. rewrite Eer. apply (walk_dirs_spec w root W Hroot). exists e. now repeat split.
    - exists r1, k1. split; [reflexivity|]. split; [exact I1|]. split; [|split; [rewrite Q1; reflexivity | split; [rewrite M1; reflexivity | rewrite (add_watch_pend _ _ _ _ _ _ _ Ha); reflexivity]]].
      intros e He De Se. unfold scope in Se. rewrite Erec in Se.
      assert (e = er) by (apply (path_inj (w_fs w)); [apply W| | |]; congruence). subst e. now exists kw.
  Qed.

  (* ------------------------------------------------------------------ the reader on one batch *)
  Definition inert (m : N) : Prop :=
    is_moved_from m = false /\ is_moved_to m = false /\ is_ignored m = false /\ (is_directory m && is_create m) = false.

  Definition src_path_of (wp : bytes) (name : bytes) : bytes :=
    match name with [] => wp | _ => join wp name end.

  Definition raw_ev (wp : bytes) (e : kraw) : raw :=
    {| r_wd := k_wd e; r_mask := k_mask e; r_cookie := k_cookie e; r_name := k_name e;
       r_path := src_path_of wp (k_name e) |}.

  Lemma read_one_inert_body t r k acc e wp : inert (k_mask e) -> alookup N.eqb (k_wd e) (pfw r) = Some wp ->
    read_one_body C t (r, k, acc) e = Done (r, k, acc ++ [raw_ev wp e]).
  Proof.
    intros (H1 & H2 & H3 & H4) Hp. unfold read_one_body. rewrite Hp, H1, H2, H3.
    rewrite <- andb_assoc, H4, andb_false_r. reflexivity.
  Qed.

  (* no directory move-out is pending: one loop iteration is the loop body *)
  Lemma read_one_inert t r k acc e wp : pend r = None -> inert (k_mask e) -> alookup N.eqb (k_wd e) (pfw r) = Some wp ->
    read_one C t (r, k, acc) e = Done (r, k, acc ++ [raw_ev wp e]).
  Proof. intros Hpd Hi Hp. rewrite read_one_body_eq by exact Hpd. now apply read_one_inert_body. Qed.

  Lemma read_batch_app t st a b :
    read_batch C t st (a ++ b) = match read_batch C t st a with Done st' => read_batch C t st' b | Crash s => Crash s end.
  Proof.
    revert st. induction a as [|e a IH]; intros st; cbn [app read_batch]; [reflexivity|].
    destruct (read_one C t st e); [apply IH | reflexivity].
  Qed.

  Definition inert_ev (r : rstate) (e : kraw) : Prop :=
    inert (k_mask e) /\ exists wp, alookup N.eqb (k_wd e) (pfw r) = Some wp.

  Lemma read_batch_inert t r k l : pend r = None -> Forall (inert_ev r) l -> forall acc,
    exists evs, read_batch C t (r, k, acc) l = Done (r, k, acc ++ evs) /\ length evs = length l.
  Proof.
    intros Hpd. induction 1 as [|e l (Hi & wp & Hp) Hl IH]; intros acc.
    - exists []. now rewrite app_nil_r.
    - cbn [read_batch]. rewrite (read_one_inert _ _ _ _ _ wp Hpd Hi Hp).
      destruct (IH (acc ++ [raw_ev wp e])) as (evs & -> & Hlen). exists (raw_ev wp e :: evs).
      rewrite <- app_assoc. split; [reflexivity | cbn; lia].
  Qed.

  (* ---- raw events that do not announce the end of the watched root (IN_IGNORED / IN_DELETE_SELF with the root's path) *)
  Definition good_mask (m : N) : Prop := is_ignored m = false /\ is_delete_self m = false.
  Definition rsafe (e : raw) : Prop :=
    (is_ignored (r_mask e) || is_delete_self (r_mask e)) = true -> beqb (r_path e) root = false.

  Lemma good_rsafe e : good_mask (r_mask e) -> rsafe e.
  Proof. intros [H1 H2] H. rewrite H1, H2 in H. discriminate. Qed.

  Lemma read_batch_inert' t r k l : pend r = None -> Forall (inert_ev r) l -> forall acc,
    exists evs, read_batch C t (r, k, acc) l = Done (r, k, acc ++ evs) /\
      Forall2 (fun e ev => exists wp, alookup N.eqb (k_wd e) (pfw r) = Some wp /\ ev = raw_ev wp e) l evs.
  Proof.
    intros Hpd. induction 1 as [|e l (Hi & wp & Hp) Hl IH]; intros acc.
    - exists []. rewrite app_nil_r. split; [reflexivity | constructor].
    - cbn [read_batch]. rewrite (read_one_inert _ _ _ _ _ wp Hpd Hi Hp).
      destruct (IH (acc ++ [raw_ev wp e])) as (evs & -> & HF). exists (raw_ev wp e :: evs).
      rewrite <- app_assoc. split; [reflexivity|]. constructor; [eauto | exact HF].
  Qed.

  Definition sim_mask (e : raw) : Prop := r_mask e = IN_CREATE \/ r_mask e = N.lor IN_CREATE IN_ISDIR.

  Lemma sim_dirs_app t rt ds : forall r0 k0 acc, exists sim,
    snd (sim_dirs C r0 k0 t rt ds acc) = acc ++ sim /\ Forall sim_mask sim.
  Proof.
    induction ds as [|d ds IH]; intros r0 k0 acc; cbn [sim_dirs].
    - exists []. now rewrite app_nil_r.
    - destruct (add_watch C r0 k0 t (join rt d)) as [[[r1 k1] wd]|].
      + destruct (IH r1 k1 (acc ++ [{| r_wd := wd; r_mask := N.lor IN_CREATE IN_ISDIR; r_cookie := 0; r_name := d; r_path := join rt d |}]))
          as (sim & E & Hs). eexists. rewrite E, <- app_assoc. split; [reflexivity|]. constructor; [now right | exact Hs].
      + apply IH.
  Qed.

  Lemma sim_files_app r rt fls : forall acc acc', sim_files C r rt fls acc = Done acc' ->
    exists sim, acc' = acc ++ sim /\ Forall sim_mask sim.
  Proof.
    induction fls as [|f fls IH]; intros acc acc' H; cbn [sim_files] in H.
    - injection H as <-. exists []. now rewrite app_nil_r.
    - destruct (alookup beqb (dirname (join rt f)) (wfp r)) as [wd|].
      + destruct (IH _ _ H) as (sim & -> & Hs). eexists. rewrite <- app_assoc. split; [reflexivity|].
        constructor; [now left | exact Hs].
      + destruct (c_fix_simulate C); [now apply IH | discriminate].
  Qed.

  Lemma simulate_app t wk : forall r k acc r' k' acc', simulate C r k t wk acc = Done (r', k', acc') ->
    exists sim, acc' = acc ++ sim /\ Forall sim_mask sim.
  Proof.
    induction wk as [|[[rt ds] fls] wk IH]; intros r k acc r' k' acc' H; cbn [simulate] in H.
    - injection H as <- <- <-. exists []. now rewrite app_nil_r.
    - destruct (sim_dirs_app t rt ds r k acc) as (s1 & E1 & H1).
      destruct (sim_dirs C r k t rt ds acc) as [[r1 k1] acc1]. cbn [snd] in E1. subst acc1.
      destruct (sim_files C r1 rt fls (acc ++ s1)) as [acc2|] eqn:E2; [|discriminate].
      destruct (sim_files_app _ _ _ _ _ E2) as (s2 & -> & H2).
      destruct (IH _ _ _ _ _ _ H) as (s3 & -> & H3). exists (s1 ++ s2 ++ s3). rewrite <- !app_assoc.
      split; [reflexivity|]. apply Forall_app. split; [exact H1|]. apply Forall_app. now split.
  Qed.

  Lemma sim_mask_rsafe e : sim_mask e -> rsafe e.
  Proof. intros [H|H]; apply good_rsafe; rewrite H; split; reflexivity. Qed.

  (* one event: the output grows by the event itself (same mask) and simulated creations *)
  Lemma read_one_shape_body t r k acc e r' k' acc' : read_one_body C t (r, k, acc) e = Done (r', k', acc') ->
    acc' = acc \/ exists ev sim, acc' = acc ++ ev :: sim /\ r_mask ev = k_mask e /\ Forall sim_mask sim.
  Proof.
    unfold read_one_body. destruct (alookup N.eqb (k_wd e) (pfw r)) as [wp|].
    2:{ destruct (c_fix_moveout C); [|discriminate]. intros H. injection H as <- <- <-. now left. }
    intros H. right. revert H.
    set (X := if is_moved_from (k_mask e) then _ else _).
    assert (HX : r_mask (snd X) = k_mask e).
    { unfold X. destruct (is_moved_from (k_mask e)); [reflexivity|]. destruct (is_moved_to (k_mask e)); [|reflexivity].
      destruct (alookup N.eqb (k_cookie e) (mvf r)) as [ms|].
      - destruct (alookup beqb ms (wfp r)); [reflexivity|].
        destruct (c_fix_movein C && c_recursive C && is_directory (k_mask e) && fisdir _ t); [|reflexivity].
        now destruct (add_dirs C r k t _).
      - destruct (c_fix_movein C && c_recursive C && is_directory (k_mask e) && fisdir _ t); [|reflexivity].
        now destruct (add_dirs C r k t _). }
    destruct X as [[r1 k1] ev1]. cbn [snd] in HX.
    set (Y := if is_ignored (k_mask e) then _ else _). destruct Y as [r2|]; [|discriminate].
    destruct (c_recursive C && is_directory (k_mask e) && is_create (k_mask e)).
    - destruct (add_watch C r2 k1 t (r_path ev1)) as [[[r3 k3] wd]|].
      + intros H. destruct (simulate_app _ _ _ _ _ _ _ _ H) as (sim & -> & Hs).
        exists ev1, sim. rewrite <- app_assoc. auto.
      + intros H. injection H as <- <- <-. exists ev1, []. repeat split; auto.
    - intros H. injection H as <- <- <-. exists ev1, []. repeat split; auto.
  Qed.

  (* the head of the loop body (settle_pending) produces no event *)
  Lemma read_one_shape t r k acc e r' k' acc' : read_one C t (r, k, acc) e = Done (r', k', acc') ->
    acc' = acc \/ exists ev sim, acc' = acc ++ ev :: sim /\ r_mask ev = k_mask e /\ Forall sim_mask sim.
  Proof.
    unfold read_one. destruct (settle_pending C r k e) as [r0 k0]. apply read_one_shape_body.
  Qed.

  Lemma read_batch_good t b : Forall (fun e => good_mask (k_mask e)) b ->
    forall r k acc r' k' acc', Forall rsafe acc -> read_batch C t (r, k, acc) b = Done (r', k', acc') -> Forall rsafe acc'.
  Proof.
    induction 1 as [|e b He Hb IH]; intros r k acc r' k' acc' Ha H; cbn [read_batch] in H.
    - now injection H as <- <- <-.
    - destruct (read_one C t (r, k, acc) e) as [[[r1 k1] acc1]|] eqn:E1; [|discriminate].
      destruct (read_one_shape _ _ _ _ _ _ _ _ E1) as [->|(ev & sim & -> & Hm & Hs)]; [now apply (IH _ _ _ _ _ _ Ha H)|].
      apply (IH _ _ _ _ _ _ ) in H; [exact H|]. apply Forall_app. split; [exact Ha|].
      constructor; [apply good_rsafe; now rewrite Hm|]. eapply Forall_impl; [|exact Hs]. apply sim_mask_rsafe.
  Qed.

  Lemma inert_raws_good r l evs :
    Forall2 (fun e ev => exists wp, alookup N.eqb (k_wd e) (pfw r) = Some wp /\ ev = raw_ev wp e) l evs ->
    Forall (fun e => good_mask (k_mask e)) l -> Forall rsafe evs.
  Proof.
    induction 1 as [|e ev l evs (wp & _ & ->) HF IH]; intros Hg; [constructor|]. inversion Hg; subst.
    constructor; [now apply good_rsafe | auto].
  Qed.

  Lemma inert_raws_path r l evs wd p :
    Forall2 (fun e ev => exists wp, alookup N.eqb (k_wd e) (pfw r) = Some wp /\ ev = raw_ev wp e) l evs ->
    Forall (fun e => k_wd e = wd /\ k_name e = []) l -> alookup N.eqb wd (pfw r) = Some p -> p <> root -> Forall rsafe evs.
  Proof.
    intros HF Hl Hp Hne. induction HF as [|e ev l evs (wp & Hwp & ->) HF IH]; [constructor|]. inversion Hl as [|? ? [E1 E2] Hl']; subst.
    constructor; [|auto]. intros _. unfold raw_ev, src_path_of. cbn [r_path]. rewrite E2.
    rewrite Hp in Hwp. injection Hwp as <-. now apply beqb_neq.
  Qed.


  (* ------------------------------------------------------------------ the kernel side *)
  Definition kset_queue (k : kst) (q : list kraw) : kst :=
    {| k_watches := k_watches k; k_next_wd := k_next_wd k; k_queue := q; k_next_cookie := k_next_cookie k |}.

  Definition kev (kw : kwatch) (bit : N) (isd : bool) (c : N) (name : bytes) : kraw :=
    {| k_wd := kw_wd kw; k_mask := if isd then N.lor bit IN_ISDIR else bit; k_cookie := c; k_name := name |}.

  Lemma watch_of_ino_ext k k' i : k_watches k' = k_watches k -> watch_of_ino k' i = watch_of_ino k i.
  Proof. unfold watch_of_ino. now intros ->. Qed.

  Lemma kpush_cases q e : kpush q e = q \/ kpush q e = q ++ [e].
  Proof. unfold kpush. destruct (rev q); [now right|]. destruct (kraw_eqb k e); auto. Qed.

  Lemma kpush_nil e : kpush [] e = [e].
  Proof. reflexivity. Qed.

  Lemma kpush_snoc q a e : k_mask a <> k_mask e -> kpush (q ++ [a]) e = q ++ [a; e].
  Proof.
    intros H. unfold kpush. rewrite rev_app_distr. cbn [rev app]. unfold kraw_eqb.
    apply N.eqb_neq in H. rewrite H, andb_false_r. cbn. now rewrite <- app_assoc.
  Qed.

  Lemma knotify_cases k ino bit isd c name :
    knotify k ino bit isd c name = k \/
    exists kw, watch_of_ino k ino = Some kw /\ N.land bit (kw_mask kw) <> 0%N /\
               knotify k ino bit isd c name = kset_queue k (kpush (k_queue k) (kev kw bit isd c name)).
  Proof.
    unfold knotify. destruct (watch_of_ino k ino) as [kw|]; [|now left].
    destruct (N.eqb (N.land bit (kw_mask kw)) 0) eqn:E; [now left|]. right. exists kw.
    apply N.eqb_neq in E. auto.
  Qed.

  Lemma knotify_inv (P : kraw -> Prop) k ino bit isd c name :
    Forall P (k_queue k) -> (forall kw, watch_of_ino k ino = Some kw -> P (kev kw bit isd c name)) ->
    k_watches (knotify k ino bit isd c name) = k_watches k /\
    k_next_wd (knotify k ino bit isd c name) = k_next_wd k /\
    k_next_cookie (knotify k ino bit isd c name) = k_next_cookie k /\
    Forall P (k_queue (knotify k ino bit isd c name)).
  Proof.
    intros Hq Hp. destruct (knotify_cases k ino bit isd c name) as [->|(kw & Hw & _ & ->)]; [auto|].
    cbn. repeat split; try reflexivity. destruct (kpush_cases (k_queue k) (kev kw bit isd c name)) as [->| ->]; [exact Hq|].
    apply Forall_app. split; [exact Hq|]. constructor; [now apply Hp | constructor].
  Qed.

  Lemma knotify_watched k ino bit isd c name kw : watch_of_ino k ino = Some kw -> N.land bit (kw_mask kw) <> 0%N ->
    knotify k ino bit isd c name = kset_queue k (kpush (k_queue k) (kev kw bit isd c name)).
  Proof. intros Hw Hm. unfold knotify. rewrite Hw. apply N.eqb_neq in Hm. now rewrite Hm. Qed.

  Lemma knotify_unwatched k ino bit isd c name : watch_of_ino k ino = None -> knotify k ino bit isd c name = k.
  Proof. intros Hw. unfold knotify. now rewrite Hw. Qed.

  (* ------------------------------------------------------------------ the synchronised state *)
  Record RSync (w : world) (k : kst) (r : rstate) : Prop := {
    rs_wf : wf_fs w;
    rs_root : isdir_in root (w_fs w);
    rs_inv : WInv (w_fs w) k r;
    rs_cover : Cover (w_fs w) k r;
    rs_queue : k_queue k = [];
    rs_pend : pend r = None            (* no directory IN_MOVED_FROM is waiting for its IN_MOVED_TO *)
  }.

  Lemma RSync_tables_live w k r : RSync w k r -> tables_live k r.
  Proof. intros S. exact (pfw_live _ _ _ (rs_inv _ _ _ S)). Qed.

  Definition drainq (k : kst) : kst := kset_queue k [].

  (* one operation followed by one read of the whole kernel queue *)
  Definition rstep (w : world) (k : kst) (r : rstate) (o : op) : option (world * outcome (rstate * kst * list raw)) :=
    match apply_op w o with
    | None => None
    | Some w' => let k1 := kernel_op k (w_fs w) o in
                 Some (w', read_batch C (w_fs w') (r, drainq k1, []) (k_queue k1))
    end.

  Lemma WInv_ext' t t' k k' r : WInv t k r ->
    (forall e, In e t -> f_dir e = true -> (exists kw, In kw (k_watches k) /\ kw_ino kw = f_ino e) -> In e t') ->
    k_watches k' = k_watches k -> k_next_wd k' = k_next_wd k -> (k_next_cookie k <= k_next_cookie k')%N ->
    WInv t' k' r.
  Proof.
    intros I Ht Hw Hn Hc. constructor; rewrite ?Hw, ?Hn; try apply I.
    - intros kw Hk. destruct (wi_exact _ _ _ I kw Hk) as (e & He & De & Se & Ie & R). exists e.
      split; [apply Ht; eauto | auto].
    - intros c x Hx. apply (wi_mvf _ _ _ I) in Hx. lia.
  Qed.

  (* the kernel: no IN_IGNORED / IN_DELETE_SELF unless a watched directory disappears *)
  Lemma kernel_good k t o : Forall (fun e => good_mask (k_mask e)) (k_queue k) ->
    match o with
    | Rmdir p => watch_of_ino k (ino_of t p) = None
    | Rename p q => fisdir q t = false \/ watch_of_ino k (ino_of t q) = None
    | _ => True
    end -> Forall (fun e => good_mask (k_mask e)) (k_queue (kernel_op k t o)).
  Proof.
    intros Hq Hno.
    assert (G : forall (k0 : kst) ino bit (isd : bool) c name, Forall (fun e => good_mask (k_mask e)) (k_queue k0) ->
              good_mask (if isd then N.lor bit IN_ISDIR else bit) ->
              Forall (fun e => good_mask (k_mask e)) (k_queue (knotify k0 ino bit isd c name))).
    { intros k0 ino bit isd c name H0 Hg. apply (knotify_inv (fun e => good_mask (k_mask e))); [exact H0|]. intros kw _. exact Hg. }
    destruct o as [p|p|p|p|p|p|p q]; cbn [kernel_op].
    - repeat apply G; try assumption; split; reflexivity.
    - repeat apply G; try assumption; split; reflexivity.
    - destruct (fisdir p t); repeat apply G; try assumption; split; reflexivity.
    - apply G; [assumption | split; reflexivity].
    - apply G; [assumption | split; reflexivity].
    - unfold kgone. rewrite Hno. apply G; [assumption | split; reflexivity].
    - set (k2 := knotify (knotify _ _ _ _ _ _) _ _ _ _ _).
      assert (H2 : Forall (fun e => good_mask (k_mask e)) (k_queue k2)).
      { unfold k2. apply G; [apply G; [exact Hq|]|]; destruct (fisdir p t); split; reflexivity. }
      destruct Hno as [-> | Hno]; [exact H2|]. destruct (fisdir q t); [|exact H2].
      unfold kgone. assert (E : watch_of_ino k2 (ino_of t q) = watch_of_ino k (ino_of t q)).
      { apply watch_of_ino_ext. unfold k2.
        destruct (knotify_inv (fun _ => True) (knotify {| k_watches := k_watches k; k_next_wd := k_next_wd k; k_queue := k_queue k;
                     k_next_cookie := k_next_cookie k + 1 |} (ino_of t (dirname p)) IN_MOVED_FROM (fisdir p t) (k_next_cookie k) (basename p))
                   (ino_of t (dirname q)) IN_MOVED_TO (fisdir p t) (k_next_cookie k) (basename q)) as (A & _); [apply Forall_forall; auto | auto|].
        rewrite A.
        destruct (knotify_inv (fun _ => True) {| k_watches := k_watches k; k_next_wd := k_next_wd k; k_queue := k_queue k;
                     k_next_cookie := k_next_cookie k + 1 |} (ino_of t (dirname p)) IN_MOVED_FROM (fisdir p t) (k_next_cookie k) (basename p))
          as (B & _); [apply Forall_forall; auto | auto|]. now rewrite B. }
      now rewrite E, Hno.
  Qed.

  Lemma WInv_ext t t' k k' r : WInv t k r ->
    (forall e, In e t -> f_dir e = true -> In e t') ->
    k_watches k' = k_watches k -> k_next_wd k' = k_next_wd k -> (k_next_cookie k <= k_next_cookie k')%N ->
    WInv t' k' r.
  Proof.
    intros I Ht Hw Hn Hc. constructor; rewrite ?Hw, ?Hn; try apply I.
    - intros kw Hk. destruct (wi_exact _ _ _ I kw Hk) as (e & He & De & Se & R). exists e. split; [now apply Ht | auto].
    - intros c x Hx. apply (wi_mvf _ _ _ I) in Hx. lia.
  Qed.

  Lemma Cover_ext t t' k k' r : Cover t k r -> (forall e, In e t' -> f_dir e = true -> In e t) ->
    k_watches k' = k_watches k -> Cover t' k' r.
  Proof.
    intros Cv Ht Hw e He De Se. destruct (Cv e (Ht e He De) De Se) as (kw & H1 & H2). exists kw.
    split; [|exact H2]. now rewrite (watch_of_ino_ext k k').
  Qed.

  (* every kernel watch has a _path_for_wd entry *)
  Lemma watch_pfw t k r i kw : WInv t k r -> watch_of_ino k i = Some kw ->
    exists wp, alookup N.eqb (kw_wd kw) (pfw r) = Some wp.
  Proof.
    intros I Hw. apply watch_of_ino_some in Hw as [Hk _]. destruct (wi_exact _ _ _ I kw Hk) as (e & _ & _ & _ & _ & Hp & _).
    eauto.
  Qed.

  (* ------------------------------------------------------------------ 2b: operations that leave the watch state untouched *)
  Lemma knotify_inert t k0 r k ino bit (isd : bool) c name : WInv t k0 r -> k_watches k = k_watches k0 ->
    Forall (inert_ev r) (k_queue k) -> inert (if isd then N.lor bit IN_ISDIR else bit) ->
    k_watches (knotify k ino bit isd c name) = k_watches k0 /\
    k_next_wd (knotify k ino bit isd c name) = k_next_wd k /\
    k_next_cookie (knotify k ino bit isd c name) = k_next_cookie k /\
    Forall (inert_ev r) (k_queue (knotify k ino bit isd c name)).
  Proof.
    intros I Hw Hq Hi.
    destruct (knotify_inv (inert_ev r) k ino bit isd c name Hq) as (A & B & D & E).
    - intros kw Hk. split; [exact Hi|]. cbn [kev k_wd]. rewrite (watch_of_ino_ext k0 k) in Hk by assumption.
      eapply watch_pfw; eauto.
    - rewrite A. auto.
  Qed.

  Ltac inert_mask := unfold inert; repeat split; vm_compute; reflexivity.

  Definition quiet_op (o : op) : Prop :=
    match o with Touch _ | Write _ | Chmod _ | Unlink _ => True | _ => False end.

  Lemma quiet_kernel t k r o : WInv t k r -> k_queue k = [] -> quiet_op o ->
    k_watches (kernel_op k t o) = k_watches k /\ k_next_wd (kernel_op k t o) = k_next_wd k /\
    k_next_cookie (kernel_op k t o) = k_next_cookie k /\ Forall (inert_ev r) (k_queue (kernel_op k t o)).
  Proof.
    intros I Hq Ho. assert (Hq0 : Forall (inert_ev r) (k_queue k)) by (rewrite Hq; constructor).
    destruct o as [p|p|p|p|p|p|p q]; try contradiction; cbn [kernel_op].
    - destruct (knotify_inert t k r k (ino_of t (dirname p)) IN_CREATE false 0 (basename p) I eq_refl Hq0) as (A1 & B1 & C1 & D1); [inert_mask|].
      destruct (knotify_inert t k r _ (ino_of t (dirname p)) IN_OPEN false 0 (basename p) I A1 D1) as (A2 & B2 & C2 & D2); [inert_mask|].
      destruct (knotify_inert t k r _ (ino_of t (dirname p)) IN_CLOSE_WRITE false 0 (basename p) I A2 D2) as (A3 & B3 & C3 & D3); [inert_mask|].
      repeat split; try assumption; congruence.
    - destruct (knotify_inert t k r k (ino_of t (dirname p)) IN_OPEN false 0 (basename p) I eq_refl Hq0) as (A1 & B1 & C1 & D1); [inert_mask|].
      destruct (knotify_inert t k r _ (ino_of t (dirname p)) IN_MODIFY false 0 (basename p) I A1 D1) as (A2 & B2 & C2 & D2); [inert_mask|].
      destruct (knotify_inert t k r _ (ino_of t (dirname p)) IN_CLOSE_WRITE false 0 (basename p) I A2 D2) as (A3 & B3 & C3 & D3); [inert_mask|].
      repeat split; try assumption; congruence.
    - destruct (knotify_inert t k r k (ino_of t (dirname p)) IN_ATTRIB (fisdir p t) 0 (basename p) I eq_refl Hq0) as (A1 & B1 & C1 & D1);
        [destruct (fisdir p t); inert_mask|].
      destruct (fisdir p t); [|auto].
      destruct (knotify_inert t k r _ (ino_of t p) IN_ATTRIB true 0 [] I A1 D1) as (A2 & B2 & C2 & D2); [inert_mask|].
      repeat split; try assumption; congruence.
    - destruct (knotify_inert t k r k (ino_of t (dirname p)) IN_DELETE false 0 (basename p) I eq_refl Hq0) as (A1 & B1 & C1 & D1); [inert_mask|].
      auto.
  Qed.

  Lemma quiet_fs w o w' : wf_fs w -> quiet_op o -> apply_op w o = Some w' ->
    (forall e, f_dir e = true -> In e (w_fs w) <-> In e (w_fs w')).
  Proof.
    intros W Ho H e De. destruct o as [p|p|p|p|p|p|p q]; try contradiction; cbn [apply_op] in H.
    - destruct (fisdir (dirname p) (w_fs w) && negb (fexists p (w_fs w))); [|discriminate]. injection H as <-. cbn.
      rewrite in_app_iff. split; [auto|]. intros [H|[<-|[]]]; [assumption | discriminate].
    - destruct (flookup p (w_fs w)) as [x|]; [|discriminate]. destruct (f_dir x); [discriminate|]. injection H as <-. tauto.
    - destruct (fexists p (w_fs w)); [|discriminate]. injection H as <-. tauto.
    - destruct (flookup p (w_fs w)) as [x|] eqn:El; [|discriminate]. destruct (f_dir x) eqn:Dx; [discriminate|].
      injection H as <-. cbn. rewrite fremove_in. split; [|tauto]. intros He. split; [assumption|].
      intros E. apply flookup_some in El as [Hx Ex].
      assert (e = x) by (apply (path_inj (w_fs w)); [apply W| | |]; congruence). congruence.
  Qed.

  Theorem step_quiet w k r o w' : RSync w k r -> op_np o -> quiet_op o -> apply_op w o = Some w' ->
    let k1 := kernel_op k (w_fs w) o in
    exists evs, read_batch C (w_fs w') (r, drainq k1, []) (k_queue k1) = Done (r, drainq k1, evs) /\
                length evs = length (k_queue k1) /\ RSync w' (drainq k1) r.
  Proof.
    intros S Hnp Ho Ha k1. destruct S as [W Hr I Cv Hq Hpd].
    destruct (quiet_kernel (w_fs w) k r o I Hq Ho) as (A & B & D & E). fold k1 in A, B, D, E.
    destruct (read_batch_inert (w_fs w') r (drainq k1) _ Hpd E []) as (evs & Hrd & Hlen).
    exists evs. split; [exact Hrd|]. split; [exact Hlen|].
    assert (Hfs := quiet_fs w o w' W Ho Ha).
    constructor.
    - eapply wf_apply_op; eauto.
    - destruct Hr as (e & He & Ee & De). exists e. split; [now apply Hfs | auto].
    - apply (WInv_ext (w_fs w) (w_fs w') k); try assumption; cbn; try assumption.
      + intros e He De. now apply Hfs.
      + rewrite D. lia.
    - apply (Cover_ext (w_fs w) (w_fs w') k); try assumption. intros e He De. now apply Hfs.
    - reflexivity.
    - exact Hpd.
  Qed.

  (* ------------------------------------------------------------------ 2b: Mkdir *)
  Lemma filter_nil {A} (f : A -> bool) l : (forall x, In x l -> f x = false) -> filter f l = [].
  Proof. induction l as [|a l IH]; cbn; intros H; [reflexivity|]. rewrite H by now left. apply IH. intros; apply H; now right. Qed.

  Lemma content_empty t p : (forall e, In e t -> is_child p (f_path e) = false) -> content t p = Node [] [].
  Proof.
    intros H. unfold content. destruct (fisdir p t); [|reflexivity]. destruct (length t); [reflexivity|].
    cbn [content_fuel]. rewrite !filter_nil; [reflexivity| |]; intros e He; now rewrite H.
  Qed.

  Lemma read_one_create t r k acc e wp :
    is_moved_from (k_mask e) = false -> is_moved_to (k_mask e) = false -> is_ignored (k_mask e) = false ->
    is_directory (k_mask e) = true -> is_create (k_mask e) = true ->
    alookup N.eqb (k_wd e) (pfw r) = Some wp ->
    read_one_body C t (r, k, acc) e =
      let ev := raw_ev wp e in
      if c_recursive C then
        match add_watch C r k t (r_path ev) with
        | None => Done (bump r, k, acc ++ [ev])
        | Some (r3, k3, _) => simulate C r3 k3 t (walk (r_path ev) (content t (r_path ev))) (acc ++ [ev])
        end
      else Done (r, k, acc ++ [ev]).
  Proof.
    intros H1 H2 H3 H4 H5 Hp. unfold read_one_body. rewrite Hp, H1, H2, H3, H4, H5. cbn [andb].
    destruct (c_recursive C); reflexivity.
  Qed.

  Lemma not_scope_unwatched w k r e : wf_fs w -> WInv (w_fs w) k r -> In e (w_fs w) -> ~ scope (f_path e) ->
    watch_of_ino k (f_ino e) = None.
  Proof.
    intros W I He Hs. destruct (watch_of_ino k (f_ino e)) as [kw|] eqn:E; [|reflexivity]. exfalso.
    apply watch_of_ino_some in E as [Hk Ei]. destruct (wi_exact _ _ _ I kw Hk) as (e' & He' & _ & Se' & Ie' & _).
    assert (e' = e) by (apply (ino_inj w); try assumption; congruence). subst. contradiction.
  Qed.

  Lemma watched_entry w k r e kw : wf_fs w -> WInv (w_fs w) k r -> In e (w_fs w) -> watch_of_ino k (f_ino e) = Some kw ->
    scope (f_path e) /\ f_dir e = true /\ cov k r e kw /\ In kw (k_watches k) /\ kw_mask kw = c_mask C.
  Proof.
    intros W I He E. destruct (watch_of_ino_some _ _ _ E) as [Hk Ei].
    destruct (wi_exact _ _ _ I kw Hk) as (e' & He' & De' & Se' & Ie' & Pe' & We').
    assert (e' = e) by (apply (ino_inj w); try assumption; congruence). subst.
    repeat split; try assumption. now apply (wi_mask _ _ _ I).
  Qed.

  Lemma scope_child d n : scope d -> c_recursive C = true -> scope (d ++ sep :: n).
  Proof.
    unfold scope. intros H E. rewrite E in *. right. destruct H as [->|H]; [apply under_app|].
    eapply under_trans; [exact H | apply under_app].
  Qed.

  Lemma scope_parent p : npath p -> scope p -> p <> root -> scope (dirname p) /\ c_recursive C = true.
  Proof.
    unfold scope. intros Np H Hne. destruct (c_recursive C); [|contradiction]. split; [|reflexivity].
    cbv iota in H. destruct H as [H|H]; [contradiction|]. destruct (npath_parts p Np) as (E & _ & V & _).
    rewrite E in H. apply np_under_split in H; [|exact V]. destruct H as [H|H]; auto.
  Qed.

  Theorem step_mkdir w k r p w' : RSync w k r -> npath p -> apply_op w (Mkdir p) = Some w' ->
    N.land IN_CREATE (c_mask C) <> 0%N ->
    let k1 := kernel_op k (w_fs w) (Mkdir p) in
    exists r' k' evs, read_batch C (w_fs w') (r, drainq k1, []) (k_queue k1) = Done (r', k', evs) /\ RSync w' k' r' /\
      (forall x, x <> p -> alookup beqb x (wfp r') = alookup beqb x (wfp r)).
  Proof.
    intros S Np Ha Hm k1. destruct S as [W Hr I Cv Hq Hpd].
    assert (W' : wf_fs w') by exact (wf_apply_op w (Mkdir p) w' W Np Ha).
    cbn [apply_op] in Ha.
    destruct (fisdir (dirname p) (w_fs w)) eqn:Ed; [|discriminate].
    destruct (fexists p (w_fs w)) eqn:Ex; [discriminate|]. cbn in Ha. injection Ha as <-.
    set (x := {| f_path := p; f_ino := w_next_ino w; f_dir := true |}) in *.
    apply fexists_false in Ex. destruct (fisdir_in _ _ Ed) as (de & Hde & Ede & Dde).
    assert (Eino : ino_of (w_fs w) (dirname p) = f_ino de).
    { unfold ino_of. rewrite <- Ede. now rewrite (flookup_in _ de (wf_paths w W) Hde). }
    assert (Hnew : forall e, In e (w_fs w ++ [x]) -> f_dir e = true -> e = x \/ In e (w_fs w)).
    { intros e He _. apply in_app_iff in He as [He|[<-|[]]]; auto. }
    assert (Hroot' : isdir_in root (w_fs w ++ [x])).
    { destruct Hr as (e & He & Ee & De). exists e. split; [apply in_app_iff; now left | auto]. }
    assert (Hpr : p <> root).
    { intros E. destruct Hr as (e & He & Ee & _). apply Ex. rewrite E, <- Ee. now apply in_map. }
    subst k1. cbn [kernel_op]. rewrite Eino.
    destruct (watch_of_ino k (f_ino de)) as [kw|] eqn:Ew.
    - (* the parent is watched *)
      destruct (watched_entry w k r de kw W I Hde Ew) as (Sde & _ & (_ & Pde & Wde) & Hkw & Mkw).
      rewrite (knotify_watched _ _ _ _ _ _ kw Ew) by (rewrite Mkw; exact Hm). rewrite Hq, kpush_nil.
      cbn [k_queue kset_queue read_batch].
      assert (I0 : WInv (w_fs w ++ [x]) (drainq (kset_queue k [kev kw IN_CREATE true 0 (basename p)])) r).
      { apply (WInv_ext (w_fs w) _ k); try assumption; try reflexivity; try (cbn; lia).
        intros e He _. apply in_app_iff. now left. }
      destruct (npath_parts p Np) as (Ep & Gd & Vn & Jp).
      rewrite read_one_body_eq by exact Hpd.
      rewrite (read_one_create _ _ _ _ _ (dirname p)); try (vm_compute; reflexivity);
        [|cbn [kev k_wd]; now rewrite Pde, Ede].
      assert (Epath : r_path (raw_ev (dirname p) (kev kw IN_CREATE true 0 (basename p))) = p).
      { unfold raw_ev, kev, src_path_of. cbn [r_path k_name]. destruct (basename p) eqn:Eb; [discriminate Vn|]. exact Jp. }
      cbv zeta. rewrite Epath. destruct (c_recursive C) eqn:Erec.
      + assert (Sx : scope (f_path x)).
        { cbn [f_path x]. rewrite Ep. apply scope_child; [now rewrite <- Ede | exact Erec]. }
        assert (Hx : In x (w_fs {| w_fs := w_fs w ++ [x]; w_next_ino := w_next_ino w + 1 |})) by (cbn; apply in_app_iff; right; now left).
        destruct (add_watch_ok _ _ r x W' I0 Hx eq_refl Sx)
          as (r3 & k3 & wd & Hadd & I3 & Q3 & N3 & M3 & (kwx & Cx & _) & P3 & L3).
        change (f_path x) with p in Hadd. rewrite Hadd.
        rewrite content_empty.
        2:{ intros e He. apply in_app_iff in He as [He|[<-|[]]].
            - destruct (is_child p (f_path e)) eqn:Ec; [|reflexivity]. exfalso.
              apply is_child_np in Ec; [|now apply (wf_np w W)].
              assert (Hu : under p (f_path e) = true) by (rewrite <- Ec; apply under_dirname; now apply (wf_np w W)).
              rewrite (nothing_below w p de W Hde) in Hu; [discriminate| | |assumption].
              + rewrite Ede. now apply under_dirname.
              + left. intros (y & Hy & Ey & _). apply Ex. rewrite <- Ey. now apply in_map.
            - unfold is_child. cbn. now rewrite beqb_refl, andb_false_r. }
        cbn. eexists _, _, _. split; [reflexivity|]. split.
        * constructor; try assumption; try (rewrite Q3; reflexivity);
            try (rewrite (add_watch_pend _ _ _ _ _ _ _ Hadd); exact Hpd).
          intros e He De Se. destruct (Hnew e He De) as [->|He0]; [now exists kwx|].
          destruct (Cv e He0 De Se) as (kw0 & C0). exists kw0. apply P3; [exact He|].
          destruct C0 as (A1 & A2 & A3). split; [|split]; assumption.
        * exact L3.
      + eexists _, _, _. split; [reflexivity|]. split; [|reflexivity]. constructor; try assumption; [|reflexivity].
        intros e He De Se. destruct (Hnew e He De) as [->|He0].
        * unfold scope in Se. rewrite Erec in Se. contradiction.
        * destruct (Cv e He0 De Se) as (kw0 & A1 & A2). exists kw0. split; assumption.
    - (* the parent is not watched: no event *)
      rewrite (knotify_unwatched _ _ _ _ _ _ Ew), Hq. cbn [read_batch].
      eexists _, _, _. split; [reflexivity|]. split; [|reflexivity]. constructor; try assumption; [| |reflexivity].
      + apply (WInv_ext (w_fs w) _ k); try assumption; try reflexivity; try (cbn; lia).
        intros e He _. apply in_app_iff. now left.
      + intros e He De Se. destruct (Hnew e He De) as [->|He0].
        * exfalso. cbn [f_path x] in Se. destruct (scope_parent p Np Se Hpr) as [Sd _].
          rewrite <- Ede in Sd. destruct (Cv de Hde Dde Sd) as (kw & A & _). congruence.
        * destruct (Cv e He0 De Se) as (kw0 & A1 & A2). exists kw0. split; assumption.
  Qed.

  (* ------------------------------------------------------------------ 2b: Rmdir (and the kernel dropping a watch) *)
  Lemma kpush_fresh q e : (forall a, In a q -> k_mask a <> k_mask e) -> kpush q e = q ++ [e].
  Proof.
    intros H. unfold kpush. destruct (rev q) as [|l rq] eqn:E; [reflexivity|].
    assert (Hl : In l q) by (apply in_rev; rewrite E; now left).
    apply H in Hl. unfold kraw_eqb. apply N.eqb_neq in Hl. now rewrite Hl, andb_false_r.
  Qed.

  Definition ign_ev (kw : kwatch) : kraw := {| k_wd := kw_wd kw; k_mask := IN_IGNORED; k_cookie := 0; k_name := [] |}.
  Definition self_mask (m : N) : Prop := m = N.lor IN_ATTRIB IN_ISDIR \/ m = IN_DELETE_SELF.

  Lemma kgone_spec k i af kw : watch_of_ino k i = Some kw ->
    (forall a, In a (k_queue k) -> ~ self_mask (k_mask a) /\ k_mask a <> IN_IGNORED) ->
    exists pre, kgone k i af =
      {| k_watches := filter (fun x => negb (N.eqb (kw_wd x) (kw_wd kw))) (k_watches k); k_next_wd := k_next_wd k;
         k_queue := k_queue k ++ pre ++ [ign_ev kw]; k_next_cookie := k_next_cookie k |} /\
      Forall (fun e => k_wd e = kw_wd kw /\ k_name e = [] /\ self_mask (k_mask e)) pre.
  Proof.
    intros Hw Hq. unfold kgone. rewrite Hw.
    set (k1 := if af then knotify k i IN_ATTRIB true 0 [] else k).
    assert (H1 : exists pre1, k1 = kset_queue k (k_queue k ++ pre1) /\
                   Forall (fun e => k_wd e = kw_wd kw /\ k_name e = [] /\ k_mask e = N.lor IN_ATTRIB IN_ISDIR) pre1).
    { subst k1. destruct af.
      - destruct (knotify_cases k i IN_ATTRIB true 0 []) as [->|(kw' & Hw' & _ & ->)].
        + exists []. rewrite app_nil_r. split; [now destruct k | constructor].
        + assert (kw' = kw) by congruence. subst kw'. exists [kev kw IN_ATTRIB true 0 []].
          rewrite kpush_fresh; [split; [reflexivity | constructor; [now repeat split | constructor]]|].
          intros a Ha. apply Hq in Ha as [Ha _]. intros E. apply Ha. left. exact E.
      - exists []. rewrite app_nil_r. split; [now destruct k | constructor]. }
    destruct H1 as (pre1 & -> & Hpre1).
    assert (Hw1 : watch_of_ino (kset_queue k (k_queue k ++ pre1)) i = Some kw) by (rewrite (watch_of_ino_ext k); [exact Hw | reflexivity]).
    assert (Hfresh : forall e a, In a ((k_queue k ++ pre1)) -> k_mask e = IN_DELETE_SELF -> k_mask a <> k_mask e).
    { intros e a Ha Ee. rewrite Ee. apply in_app_iff in Ha as [Ha|Ha].
      - apply Hq in Ha as [Ha _]. intros E. apply Ha. now right.
      - rewrite Forall_forall in Hpre1. apply Hpre1 in Ha as (_ & _ & ->). vm_compute. discriminate. }
    destruct (knotify_cases (kset_queue k (k_queue k ++ pre1)) i IN_DELETE_SELF false 0 []) as [->|(kw' & Hw' & _ & ->)].
    - exists pre1. cbn [kset_queue k_watches k_next_wd k_queue k_next_cookie]. rewrite kpush_fresh.
      + rewrite <- app_assoc. split; [reflexivity|]. eapply Forall_impl; [|exact Hpre1].
        intros a (A1 & A2 & A3). repeat split; try assumption. now left.
      + intros a Ha. cbn. apply in_app_iff in Ha as [Ha|Ha].
        * now apply Hq in Ha as [_ Ha].
        * rewrite Forall_forall in Hpre1. apply Hpre1 in Ha as (_ & _ & ->). vm_compute. discriminate.
    - assert (kw' = kw) by congruence. subst kw'. exists (pre1 ++ [kev kw IN_DELETE_SELF false 0 []]).
      cbn [kset_queue k_watches k_next_wd k_queue k_next_cookie].
      rewrite (kpush_fresh (k_queue k ++ pre1)) by (intros a Ha; now apply Hfresh).
      rewrite kpush_fresh.
      + rewrite <- !app_assoc. split; [reflexivity|]. apply Forall_app. split.
        * eapply Forall_impl; [|exact Hpre1]. intros a (A1 & A2 & A3). repeat split; try assumption. now left.
        * constructor; [|constructor]. repeat split. now right.
      + intros a Ha. cbn. apply in_app_iff in Ha as [Ha|[<-|[]]].
        * apply in_app_iff in Ha as [Ha|Ha]; [now apply Hq in Ha as [_ Ha]|].
          rewrite Forall_forall in Hpre1. apply Hpre1 in Ha as (_ & _ & ->). vm_compute. discriminate.
        * vm_compute. discriminate.
  Qed.

  Lemma read_one_ignored t r k acc wd p : alookup N.eqb wd (pfw r) = Some p -> alookup beqb p (wfp r) = Some wd ->
    read_one_body C t (r, k, acc) {| k_wd := wd; k_mask := IN_IGNORED; k_cookie := 0; k_name := [] |} =
    Done ({| wfp := aremove beqb p (wfp r); pfw := aremove N.eqb wd (pfw r); mvf := mvf r; calls := calls r; pend := pend r |}, k,
          acc ++ [{| r_wd := wd; r_mask := IN_IGNORED; r_cookie := 0; r_name := []; r_path := p |}]).
  Proof.
    intros Hp Hw. unfold read_one_body. cbn [k_wd k_mask k_cookie k_name]. rewrite Hp.
    change (is_moved_from IN_IGNORED) with false. change (is_moved_to IN_IGNORED) with false.
    change (is_ignored IN_IGNORED) with true. change (is_directory IN_IGNORED) with false. cbv iota.
    cbn [pfw wfp mvf calls]. rewrite Hp, Hw, N.eqb_refl. rewrite andb_false_r. reflexivity.
  Qed.

  (* the watch state after the kernel dropped the watch kw of directory entry ep and the reader saw IN_IGNORED *)
  Definition dropped (r : rstate) (p : bytes) (wd : N) : rstate :=
    {| wfp := aremove beqb p (wfp r); pfw := aremove N.eqb wd (pfw r); mvf := mvf r; calls := calls r; pend := pend r |}.

  Lemma dropped_sync w t' k r ep kw k' :
    wf_fs w -> WInv (w_fs w) k r -> Cover (w_fs w) k r -> In ep (w_fs w) -> cov k r ep kw ->
    (forall e, In e t' -> f_dir e = true -> In e (w_fs w) /\ e <> ep) ->
    (forall e, In e (w_fs w) -> f_dir e = true -> e <> ep -> In e t') ->
    k_watches k' = filter (fun x => negb (N.eqb (kw_wd x) (kw_wd kw))) (k_watches k) ->
    k_next_wd k' = k_next_wd k -> (k_next_cookie k <= k_next_cookie k')%N ->
    WInv t' k' (dropped r (f_path ep) (kw_wd kw)) /\ Cover t' k' (dropped r (f_path ep) (kw_wd kw)).
  Proof.
    intros W I Cv Hep (Cw & Cp & Cf) Ht1 Ht2 Hw Hn Hc.
    destruct (watch_of_ino_some _ _ _ Cw) as [Hkw Ekw].
    assert (Hfil : forall x, In x (k_watches k') <-> In x (k_watches k) /\ kw_wd x <> kw_wd kw).
    { intros x. rewrite Hw, filter_In, negb_true_iff, N.eqb_neq. tauto. }
    assert (Hother : forall x e, In x (k_watches k) -> In e (w_fs w) -> f_ino e = kw_ino x -> kw_wd x <> kw_wd kw -> e <> ep).
    { intros x e Hx He Ei Hne ->. apply Hne. f_equal. apply (ino_inj_k k); [apply I| | |]; try assumption. congruence. }
    split.
    - constructor; cbn [dropped wfp pfw mvf].
      + intros x Hx. apply Hfil in Hx as [Hx _]. rewrite Hn. now apply (wi_lt _ _ _ I).
      + rewrite Hw. apply NoDup_map_filter, I.
      + rewrite Hw. apply NoDup_map_filter, I.
      + intros x Hx. apply Hfil in Hx as [Hx _]. now apply (wi_mask _ _ _ I).
      + intros x Hx. apply Hfil in Hx as [Hx Hne].
        destruct (wi_exact _ _ _ I x Hx) as (e & He & De & Se & Ie & Pe & We).
        assert (Ene : e <> ep) by (eapply Hother; eauto).
        exists e. split; [now apply Ht2|]. repeat split; try assumption.
        * now rewrite prem_neq.
        * rewrite wrem_neq; [assumption|]. intros E. apply Ene. apply (path_inj (w_fs w)); [apply W| | |]; assumption.
      + intros x wd Hx. destruct (bytes_eq_dec x (f_path ep)) as [->|Hne]; [now rewrite wrem_eq in Hx|].
        rewrite wrem_neq in Hx by assumption. destruct (wi_tight _ _ _ I x wd Hx) as ((kw0 & Hk0 & E0) & Hp).
        assert (Hwd : wd <> kw_wd kw) by (intros ->; congruence).
        split; [exists kw0; split; [apply Hfil; split; [assumption | congruence] | assumption]|].
        now rewrite prem_neq.
      + intros c x Hx. apply (wi_mvf _ _ _ I) in Hx. lia.
      + intros wd x Hx. apply prem_inv in Hx as [Hne Hx]. destruct (wi_pfw _ _ _ I _ _ Hx) as (kw0 & Hk0 & E0).
        exists kw0. split; [apply Hfil; split; [assumption | congruence] | assumption].
      + apply wkeys_rem, I.
    - intros e He De Se. destruct (Ht1 e He De) as [He0 Ene].
      destruct (Cv e He0 De Se) as (kw0 & C1 & C2 & C3). exists kw0.
      destruct (watch_of_ino_some _ _ _ C1) as [Hk0 Ek0].
      assert (Hne : kw_wd kw0 <> kw_wd kw).
      { intros E. assert (kw0 = kw) by (apply (wd_inj k); [apply I| | |]; assumption). subst kw0.
        apply Ene. apply (ino_inj w); try assumption. congruence. }
      split; [|split]; cbn [dropped wfp pfw].
      + apply watch_of_ino_in; [rewrite Hw; apply NoDup_map_filter, I | apply Hfil; now split | assumption].
      + now rewrite prem_neq.
      + rewrite wrem_neq; [assumption|]. intros E. apply Ene. apply (path_inj (w_fs w)); [apply W| | |]; assumption.
  Qed.

  Lemma self_mask_inert m : self_mask m -> inert m.
  Proof. intros [->| ->]; unfold inert; repeat split; vm_compute; reflexivity. Qed.

  Theorem step_rmdir w k r p w' : RSync w k r -> npath p -> p <> root -> apply_op w (Rmdir p) = Some w' ->
    let k1 := kernel_op k (w_fs w) (Rmdir p) in
    exists r' k' evs, read_batch C (w_fs w') (r, drainq k1, []) (k_queue k1) = Done (r', k', evs) /\ RSync w' k' r' /\
      Forall rsafe evs.
  Proof.
    intros S Np Hpr Ha k1. destruct S as [W Hr I Cv Hq Hpd].
    assert (W' : wf_fs w') by exact (wf_apply_op w (Rmdir p) w' W Np Ha).
    cbn [apply_op] in Ha.
    destruct (flookup p (w_fs w)) as [ep|] eqn:El; [|discriminate].
    destruct (f_dir ep) eqn:Dep; [|discriminate]. destruct (has_children p (w_fs w)) eqn:Ech; [discriminate|].
    cbn in Ha. injection Ha as <-. destruct (flookup_some _ _ _ El) as [Hep Eep].
    assert (Eino : ino_of (w_fs w) p = f_ino ep) by (unfold ino_of; now rewrite El).
    assert (Ht1 : forall e, In e (fremove p (w_fs w)) -> f_dir e = true -> In e (w_fs w) /\ e <> ep).
    { intros e He _. apply fremove_in in He as [He Hne]. split; [assumption | congruence]. }
    assert (Ht2 : forall e, In e (w_fs w) -> f_dir e = true -> e <> ep -> In e (fremove p (w_fs w))).
    { intros e He _ Hne. apply fremove_in. split; [assumption|]. intros E. apply Hne.
      apply (path_inj (w_fs w)); [apply W| | |]; congruence. }
    assert (Hroot' : isdir_in root (fremove p (w_fs w))).
    { destruct Hr as (e & He & Ee & De). exists e. split; [|auto]. apply Ht2; try assumption. intros ->. congruence. }
    subst k1. cbn [kernel_op w_fs]. rewrite Eino.
    set (di := ino_of (w_fs w) (dirname p)). set (n := basename p).
    destruct (watch_of_ino k (f_ino ep)) as [kw|] eqn:Ew.
    - destruct (watched_entry w k r ep kw W I Hep Ew) as (Sep & _ & Cep & Hkw & Mkw).
      destruct (kgone_spec k (f_ino ep) false kw Ew) as (pre & -> & Hpre); [rewrite Hq; intros a []|].
      rewrite Hq. cbn [app]. set (k3 := {| k_watches := _; k_next_wd := _; k_queue := _; k_next_cookie := _ |}).
      destruct Cep as (Cw & Cp & Cf). rewrite Eep in Cp, Cf.
      assert (Hpre_inert : Forall (inert_ev r) pre).
      { eapply Forall_impl; [|exact Hpre]. intros a (A1 & A2 & A3). split; [now apply self_mask_inert|].
        rewrite A1. eauto. }
      assert (Hpost : exists post, k_queue (knotify k3 di IN_DELETE true 0 n) = pre ++ [ign_ev kw] ++ post /\
                 k_watches (knotify k3 di IN_DELETE true 0 n) = k_watches k3 /\
                 k_next_wd (knotify k3 di IN_DELETE true 0 n) = k_next_wd k /\
                 k_next_cookie (knotify k3 di IN_DELETE true 0 n) = k_next_cookie k /\
                 Forall (inert_ev (dropped r p (kw_wd kw))) post /\ Forall (fun e => good_mask (k_mask e)) post).
      { destruct (knotify_cases k3 di IN_DELETE true 0 n) as [->|(kw' & Hw' & _ & ->)].
        - exists []. repeat split; constructor.
        - exists [kev kw' IN_DELETE true 0 n]. cbn [kset_queue k_queue k_watches k_next_wd k_next_cookie k3].
          rewrite kpush_snoc by (vm_compute; discriminate). repeat split; [|constructor; [split; reflexivity | constructor]].
          constructor; [|constructor]. split; [inert_mask|]. cbn [kev k_wd dropped pfw].
          apply watch_of_ino_some in Hw' as [Hk' _]. cbn [k3 k_watches] in Hk'.
          apply filter_In in Hk' as [Hk' Hne]. apply negb_true_iff, N.eqb_neq in Hne.
          rewrite prem_neq by assumption. destruct (wi_exact _ _ _ I kw' Hk') as (e & _ & _ & _ & _ & Pe & _). eauto. }
      destruct Hpost as (post & Eq & Ew3 & En3 & Ec3 & Hpost & Hpostg). rewrite Eq.
      rewrite read_batch_app.
      destruct (read_batch_inert' (fremove p (w_fs w)) r (drainq (knotify k3 di IN_DELETE true 0 n)) pre Hpd Hpre_inert [])
        as (evs1 & -> & HF1).
      cbn [app read_batch]. unfold ign_ev. rewrite read_one_body_eq by exact Hpd. rewrite (read_one_ignored _ _ _ _ _ p Cp Cf).
      fold (dropped r p (kw_wd kw)).
      destruct (read_batch_inert' (fremove p (w_fs w)) (dropped r p (kw_wd kw)) (drainq (knotify k3 di IN_DELETE true 0 n)) post Hpd Hpost
                  (evs1 ++ [{| r_wd := kw_wd kw; r_mask := IN_IGNORED; r_cookie := 0; r_name := []; r_path := p |}]))
        as (evs2 & -> & HF2).
      eexists _, _, _. split; [reflexivity|].
      assert (Hsafe : Forall rsafe (([] ++ evs1 ++ [{| r_wd := kw_wd kw; r_mask := IN_IGNORED; r_cookie := 0; r_name := []; r_path := p |}]) ++ evs2)).
      { cbn [app]. apply Forall_app. split; [apply Forall_app; split|].
        - apply (inert_raws_path r pre evs1 (kw_wd kw) p HF1); try assumption.
          eapply Forall_impl; [|exact Hpre]. intros a (A1 & A2 & _). now split.
        - constructor; [|constructor]. intros _. cbn [r_path]. now apply beqb_neq.
        - now apply (inert_raws_good _ post evs2 HF2). }
      split; [|exact Hsafe].
      destruct (dropped_sync w (fremove p (w_fs w)) k r ep kw (drainq (knotify k3 di IN_DELETE true 0 n)) W I Cv Hep)
        as [I' Cv']; try assumption.
      + unfold cov. rewrite Eep. now split.
      + cbn. rewrite Ec3. lia.
      + rewrite Eep in I', Cv'. constructor; try assumption. reflexivity.
    - cbn [kgone]. unfold kgone. rewrite Ew.
      destruct (knotify_inert (w_fs w) k r k di IN_DELETE true 0 n I eq_refl) as (A1 & B1 & C1 & D1);
        [rewrite Hq; constructor | inert_mask|].
      destruct (read_batch_inert' (fremove p (w_fs w)) r (drainq (knotify k di IN_DELETE true 0 n)) _ Hpd D1 []) as (evs & -> & HF).
      eexists _, _, _. split; [reflexivity|]. split.
      2:{ cbn [app]. apply (inert_raws_good r _ evs HF).
          apply (knotify_inv (fun e => good_mask (k_mask e))); [rewrite Hq; constructor | intros; split; reflexivity]. }
      constructor; try assumption; try reflexivity.
      + apply (WInv_ext' (w_fs w) _ k); try assumption; cbn; try assumption; [|rewrite C1; lia].
        intros e He De (kw & Hk & Ei). apply Ht2; try assumption. intros ->.
        rewrite (watch_of_ino_in k (f_ino ep) kw) in Ew; [discriminate | apply I | assumption | assumption].
      + apply (Cover_ext (w_fs w) _ k); try assumption. intros e He De. now apply Ht1.
  Qed.

  (* ------------------------------------------------------------------ the re-key loop (C14 at work) *)
  Section Rekey.
    Variables src dst : bytes.
    Hypothesis Hsrc : src <> [].
    Hypothesis Hsd : forall rest, under src (dst ++ sep :: rest) = false.   (* nothing below dst is below src *)
    Variable r0 : rstate.
    Hypothesis K1 : forall x wd, alookup beqb x (wfp r0) = Some wd -> under dst x = false.
    Hypothesis K2 : forall x y wd, alookup beqb x (wfp r0) = Some wd -> alookup beqb y (wfp r0) = Some wd -> x = y.

    Record RK (r : rstate) : Prop := {
      j1 : forall x wd, alookup beqb x (wfp r) = Some wd ->
             exists x0, alookup beqb x0 (wfp r0) = Some wd /\ (x = x0 \/ (under src x0 = true /\ x = rk src dst x0));
      j2 : forall x0 wd, alookup beqb x0 (wfp r0) = Some wd ->
             alookup beqb x0 (wfp r) = Some wd \/
             (under src x0 = true /\ alookup beqb x0 (wfp r) = None /\ alookup beqb (rk src dst x0) (wfp r) = Some wd /\
              alookup N.eqb wd (pfw r) = Some (rk src dst x0));
      j3 : forall wd, (forall x0, under src x0 = true -> alookup beqb x0 (wfp r0) <> Some wd) ->
             alookup N.eqb wd (pfw r) = alookup N.eqb wd (pfw r0);
      j5 : mvf r = mvf r0
    }.

    Lemma RK_init : RK r0.
    Proof. constructor; eauto. Qed.

    Lemma rk_under_dst x : under src x = true -> exists rest, rk src dst x = dst ++ sep :: rest /\ x = src ++ sep :: rest.
    Proof. intros H. apply under_spec in H as [rest ->]. exists rest. now rewrite rk_under. Qed.

    Lemma rk_inj x y : under src x = true -> under src y = true -> rk src dst x = rk src dst y -> x = y.
    Proof.
      intros Hx Hy E. destruct (rk_under_dst x Hx) as (a & Ea & ->). destruct (rk_under_dst y Hy) as (b & Eb & ->).
      rewrite Ea, Eb in E. apply app_inv_head in E. congruence.
    Qed.

    Lemma RK_step r x wd : RK r -> under src x = true -> alookup beqb x (wfp r) = Some wd ->
      RK {| wfp := aset beqb (rk src dst x) wd (aremove beqb x (wfp r)); pfw := aset N.eqb wd (rk src dst x) (pfw r);
            mvf := mvf r; calls := calls r; pend := pend r |}.
    Proof.
      intros J Hx Hb.
      assert (Hnx : forall y z, under src y = true -> under src z = true -> y = rk src dst z -> False).
      { intros y z Hy Hz E. destruct (rk_under_dst z Hz) as (a & Ea & _). rewrite Ea in E. rewrite E, Hsd in Hy. discriminate. }
      (* the binding of x is an original one *)
      assert (Hx0 : alookup beqb x (wfp r0) = Some wd).
      { destruct (j1 r J x wd Hb) as (x0 & H0 & [->|[Hu E]]); [exact H0|]. exfalso. exact (Hnx x x0 Hx Hu E). }
      constructor; cbn [wfp pfw mvf].
      - intros y wd' Hy. destruct (bytes_eq_dec y (rk src dst x)) as [->|Hne].
        + rewrite wset_eq in Hy. injection Hy as <-. exists x. split; [exact Hx0 | right; now split].
        + rewrite wset_neq in Hy by assumption. destruct (bytes_eq_dec y x) as [->|Hne2]; [now rewrite wrem_eq in Hy|].
          rewrite wrem_neq in Hy by assumption. now apply (j1 r J).
      - intros x0 wd0 H0. destruct (bytes_eq_dec x0 x) as [->|Hne].
        + assert (wd0 = wd) by congruence. subst wd0. right. split; [exact Hx|]. split; [|split].
          * rewrite wset_neq by (intros E; exact (Hnx x x Hx Hx E)). apply wrem_eq.
          * apply wset_eq.
          * apply pset_eq.
        + destruct (j2 r J x0 wd0 H0) as [Hs|(Hu & Hn & Hm & Hp)].
          * left. rewrite wset_neq.
            -- now rewrite wrem_neq.
            -- intros E. destruct (rk_under_dst x Hx) as (a & Ea & _). rewrite Ea in E.
               apply K1 in H0. rewrite E, under_app in H0. discriminate.
          * right. split; [exact Hu|]. split; [|split].
            -- rewrite wset_neq by (intros E; exact (Hnx x0 x Hu Hx E)). now rewrite wrem_neq.
            -- rewrite wset_neq by (intros E; apply Hne; now apply rk_inj).
               rewrite wrem_neq; [exact Hm|]. intros E. symmetry in E. exact (Hnx x x0 Hx Hu E).
            -- rewrite pset_neq; [exact Hp|]. intros ->. apply Hne. eapply K2; eauto.
      - intros wd' Hw. rewrite pset_neq; [now apply (j3 r J)|]. intros ->. now apply (Hw x).
      - apply J.
    Qed.

    Lemma rekey_loop_spec keys : forall r, RK r ->
      (forall x, under src x = true -> alookup beqb x (wfp r) <> None -> In x (map fst keys)) ->
      RK (rekey_loop keys src dst r) /\
      (forall x, under src x = true -> alookup beqb x (wfp (rekey_loop keys src dst r)) = None).
    Proof.
      induction keys as [|[p wd0] keys IH]; intros r J J4; cbn [rekey_loop].
      - split; [exact J|]. intros x Hx. destruct (alookup beqb x (wfp r)) eqn:E; [|reflexivity].
        exfalso. apply (J4 x Hx). congruence.
      - change (starts (src ++ [sep]) p) with (under src p). destruct (under src p) eqn:Hp.
        + destruct (alookup beqb p (wfp r)) as [wd|] eqn:Eb.
          * assert (Enp : replace_first src dst p = rk src dst p).
            { apply under_spec in Hp as [rest ->]. rewrite rk_under.
              change (src ++ sep :: rest) with (src ++ (sep :: rest)). now apply replace_first_prefix. }
            rewrite Enp. apply IH; [now apply RK_step|]. cbn [wfp]. intros x Hx Hb.
            destruct (bytes_eq_dec x (rk src dst p)) as [->|Hne].
            { exfalso. destruct (rk_under_dst p Hp) as (a & Ea & _). rewrite Ea, Hsd in Hx. discriminate. }
            rewrite wset_neq in Hb by assumption. destruct (bytes_eq_dec x p) as [->|Hne2]; [now rewrite wrem_eq in Hb|].
            rewrite wrem_neq in Hb by assumption. destruct (J4 x Hx Hb) as [E|Hin]; [cbn in E; congruence | exact Hin].
          * apply IH; [exact J|]. intros x Hx Hb. destruct (J4 x Hx Hb) as [E|Hin]; [cbn in E; congruence | exact Hin].
        + apply IH; [exact J|]. intros x Hx Hb. destruct (J4 x Hx Hb) as [E|Hin]; [cbn in E; congruence | exact Hin].
    Qed.

    Lemma alookup_fst {V} (x : bytes) (m : list (bytes * V)) : alookup beqb x m <> None -> In x (map fst m).
    Proof.
      induction m as [|[a v] m IH]; cbn; [congruence|]. destruct (beqb x a) eqn:E.
      - apply beqb_eq in E. auto.
      - auto.
    Qed.

    (* the whole loop, started on its own key list *)
    Theorem rekey_all : let r := rekey_loop (wfp r0) src dst r0 in
      RK r /\ (forall x, under src x = true -> alookup beqb x (wfp r) = None).
    Proof. apply rekey_loop_spec; [apply RK_init|]. intros x _. apply alookup_fst. Qed.
  End Rekey.

  (* ------------------------------------------------------------------ 2b: Rename *)
  Lemma rename_inv w p q w' : wf_fs w -> npath p -> npath q -> apply_op w (Rename p q) = Some w' ->
    exists ep t1, flookup p (w_fs w) = Some ep /\ p <> q /\ under p q = false /\ fisdir (dirname q) (w_fs w) = true /\
      w' = {| w_fs := frename p q t1; w_next_ino := w_next_ino w |} /\
      (forall e, In e (w_fs w) -> under q (f_path e) = false) /\
      ((flookup q (w_fs w) = None /\ t1 = w_fs w) \/
       (exists v, flookup q (w_fs w) = Some v /\ t1 = fremove q (w_fs w) /\
          ((f_dir ep = false /\ f_dir v = false) \/ (f_dir ep = true /\ f_dir v = true /\ has_children q (w_fs w) = false)))).
  Proof.
    intros W Np Nq H. cbn [apply_op] in H.
    destruct (flookup p (w_fs w)) as [e|] eqn:El; [|discriminate].
    destruct (beqb p q) eqn:Epq; [discriminate|]. destruct (under p q) eqn:Eu; [discriminate|].
    destruct (fisdir (dirname q) (w_fs w)) eqn:Edq; [|discriminate]. cbn in H.
    apply beqb_neq in Epq. destruct (fisdir_in _ _ Edq) as (dq & Hdq & Edq' & Ddq).
    assert (Udq : under (f_path dq) q = true) by (rewrite Edq'; now apply under_dirname).
    exists e. destruct (flookup q (w_fs w)) as [v|] eqn:Elq.
    - exists (fremove q (w_fs w)).
      assert (Hleaf : (f_dir e = false /\ f_dir v = false) \/ (f_dir e = true /\ f_dir v = true /\ has_children q (w_fs w) = false)).
      { destruct (f_dir e), (f_dir v), (has_children q (w_fs w)); cbn in H; try discriminate; auto. }
      assert (H' : w' = {| w_fs := frename p q (fremove q (w_fs w)); w_next_ino := w_next_ino w |}).
      { destruct (f_dir e), (f_dir v), (has_children q (w_fs w)); cbn in H; try discriminate; now inversion H. }
      destruct (flookup_some _ _ _ Elq) as [Hv Ev].
      repeat split; try assumption.
      + apply (nothing_below w q dq W Hdq Udq). destruct Hleaf as [[_ Hf]|(_ & _ & Hch)]; [left|now right].
        intros (x & Hx & Ex & Dx). assert (x = v) by (apply (path_inj (w_fs w)); [apply W| | |congruence]; assumption).
        congruence.
      + right. exists v. auto.
    - exists (w_fs w). injection H as <-. repeat split; try assumption; [|now left].
      apply (nothing_below w q dq W Hdq Udq). left. intros (x & Hx & Ex & _).
      apply flookup_none in Elq. apply Elq. rewrite <- Ex. now apply in_map.
  Qed.

  Lemma read_one_from t r k acc e wp :
    is_moved_from (k_mask e) = true -> is_ignored (k_mask e) = false -> is_create (k_mask e) = false ->
    alookup N.eqb (k_wd e) (pfw r) = Some wp ->
    read_one_body C t (r, k, acc) e =
      Done ({| wfp := wfp r; pfw := pfw r; mvf := aset N.eqb (k_cookie e) (src_path_of wp (k_name e)) (mvf r); calls := calls r;
               pend := if c_fix_moveout C && c_recursive C && is_directory (k_mask e)
                       then Some (k_cookie e, src_path_of wp (k_name e)) else pend r |},
            k, acc ++ [raw_ev wp e]).
  Proof.
    intros H1 H3 H5 Hp. unfold read_one_body. rewrite Hp, H1, H3, H5. now rewrite andb_false_r.
  Qed.

  Definition raw_to (wp : bytes) (e : kraw) : raw :=
    {| r_wd := k_wd e; r_mask := k_mask e; r_cookie := k_cookie e; r_name := k_name e; r_path := join wp (k_name e) |}.

  Lemma read_one_to_plain t r k acc e wp :
    is_moved_from (k_mask e) = false -> is_moved_to (k_mask e) = true -> is_ignored (k_mask e) = false ->
    is_create (k_mask e) = false -> alookup N.eqb (k_wd e) (pfw r) = Some wp ->
    (alookup N.eqb (k_cookie e) (mvf r) = None \/
     exists msrc, alookup N.eqb (k_cookie e) (mvf r) = Some msrc /\ alookup beqb msrc (wfp r) = None) ->
    (c_fix_movein C && c_recursive C && is_directory (k_mask e) && fisdir (src_path_of wp (k_name e)) t) = false ->
    read_one_body C t (r, k, acc) e = Done (r, k, acc ++ [raw_to wp e]).
  Proof.
    intros H1 H2 H3 H5 Hp Hl Hc. unfold read_one_body. rewrite Hp, H1, H2, H3, H5. unfold src_path_of in Hc.
    destruct Hl as [Hl|(msrc & Hl & Hw)]; rewrite Hl; [|rewrite Hw]; rewrite Hc; now rewrite andb_false_r.
  Qed.

  Lemma read_one_to_rekey t r k acc e wp msrc mwd :
    is_moved_from (k_mask e) = false -> is_moved_to (k_mask e) = true -> is_ignored (k_mask e) = false ->
    is_create (k_mask e) = false -> alookup N.eqb (k_wd e) (pfw r) = Some wp ->
    alookup N.eqb (k_cookie e) (mvf r) = Some msrc -> alookup beqb msrc (wfp r) = Some mwd ->
    read_one_body C t (r, k, acc) e =
      let sp := src_path_of wp (k_name e) in
      let r' := {| wfp := aset beqb sp mwd (aremove beqb msrc (wfp r)); pfw := aset N.eqb mwd sp (pfw r);
                   mvf := mvf r; calls := calls r; pend := pend r |} in
      Done ((if c_recursive C then rekey_loop (wfp r') msrc sp r' else r'), k, acc ++ [raw_to wp e]).
  Proof.
    intros H1 H2 H3 H5 Hp Hl Hw. unfold read_one_body. rewrite Hp, H1, H2, H3, H5, Hl, Hw. now rewrite andb_false_r.
  Qed.

  Lemma read_one_to_movein t r k acc e wp :
    is_moved_from (k_mask e) = false -> is_moved_to (k_mask e) = true -> is_ignored (k_mask e) = false ->
    is_create (k_mask e) = false -> alookup N.eqb (k_wd e) (pfw r) = Some wp ->
    (alookup N.eqb (k_cookie e) (mvf r) = None \/
     exists msrc, alookup N.eqb (k_cookie e) (mvf r) = Some msrc /\ alookup beqb msrc (wfp r) = None) ->
    (c_fix_movein C && c_recursive C && is_directory (k_mask e) && fisdir (src_path_of wp (k_name e)) t) = true ->
    read_one_body C t (r, k, acc) e =
      let sp := src_path_of wp (k_name e) in
      let '(r', k') := add_dirs C r k t (sp :: walk_dirs t sp) in Done (r', k', acc ++ [raw_to wp e]).
  Proof.
    intros H1 H2 H3 H5 Hp Hl Hc. unfold read_one_body. rewrite Hp, H1, H2, H3, H5. unfold src_path_of in *.
    destruct Hl as [Hl|(msrc & Hl & Hw)]; rewrite Hl; [|rewrite Hw]; rewrite Hc;
      destruct (add_dirs C r k t _) as [r' k']; now rewrite andb_false_r.
  Qed.

  (* the record after a directory IN_MOVED_FROM is its IN_MOVED_TO: the candidate is dropped, then the loop body *)
  Lemma read_one_after_from t r k acc e (b : bool) x : is_moved_to (k_mask e) = true ->
    amem N.eqb (k_wd e) (pfw r) = true ->
    pend r = (if c_fix_moveout C && b then Some (k_cookie e, x) else None) ->
    read_one C t (r, k, acc) e =
    read_one_body C t ({| wfp := wfp r; pfw := pfw r; mvf := mvf r; calls := calls r; pend := None |}, k, acc) e.
  Proof.
    intros Hm Hw Hp. destruct (c_fix_moveout C && b) eqn:E.
    - apply andb_true_iff in E as [Ef _]. unfold read_one. now rewrite (settle_pending_match C r k e _ _ Ef Hp Hm eq_refl Hw).
    - rewrite read_one_body_eq by exact Hp. destruct r; cbn in *. now subst.
  Qed.

  (* the two kernel events of a rename *)
  Definition mv_from (kw : kwatch) (isd : bool) (c : N) (n : bytes) := kev kw IN_MOVED_FROM isd c n.
  Definition mv_to (kw : kwatch) (isd : bool) (c : N) (n : bytes) := kev kw IN_MOVED_TO isd c n.

  Lemma rename_kernel k t p q : k_queue k = [] ->
    (forall kw, In kw (k_watches k) -> N.land IN_MOVED_FROM (kw_mask kw) <> 0%N /\ N.land IN_MOVED_TO (kw_mask kw) <> 0%N) ->
    let c := k_next_cookie k in let isd := fisdir p t in
    let k0 := {| k_watches := k_watches k; k_next_wd := k_next_wd k; k_queue := k_queue k; k_next_cookie := c + 1 |} in
    let k2 := knotify (knotify k0 (ino_of t (dirname p)) IN_MOVED_FROM isd c (basename p))
                      (ino_of t (dirname q)) IN_MOVED_TO isd c (basename q) in
    k2 = {| k_watches := k_watches k; k_next_wd := k_next_wd k;
            k_queue := match watch_of_ino k (ino_of t (dirname p)) with Some kw => [mv_from kw isd c (basename p)] | None => [] end ++
                       match watch_of_ino k (ino_of t (dirname q)) with Some kw => [mv_to kw isd c (basename q)] | None => [] end;
            k_next_cookie := c + 1 |}.
  Proof.
    intros Hq Hm c isd k0 k2. subst k2.
    assert (W0 : forall i, watch_of_ino k0 i = watch_of_ino k i) by (intros i; now apply watch_of_ino_ext).
    destruct (watch_of_ino k (ino_of t (dirname p))) as [kwp|] eqn:Ep.
    - destruct (watch_of_ino_some _ _ _ Ep) as [Hkp _]. destruct (Hm kwp Hkp) as [Hf _].
      rewrite (knotify_watched k0 _ _ _ _ _ kwp) by (rewrite ?W0; assumption).
      cbn [k0 k_queue]. rewrite Hq, kpush_nil.
      destruct (watch_of_ino k (ino_of t (dirname q))) as [kwq|] eqn:Eq.
      + destruct (watch_of_ino_some _ _ _ Eq) as [Hkq _]. destruct (Hm kwq Hkq) as [_ Ht].
        rewrite (knotify_watched _ _ _ _ _ _ kwq); [|rewrite (watch_of_ino_ext k); [exact Eq|reflexivity] | exact Ht].
        cbn [kset_queue k_queue k_watches k_next_wd k_next_cookie k0].
        rewrite (kpush_snoc [] (kev kwp IN_MOVED_FROM isd c (basename p))) by (cbn; destruct isd; vm_compute; discriminate).
        reflexivity.
      + rewrite knotify_unwatched by (rewrite (watch_of_ino_ext k); [exact Eq|reflexivity]). reflexivity.
    - rewrite (knotify_unwatched k0) by (rewrite W0; exact Ep).
      destruct (watch_of_ino k (ino_of t (dirname q))) as [kwq|] eqn:Eq.
      + destruct (watch_of_ino_some _ _ _ Eq) as [Hkq _]. destruct (Hm kwq Hkq) as [_ Ht].
        rewrite (knotify_watched k0 _ _ _ _ _ kwq) by (rewrite ?W0; assumption).
        cbn [k0 k_queue]. rewrite Hq, kpush_nil. reflexivity.
      + rewrite knotify_unwatched by (rewrite W0; exact Eq). subst k0. now rewrite Hq.
  Qed.

  Lemma mvf_aset_lt (m : list (N * bytes)) c p (b : N) : (forall c' x, alookup N.eqb c' m = Some x -> (c' < c)%N) ->
    forall c' x, alookup N.eqb c' (aset N.eqb c p m) = Some x -> (c' < c + 1)%N.
  Proof.
    intros H c' x Hx. destruct (N.eq_dec c' c) as [->|Hne]; [lia|]. rewrite pset_neq in Hx by assumption.
    apply H in Hx. lia.
  Qed.

  Lemma scope_rk p q x : scope q -> c_recursive C = true -> scope x -> scope (rk p q x).
  Proof.
    intros Sq Hrec Sx. unfold rk. destruct (beqb x p); [exact Sq|]. destruct (under p x) eqn:E; [|exact Sx].
    apply under_spec in E as [rest ->]. rewrite skipn_app_length. now apply scope_child.
  Qed.


  Lemma RSync_same' w w' k k' r r' : wf_fs w' -> RSync w k r ->
    (forall e, f_dir e = true -> scope (f_path e) -> In e (w_fs w) <-> In e (w_fs w')) ->
    k_watches k' = k_watches k -> k_next_wd k' = k_next_wd k -> k_queue k' = [] ->
    wfp r' = wfp r -> pfw r' = pfw r -> (forall c x, alookup N.eqb c (mvf r') = Some x -> (c < k_next_cookie k')%N) ->
    pend r' = None -> RSync w' k' r'.
  Proof.
    intros W' [W Hr I Cv Hq Hpd] Hfs Hw Hn Hq' Hwf Hpf Hmv Hpd'. constructor; try assumption.
    - destruct Hr as (e & He & Ee & De). exists e. split; [|auto]. apply Hfs; try assumption.
      rewrite Ee. unfold scope. destruct (c_recursive C); auto.
    - constructor; rewrite ?Hw, ?Hn, ?Hwf, ?Hpf; try apply I; [|exact Hmv].
      intros kw Hk. destruct (wi_exact _ _ _ I kw Hk) as (e & He & De & Se & R). exists e. split; [now apply Hfs | auto].
    - intros e He De Se. destruct (Cv e (proj2 (Hfs e De Se) He) De Se) as (kw & C1 & C2 & C3). exists kw.
      unfold cov. rewrite Hwf, Hpf, (watch_of_ino_ext k k') by assumption. auto.
  Qed.

  Lemma RSync_same w w' k k' r r' : wf_fs w' -> RSync w k r ->
    (forall e, f_dir e = true -> In e (w_fs w) <-> In e (w_fs w')) ->
    k_watches k' = k_watches k -> k_next_wd k' = k_next_wd k -> k_queue k' = [] ->
    wfp r' = wfp r -> pfw r' = pfw r -> (forall c x, alookup N.eqb c (mvf r') = Some x -> (c < k_next_cookie k')%N) ->
    pend r' = None -> RSync w' k' r'.
  Proof. intros W' S Hfs. apply (RSync_same' w); try assumption. intros e De _. now apply Hfs. Qed.

  (* Rename of a file: inside, in, out, replacing a file - the watch state is untouched *)
  Theorem step_rename_file w k r p q w' ep : RSync w k r -> npath p -> npath q ->
    N.land IN_MOVED_FROM (c_mask C) <> 0%N -> N.land IN_MOVED_TO (c_mask C) <> 0%N ->
    apply_op w (Rename p q) = Some w' -> flookup p (w_fs w) = Some ep -> f_dir ep = false ->
    fisdir (dirname p) (w_fs w) = true ->
    let k1 := kernel_op k (w_fs w) (Rename p q) in
    exists r' k' evs, read_batch C (w_fs w') (r, drainq k1, []) (k_queue k1) = Done (r', k', evs) /\ RSync w' k' r' /\
      wfp r' = wfp r /\ pfw r' = pfw r.
  Proof.
    intros S Np Nq Hmf Hmt Ha Elp Dep Edp k1. assert (S0 := S). destruct S as [W Hr I Cv Hq Hpd].
    assert (W' : wf_fs w') by exact (wf_apply_op w (Rename p q) w' W (conj Np Nq) Ha).
    destruct (rename_inv w p q w' W Np Nq Ha) as (ep' & t1 & Elp' & Hne & Hupq & Edq & -> & Hbelow & Hq1).
    assert (ep' = ep) by congruence. subst ep'. destruct (flookup_some _ _ _ Elp) as [Hep Eep].
    destruct (fisdir_in _ _ Edp) as (dp & Hdp & Edp' & Ddp). destruct (fisdir_in _ _ Edq) as (dq & Hdq & Edq' & Ddq).
    assert (Ip : ino_of (w_fs w) (dirname p) = f_ino dp) by (unfold ino_of; rewrite <- Edp'; now rewrite (flookup_in _ dp (wf_paths w W) Hdp)).
    assert (Iq : ino_of (w_fs w) (dirname q) = f_ino dq) by (unfold ino_of; rewrite <- Edq'; now rewrite (flookup_in _ dq (wf_paths w W) Hdq)).
    assert (Fp : fisdir p (w_fs w) = false) by (unfold fisdir; now rewrite Elp).
    assert (Fq : fisdir q (w_fs w) = false).
    { unfold fisdir. destruct Hq1 as [[-> _]|(v & -> & _ & [[_ Hv]|(Hd & _)])]; [reflexivity | exact Hv | congruence]. }
    (* nothing lies below the file p *)
    assert (Hbp : forall e, In e (w_fs w) -> under p (f_path e) = false).
    { apply (nothing_below w p dp W Hdp); [rewrite Edp'; now apply under_dirname|]. left.
      intros (x & Hx & Ex & Dx). assert (x = ep) by (apply (path_inj (w_fs w)); [apply W| | |]; congruence). congruence. }
    assert (Ht1 : forall e, f_dir e = true -> In e (w_fs w) <-> In e t1).
    { intros e De. destruct Hq1 as [[_ ->]|(v & Ev & -> & [[_ Hv]|(Hd & _)])]; [tauto | | congruence].
      rewrite fremove_in. split; [|tauto]. intros He. split; [assumption|]. intros E.
      destruct (flookup_some _ _ _ Ev) as [Hv' Ev']. assert (e = v) by (apply (path_inj (w_fs w)); [apply W| | |]; congruence).
      congruence. }
    assert (Hsub : forall e, In e t1 -> In e (w_fs w)).
    { intros e He. destruct Hq1 as [[_ ->]|(v & _ & -> & _)]; [assumption | now apply fremove_in in He]. }
    assert (Hren : forall e, In e (w_fs w) -> f_dir e = true -> ren p q e = e).
    { intros e He De. unfold ren. destruct (beqb (f_path e) p) eqn:E.
      - apply beqb_eq in E. assert (e = ep) by (apply (path_inj (w_fs w)); [apply W| | |]; congruence). congruence.
      - now rewrite Hbp. }
    assert (Hfs : forall e, f_dir e = true -> In e (w_fs w) <-> In e (frename p q t1)).
    { intros e De. rewrite frename_map. split.
      - intros He. rewrite <- (Hren e He De). apply in_map. now apply Ht1.
      - intros He. apply in_map_iff in He as (e0 & E0 & He0). assert (D0 : f_dir e0 = true) by (rewrite <- E0, ren_dir in De; exact De).
        rewrite Hren in E0; [subst e0; now apply Hsub | now apply Hsub | exact D0]. }
    subst k1. cbn [kernel_op w_fs]. rewrite Fq.
    rewrite rename_kernel; [|exact Hq|].
    2:{ intros kw Hk. rewrite (wi_mask _ _ _ I kw Hk). now split. }
    rewrite Ip, Iq, Fp. cbn [k_queue].
    set (c := k_next_cookie k). set (k0 := drainq _).
    destruct (npath_parts p Np) as (Ep & Gdp & Vbp & Jp). destruct (npath_parts q Nq) as (Eq & Gdq & Vbq & Jq).
    assert (SPp : src_path_of (dirname p) (basename p) = p) by (unfold src_path_of; destruct (basename p); [discriminate Vbp | exact Jp]).
    set (r1 := {| wfp := wfp r; pfw := pfw r; mvf := aset N.eqb c p (mvf r); calls := calls r; pend := pend r |}).
    assert (Hwp : alookup beqb p (wfp r) = None).
    { destruct (alookup beqb p (wfp r)) as [wd|] eqn:E; [|reflexivity]. exfalso.
      destruct (tight_entry w k r p wd I E) as (e & _ & He & De & _ & Ee & _).
      assert (e = ep) by (apply (path_inj (w_fs w)); [apply W| | |]; congruence). congruence. }
    (* the MOVED_FROM half *)
    rewrite read_batch_app.
    assert (Hfrom : exists ra evs1,
      read_batch C (frename p q t1) (r, k0, [])
        match watch_of_ino k (f_ino dp) with Some kw => [mv_from kw false c (basename p)] | None => [] end = Done (ra, k0, evs1) /\
      (ra = r \/ ra = r1) /\
      (alookup N.eqb c (mvf ra) = None \/ exists msrc, alookup N.eqb c (mvf ra) = Some msrc /\ alookup beqb msrc (wfp ra) = None)).
    { destruct (watch_of_ino k (f_ino dp)) as [kwp|] eqn:Ewp.
      - destruct (watched_entry w k r dp kwp W I Hdp Ewp) as (_ & _ & (_ & Pp & _) & _).
        cbn [read_batch]. rewrite read_one_body_eq by exact Hpd.
        rewrite (read_one_from _ _ _ _ _ (dirname p)); try (vm_compute; reflexivity);
          [|cbn [mv_from kev k_wd]; now rewrite Pp, Edp'].
        cbn [mv_from kev k_cookie k_name k_mask]. change (is_directory IN_MOVED_FROM) with false.
        rewrite andb_false_r, SPp. fold r1. eexists r1, _. split; [reflexivity|]. split; [now right|].
        right. exists p. cbn [r1 mvf wfp]. split; [apply pset_eq | exact Hwp].
      - exists r, []. split; [reflexivity|]. split; [now left|]. left.
        destruct (alookup N.eqb c (mvf r)) eqn:E; [|reflexivity]. apply (wi_mvf _ _ _ I) in E. unfold c in E. exfalso; clear - E; lia. }
    destruct Hfrom as (ra & evs1 & -> & Hra & Hlk).
    assert (Hra_w : wfp ra = wfp r /\ pfw ra = pfw r) by (destruct Hra as [->| ->]; now split).
    assert (Hra_p : pend ra = None) by (destruct Hra as [->| ->]; exact Hpd).
    assert (Hto : exists evs2,
      read_batch C (frename p q t1) (ra, k0, evs1)
        match watch_of_ino k (f_ino dq) with Some kw => [mv_to kw false c (basename q)] | None => [] end = Done (ra, k0, evs2)).
    { destruct (watch_of_ino k (f_ino dq)) as [kwq|] eqn:Ewq.
      - destruct (watched_entry w k r dq kwq W I Hdq Ewq) as (_ & _ & (_ & Pq & _) & _).
        cbn [read_batch]. rewrite read_one_body_eq by exact Hra_p.
        rewrite (read_one_to_plain _ _ _ _ _ (dirname q)); try (vm_compute; reflexivity).
        + eexists. reflexivity.
        + cbn [mv_to kev k_wd]. destruct Hra_w as [_ ->]. now rewrite Pq, Edq'.
        + exact Hlk.
        + cbn [mv_to kev k_mask]. change (is_directory IN_MOVED_TO) with false.
          destruct (c_fix_movein C), (c_recursive C); reflexivity.
      - exists evs1. reflexivity. }
    destruct Hto as (evs2 & ->). eexists _, _, _. split; [reflexivity|]. destruct Hra_w as [Hw1 Hw2].
    split; [|now split].
    apply (RSync_same w _ k k0 r ra W' S0 Hfs); try reflexivity; try assumption.
    cbn [k0 drainq kset_queue k_next_cookie]. destruct Hra as [->| ->].
    - intros c' x Hx. apply (wi_mvf _ _ _ I) in Hx. fold c in Hx. lia.
    - cbn [r1 mvf]. apply mvf_aset_lt; [exact 0%N | apply I].
  Qed.

  (* ------------------------------------------------------------------ 2b: a directory of the tree renamed over an empty directory of the tree *)
  (* phase 1, shared: the reader on MOVED_FROM; MOVED_TO of a directory inside the tree *)
  Lemma rename_dir_rekey w k r p q ep t_read k0 :
    wf_fs w -> isdir_in root (w_fs w) -> WInv (w_fs w) k r -> Cover (w_fs w) k r -> pend r = None ->
    npath p -> npath q -> c_recursive C = true ->
    flookup p (w_fs w) = Some ep -> f_dir ep = true -> scope p -> p <> root -> scope q -> q <> root ->
    p <> q -> under p q = false -> (forall e, In e (w_fs w) -> under q (f_path e) = false) ->
    fisdir (dirname q) (w_fs w) = true ->
    exists kwp kwq kwe r'' evs,
      watch_of_ino k (ino_of (w_fs w) (dirname p)) = Some kwp /\
      watch_of_ino k (ino_of (w_fs w) (dirname q)) = Some kwq /\ cov k r ep kwe /\
      read_batch C t_read (r, k0, [])
        [mv_from kwp true (k_next_cookie k) (basename p); mv_to kwq true (k_next_cookie k) (basename q)] = Done (r'', k0, evs) /\
      mvf r'' = aset N.eqb (k_next_cookie k) p (mvf r) /\ pend r'' = None /\
      (forall e kw, In e (w_fs w) -> f_dir e = true -> scope (f_path e) -> f_path e <> q -> cov k r e kw ->
         alookup beqb (rk p q (f_path e)) (wfp r'') = Some (kw_wd kw) /\
         alookup N.eqb (kw_wd kw) (pfw r'') = Some (rk p q (f_path e))) /\
      (forall e kw, In e (w_fs w) -> cov k r e kw -> f_path e <> p -> under p (f_path e) = false ->
         alookup N.eqb (kw_wd kw) (pfw r'') = Some (f_path e)) /\
      (forall y wd, alookup beqb y (wfp r'') = Some wd ->
         exists e kw, In e (w_fs w) /\ f_dir e = true /\ scope (f_path e) /\ f_path e <> q /\ cov k r e kw /\
                      kw_wd kw = wd /\ y = rk p q (f_path e)) /\
      Forall rsafe evs /\
      (forall wd x, alookup N.eqb wd (pfw r'') = Some x -> exists kw, In kw (k_watches k) /\ kw_wd kw = wd) /\
      NoDup (map fst (wfp r'')).
  Proof.
    intros W Hr I Cv Hpd Np Nq Hrec Elp Dep Sp Hpr Sq Hqr Hne Hupq Hbelow Edq.
    destruct (flookup_some _ _ _ Elp) as [Hep Eep].
    destruct (scope_parent p Np Sp Hpr) as [Sdp _]. destruct (scope_parent q Nq Sq Hqr) as [Sdq _].
    assert (Urp : under root p = true).
    { unfold scope in Sp. rewrite Hrec in Sp. destruct Sp as [Sp|Sp]; [contradiction | exact Sp]. }
    destruct Hr as (er & Her & Eer & Der).
    assert (Hdp : isdir_in (dirname p) (w_fs w)).
    { rewrite <- Eep. apply (wf_parent w W ep er Hep Her). now rewrite Eep, Eer. }
    destruct Hdp as (dp & Hdp & Edp & Ddp). destruct (fisdir_in _ _ Edq) as (dq & Hdq & Edq' & Ddq).
    rewrite <- Edp in Sdp. rewrite <- Edq' in Sdq.
    destruct (Cv dp Hdp Ddp Sdp) as (kwp & Cwp & Cpp & Cfp). destruct (Cv dq Hdq Ddq Sdq) as (kwq & Cwq & Cpq & Cfq).
    destruct (Cv ep Hep Dep) as (kwe & Cwe & Cpe & Cfe); [now rewrite Eep|].
    assert (Cep : cov k r ep kwe) by (split; [|split]; assumption). rewrite Eep in Cpe, Cfe.
    assert (Ip : ino_of (w_fs w) (dirname p) = f_ino dp) by (unfold ino_of; rewrite <- Edp; now rewrite (flookup_in _ dp (wf_paths w W) Hdp)).
    assert (Iq : ino_of (w_fs w) (dirname q) = f_ino dq) by (unfold ino_of; rewrite <- Edq'; now rewrite (flookup_in _ dq (wf_paths w W) Hdq)).
    exists kwp, kwq, kwe. rewrite Ip, Iq.
    set (c := k_next_cookie k).
    destruct (npath_parts p Np) as (Ep & Gdp & Vbp & Jp). destruct (npath_parts q Nq) as (Eq & Gdq & Vbq & Jq).
    assert (SPp : src_path_of (dirname p) (basename p) = p) by (unfold src_path_of; destruct (basename p); [discriminate Vbp | exact Jp]).
    assert (SPq : src_path_of (dirname q) (basename q) = q) by (unfold src_path_of; destruct (basename q); [discriminate Vbq | exact Jq]).
    cbn [read_batch]. rewrite read_one_body_eq by exact Hpd.
    rewrite (read_one_from _ _ _ _ _ (dirname p)); try (vm_compute; reflexivity); [|cbn [mv_from kev k_wd]; now rewrite Cpp, Edp].
    cbn [mv_from kev k_cookie k_name k_mask]. rewrite SPp.
    rewrite (read_one_after_from _ _ _ _ _ (c_recursive C && is_directory (N.lor IN_MOVED_FROM IN_ISDIR)) p);
      [|reflexivity | cbn [pfw mv_to kev k_wd]; unfold amem; now rewrite Cpq
       | cbn [pend mv_to kev k_cookie]; rewrite Hpd, andb_assoc; reflexivity].
    cbn [wfp pfw mvf calls].
    set (r1 := {| wfp := wfp r; pfw := pfw r; mvf := aset N.eqb c p (mvf r); calls := calls r; pend := None |}).
    rewrite (read_one_to_rekey _ r1 _ _ _ (dirname q) p (kw_wd kwe)); try (vm_compute; reflexivity);
      [|cbn [mv_to kev k_wd r1 pfw]; now rewrite Cpq, Edq' | cbn [mv_to kev k_cookie r1 mvf]; apply pset_eq | exact Cfe].
    cbn [mv_to kev k_name]. rewrite SPq, Hrec. cbv zeta.
    set (mwd := kw_wd kwe).
    set (r' := {| wfp := aset beqb q mwd (aremove beqb p (wfp r1)); pfw := aset N.eqb mwd q (pfw r1); mvf := mvf r1; calls := calls r1; pend := pend r1 |}).
    eexists _, _. split; [exact Cwp|]. split; [exact Cwq|]. split; [exact Cep|]. split; [reflexivity|].
    assert (B' : forall x wd, alookup beqb x (wfp r') = Some wd ->
                (x = q /\ wd = mwd) \/ (x <> q /\ x <> p /\ alookup beqb x (wfp r) = Some wd)).
    { intros x wd Hx. cbn [r' wfp r1] in Hx. destruct (bytes_eq_dec x q) as [->|Hxq].
      - rewrite wset_eq in Hx. left. split; congruence.
      - rewrite wset_neq in Hx by assumption. destruct (bytes_eq_dec x p) as [->|Hxp]; [now rewrite wrem_eq in Hx|].
        rewrite wrem_neq in Hx by assumption. right. auto. }
    assert (B'' : forall x wd, x <> q -> x <> p -> alookup beqb x (wfp r) = Some wd -> alookup beqb x (wfp r') = Some wd).
    { intros x wd Hxq Hxp Hx. cbn [r' wfp r1]. rewrite wset_neq by assumption. now rewrite wrem_neq. }
    assert (Gp := npath_gpath _ Np).
    assert (Hsd : forall rest, under p (q ++ sep :: rest) = false).
    { intros rest. apply under_disjoint; try assumption. rewrite <- Eep. now apply Hbelow. }
    assert (K1 : forall x wd, alookup beqb x (wfp r') = Some wd -> under q x = false).
    { intros x wd Hx. destruct (B' x wd Hx) as [[-> _]|(_ & _ & Hx')]; [apply under_irrefl|].
      destruct (tight_entry w k r x wd I Hx') as (e & _ & He & _ & _ & <- & _). now apply Hbelow. }
    assert (K2 : forall x y wd, alookup beqb x (wfp r') = Some wd -> alookup beqb y (wfp r') = Some wd -> x = y).
    { intros x y wd Hx Hy.
      destruct (B' x wd Hx) as [[-> Ex]|(Nxq & Nxp & Hx')]; destruct (B' y wd Hy) as [[-> Ey]|(Nyq & Nyp & Hy')]; try reflexivity.
      - subst wd. exfalso. apply Nyp. destruct (wi_tight _ _ _ I y mwd Hy') as [_ Py]. unfold mwd in Py. congruence.
      - subst wd. exfalso. apply Nxp. destruct (wi_tight _ _ _ I x mwd Hx') as [_ Px]. unfold mwd in Px. congruence.
      - destruct (wi_tight _ _ _ I x wd Hx') as [_ Px]. destruct (wi_tight _ _ _ I y wd Hy') as [_ Py]. congruence. }
    destruct (rekey_all p q (proj1 Gp) Hsd r' K1 K2) as [J T].
    set (r'' := rekey_loop (wfp r') p q r') in *.
    assert (Pf : forall e kw, In e (w_fs w) -> cov k r e kw -> f_path e <> p -> under p (f_path e) = false ->
               alookup N.eqb (kw_wd kw) (pfw r'') = Some (f_path e)).
    { intros e kw He (Cw & Cp & Cf) Nxp Eu. rewrite (j3 _ _ _ _ J).
      - cbn [r' pfw r1]. rewrite pset_neq; [exact Cp|]. intros E. apply Nxp. unfold mwd in E. rewrite E in Cp. congruence.
      - intros x0 Hu Hx0. destruct (B' x0 _ Hx0) as [[-> _]|(_ & _ & Hx0')]; [congruence|].
        destruct (wi_tight _ _ _ I x0 _ Hx0') as [_ P0]. assert (x0 = f_path e) by congruence. subst x0. congruence. }
    assert (F : forall e kw, In e (w_fs w) -> f_dir e = true -> scope (f_path e) -> f_path e <> q -> cov k r e kw ->
                alookup beqb (rk p q (f_path e)) (wfp r'') = Some (kw_wd kw) /\
                alookup N.eqb (kw_wd kw) (pfw r'') = Some (rk p q (f_path e))).
    { intros e kw He De Se Hxq (Cw & Cp & Cf).
      destruct (bytes_eq_dec (f_path e) p) as [Exp|Nxp].
      - assert (e = ep) by (apply (path_inj (w_fs w)); [apply W| | |]; congruence). subst e.
        assert (kw = kwe) by congruence. subst kw. rewrite Exp, rk_self. fold mwd.
        assert (Hb : alookup beqb q (wfp r') = Some mwd) by (cbn [r' wfp]; apply wset_eq).
        split.
        + destruct (j2 _ _ _ _ J q mwd Hb) as [Hs|(Hu & _)]; [exact Hs | congruence].
        + rewrite (j3 _ _ _ _ J); [cbn [r' pfw]; apply pset_eq|].
          intros x0 Hu Hx0. assert (x0 = q) by (eapply K2; eauto). subst x0. congruence.
      - assert (Hb : alookup beqb (f_path e) (wfp r') = Some (kw_wd kw)) by now apply B''.
        destruct (under p (f_path e)) eqn:Eu.
        + destruct (j2 _ _ _ _ J _ _ Hb) as [Hs|(_ & _ & Hm & Hp)]; [rewrite T in Hs by assumption; discriminate | now split].
        + rewrite rk_other by assumption. split.
          * destruct (j2 _ _ _ _ J _ _ Hb) as [Hs|(Hu & _)]; [exact Hs | congruence].
          * apply Pf; try assumption. split; [|split]; assumption. }
    split; [rewrite (j5 _ _ _ _ J); reflexivity|]. split; [unfold r''; now rewrite rekey_loop_pend|].
    split; [exact F|]. split; [exact Pf|]. split.
    2:{ split; [repeat constructor; apply good_rsafe; split; reflexivity|].
        destruct (watch_of_ino_some _ _ _ Cwe) as [Hkwe _]. split.
        - intros wd x Hx. unfold r'' in Hx. apply rekey_loop_pfw in Hx as [[x' Hx]|[y Hx]].
          + cbn [r' pfw r1] in Hx. apply pset_inv in Hx as [[-> _]|[_ Hx]]; [exists kwe; now split|].
            exact (wi_pfw _ _ _ I _ _ Hx).
          + destruct (B' y wd Hx) as [[_ ->]|(_ & _ & Hx')]; [exists kwe; now split|].
            exact (proj1 (wi_tight _ _ _ I _ _ Hx')).
        - unfold r''. apply rekey_loop_keys. cbn [r' wfp r1]. apply wkeys_set, wkeys_rem, I. }
    intros y wd Hy. destruct (j1 _ _ _ _ J y wd Hy) as (x0 & H0 & Hy0).
    destruct (B' x0 wd H0) as [[-> ->]|(Nq0 & Np0 & H0')].
    - assert (y = q) by (destruct Hy0 as [->|[Hu _]]; [reflexivity | congruence]). subst y.
      exists ep, kwe. rewrite Eep, rk_self.
      split; [exact Hep|]. split; [exact Dep|]. split; [exact Sp|]. split; [exact Hne|]. split; [exact Cep|]. split; reflexivity.
    - destruct (tight_entry w k r x0 wd I H0') as (e & kw & He & De & Se & Ee & Hk & Ewd & Ei).
      destruct (wi_tight _ _ _ I x0 wd H0') as [_ P0].
      assert (Ce : cov k r e kw).
      { split; [|split]; rewrite ?Ee, ?Ewd; try assumption. apply watch_of_ino_in; [apply I | assumption | congruence]. }
      exists e, kw. split; [exact He|]. split; [exact De|]. split; [exact Se|]. split; [congruence|]. split; [exact Ce|].
      split; [exact Ewd|]. rewrite Ee.
      destruct Hy0 as [->|[Hu ->]]; [|reflexivity].
      destruct (under p x0) eqn:Eu; [rewrite T in Hy by assumption; discriminate|]. now rewrite rk_other.
  Qed.

  Lemma read_one_ignored_other t r k acc wd p w' : alookup N.eqb wd (pfw r) = Some p ->
    alookup beqb p (wfp r) = Some w' -> w' <> wd ->
    read_one_body C t (r, k, acc) {| k_wd := wd; k_mask := IN_IGNORED; k_cookie := 0; k_name := [] |} =
    Done ({| wfp := wfp r; pfw := aremove N.eqb wd (pfw r); mvf := mvf r; calls := calls r; pend := pend r |}, k,
          acc ++ [{| r_wd := wd; r_mask := IN_IGNORED; r_cookie := 0; r_name := []; r_path := p |}]).
  Proof.
    intros Hp Hw Hne. unfold read_one_body. cbn [k_wd k_mask k_cookie k_name]. rewrite Hp.
    change (is_moved_from IN_IGNORED) with false. change (is_moved_to IN_IGNORED) with false.
    change (is_ignored IN_IGNORED) with true. change (is_directory IN_IGNORED) with false. cbv iota.
    cbn [pfw wfp mvf calls]. rewrite Hp, Hw. apply N.eqb_neq in Hne. rewrite Hne. rewrite andb_false_r. reflexivity.
  Qed.

  (* Rename of a directory inside the tree (to a fresh name): the moved directory and every directory below it carry
     the new prefix *)
  Theorem step_rename_dir_inside w k r p q w' ep : RSync w k r -> npath p -> npath q -> c_recursive C = true ->
    N.land IN_MOVED_FROM (c_mask C) <> 0%N -> N.land IN_MOVED_TO (c_mask C) <> 0%N ->
    apply_op w (Rename p q) = Some w' ->
    flookup p (w_fs w) = Some ep -> f_dir ep = true -> scope p -> p <> root -> scope q -> flookup q (w_fs w) = None ->
    let k1 := kernel_op k (w_fs w) (Rename p q) in
    exists r' k' evs, read_batch C (w_fs w') (r, drainq k1, []) (k_queue k1) = Done (r', k', evs) /\ RSync w' k' r'.
  Proof.
    intros S Np Nq Hrec Hmf Hmt Ha Elp Dep Sp Hpr Sq Elq k1. destruct S as [W Hr I Cv Hq Hpd].
    assert (W' : wf_fs w') by exact (wf_apply_op w (Rename p q) w' W (conj Np Nq) Ha).
    destruct (rename_inv w p q w' W Np Nq Ha) as (ep' & t1 & Elp' & Hne & Hupq & Edq & -> & Hbelow & Hq1).
    assert (ep' = ep) by congruence. subst ep'.
    destruct Hq1 as [[_ ->]|(v & Ev & _)]; [|congruence].
    destruct (flookup_some _ _ _ Elp) as [Hep Eep].
    assert (Hqr : q <> root).
    { intros E. destruct Hr as (er & Her & Eer & _). apply flookup_none in Elq. apply Elq. rewrite E, <- Eer. now apply in_map. }
    assert (Fq : fisdir q (w_fs w) = false) by (unfold fisdir; now rewrite Elq).
    assert (Fp : fisdir p (w_fs w) = true) by (unfold fisdir; now rewrite Elp).
    set (t' := frename p q (w_fs w)) in *.
    set (kf := {| k_watches := k_watches k; k_next_wd := k_next_wd k; k_queue := []; k_next_cookie := k_next_cookie k + 1 |}).
    destruct (rename_dir_rekey w k r p q ep t' kf W Hr I Cv Hpd Np Nq Hrec Elp Dep Sp Hpr Sq Hqr Hne Hupq Hbelow Edq)
      as (kwp & kwq & kwe & r'' & evs0 & Cwp & Cwq & Cep & Hrd1 & Hmv & Hpd2 & F & Pf & T & Hsafe0 & Lp2 & Kw2).
    subst k1. cbn [kernel_op w_fs]. rewrite Fq.
    rewrite rename_kernel; [|exact Hq|].
    2:{ intros kw Hk. rewrite (wi_mask _ _ _ I kw Hk). now split. }
    rewrite Cwp, Cwq, Fp. unfold drainq, kset_queue. cbn [k_watches k_next_wd k_queue k_next_cookie app]. fold kf.
    rewrite Hrd1. eexists _, _, _. split; [reflexivity|].
    assert (Hin' : forall e, In e (w_fs w) -> In (ren p q e) t').
    { intros e He. unfold t'. rewrite frename_map. now apply in_map. }
    assert (Hnq : forall e, In e (w_fs w) -> f_path e <> q).
    { intros e He E. apply flookup_none in Elq. apply Elq. rewrite <- E. now apply in_map. }
    assert (Urp : under root p = true).
    { unfold scope in Sp. rewrite Hrec in Sp. destruct Sp as [Sp'|Sp']; [contradiction | exact Sp']. }
    destruct Hr as (er & Her & Eer & Der).
    assert (Hren_root : ren p q er = er).
    { unfold ren. rewrite Eer. destruct (beqb root p) eqn:E; [apply beqb_eq in E; congruence|].
      now rewrite (under_antisym _ _ Urp). }
    constructor.
    - exact W'.
    - exists er. cbn [w_fs]. split; [|auto]. rewrite <- Hren_root. now apply Hin'.
    - cbn [w_fs]. constructor; cbn [kf k_watches k_next_wd k_next_cookie]; try apply I.
      + intros kw Hk. destruct (wi_exact _ _ _ I kw Hk) as (e & He & De & Se & Ie & Pe & We).
        assert (Ce : cov k r e kw).
        { split; [|split]; try assumption. apply watch_of_ino_in; [apply I | assumption | congruence]. }
        destruct (F e kw He De Se (Hnq e He) Ce) as [F1 F2].
        exists (ren p q e). rewrite ren_path, ren_dir, ren_ino. repeat split; try assumption.
        * now apply Hin'.
        * now apply scope_rk.
      + intros y wd Hy. destruct (T y wd Hy) as (e & kw & He & De & Se & Hnq' & Ce & Ewd & Ey).
        destruct (F e kw He De Se Hnq' Ce) as [_ F2].
        destruct Ce as (Cw' & _). destruct (watch_of_ino_some _ _ _ Cw') as [Hk _].
        split; [exists kw; now split|]. rewrite <- Ewd. now rewrite Ey.
      + rewrite Hmv. apply mvf_aset_lt; [exact 0%N | apply I].
      + exact Lp2.
      + exact Kw2.
    - cbn [w_fs]. intros e' He' De' Se'. unfold t' in He'. rewrite frename_map in He'.
      apply in_map_iff in He' as (e & <- & He).
      rewrite ren_dir in De'. rewrite ren_path in Se'.
      assert (Se : scope (f_path e)).
      { unfold rk in Se'. destruct (beqb (f_path e) p) eqn:E1; [apply beqb_eq in E1; now rewrite E1|].
        destruct (under p (f_path e)) eqn:E2; [|exact Se']. unfold scope. rewrite Hrec. right.
        eapply under_trans; eassumption. }
      destruct (Cv e He De' Se) as (kw & Ce). destruct (F e kw He De' Se (Hnq e He) Ce) as [F1 F2].
      exists kw. unfold cov. rewrite ren_ino, ren_path. split; [|split]; try assumption.
      destruct Ce as (Cw' & _). rewrite (watch_of_ino_ext k kf); [exact Cw' | reflexivity].
    - reflexivity.
    - exact Hpd2.
  Qed.

  Theorem step_rename_dir_over w k r p q w' ep v : RSync w k r -> npath p -> npath q -> c_recursive C = true ->
    N.land IN_MOVED_FROM (c_mask C) <> 0%N -> N.land IN_MOVED_TO (c_mask C) <> 0%N ->
    apply_op w (Rename p q) = Some w' ->
    flookup p (w_fs w) = Some ep -> f_dir ep = true -> scope p -> p <> root -> scope q -> q <> root ->
    flookup q (w_fs w) = Some v -> f_dir v = true ->
    let k1 := kernel_op k (w_fs w) (Rename p q) in
    exists r' k' evs, read_batch C (w_fs w') (r, drainq k1, []) (k_queue k1) = Done (r', k', evs) /\ RSync w' k' r' /\
      Forall rsafe evs.
  Proof.
    intros S Np Nq Hrec Hmf Hmt Ha Elp Dep Sp Hpr Sq Hqr Elq Dv k1. destruct S as [W Hr I Cv Hq Hpd].
    assert (W' : wf_fs w') by exact (wf_apply_op w (Rename p q) w' W (conj Np Nq) Ha).
    destruct (rename_inv w p q w' W Np Nq Ha) as (ep' & t1 & Elp' & Hne & Hupq & Edq & -> & Hbelow & Hq1).
    assert (ep' = ep) by congruence. subst ep'.
    destruct Hq1 as [[E _]|(v' & Ev & -> & _)]; [congruence|]. assert (v' = v) by congruence. subst v'.
    destruct (flookup_some _ _ _ Elp) as [Hep Eep]. destruct (flookup_some _ _ _ Elq) as [Hv Evp].
    assert (Sv : scope (f_path v)) by now rewrite Evp.
    destruct (Cv v Hv Dv Sv) as (kwv & Cvv). assert (Cvv' := Cvv). destruct Cvv' as (Cwv & Cpv & Cfv). rewrite Evp in Cpv, Cfv.
    assert (Fq : fisdir q (w_fs w) = true) by (unfold fisdir; now rewrite Elq).
    assert (Fp : fisdir p (w_fs w) = true) by (unfold fisdir; now rewrite Elp).
    assert (Iv : ino_of (w_fs w) q = f_ino v) by (unfold ino_of; now rewrite Elq).
    set (t' := frename p q (fremove q (w_fs w))) in *.
    set (kf := {| k_watches := filter (fun x => negb (N.eqb (kw_wd x) (kw_wd kwv))) (k_watches k); k_next_wd := k_next_wd k;
                  k_queue := []; k_next_cookie := k_next_cookie k + 1 |}).
    destruct (rename_dir_rekey w k r p q ep t' kf W Hr I Cv Hpd Np Nq Hrec Elp Dep Sp Hpr Sq Hqr Hne Hupq Hbelow Edq)
      as (kwp & kwq & kwe & r'' & evs0 & Cwp & Cwq & Cep & Hrd1 & Hmv & Hpd2 & F & Pf & T & Hsafe0 & Lp2 & Kw2).
    (* the kernel *)
    subst k1. cbn [kernel_op w_fs]. rewrite Fq.
    set (k2 := knotify (knotify _ _ _ _ _ _) _ _ _ _ _).
    assert (Ek2 : k2 = {| k_watches := k_watches k; k_next_wd := k_next_wd k;
              k_queue := [mv_from kwp true (k_next_cookie k) (basename p); mv_to kwq true (k_next_cookie k) (basename q)];
              k_next_cookie := k_next_cookie k + 1 |}).
    { unfold k2. rewrite rename_kernel; [|exact Hq|].
      - now rewrite Cwp, Cwq, Fp.
      - intros kw Hk. rewrite (wi_mask _ _ _ I kw Hk). now split. }
    rewrite Iv.
    destruct (kgone_spec k2 (f_ino v) true kwv) as (pre & -> & Hpre).
    { rewrite (watch_of_ino_ext k k2) by (rewrite Ek2; reflexivity). exact Cwv. }
    { rewrite Ek2. cbn [k_queue]. intros a [<-|[<-|[]]]; (split; [intros [H|H]; vm_compute in H; discriminate | vm_compute; discriminate]). }
    rewrite Ek2. unfold drainq, kset_queue. cbn [k_watches k_next_wd k_queue k_next_cookie]. fold kf.
    change ([mv_from kwp true (k_next_cookie k) (basename p); mv_to kwq true (k_next_cookie k) (basename q)] ++ pre ++ [ign_ev kwv])
      with ([mv_from kwp true (k_next_cookie k) (basename p); mv_to kwq true (k_next_cookie k) (basename q)] ++ (pre ++ [ign_ev kwv])).
    rewrite read_batch_app, Hrd1.
    (* the events about the replaced directory *)
    assert (Hpq'' : alookup N.eqb (kw_wd kwv) (pfw r'') = Some q).
    { rewrite <- Evp. apply Pf; try assumption; rewrite Evp; [congruence|]. destruct (under p q) eqn:E; congruence. }
    assert (Hne_wd : kw_wd kwe <> kw_wd kwv).
    { intros E. destruct Cep as (Cwe & _). destruct (watch_of_ino_some _ _ _ Cwe) as [Hke Eie].
      destruct (watch_of_ino_some _ _ _ Cwv) as [Hkv Eiv].
      assert (kwe = kwv) by (apply (wd_inj k); [apply I| | |]; assumption). subst kwe.
      assert (ep = v) by (apply (ino_inj w); try assumption; congruence). subst v. congruence. }
    assert (Hwq'' : alookup beqb q (wfp r'') = Some (kw_wd kwe)).
    { destruct (F ep kwe Hep Dep) as [F1 _]; [now rewrite Eep | congruence | exact Cep|]. now rewrite Eep, rk_self in F1. }
    assert (Hpre_inert : Forall (inert_ev r'') pre).
    { eapply Forall_impl; [|exact Hpre]. intros a (A1 & A2 & A3). split; [now apply self_mask_inert|]. rewrite A1. eauto. }
    rewrite read_batch_app.
    destruct (read_batch_inert' t' r'' kf pre Hpd2 Hpre_inert evs0) as (evs1 & -> & HF1).
    cbn [read_batch]. unfold ign_ev. rewrite read_one_body_eq by exact Hpd2. rewrite (read_one_ignored_other _ _ _ _ _ q (kw_wd kwe) Hpq'' Hwq'' Hne_wd).
    set (rf := {| wfp := wfp r''; pfw := aremove N.eqb (kw_wd kwv) (pfw r''); mvf := mvf r''; calls := calls r''; pend := pend r'' |}).
    eexists _, _, _. split; [reflexivity|]. split.
    2:{ apply Forall_app. split; [apply Forall_app; split; [exact Hsafe0|]|].
        - apply (inert_raws_path r'' pre evs1 (kw_wd kwv) q HF1); try assumption.
          eapply Forall_impl; [|exact Hpre]. intros a (A1 & A2 & _). now split.
        - constructor; [|constructor]. intros _. cbn [r_path]. now apply beqb_neq. }
    (* entries *)
    assert (Hin' : forall e, In e (w_fs w) -> f_path e <> q -> In (ren p q e) t').
    { intros e He Hn. unfold t'. rewrite frename_map. apply in_map. apply fremove_in. now split. }
    assert (Hfil : forall x, In x (k_watches kf) <-> In x (k_watches k) /\ kw_wd x <> kw_wd kwv).
    { intros x. cbn [kf k_watches]. rewrite filter_In, negb_true_iff, N.eqb_neq. tauto. }
    assert (Hnotv : forall e kw, In e (w_fs w) -> cov k r e kw -> f_path e <> q -> kw_wd kw <> kw_wd kwv).
    { intros e kw He (Cw & _) Hn E. destruct (watch_of_ino_some _ _ _ Cw) as [Hk Ei].
      destruct (watch_of_ino_some _ _ _ Cwv) as [Hkv Eiv].
      assert (kw = kwv) by (apply (wd_inj k); [apply I| | |]; assumption). subst kw.
      assert (e = v) by (apply (ino_inj w); try assumption; congruence). subst e. congruence. }
    assert (Urp : under root p = true).
    { unfold scope in Sp. rewrite Hrec in Sp. destruct Sp as [Sp'|Sp']; [contradiction | exact Sp']. }
    destruct Hr as (er & Her & Eer & Der).
    assert (Hren_root : ren p q er = er).
    { unfold ren. rewrite Eer. destruct (beqb root p) eqn:E; [apply beqb_eq in E; congruence|].
      now rewrite (under_antisym _ _ Urp). }
    constructor.
    - exact W'.
    - exists er. cbn [w_fs]. split; [|auto]. rewrite <- Hren_root. apply Hin'; [exact Her | congruence].
    - cbn [w_fs]. constructor; cbn [rf wfp pfw mvf].
      + intros x Hx. apply Hfil in Hx as [Hx _]. cbn [kf k_next_wd]. now apply (wi_lt _ _ _ I).
      + apply NoDup_map_filter, I.
      + apply NoDup_map_filter, I.
      + intros x Hx. apply Hfil in Hx as [Hx _]. now apply (wi_mask _ _ _ I).
      + intros kw Hk. apply Hfil in Hk as [Hk Hnw].
        destruct (wi_exact _ _ _ I kw Hk) as (e & He & De & Se & Ie & Pe & We).
        assert (Ce : cov k r e kw).
        { split; [|split]; try assumption. apply watch_of_ino_in; [apply I | assumption | congruence]. }
        assert (Hnq : f_path e <> q).
        { intros E. assert (e = v) by (apply (path_inj (w_fs w)); [apply W| | |]; congruence). subst e.
          destruct Ce as (Cw' & _). assert (kw = kwv) by congruence. congruence. }
        destruct (F e kw He De Se Hnq Ce) as [F1 F2].
        exists (ren p q e). rewrite ren_path, ren_dir, ren_ino. repeat split; try assumption.
        * now apply Hin'.
        * now apply scope_rk.
        * now rewrite prem_neq.
      + intros y wd Hy. destruct (T y wd Hy) as (e & kw & He & De & Se & Hnq & Ce & Ewd & Ey).
        assert (Hnw := Hnotv e kw He Ce Hnq). destruct (F e kw He De Se Hnq Ce) as [_ F2].
        destruct Ce as (Cw' & _). destruct (watch_of_ino_some _ _ _ Cw') as [Hk _].
        split; [exists kw; split; [apply Hfil; now split | exact Ewd]|].
        rewrite <- Ewd, prem_neq by assumption. now rewrite Ey.
      + rewrite Hmv. cbn [kf k_next_cookie]. apply mvf_aset_lt; [exact 0%N | apply I].
      + intros wd x Hx. apply prem_inv in Hx as [Hnw Hx]. destruct (Lp2 _ _ Hx) as (kw0 & Hk0 & E0).
        exists kw0. split; [apply Hfil; split; [assumption | congruence] | assumption].
      + exact Kw2.
    - cbn [w_fs]. intros e' He' De' Se'. unfold t' in He'. rewrite frename_map in He'.
      apply in_map_iff in He' as (e & <- & He). apply fremove_in in He as [He Hnq].
      rewrite ren_dir in De'. rewrite ren_path in Se'.
      assert (Se : scope (f_path e)).
      { unfold rk in Se'. destruct (beqb (f_path e) p) eqn:E1; [apply beqb_eq in E1; now rewrite E1|].
        destruct (under p (f_path e)) eqn:E2; [|exact Se']. unfold scope. rewrite Hrec. right.
        eapply under_trans; eassumption. }
      destruct (Cv e He De' Se) as (kw & Ce). destruct (F e kw He De' Se Hnq Ce) as [F1 F2].
      assert (Hnw := Hnotv e kw He Ce Hnq).
      exists kw. unfold cov. rewrite ren_ino, ren_path. cbn [rf wfp pfw]. split; [|split]; try assumption.
      * destruct Ce as (Cw' & _). destruct (watch_of_ino_some _ _ _ Cw') as [Hk Ei].
        apply watch_of_ino_in; [apply NoDup_map_filter, I | apply Hfil; now split | exact Ei].
      * now rewrite prem_neq.
    - reflexivity.
    - exact Hpd2.
  Qed.

  (* ------------------------------------------------------------------ 2b: a directory moved into the tree from outside *)
  Lemma ino_unwatched w k r d : wf_fs w -> WInv (w_fs w) k r -> ~ scope d -> watch_of_ino k (ino_of (w_fs w) d) = None.
  Proof.
    intros W I Hs. unfold ino_of. destruct (flookup d (w_fs w)) as [e|] eqn:El.
    - destruct (flookup_some _ _ _ El) as [He Ee]. apply (not_scope_unwatched w k r e W I He). now rewrite Ee.
    - destruct (watch_of_ino k 0) as [kw|] eqn:Ek; [|reflexivity]. exfalso.
      apply watch_of_ino_some in Ek as [Hk Ei]. destruct (wi_exact _ _ _ I kw Hk) as (e & He & _ & _ & Ie & _).
      assert (H0 := wf_fresh w W e He). lia.
  Qed.

  Lemma scope_under p x : c_recursive C = true -> scope p -> under p x = true -> scope x.
  Proof.
    unfold scope. intros -> [->|H] Hu; right; [exact Hu | eapply under_trans; eassumption].
  Qed.

  (* nothing in scope lies at or below a path that is not in scope and is not an ancestor of the root *)
  Lemma scope_not_below p x : c_recursive C = true -> ~ scope p -> under p root = false -> scope x ->
    x <> p /\ under p x = false.
  Proof.
    intros Hrec Hp Hpr Hx. split; [intros ->; contradiction|].
    destruct (under p x) eqn:E; [|reflexivity]. exfalso. unfold scope in *. rewrite Hrec in *.
    destruct Hx as [->|Hx]; [congruence|].
    destruct (under_cmp root p x Hx E) as [H|[H|H]]; [apply Hp; now left | apply Hp; now right | congruence].
  Qed.

  (* the reader's only event: the IN_MOVED_TO of the directory, under its real path *)
  Theorem step_rename_dir_in_ev w k r p q w' ep : RSync w k r -> npath p -> npath q ->
    c_recursive C = true -> c_fix_movein C = true ->
    N.land IN_MOVED_FROM (c_mask C) <> 0%N -> N.land IN_MOVED_TO (c_mask C) <> 0%N ->
    apply_op w (Rename p q) = Some w' ->
    flookup p (w_fs w) = Some ep -> f_dir ep = true -> ~ scope p -> under p root = false -> scope q ->
    flookup q (w_fs w) = None ->
    let k1 := kernel_op k (w_fs w) (Rename p q) in
    exists r' k' wd, read_batch C (w_fs w') (r, drainq k1, []) (k_queue k1) =
        Done (r', k', [{| r_wd := wd; r_mask := N.lor IN_MOVED_TO IN_ISDIR; r_cookie := k_next_cookie k;
                          r_name := basename q; r_path := q |}]) /\ RSync w' k' r'.
  Proof.
    intros S Np Nq Hrec Hfix Hmf Hmt Ha Elp Dep Sp Hpr Sq Elq k1. destruct S as [W Hr I Cv Hq Hpd].
    assert (W' : wf_fs w') by exact (wf_apply_op w (Rename p q) w' W (conj Np Nq) Ha).
    destruct (rename_inv w p q w' W Np Nq Ha) as (ep' & t1 & Elp' & Hne & Hupq & Edq & -> & Hbelow & Hq1).
    assert (ep' = ep) by congruence. subst ep'.
    destruct Hq1 as [[_ ->]|(v & Ev & _)]; [|congruence].
    destruct (flookup_some _ _ _ Elp) as [Hep Eep].
    destruct Hr as (er & Her & Eer & Der).
    assert (Hqr : q <> root).
    { intros E. apply flookup_none in Elq. apply Elq. rewrite E, <- Eer. now apply in_map. }
    destruct (scope_parent q Nq Sq Hqr) as [Sdq _].
    destruct (fisdir_in _ _ Edq) as (dq & Hdq & Edq' & Ddq). rewrite <- Edq' in Sdq.
    destruct (Cv dq Hdq Ddq Sdq) as (kwq & Cwq & Cpq & Cfq).
    assert (Iq : ino_of (w_fs w) (dirname q) = f_ino dq) by (unfold ino_of; rewrite <- Edq'; now rewrite (flookup_in _ dq (wf_paths w W) Hdq)).
    assert (Sdp : ~ scope (dirname p)).
    { intros H. apply Sp. destruct (npath_parts p Np) as (Ep & _). rewrite Ep. now apply scope_child. }
    assert (Fq : fisdir q (w_fs w) = false) by (unfold fisdir; now rewrite Elq).
    assert (Fp : fisdir p (w_fs w) = true) by (unfold fisdir; now rewrite Elp).
    subst k1. cbn [kernel_op w_fs]. rewrite Fq.
    rewrite rename_kernel; [|exact Hq|].
    2:{ intros kw Hk. rewrite (wi_mask _ _ _ I kw Hk). now split. }
    rewrite (ino_unwatched w k r (dirname p) W I Sdp), Iq, Cwq, Fp. cbn [k_queue app].
    set (c := k_next_cookie k). set (k0 := drainq _). set (t' := frename p q (w_fs w)) in *.
    destruct (npath_parts q Nq) as (Eq & Gdq & Vbq & Jq).
    assert (SPq : src_path_of (dirname q) (basename q) = q) by (unfold src_path_of; destruct (basename q); [discriminate Vbq | exact Jq]).
    assert (Hren : forall e, In e (w_fs w) -> scope (f_path e) -> ren p q e = e).
    { intros e He Se. destruct (scope_not_below p (f_path e) Hrec Sp Hpr Se) as [E1 E2]. unfold ren.
      apply beqb_neq in E1. now rewrite E1, E2. }
    assert (Hin' : forall e, In e (w_fs w) -> In (ren p q e) t') by (intros e He; unfold t'; rewrite frename_map; now apply in_map).
    assert (I0 : WInv t' k0 r).
    { apply (WInv_ext' (w_fs w) _ k); try assumption; try reflexivity; [|cbn; lia].
      intros e He De (kw & Hk & Ei). destruct (wi_exact _ _ _ I kw Hk) as (e' & He' & _ & Se' & Ie' & _).
      assert (e' = e) by (apply (ino_inj w); try assumption; congruence). subst e'.
      rewrite <- (Hren e He Se'). now apply Hin'. }
    assert (Hq' : In (ren p q ep) t' /\ f_path (ren p q ep) = q /\ f_dir (ren p q ep) = true).
    { split; [now apply Hin'|]. rewrite ren_path, ren_dir, Eep, rk_self. auto. }
    assert (Fq' : fisdir q t' = true).
    { apply (in_fisdir q t' (wf_paths _ W')). exists (ren p q ep). apply Hq'. }
    cbn [read_batch].
    rewrite read_one_body_eq by exact Hpd.
    rewrite (read_one_to_movein _ _ _ _ _ (dirname q)); try (vm_compute; reflexivity).
    2:{ cbn [mv_to kev k_wd]. now rewrite Cpq, Edq'. }
    2:{ left. cbn [mv_to kev k_cookie]. destruct (alookup N.eqb c (mvf r)) eqn:E; [|reflexivity].
        apply (wi_mvf _ _ _ I) in E. unfold c in E. exfalso; clear - E; lia. }
    2:{ cbn [mv_to kev k_mask k_name]. rewrite SPq, Hfix, Hrec, Fq'. reflexivity. }
    cbn [mv_to kev k_name]. rewrite SPq. cbv zeta.
    assert (Hps : Forall (dir_in_scope t') (q :: walk_dirs t' q)).
    { constructor.
      - exists (ren p q ep). destruct Hq' as (A & B & D). auto.
      - apply Forall_forall. intros x Hx. apply (walk_dirs_spec _ q W' Fq') in Hx as (e & He & Ee & De & Ue).
        exists e. repeat split; try assumption. now apply (scope_under q). }
    destruct (cgo_ok _ W' _ k0 r I0 Hps) as (r2 & k2 & _ & Hd & I2 & (Q2 & N2 & M2 & X2) & Cvps & _).
    cbn [w_fs] in Hd, I2, X2, Cvps.
    assert (Hpd2 : pend r2 = None).
    { assert (H := add_dirs_pend t' (q :: walk_dirs t' q) r k0). rewrite Hd in H. cbn [fst] in H. congruence. }
    rewrite Hd.
    exists r2, k2, (kw_wd kwq). split.
    { cbn [app]. unfold raw_to, mv_to, kev. cbn [k_wd k_mask k_cookie k_name]. do 4 f_equal.
      unfold src_path_of in SPq. destruct (basename q); [discriminate Vbq | exact SPq]. }
    assert (Hroot : ren p q er = er).
    { apply Hren; [exact Her|]. rewrite Eer. unfold scope. rewrite Hrec. now left. }
    constructor; cbn [w_fs]; try assumption.
    - exists er. split; [rewrite <- Hroot; now apply Hin' | auto].
    - intros e' He' De' Se'. unfold t' in He'. rewrite frename_map in He'. apply in_map_iff in He' as (e & <- & He).
      rewrite ren_dir in De'. rewrite ren_path in Se'.
      destruct (bytes_eq_dec (f_path e) p) as [E|E].
      + apply Cvps; [now apply Hin'|]. rewrite ren_path, E, rk_self. now left.
      + destruct (under p (f_path e)) eqn:Eu.
        * apply Cvps; [now apply Hin'|]. right. apply (walk_dirs_spec _ q W' Fq').
          exists (ren p q e). split; [now apply Hin'|]. split; [reflexivity|]. split; [now rewrite ren_dir|].
          rewrite ren_path. apply under_spec in Eu as [s ->]. rewrite rk_under. apply under_app.
        * rewrite rk_other in Se' by assumption.
          assert (Hr : ren p q e = e) by (unfold ren; apply beqb_neq in E; now rewrite E, Eu). rewrite Hr.
          destruct (Cv e He De' Se') as (kw & C1 & C2 & C3). exists kw. apply X2; [rewrite <- Hr; now apply Hin'|].
          split; [|split]; assumption.
  Qed.

  Theorem step_rename_dir_in w k r p q w' ep : RSync w k r -> npath p -> npath q ->
    c_recursive C = true -> c_fix_movein C = true ->
    N.land IN_MOVED_FROM (c_mask C) <> 0%N -> N.land IN_MOVED_TO (c_mask C) <> 0%N ->
    apply_op w (Rename p q) = Some w' ->
    flookup p (w_fs w) = Some ep -> f_dir ep = true -> ~ scope p -> under p root = false -> scope q ->
    flookup q (w_fs w) = None ->
    let k1 := kernel_op k (w_fs w) (Rename p q) in
    exists r' k' evs, read_batch C (w_fs w') (r, drainq k1, []) (k_queue k1) = Done (r', k', evs) /\ RSync w' k' r'.
  Proof.
    intros S Np Nq Hrec Hfix Hmf Hmt Ha Elp Dep Sp Hpr Sq Elq k1.
    destruct (step_rename_dir_in_ev w k r p q w' ep S Np Nq Hrec Hfix Hmf Hmt Ha Elp Dep Sp Hpr Sq Elq) as (r' & k' & wd & H1 & H2).
    eauto.
  Qed.


  (* ------------------------------------------------------------------ 2b: a directory moved in from outside over an empty directory of the tree *)
  (* While the reader installs the watches of the arrived tree it still records the replaced directory v under q
     (wfp[q] = wd_v, pfw[wd_v] = q); the kernel has already dropped that watch.  The first add_watch overwrites wfp[q]; the
     stale key of pfw is removed by the IN_IGNORED at the end.  [hat wd0 r] is r without that key; states are compared up to
     lookups ([leq]): the run from r is, up to lookups and that key, the run from [dropped r q wd_v]. *)
  Definition hat (wd0 : N) (r : rstate) : rstate :=
    {| wfp := wfp r; pfw := aremove N.eqb wd0 (pfw r); mvf := mvf r; calls := calls r; pend := pend r |}.

  Record leq (x y : rstate) : Prop := {
    lq_w : forall z, alookup beqb z (wfp x) = alookup beqb z (wfp y);
    lq_p : forall wd, alookup N.eqb wd (pfw x) = alookup N.eqb wd (pfw y);
    lq_m : mvf x = mvf y;
    lq_c : calls x = calls y;
    lq_d : pend x = pend y
  }.

  Lemma wrem_look z k (m : list (bytes * N)) : alookup beqb z (aremove beqb k m) = if beqb z k then None else alookup beqb z m.
  Proof. destruct (beqb z k) eqn:E; [apply beqb_eq in E; subst; apply wrem_eq | apply beqb_neq in E; now apply wrem_neq]. Qed.

  Lemma unlabel_lookup_ex x y wd p z : alookup N.eqb wd (pfw x) = alookup N.eqb wd (pfw y) ->
    (forall u, u <> p -> alookup beqb u (wfp x) = alookup beqb u (wfp y)) -> z <> p ->
    alookup beqb z (unlabel C x wd p) = alookup beqb z (unlabel C y wd p).
  Proof.
    intros Hp Hw Hz. unfold unlabel. rewrite <- Hp. destruct (c_fix_relabel C); [|now apply Hw].
    destruct (alookup N.eqb wd (pfw x)) as [known|]; [|now apply Hw].
    destruct (beqb known p) eqn:E; cbn [negb andb]; [now apply Hw|]. apply beqb_neq in E.
    rewrite <- (Hw known E). destruct (match alookup beqb known (wfp x) with Some w0 => N.eqb w0 wd | None => false end); [|now apply Hw].
    rewrite !wrem_look. destruct (beqb z known); [reflexivity | now apply Hw].
  Qed.

  Definition deadk (wd0 : N) (k : kst) : Prop := (wd0 < k_next_wd k)%N /\ forall kw, In kw (k_watches k) -> kw_wd kw <> wd0.

  Lemma add_watch_deadk wd0 r k t p r' k' wd : deadk wd0 k -> add_watch C r k t p = Some (r', k', wd) -> deadk wd0 k' /\ wd <> wd0.
  Proof.
    intros [L Hn] Ha. unfold add_watch in Ha. destruct (mem_nat (calls r) (c_faults C)); [discriminate|].
    unfold kadd_watch in Ha. destruct (flookup p t) as [e|]; [|discriminate].
    destruct (watch_of_ino k (f_ino e)) as [w0|] eqn:Ew.
    - injection Ha as <- <- <-. apply watch_of_ino_some in Ew as [Hk _]. split; [|now apply Hn]. split; [exact L|]. cbn.
      intros kw Hin. apply in_map_iff in Hin as (x0 & <- & Hx0). destruct (N.eqb (kw_wd x0) (kw_wd w0)); cbn; now apply Hn.
    - injection Ha as <- <- <-. split; [|lia]. split; [cbn; lia|]. cbn. intros kw Hin.
      apply in_app_iff in Hin as [Hin|[<-|[]]]; [now apply Hn | cbn; lia].
  Qed.

  (* one add_watch, the two runs side by side.  [ex]: the path whose wfp entry may still differ (the one being added) *)
  Lemma add_watch_hat wd0 x y k t p x' k' wd :
    (forall u, u <> p -> alookup beqb u (wfp x) = alookup beqb u (wfp y)) ->
    (forall w1, alookup N.eqb w1 (aremove N.eqb wd0 (pfw x)) = alookup N.eqb w1 (pfw y)) ->
    mvf x = mvf y -> calls x = calls y -> pend x = pend y ->
    add_watch C x k t p = Some (x', k', wd) -> wd <> wd0 ->
    exists y', add_watch C y k t p = Some (y', k', wd) /\ leq (hat wd0 x') y' /\
               alookup N.eqb wd0 (pfw x') = alookup N.eqb wd0 (pfw x).
  Proof.
    intros Hw Hp Hm Hc Hd Ha Hwd. unfold add_watch in *. rewrite <- Hc. rewrite Hfaults in *. cbn [mem_nat] in *.
    destruct (kadd_watch k t p (c_mask C)) as [[k1 w1]|]; [|discriminate]. injection Ha as <- <- <-.
    eexists. split; [reflexivity|]. split; [|cbn [pfw]; now rewrite pset_neq by congruence].
    assert (Hpw : alookup N.eqb w1 (pfw x) = alookup N.eqb w1 (pfw y)) by (rewrite <- Hp; now rewrite prem_neq).
    constructor; cbn [hat wfp pfw mvf calls pend]; try congruence.
    - intros z. destruct (bytes_eq_dec z p) as [->|Hz]; [now rewrite !wset_eq|]. rewrite !wset_neq by assumption.
      apply unlabel_lookup_ex; cbn [pfw wfp]; assumption.
    - intros w2. destruct (N.eq_dec w2 wd0) as [->|H2].
      + rewrite prem_eq. rewrite pset_neq by congruence. rewrite <- Hp. now rewrite prem_eq.
      + rewrite prem_neq by assumption. destruct (N.eq_dec w2 w1) as [->|H3]; [now rewrite !pset_eq|].
        rewrite !pset_neq by assumption. rewrite <- Hp. now rewrite prem_neq.
  Qed.

  Lemma bump_leq wd0 x y : leq (hat wd0 x) y -> leq (hat wd0 (bump x)) (bump y).
  Proof. intros [A B D E F]. constructor; cbn in *; congruence. Qed.

  Lemma add_dirs_hat wd0 t ps : forall x y k, deadk wd0 k -> leq (hat wd0 x) y ->
    snd (add_dirs C x k t ps) = snd (add_dirs C y k t ps) /\
    leq (hat wd0 (fst (add_dirs C x k t ps))) (fst (add_dirs C y k t ps)) /\
    alookup N.eqb wd0 (pfw (fst (add_dirs C x k t ps))) = alookup N.eqb wd0 (pfw x) /\
    deadk wd0 (snd (add_dirs C x k t ps)).
  Proof.
    induction ps as [|p ps IH]; intros x y k Hk L; cbn [add_dirs]; [auto|].
    destruct (add_watch C x k t p) as [[[x1 k1] wd]|] eqn:Ex.
    - destruct (add_watch_deadk wd0 x k t p x1 k1 wd Hk Ex) as [Hk1 Hwd].
      destruct L as [A B D E F]. cbn [hat wfp pfw mvf calls pend] in *.
      destruct (add_watch_hat wd0 x y k t p x1 k1 wd (fun u _ => A u) B D E F Ex Hwd) as (y1 & Ey & L1 & P1).
      rewrite Ey. destruct (IH x1 y1 k1 Hk1 L1) as (H1 & H2 & H3 & H4). split; [exact H1|]. split; [exact H2|]. split; [now rewrite H3 | exact H4].
    - assert (Ey : add_watch C y k t p = None).
      { unfold add_watch in *. rewrite Hfaults in *. cbn [mem_nat] in *. now destruct (kadd_watch k t p (c_mask C)) as [[k1 w1]|]. }
      rewrite Ey. cbn [fst snd]. split; [reflexivity|]. split; [now apply bump_leq|]. split; [reflexivity | exact Hk].
  Qed.

  Lemma add_watch_keys r k t p r' k' wd : NoDup (map fst (wfp r)) -> add_watch C r k t p = Some (r', k', wd) -> NoDup (map fst (wfp r')).
  Proof.
    intros Hn Ha. unfold add_watch in Ha. destruct (mem_nat _ _); [discriminate|].
    destruct (kadd_watch k t p (c_mask C)) as [[k1 w1]|]; [|discriminate]. injection Ha as <- _ _. cbn [wfp].
    apply wkeys_set. unfold unlabel. cbn [wfp pfw]. destruct (c_fix_relabel C); [|exact Hn].
    destruct (alookup N.eqb w1 (pfw r)) as [known|]; [|exact Hn]. destruct (negb (beqb known p) && _); [now apply wkeys_rem | exact Hn].
  Qed.

  Lemma add_dirs_keys t ps : forall r k, NoDup (map fst (wfp r)) -> NoDup (map fst (wfp (fst (add_dirs C r k t ps)))).
  Proof.
    induction ps as [|p ps IH]; intros r k Hn; cbn [add_dirs]; [exact Hn|].
    destruct (add_watch C r k t p) as [[[r1 k1] wd]|] eqn:E; [|exact Hn]. apply IH. eapply add_watch_keys; eassumption.
  Qed.

  Lemma WInv_leq t k x y : WInv t k y -> leq x y -> NoDup (map fst (wfp x)) -> WInv t k x.
  Proof.
    intros I [A B D E F] Hn. constructor; try apply I.
    - intros kw Hk. destruct (wi_exact _ _ _ I kw Hk) as (e & H1 & H2 & H3 & H4 & H5 & H6). exists e. rewrite B, A. auto 7.
    - intros z wd. rewrite A, B. apply I.
    - rewrite D. apply I.
    - intros wd z. rewrite B. apply I.
    - exact Hn.
  Qed.

  Lemma Cover_leq t k x y : Cover t k y -> leq x y -> Cover t k x.
  Proof.
    intros Cv [A B _ _ _] e He De Se. destruct (Cv e He De Se) as (kw & C1 & C2 & C3). exists kw.
    split; [exact C1|]. now rewrite B, A.
  Qed.

  (* the events: the IN_MOVED_TO of the directory under its real path, then records about the replaced directory, all under q *)
  Theorem step_rename_dir_in_over_ev w k r p q w' ep v : RSync w k r -> npath p -> npath q ->
    c_recursive C = true -> c_fix_movein C = true ->
    N.land IN_MOVED_FROM (c_mask C) <> 0%N -> N.land IN_MOVED_TO (c_mask C) <> 0%N ->
    apply_op w (Rename p q) = Some w' ->
    flookup p (w_fs w) = Some ep -> f_dir ep = true -> ~ scope p -> under p root = false -> scope q -> q <> root ->
    flookup q (w_fs w) = Some v -> f_dir v = true ->
    let k1 := kernel_op k (w_fs w) (Rename p q) in
    exists r' k' wd rest, read_batch C (w_fs w') (r, drainq k1, []) (k_queue k1) =
        Done (r', k', {| r_wd := wd; r_mask := N.lor IN_MOVED_TO IN_ISDIR; r_cookie := k_next_cookie k;
                         r_name := basename q; r_path := q |} :: rest) /\ RSync w' k' r' /\
      Forall (fun e => (self_mask (r_mask e) \/ r_mask e = IN_IGNORED) /\ r_path e = q) rest.
  Proof.
    intros S Np Nq Hrec Hfix Hmf Hmt Ha Elp Dep Sp Hpr Sq Hqr Elq Dv k1. destruct S as [W Hr I Cv Hq Hpd].
    assert (W' : wf_fs w') by exact (wf_apply_op w (Rename p q) w' W (conj Np Nq) Ha).
    destruct (rename_inv w p q w' W Np Nq Ha) as (ep' & t1 & Elp' & Hne & Hupq & Edq & -> & Hbelow & Hq1).
    assert (ep' = ep) by congruence. subst ep'.
    destruct Hq1 as [[E _]|(v' & Ev & -> & _)]; [congruence|]. assert (v' = v) by congruence. subst v'.
    destruct (flookup_some _ _ _ Elp) as [Hep Eep]. destruct (flookup_some _ _ _ Elq) as [Hv Evp].
    assert (Sv : scope (f_path v)) by now rewrite Evp.
    destruct (Cv v Hv Dv Sv) as (kwv & Cvv). assert (Cvv' := Cvv). destruct Cvv' as (Cwv & Cpv & Cfv). rewrite Evp in Cpv, Cfv.
    destruct (watch_of_ino_some _ _ _ Cwv) as [Hkv Eiv].
    assert (Fq : fisdir q (w_fs w) = true) by (unfold fisdir; now rewrite Elq).
    assert (Fp : fisdir p (w_fs w) = true) by (unfold fisdir; now rewrite Elp).
    assert (Iv : ino_of (w_fs w) q = f_ino v) by (unfold ino_of; now rewrite Elq).
    destruct Hr as (er & Her & Eer & Der).
    destruct (scope_parent q Nq Sq Hqr) as [Sdq _].
    destruct (fisdir_in _ _ Edq) as (dq & Hdq & Edq' & Ddq). rewrite <- Edq' in Sdq.
    destruct (Cv dq Hdq Ddq Sdq) as (kwq & Cwq & Cpq & Cfq).
    assert (Iq : ino_of (w_fs w) (dirname q) = f_ino dq) by (unfold ino_of; rewrite <- Edq'; now rewrite (flookup_in _ dq (wf_paths w W) Hdq)).
    assert (Sdp : ~ scope (dirname p)).
    { intros H. apply Sp. destruct (npath_parts p Np) as (Ep & _). rewrite Ep. now apply scope_child. }
    set (tm := fremove q (w_fs w)) in *. set (t' := frename p q tm) in *.
    set (c := k_next_cookie k).
    set (kf := {| k_watches := filter (fun x => negb (N.eqb (kw_wd x) (kw_wd kwv))) (k_watches k); k_next_wd := k_next_wd k;
                  k_queue := []; k_next_cookie := k_next_cookie k + 1 |}).
    (* the kernel *)
    subst k1. cbn [kernel_op w_fs]. rewrite Fq.
    set (k2 := knotify (knotify _ _ _ _ _ _) _ _ _ _ _).
    assert (Ek2 : k2 = {| k_watches := k_watches k; k_next_wd := k_next_wd k;
              k_queue := [mv_to kwq true c (basename q)]; k_next_cookie := k_next_cookie k + 1 |}).
    { unfold k2. rewrite rename_kernel; [|exact Hq|].
      - now rewrite (ino_unwatched w k r (dirname p) W I Sdp), Iq, Cwq, Fp.
      - intros kw Hk. rewrite (wi_mask _ _ _ I kw Hk). now split. }
    rewrite Iv.
    destruct (kgone_spec k2 (f_ino v) true kwv) as (pre & -> & Hpre).
    { rewrite (watch_of_ino_ext k k2) by (rewrite Ek2; reflexivity). exact Cwv. }
    { rewrite Ek2. cbn [k_queue]. intros a [<-|[]]; (split; [intros [H|H]; vm_compute in H; discriminate | vm_compute; discriminate]). }
    rewrite Ek2. unfold drainq, kset_queue. cbn [k_watches k_next_wd k_queue k_next_cookie]. fold kf.
    change ([mv_to kwq true c (basename q)] ++ pre ++ [ign_ev kwv]) with ([mv_to kwq true c (basename q)] ++ (pre ++ [ign_ev kwv])).
    rewrite read_batch_app.
    (* the file system *)
    destruct (npath_parts q Nq) as (Eq & Gdq & Vbq & Jq).
    assert (SPq : src_path_of (dirname q) (basename q) = q) by (unfold src_path_of; destruct (basename q); [discriminate Vbq | exact Jq]).
    assert (Hren : forall e, In e (w_fs w) -> scope (f_path e) -> ren p q e = e).
    { intros e He Se. destruct (scope_not_below p (f_path e) Hrec Sp Hpr Se) as [E1 E2]. unfold ren.
      apply beqb_neq in E1. now rewrite E1, E2. }
    assert (Hin' : forall e, In e (w_fs w) -> f_path e <> q -> In (ren p q e) t').
    { intros e He Hn. unfold t'. rewrite frename_map. apply in_map. apply fremove_in. now split. }
    assert (Hvq : forall e, In e (w_fs w) -> f_path e = q -> e = v).
    { intros e He E. apply (path_inj (w_fs w)); [apply W| | |]; congruence. }
    (* the state without the replaced directory *)
    set (rD0 := dropped r (f_path v) (kw_wd kwv)).
    destruct (dropped_sync w tm k r v kwv kf W I Cv Hv Cvv) as [ID0 CvD0]; try reflexivity;
      try (match goal with |- forall _, _ => fail 1 | _ => cbn; lia end).
    { intros e He De. apply fremove_in in He as [He Hn]. split; [exact He|]. intros ->. congruence. }
    { intros e He De Hn. apply fremove_in. split; [exact He|]. intros E. apply Hn. now apply Hvq. }
    fold rD0 in ID0, CvD0.
    assert (I0 : WInv t' kf rD0).
    { apply (WInv_ext' tm _ kf); try assumption; try reflexivity; try (match goal with |- forall _, _ => fail 1 | _ => lia end).
      intros e He De (kw & Hk & Ei). destruct (wi_exact _ _ _ ID0 kw Hk) as (e' & He' & _ & Se' & Ie' & _).
      apply fremove_in in He as [He Hn]. apply fremove_in in He' as [He' Hn'].
      assert (e' = e) by (apply (ino_inj w); try assumption; congruence). subst e'.
      rewrite <- (Hren e He Se'). now apply Hin'. }
    assert (Hq' : In (ren p q ep) t' /\ f_path (ren p q ep) = q /\ f_dir (ren p q ep) = true).
    { split; [apply Hin'; [exact Hep | congruence]|]. rewrite ren_path, ren_dir, Eep, rk_self. auto. }
    assert (Fq' : fisdir q t' = true).
    { apply (in_fisdir q t' (wf_paths _ W')). exists (ren p q ep). apply Hq'. }
    assert (Hps : Forall (dir_in_scope t') (q :: walk_dirs t' q)).
    { constructor.
      - exists (ren p q ep). destruct Hq' as (A & B & D). auto.
      - apply Forall_forall. intros x Hx. apply (walk_dirs_spec _ q W' Fq') in Hx as (e & He & Ee & De & Ue).
        exists e. repeat split; try assumption. now apply (scope_under q). }
    destruct (cgo_ok _ W' _ kf rD0 I0 Hps) as (rD & kD & Hg & HdD & ID & (QD & ND & MD & XD) & Cvps & _).
    cbn [w_fs] in Hg, HdD, ID, XD, Cvps.
    (* the reader: the IN_MOVED_TO *)
    cbn [read_batch]. rewrite read_one_body_eq by exact Hpd.
    rewrite (read_one_to_movein _ _ _ _ _ (dirname q)); try (vm_compute; reflexivity).
    2:{ cbn [mv_to kev k_wd]. now rewrite Cpq, Edq'. }
    2:{ left. cbn [mv_to kev k_cookie]. destruct (alookup N.eqb c (mvf r)) eqn:E; [|reflexivity].
        apply (wi_mvf _ _ _ I) in E. unfold c in E. exfalso; clear - E; lia. }
    2:{ cbn [mv_to kev k_mask k_name]. rewrite SPq, Hfix, Hrec, Fq'. reflexivity. }
    cbn [mv_to kev k_name]. rewrite SPq. cbv zeta.
    (* the two runs of add_dirs side by side *)
    assert (Hdk : deadk (kw_wd kwv) kf).
    { split; [cbn; now apply (wi_lt _ _ _ I)|]. intros kw Hk. cbn in Hk. apply filter_In in Hk as [_ Hk].
      now apply negb_true_iff, N.eqb_neq in Hk. }
    cbn [add_dirs cgo] in HdD, Hg |- *.
    destruct (add_watch C rD0 kf t' q) as [[[y1 ky1] wdy]|] eqn:Ey; [|discriminate]. fold (cgo t') in Hg.
    destruct (add_watch C r kf t' q) as [[[x1 kx1] wd1]|] eqn:Ex.
    2:{ exfalso. unfold add_watch in Ex, Ey. rewrite Hfaults in Ex, Ey. cbn [mem_nat] in Ex, Ey.
        destruct (kadd_watch kf t' q (c_mask C)) as [[ka wa]|]; discriminate. }
    destruct (add_watch_deadk _ _ _ _ _ _ _ _ Hdk Ex) as [Hdk1 Hwd1].
    destruct (add_watch_hat (kw_wd kwv) r rD0 kf t' q x1 kx1 wd1) as (y1' & Ey' & L1 & P1); try reflexivity; try assumption.
    { intros u Hu. unfold rD0, dropped. cbn [wfp]. rewrite Evp. now rewrite wrem_neq. }
    rewrite Ey in Ey'. injection Ey' as <- <- <-.
    destruct (add_dirs_hat (kw_wd kwv) t' (walk_dirs t' q) x1 y1 ky1 Hdk1 L1) as (HA1 & HA2 & HA3 & HA4).
    rewrite HdD in HA1, HA2. cbn [fst snd] in HA1, HA2.
    destruct (add_dirs C x1 ky1 t' (walk_dirs t' q)) as [rA kA] eqn:EA. cbn [fst snd] in HA1, HA2, HA3, HA4. subst kA.
    assert (HpdA : pend rA = None).
    { assert (H := add_dirs_pend t' (walk_dirs t' q) x1 ky1). rewrite EA in H. cbn [fst] in H.
      rewrite H. rewrite (add_watch_pend _ _ _ _ _ _ _ Ex). exact Hpd. }
    assert (HpA : alookup N.eqb (kw_wd kwv) (pfw rA) = Some q) by (rewrite HA3, P1; exact Cpv).
    destruct (Cvps (ren p q ep) (proj1 Hq')) as (kwn & Cn1 & Cn2 & Cn3); [rewrite (proj1 (proj2 Hq')); now left|].
    rewrite (proj1 (proj2 Hq')) in Cn3.
    destruct (watch_of_ino_some _ _ _ Cn1) as [Hkn _].
    assert (HwA : alookup beqb q (wfp rA) = Some (kw_wd kwn)) by (rewrite <- Cn3; apply (lq_w _ _ HA2)).
    assert (Hnn : kw_wd kwn <> kw_wd kwv) by (apply (proj2 HA4); exact Hkn).
    assert (Hpre_inert : Forall (inert_ev rA) pre).
    { eapply Forall_impl; [|exact Hpre]. intros a (A1 & A2 & A3). split; [now apply self_mask_inert|]. rewrite A1. eauto. }
    rewrite read_batch_app.
    destruct (read_batch_inert' t' rA kD pre HpdA Hpre_inert ([] ++ [raw_to (dirname q) (mv_to kwq true c (basename q))])) as (evs1 & -> & HF1).
    cbn [read_batch]. unfold ign_ev. rewrite read_one_body_eq by exact HpdA.
    rewrite (read_one_ignored_other _ _ _ _ _ q (kw_wd kwn) HpA HwA Hnn).
    change {| wfp := wfp rA; pfw := aremove N.eqb (kw_wd kwv) (pfw rA); mvf := mvf rA; calls := calls rA; pend := pend rA |}
      with (hat (kw_wd kwv) rA).
    exists (hat (kw_wd kwv) rA), kD, (kw_wd kwq),
           (evs1 ++ [{| r_wd := kw_wd kwv; r_mask := IN_IGNORED; r_cookie := 0; r_name := []; r_path := q |}]).
    split.
    { cbn [app]. unfold raw_to, mv_to, kev. cbn [k_wd k_mask k_cookie k_name]. do 3 f_equal. f_equal.
      unfold src_path_of in SPq. destruct (basename q); [discriminate Vbq | exact SPq]. }
    split.
    2:{ apply Forall_app. split; [|constructor; [split; [now right | reflexivity] | constructor]].
        clear -HF1 Hpre HpA. revert HF1. generalize evs1. induction Hpre as [|a pre0 (A1 & A2 & A3) _ IHp]; intros evs0 HF; inversion HF as [|? ev ? evs' (wp & Hwp & ->) HF']; subst; constructor.
        - unfold raw_ev, src_path_of. cbn [r_mask r_path]. rewrite A2. split; [now left|]. rewrite A1 in Hwp. congruence.
        - now apply IHp. }
    assert (Hroot : ren p q er = er).
    { apply Hren; [exact Her|]. rewrite Eer. unfold scope. rewrite Hrec. now left. }
    assert (CvD : Cover t' kD rD).
    { intros e' He' De' Se'. unfold t' in He'. rewrite frename_map in He'. apply in_map_iff in He' as (e & <- & He).
      assert (Hem := He). apply fremove_in in He as [He Hnq].
      rewrite ren_dir in De'. rewrite ren_path in Se'.
      destruct (bytes_eq_dec (f_path e) p) as [E|E].
      - apply Cvps; [apply Hin'; assumption|]. rewrite ren_path, E, rk_self. now left.
      - destruct (under p (f_path e)) eqn:Eu.
        + apply Cvps; [apply Hin'; assumption|]. right. apply (walk_dirs_spec _ q W' Fq').
          exists (ren p q e). split; [apply Hin'; assumption|]. split; [reflexivity|]. split; [now rewrite ren_dir|].
          rewrite ren_path. apply under_spec in Eu as [s ->]. rewrite rk_under. apply under_app.
        + rewrite rk_other in Se' by assumption.
          assert (Hr' : ren p q e = e) by (unfold ren; apply beqb_neq in E; now rewrite E, Eu). rewrite Hr'.
          destruct (CvD0 e Hem De' Se') as (kw & C1 & C2 & C3). exists kw. apply XD; [rewrite <- Hr'; apply Hin'; assumption|].
          split; [|split]; assumption. }
    assert (KA : NoDup (map fst (wfp rA))).
    { assert (H := add_dirs_keys t' (walk_dirs t' q) x1 ky1 (add_watch_keys _ _ _ _ _ _ _ (wi_keys _ _ _ I) Ex)). now rewrite EA in H. }
    constructor; cbn [w_fs].
    - exact W'.
    - exists er. split; [rewrite <- Hroot; apply Hin'; [exact Her | congruence] | auto].
    - exact (WInv_leq _ _ _ _ ID HA2 KA).
    - exact (Cover_leq _ _ _ _ CvD HA2).
    - now rewrite QD.
    - exact HpdA.
  Qed.

  Theorem step_rename_dir_in_over w k r p q w' ep v : RSync w k r -> npath p -> npath q ->
    c_recursive C = true -> c_fix_movein C = true ->
    N.land IN_MOVED_FROM (c_mask C) <> 0%N -> N.land IN_MOVED_TO (c_mask C) <> 0%N ->
    apply_op w (Rename p q) = Some w' ->
    flookup p (w_fs w) = Some ep -> f_dir ep = true -> ~ scope p -> under p root = false -> scope q -> q <> root ->
    flookup q (w_fs w) = Some v -> f_dir v = true ->
    let k1 := kernel_op k (w_fs w) (Rename p q) in
    exists r' k' evs, read_batch C (w_fs w') (r, drainq k1, []) (k_queue k1) = Done (r', k', evs) /\ RSync w' k' r' /\
      Forall rsafe evs.
  Proof.
    intros S Np Nq Hrec Hfix Hmf Hmt Ha Elp Dep Sp Hpr Sq Hqr Elq Dv k1.
    destruct (step_rename_dir_in_over_ev w k r p q w' ep v S Np Nq Hrec Hfix Hmf Hmt Ha Elp Dep Sp Hpr Sq Hqr Elq Dv)
      as (r' & k' & wd & rest & H1 & H2 & H3).
    eexists _, _, _. split; [exact H1|]. split; [exact H2|]. constructor; [apply good_rsafe; split; reflexivity|].
    eapply Forall_impl; [|exact H3]. intros e [_ Ep] _. rewrite Ep. now apply beqb_neq.
  Qed.

  (* ------------------------------------------------------------------ 2b: directory renames that do not concern the watch state:
     under a non-recursive watch (only the root is watched), or entirely outside the tree of a recursive watch;
     the target is absent or an empty directory *)
  Theorem step_rename_dir_plain w k r p q w' ep : RSync w k r -> npath p -> npath q ->
    N.land IN_MOVED_FROM (c_mask C) <> 0%N -> N.land IN_MOVED_TO (c_mask C) <> 0%N ->
    apply_op w (Rename p q) = Some w' -> flookup p (w_fs w) = Some ep -> f_dir ep = true ->
    p <> root -> q <> root -> under p root = false ->
    (c_recursive C = false \/ (~ scope p /\ ~ scope q)) ->
    let k1 := kernel_op k (w_fs w) (Rename p q) in
    exists r' k' evs, read_batch C (w_fs w') (r, drainq k1, []) (k_queue k1) = Done (r', k', evs) /\ RSync w' k' r' /\
      wfp r' = wfp r /\ pfw r' = pfw r.
  Proof.
    intros S Np Nq Hmf Hmt Ha Elp Dep Hpr Hqr Hupr Hplain k1. assert (S0 := S). destruct S as [W Hr I Cv Hq Hpd].
    assert (W' : wf_fs w') by exact (wf_apply_op w (Rename p q) w' W (conj Np Nq) Ha).
    destruct (rename_inv w p q w' W Np Nq Ha) as (ep' & t1 & Elp' & Hne & Hupq & Edq & -> & Hbelow & Hq1).
    assert (ep' = ep) by congruence. subst ep'. destruct (flookup_some _ _ _ Elp) as [Hep Eep].
    destruct (fisdir_in _ _ Edq) as (dq & Hdq & Edq' & Ddq).
    assert (Iq : ino_of (w_fs w) (dirname q) = f_ino dq) by (unfold ino_of; rewrite <- Edq'; now rewrite (flookup_in _ dq (wf_paths w W) Hdq)).
    assert (Fp : fisdir p (w_fs w) = true) by (unfold fisdir; now rewrite Elp).
    assert (Hrootq : under q root = false).
    { destruct Hr as (er & Her & Eer & _). rewrite <- Eer. now apply Hbelow. }
    (* neither p nor q is in scope *)
    assert (Hsp : ~ scope p /\ ~ scope q).
    { destruct Hplain as [Hrec|H]; [|exact H]. unfold scope. rewrite Hrec. split; congruence. }
    destruct Hsp as [Sp Sq].
    (* directories in scope are not touched by the rename *)
    assert (Hkeep : forall e, In e (w_fs w) -> scope (f_path e) -> ren p q e = e /\ f_path e <> q).
    { intros e He Se. split; [|intros E; apply Sq; now rewrite <- E].
      assert (E1 : f_path e <> p) by (intros E; apply Sp; now rewrite <- E).
      assert (E2 : under p (f_path e) = false).
      { destruct (under p (f_path e)) eqn:E; [|reflexivity]. exfalso. unfold scope in Se, Sp.
        destruct (c_recursive C); [|rewrite Se in E; congruence].
        destruct Se as [Se|Se]; [rewrite Se in E; congruence|].
        destruct (under_cmp root p _ Se E) as [H|[H|H]]; [apply Sp; now left | apply Sp; now right | congruence]. }
      unfold ren. apply beqb_neq in E1. now rewrite E1, E2. }
    assert (Hsub : forall e, In e t1 -> In e (w_fs w)).
    { intros e He. destruct Hq1 as [[_ ->]|(v & _ & -> & _)]; [assumption | now apply fremove_in in He]. }
    assert (Hint1 : forall e, In e (w_fs w) -> f_path e <> q -> In e t1).
    { intros e He Hn. destruct Hq1 as [[_ ->]|(v & _ & -> & _)]; [assumption | now apply fremove_in]. }
    assert (Hfs : forall e, f_dir e = true -> scope (f_path e) -> In e (w_fs w) <-> In e (frename p q t1)).
    { intros e De Se. rewrite frename_map. split.
      - intros He. destruct (Hkeep e He Se) as [Hr' Hn]. rewrite <- Hr'. apply in_map. now apply Hint1.
      - intros He. apply in_map_iff in He as (e0 & E0 & He0). assert (He0' := Hsub e0 He0).
        destruct (bytes_eq_dec (f_path e0) p) as [E|E].
        + exfalso. apply Sq. rewrite <- E0, ren_path, E, rk_self in Se. exact Se.
        + destruct (under p (f_path e0)) eqn:Eu.
          * exfalso. rewrite <- E0, ren_path in Se. apply under_spec in Eu as [s Es]. rewrite Es, rk_under in Se.
            unfold scope in Se, Sq. destruct (c_recursive C).
            -- destruct Se as [Se|Se]; [rewrite <- Se, under_app in Hrootq; discriminate|].
               destruct (under_cmp root q _ Se (under_app q s)) as [H|[H|H]]; [apply Sq; now left | apply Sq; now right | congruence].
            -- rewrite <- Se, under_app in Hrootq. discriminate.
          * assert (ren p q e0 = e0) by (unfold ren; apply beqb_neq in E; now rewrite E, Eu). congruence. }
    (* the kernel: no event for the replaced directory (not watched) *)
    assert (Uq : watch_of_ino k (ino_of (w_fs w) q) = None) by now apply (ino_unwatched w k r q W I).
    subst k1. cbn [kernel_op w_fs].
    set (k2 := knotify (knotify _ _ _ _ _ _) _ _ _ _ _).
    assert (Ek2 : k2 = {| k_watches := k_watches k; k_next_wd := k_next_wd k;
              k_queue := match watch_of_ino k (ino_of (w_fs w) (dirname p)) with Some kw => [mv_from kw (fisdir p (w_fs w)) (k_next_cookie k) (basename p)] | None => [] end ++
                         match watch_of_ino k (ino_of (w_fs w) (dirname q)) with Some kw => [mv_to kw (fisdir p (w_fs w)) (k_next_cookie k) (basename q)] | None => [] end;
              k_next_cookie := k_next_cookie k + 1 |}).
    { unfold k2. apply rename_kernel; [exact Hq|]. intros kw Hk. rewrite (wi_mask _ _ _ I kw Hk). now split. }
    assert (Ekg : (if fisdir q (w_fs w) then kgone k2 (ino_of (w_fs w) q) true else k2) = k2).
    { destruct (fisdir q (w_fs w)); [|reflexivity]. unfold kgone. rewrite (watch_of_ino_ext k k2) by (rewrite Ek2; reflexivity).
      now rewrite Uq. }
    rewrite Ekg, Ek2, Iq, Fp. cbn [k_queue].
    set (c := k_next_cookie k). set (k0 := drainq _).
    destruct (npath_parts p Np) as (Ep & Gdp & Vbp & Jp). destruct (npath_parts q Nq) as (Eq & Gdq & Vbq & Jq).
    assert (SPp : src_path_of (dirname p) (basename p) = p) by (unfold src_path_of; destruct (basename p); [discriminate Vbp | exact Jp]).
    assert (SPq : src_path_of (dirname q) (basename q) = q) by (unfold src_path_of; destruct (basename q); [discriminate Vbq | exact Jq]).
    set (r1 := {| wfp := wfp r; pfw := pfw r; mvf := aset N.eqb c p (mvf r); calls := calls r; pend := pend r |}).
    assert (Hwp : alookup beqb p (wfp r) = None).
    { destruct (alookup beqb p (wfp r)) as [wd|] eqn:E; [|reflexivity]. exfalso.
      destruct (tight_entry w k r p wd I E) as (e & _ & He & De & Se & Ee & _). apply Sp. now rewrite <- Ee. }
    rewrite read_batch_app.
    assert (Hfrom : exists ra evs1,
      read_batch C (frename p q t1) (r, k0, [])
        match watch_of_ino k (ino_of (w_fs w) (dirname p)) with Some kw => [mv_from kw true c (basename p)] | None => [] end = Done (ra, k0, evs1) /\
      (ra = r \/ ra = r1) /\
      (alookup N.eqb c (mvf ra) = None \/ exists msrc, alookup N.eqb c (mvf ra) = Some msrc /\ alookup beqb msrc (wfp ra) = None)).
    { destruct (watch_of_ino k (ino_of (w_fs w) (dirname p))) as [kwp|] eqn:Ewp.
      - destruct (watch_pfw (w_fs w) k r _ kwp I Ewp) as [wp Pp].
        (* the watched parent is an entry whose path is dirname p *)
        assert (Ewp' : wp = dirname p /\ c_recursive C = false).
        { unfold ino_of in Ewp. destruct (flookup (dirname p) (w_fs w)) as [dp|] eqn:Edp.
          - destruct (flookup_some _ _ _ Edp) as [Hdp Edp']. destruct (watched_entry w k r dp kwp W I Hdp Ewp) as (Sdp & _ & (_ & Pp' & _) & _).
            split; [congruence|]. destruct (c_recursive C) eqn:Hrec; [|reflexivity]. exfalso. apply Sp. rewrite Ep.
            apply scope_child; [now rewrite <- Edp' | exact Hrec].
          - exfalso. apply watch_of_ino_some in Ewp as [Hk Ei]. destruct (wi_exact _ _ _ I kwp Hk) as (e & He & _ & _ & Ie & _).
            assert (H0 := wf_fresh w W e He). lia. }
        destruct Ewp' as [-> Hnr]. cbn [read_batch]. rewrite read_one_body_eq by exact Hpd.
        rewrite (read_one_from _ _ _ _ _ (dirname p)); try (vm_compute; reflexivity); [|exact Pp].
        cbn [mv_from kev k_cookie k_name k_mask]. rewrite Hnr, andb_false_r. cbn [andb]. rewrite SPp. fold r1. eexists r1, _. split; [reflexivity|]. split; [now right|].
        right. exists p. cbn [r1 mvf wfp]. split; [apply pset_eq | exact Hwp].
      - exists r, []. split; [reflexivity|]. split; [now left|]. left.
        destruct (alookup N.eqb c (mvf r)) eqn:E; [|reflexivity]. apply (wi_mvf _ _ _ I) in E. unfold c in E. exfalso; clear - E; lia. }
    destruct Hfrom as (ra & evs1 & -> & Hra & Hlk).
    assert (Hra_w : wfp ra = wfp r /\ pfw ra = pfw r) by (destruct Hra as [->| ->]; now split).
    assert (Hra_p : pend ra = None) by (destruct Hra as [->| ->]; exact Hpd).
    assert (Hto : exists evs2,
      read_batch C (frename p q t1) (ra, k0, evs1)
        match watch_of_ino k (f_ino dq) with Some kw => [mv_to kw true c (basename q)] | None => [] end = Done (ra, k0, evs2)).
    { destruct (watch_of_ino k (f_ino dq)) as [kwq|] eqn:Ewq.
      - destruct (watched_entry w k r dq kwq W I Hdq Ewq) as (Sdq & _ & (_ & Pq & _) & _).
        cbn [read_batch]. rewrite read_one_body_eq by exact Hra_p.
        rewrite (read_one_to_plain _ _ _ _ _ (dirname q)); try (vm_compute; reflexivity).
        + eexists. reflexivity.
        + cbn [mv_to kev k_wd]. destruct Hra_w as [_ ->]. now rewrite Pq, Edq'.
        + exact Hlk.
        + destruct (c_recursive C) eqn:Hrec; [|now rewrite andb_false_r].
          exfalso. apply Sq. rewrite Eq. apply scope_child; [now rewrite <- Edq' | exact Hrec].
      - exists evs1. reflexivity. }
    destruct Hto as (evs2 & ->). eexists _, _, _. split; [reflexivity|]. destruct Hra_w as [Hw1 Hw2].
    split; [|now split].
    apply (RSync_same' w _ k k0 r ra W' S0 Hfs); try reflexivity; try assumption.
    cbn [k0 drainq kset_queue k_next_cookie]. destruct Hra as [->| ->].
    - intros c' x Hx. apply (wi_mvf _ _ _ I) in Hx. fold c in Hx. lia.
    - cbn [r1 mvf]. apply mvf_aset_lt; [exact 0%N | apply I].
  Qed.

  (* ------------------------------------------------------------------ 2b: a directory moved out of the tree.
     Everything under the root is still covered.  The departed sub-tree's watches and map entries are still there and
     the move-out candidate is set: pend = Some (cookie, old path); the next record processed (of any later operation)
     forgets them (settle_pending / forget_tree).  Pinned code: they stay behind for ever (finding F10). *)
  Theorem step_rename_dir_out w k r p q w' ep : RSync w k r -> npath p -> npath q -> c_recursive C = true ->
    N.land IN_MOVED_FROM (c_mask C) <> 0%N -> N.land IN_MOVED_TO (c_mask C) <> 0%N ->
    apply_op w (Rename p q) = Some w' -> flookup p (w_fs w) = Some ep -> f_dir ep = true ->
    scope p -> p <> root -> ~ scope q ->
    let k1 := kernel_op k (w_fs w) (Rename p q) in
    exists r' k' evs, read_batch C (w_fs w') (r, drainq k1, []) (k_queue k1) = Done (r', k', evs) /\
      wf_fs w' /\ isdir_in root (w_fs w') /\ Cover (w_fs w') k' r' /\ k_queue k' = [] /\
      wfp r' = wfp r /\ pfw r' = pfw r /\ k_watches k' = k_watches k /\
      pend r' = (if c_fix_moveout C then Some (k_next_cookie k, p) else None) /\
      mvf r' = aset N.eqb (k_next_cookie k) p (mvf r) /\ k_next_wd k' = k_next_wd k /\
      k_next_cookie k' = (k_next_cookie k + 1)%N /\ Forall rsafe evs.
  Proof.
    intros S Np Nq Hrec Hmf Hmt Ha Elp Dep Sp Hpr Sq k1. destruct S as [W Hr I Cv Hq Hpd].
    assert (W' : wf_fs w') by exact (wf_apply_op w (Rename p q) w' W (conj Np Nq) Ha).
    destruct (rename_inv w p q w' W Np Nq Ha) as (ep' & t1 & Elp' & Hne & Hupq & Edq & -> & Hbelow & Hq1).
    assert (ep' = ep) by congruence. subst ep'. destruct (flookup_some _ _ _ Elp) as [Hep Eep].
    destruct Hr as (er & Her & Eer & Der).
    assert (Hrootq : under q root = false) by (rewrite <- Eer; now apply Hbelow).
    assert (Urp : under root p = true).
    { unfold scope in Sp. rewrite Hrec in Sp. destruct Sp as [Sp'|Sp']; [contradiction | exact Sp']. }
    assert (Hqr : q <> root) by (intros E; apply Sq; unfold scope; rewrite Hrec; now left).
    assert (Fp : fisdir p (w_fs w) = true) by (unfold fisdir; now rewrite Elp).
    destruct (scope_parent p Np Sp Hpr) as [Sdp _].
    assert (Hdp : isdir_in (dirname p) (w_fs w)).
    { rewrite <- Eep. apply (wf_parent w W ep er Hep Her). now rewrite Eep, Eer. }
    destruct Hdp as (dp & Hdp & Edp & Ddp). rewrite <- Edp in Sdp.
    destruct (Cv dp Hdp Ddp Sdp) as (kwp & Cwp & Cpp & Cfp).
    assert (Ip : ino_of (w_fs w) (dirname p) = f_ino dp) by (unfold ino_of; rewrite <- Edp; now rewrite (flookup_in _ dp (wf_paths w W) Hdp)).
    assert (Sdq : ~ scope (dirname q)).
    { intros H. apply Sq. destruct (npath_parts q Nq) as (Eq & _). rewrite Eq. now apply scope_child. }
    assert (Uq : watch_of_ino k (ino_of (w_fs w) q) = None) by now apply (ino_unwatched w k r q W I).
    subst k1. cbn [kernel_op w_fs].
    set (k2 := knotify (knotify _ _ _ _ _ _) _ _ _ _ _).
    assert (Ek2 : k2 = {| k_watches := k_watches k; k_next_wd := k_next_wd k;
              k_queue := [mv_from kwp true (k_next_cookie k) (basename p)]; k_next_cookie := k_next_cookie k + 1 |}).
    { unfold k2. rewrite rename_kernel; [|exact Hq|].
      - now rewrite Ip, Cwp, (ino_unwatched w k r (dirname q) W I Sdq), Fp.
      - intros kw Hk. rewrite (wi_mask _ _ _ I kw Hk). now split. }
    assert (Ekg : (if fisdir q (w_fs w) then kgone k2 (ino_of (w_fs w) q) true else k2) = k2).
    { destruct (fisdir q (w_fs w)); [|reflexivity]. unfold kgone. rewrite (watch_of_ino_ext k k2) by (rewrite Ek2; reflexivity).
      now rewrite Uq. }
    rewrite Ekg, Ek2. cbn [k_queue read_batch].
    destruct (npath_parts p Np) as (Ep & Gdp & Vbp & Jp).
    assert (SPp : src_path_of (dirname p) (basename p) = p) by (unfold src_path_of; destruct (basename p); [discriminate Vbp | exact Jp]).
    rewrite read_one_body_eq by exact Hpd.
    rewrite (read_one_from _ _ _ _ _ (dirname p)); try (vm_compute; reflexivity); [|cbn [mv_from kev k_wd]; now rewrite Cpp, Edp].
    cbn [mv_from kev k_cookie k_name k_mask]. change (is_directory (N.lor IN_MOVED_FROM IN_ISDIR)) with true.
    rewrite Hrec, !andb_true_r, SPp, Hpd.
    eexists _, _, _. split; [reflexivity|]. cbn [wfp pfw pend mvf drainq kset_queue k_queue k_watches k_next_wd k_next_cookie w_fs app].
    split; [exact W'|].
    assert (Hkeep_root : ren p q er = er).
    { unfold ren. rewrite Eer. destruct (beqb root p) eqn:E; [apply beqb_eq in E; congruence|]. now rewrite (under_antisym _ _ Urp). }
    assert (Hsub : forall e, In e t1 -> In e (w_fs w)).
    { intros e He. destruct Hq1 as [[_ ->]|(v & _ & -> & _)]; [assumption | now apply fremove_in in He]. }
    split; [|split; [|repeat split; try reflexivity; repeat constructor; apply good_rsafe; split; reflexivity]].
    - exists er. split; [|auto]. rewrite frename_map, <- Hkeep_root. apply in_map.
      destruct Hq1 as [[_ ->]|(v & _ & -> & _)]; [assumption | apply fremove_in; split; [assumption | congruence]].
    - intros e' He' De' Se'. rewrite frename_map in He'. apply in_map_iff in He' as (e & <- & He0). assert (He := Hsub e He0).
      rewrite ren_dir in De'. rewrite ren_path in Se'.
      assert (Hnot : forall s, ~ scope (q ++ sep :: s)).
      { intros s H. unfold scope in H, Sq. rewrite Hrec in *. destruct H as [H|H]; [rewrite <- H, under_app in Hrootq; discriminate|].
        destruct (under_cmp root q _ H (under_app q s)) as [E|[E|E]]; [apply Sq; now left | apply Sq; now right | congruence]. }
      destruct (bytes_eq_dec (f_path e) p) as [E|E]; [rewrite E, rk_self in Se'; contradiction|].
      destruct (under p (f_path e)) eqn:Eu.
      { apply under_spec in Eu as [s Es]. rewrite Es, rk_under in Se'. now apply Hnot in Se'. }
      rewrite rk_other in Se' by assumption.
      assert (Hr' : ren p q e = e) by (unfold ren; apply beqb_neq in E; now rewrite E, Eu). rewrite Hr'.
      destruct (Cv e He De' Se') as (kw & C1 & C2 & C3). exists kw. split; [|split]; assumption.
  Qed.

  (* ------------------------------------------------------------------ 2b/2c: one step, and sequential histories *)
  Definition mask_ok : Prop :=
    N.land IN_CREATE (c_mask C) <> 0%N /\ N.land IN_MOVED_FROM (c_mask C) <> 0%N /\ N.land IN_MOVED_TO (c_mask C) <> 0%N.

  (* the operations for which the step lemma is proved (w = the world BEFORE the operation) *)
  Inductive covered_op (w : world) : op -> Prop :=
  | co_quiet o : quiet_op o -> op_np o -> covered_op w o                       (* Touch, Write, Chmod, Unlink *)
  | co_mkdir p : npath p -> covered_op w (Mkdir p)
  | co_rmdir p : npath p -> p <> root -> covered_op w (Rmdir p)
  | co_rename_file p q ep : npath p -> npath q -> flookup p (w_fs w) = Some ep -> f_dir ep = false ->
      fisdir (dirname p) (w_fs w) = true -> covered_op w (Rename p q)              (* inside, in, out, replacing a file *)
  | co_rename_dir p q ep : npath p -> npath q -> c_recursive C = true -> flookup p (w_fs w) = Some ep -> f_dir ep = true ->
      scope p -> p <> root -> scope q -> flookup q (w_fs w) = None -> covered_op w (Rename p q)    (* directory, inside the tree *)
  | co_rename_dir_in p q ep : npath p -> npath q -> c_recursive C = true -> c_fix_movein C = true ->
      flookup p (w_fs w) = Some ep -> f_dir ep = true -> ~ scope p -> under p root = false -> scope q ->
      flookup q (w_fs w) = None -> covered_op w (Rename p q)                      (* directory, moved in from outside *)
  | co_rename_dir_over p q ep v : npath p -> npath q -> c_recursive C = true -> flookup p (w_fs w) = Some ep -> f_dir ep = true ->
      scope p -> p <> root -> scope q -> q <> root -> flookup q (w_fs w) = Some v -> f_dir v = true ->
      covered_op w (Rename p q)                            (* directory of the tree over an empty directory of the tree *)
  | co_rename_dir_plain p q ep : npath p -> npath q -> flookup p (w_fs w) = Some ep -> f_dir ep = true ->
      p <> root -> q <> root -> under p root = false -> (c_recursive C = false \/ (~ scope p /\ ~ scope q)) ->
      covered_op w (Rename p q)               (* directory, non-recursive watch or entirely outside the tree *)
  | co_rename_dir_in_over p q ep v : npath p -> npath q -> c_recursive C = true -> c_fix_movein C = true ->
      flookup p (w_fs w) = Some ep -> f_dir ep = true -> ~ scope p -> under p root = false -> scope q -> q <> root ->
      flookup q (w_fs w) = Some v -> f_dir v = true ->
      covered_op w (Rename p q).              (* directory, moved in from outside over an empty directory of the tree *)

  Lemma safe_generic w k r o w' r' k' evs : k_queue k = [] ->
    match o with
    | Rmdir p => watch_of_ino k (ino_of (w_fs w) p) = None
    | Rename p q => fisdir q (w_fs w) = false \/ watch_of_ino k (ino_of (w_fs w) q) = None
    | _ => True
    end ->
    read_batch C (w_fs w') (r, drainq (kernel_op k (w_fs w) o), []) (k_queue (kernel_op k (w_fs w) o)) = Done (r', k', evs) ->
    Forall rsafe evs.
  Proof.
    intros Hq Hno H. eapply read_batch_good; [|constructor|exact H]. apply kernel_good; [rewrite Hq; constructor | exact Hno].
  Qed.

  Theorem cover_step_safe w k r o w' : mask_ok -> RSync w k r -> covered_op w o -> apply_op w o = Some w' ->
    let k1 := kernel_op k (w_fs w) o in
    exists r' k' evs, read_batch C (w_fs w') (r, drainq k1, []) (k_queue k1) = Done (r', k', evs) /\ RSync w' k' r' /\
      Forall rsafe evs.
  Proof.
    intros (M1 & M2 & M3) S Ho Ha k1. assert (Hq := rs_queue _ _ _ S). assert (W := rs_wf _ _ _ S).
    destruct Ho as [o Hqo Hn|p Hn|p Hn Hr|p q ep Np Nq El De Ed|p q ep Np Nq Hrec El De Sp Hpr Sq Elq
                    |p q ep Np Nq Hrec Hfix El De Sp Hpr Sq Elq|p q ep v Np Nq Hrec El De Sp Hpr Sq Hqr Elq Dv
                    |p q ep Np Nq El De Hpr Hqr Hupr Hpl|p q ep v Np Nq Hrec Hfix El De Sp Hpr Sq Hqr Elq Dv].
    - destruct (step_quiet w k r o w' S Hn Hqo Ha) as (evs & H1 & _ & H2). eexists _, _, _. split; [exact H1|]. split; [exact H2|].
      eapply (safe_generic w k r o w' _ _ _ Hq); [|exact H1]. destruct o; try contradiction; exact I.
    - destruct (step_mkdir w k r p w' S Hn Ha M1) as (r' & k' & evs & H1 & H2 & _). eexists _, _, _. split; [exact H1|]. split; [exact H2|].
      eapply (safe_generic w k r (Mkdir p) w' _ _ _ Hq); [exact I | exact H1].
    - apply step_rmdir; assumption.
    - destruct (step_rename_file w k r p q w' ep S Np Nq M2 M3 Ha El De Ed) as (r' & k' & evs & H1 & H2 & _).
      eexists _, _, _. split; [exact H1|]. split; [exact H2|]. eapply (safe_generic w k r (Rename p q) w' _ _ _ Hq); [|exact H1].
      left. destruct (rename_inv w p q w' W Np Nq Ha) as (ep' & t1 & Elp & _ & _ & _ & _ & _ & Hq1).
      assert (ep' = ep) by congruence. subst ep'. unfold fisdir.
      destruct Hq1 as [[-> _]|(v & -> & _ & [[_ Hv]|(Hd & _)])]; [reflexivity | exact Hv | congruence].
    - destruct (step_rename_dir_inside w k r p q w' ep S Np Nq Hrec M2 M3 Ha El De Sp Hpr Sq Elq) as (r' & k' & evs & H1 & H2).
      eexists _, _, _. split; [exact H1|]. split; [exact H2|]. eapply (safe_generic w k r (Rename p q) w' _ _ _ Hq); [|exact H1].
      left. unfold fisdir. now rewrite Elq.
    - destruct (step_rename_dir_in w k r p q w' ep S Np Nq Hrec Hfix M2 M3 Ha El De Sp Hpr Sq Elq) as (r' & k' & evs & H1 & H2).
      eexists _, _, _. split; [exact H1|]. split; [exact H2|]. eapply (safe_generic w k r (Rename p q) w' _ _ _ Hq); [|exact H1].
      left. unfold fisdir. now rewrite Elq.
    - eapply step_rename_dir_over; eassumption.
    - destruct (step_rename_dir_plain w k r p q w' ep S Np Nq M2 M3 Ha El De Hpr Hqr Hupr Hpl) as (r' & k' & evs & H1 & H2 & _).
      eexists _, _, _. split; [exact H1|]. split; [exact H2|]. eapply (safe_generic w k r (Rename p q) w' _ _ _ Hq); [|exact H1].
      right. apply (ino_unwatched w k r q W (rs_inv _ _ _ S)).
      destruct Hpl as [Hrec|[_ Hs]]; [|exact Hs]. unfold scope. now rewrite Hrec.
    - eapply step_rename_dir_in_over; eassumption.
  Qed.

  Theorem cover_step w k r o w' : mask_ok -> RSync w k r -> covered_op w o -> apply_op w o = Some w' ->
    let k1 := kernel_op k (w_fs w) o in
    exists r' k' evs, read_batch C (w_fs w') (r, drainq k1, []) (k_queue k1) = Done (r', k', evs) /\ RSync w' k' r'.
  Proof.
    intros M S Ho Ha k1. destruct (cover_step_safe w k r o w' M S Ho Ha) as (r' & k' & evs & H1 & H2 & _). eauto.
  Qed.

  (* op; read-all; op; read-all; ...   (None = the reader crashed) *)
  Fixpoint rrun (w : world) (k : kst) (r : rstate) (ops : list op) : option (world * kst * rstate) :=
    match ops with
    | [] => Some (w, k, r)
    | o :: ops' =>
      match apply_op w o with
      | None => rrun w k r ops'
      | Some w' => let k1 := kernel_op k (w_fs w) o in
                   match read_batch C (w_fs w') (r, drainq k1, []) (k_queue k1) with
                   | Done (r', k', _) => rrun w' k' r' ops'
                   | Crash _ => None
                   end
      end
    end.

  Fixpoint ops_covered (w : world) (ops : list op) : Prop :=
    match ops with
    | [] => True
    | o :: ops' => match apply_op w o with
                   | None => ops_covered w ops'
                   | Some w' => covered_op w o /\ ops_covered w' ops'
                   end
    end.

  Theorem cover_sequential ops : mask_ok -> forall w k r, RSync w k r -> ops_covered w ops ->
    exists w' k' r', rrun w k r ops = Some (w', k', r') /\ RSync w' k' r'.
  Proof.
    intros M. induction ops as [|o ops IH]; intros w k r S Hc; cbn [rrun ops_covered] in *.
    - eauto.
    - destruct (apply_op w o) as [w'|] eqn:Ea; [|now apply IH].
      destruct Hc as [Ho Hc]. destruct (cover_step w k r o w' M S Ho Ea) as (r' & k' & evs & -> & S').
      now apply IH.
  Qed.

  (* from a fresh watch *)
  Theorem cover_from_start ops w : mask_ok -> wf_fs w -> fisdir root (w_fs w) = true -> ops_covered w ops ->
    exists r0 k0 w' k' r', construct C kinit (w_fs w) = Some (r0, k0) /\ rrun w k0 r0 ops = Some (w', k', r') /\
      wf_fs w' /\ Cover (w_fs w') k' r'.
  Proof.
    intros M W Hroot Hc. destruct (construct_cover w W Hroot) as (r0 & k0 & Hcons & I & Cv & Hq & _ & Hp0).
    assert (S : RSync w k0 r0) by (constructor; try assumption; now apply fisdir_in).
    destruct (cover_sequential ops M w k0 r0 S Hc) as (w' & k' & r' & Hrun & S').
    exists r0, k0, w', k', r'. split; [assumption|]. split; [assumption|]. split; apply S'.
  Qed.
End Cover.

(* ================================================================== the pipeline: AOp o; ARead (whole queue) *)
Require Import WD.Model.DelayQueue WD.Model.Grouping WD.Model.Pipeline.

Definition buf_ready (b : st * rst) : Prop :=
  batch (snd b) = [] /\ grouped (snd b) = [] /\ deleted_self (snd b) = false.

Lemma pstep_read_all P s r' k' evs : buf_ready (p_buf s) ->
  read_batch (pc_reader P) (w_fs (p_world s)) (p_r s, drainq (p_k s), []) (k_queue (p_k s)) = Done (r', k', evs) ->
  exists s' ob, pstep P s (ARead (length (k_queue (p_k s)))) = Done (s', ob) /\
    p_world s' = p_world s /\ p_k s' = k' /\ p_r s' = r' /\ p_out s' = p_out s.
Proof.
  intros (B1 & B2 & B3) Hrd. unfold pstep. rewrite B3, firstn_all, skipn_all.
  unfold drainq, kset_queue in Hrd. rewrite Hrd.
  destruct (number (pc_reader P) (p_next s) evs) as [nevs tbl].
  destruct (p_buf s) as [d rs] eqn:Eb. cbn [snd] in B1, B2, B3. unfold gstep. rewrite B1, B2, B3.
  eexists _, _. split; [reflexivity|]. cbn. auto.
Qed.

Theorem pipe_cover_step P s o w' :
  let C := pc_reader P in
  c_faults C = [] -> mask_ok C -> RSync C (p_world s) (p_k s) (p_r s) -> buf_ready (p_buf s) ->
  covered_op C (p_world s) o -> apply_op (p_world s) o = Some w' ->
  exists s' obs,
    prun P s [AOp o; ARead (length (k_queue (kernel_op (p_k s) (w_fs (p_world s)) o)))] [] = Done (s', obs) /\
    p_world s' = w' /\ RSync C (p_world s') (p_k s') (p_r s') /\ Cover C (w_fs (p_world s')) (p_k s') (p_r s').
Proof.
  intros C Hf M S B Ho Ha.
  destruct (cover_step C Hf (p_world s) (p_k s) (p_r s) o w' M S Ho Ha) as (r' & k' & evs & Hrd & S').
  cbn [prun]. unfold pstep at 1. rewrite Ha.
  set (s1 := {| p_world := w'; p_k := kernel_op (p_k s) (w_fs (p_world s)) o; p_r := p_r s; p_buf := p_buf s;
                p_tbl := p_tbl s; p_next := p_next s; p_out := p_out s; p_stopped := p_stopped s |}).
  destruct (pstep_read_all P s1 r' k' evs B Hrd) as (s2 & ob & Hst & E1 & E2 & E3 & _).
  change (k_queue (kernel_op (p_k s) (w_fs (p_world s)) o)) with (k_queue (p_k s1)). rewrite Hst.
  eexists _, _. split; [reflexivity|]. rewrite E1, E2, E3. split; [reflexivity|]. split; [exact S' | apply S'].
Qed.

(* ================================================================== a decision procedure for Cover (used by the witnesses) *)
Definition scopeb (C : cfg) (p : bytes) : bool :=
  if c_recursive C then beqb p (c_root C) || under (c_root C) p else beqb p (c_root C).

Definition opt_eqb {A} (eqb : A -> A -> bool) (a : option A) (b : A) : bool :=
  match a with Some x => eqb x b | None => false end.

Definition covb (k : kst) (r : rstate) (e : fent) : bool :=
  match watch_of_ino k (f_ino e) with
  | Some kw => opt_eqb beqb (alookup N.eqb (kw_wd kw) (pfw r)) (f_path e) &&
               opt_eqb N.eqb (alookup beqb (f_path e) (wfp r)) (kw_wd kw)
  | None => false
  end.

Definition coverb (C : cfg) (t : fs) (k : kst) (r : rstate) : bool :=
  forallb (fun e => negb (f_dir e) || negb (scopeb C (f_path e)) || covb k r e) t.

Lemma scopeb_spec C p : scopeb C p = true <-> scope C p.
Proof.
  unfold scopeb, scope. destruct (c_recursive C).
  - rewrite orb_true_iff, beqb_eq. tauto.
  - apply beqb_eq.
Qed.

Lemma covb_spec k r e : covb k r e = true <-> exists kw, cov k r e kw.
Proof.
  unfold covb, cov. destruct (watch_of_ino k (f_ino e)) as [kw|].
  - rewrite andb_true_iff. unfold opt_eqb. split.
    + intros [H1 H2]. exists kw. destruct (alookup N.eqb (kw_wd kw) (pfw r)); [|discriminate].
      destruct (alookup beqb (f_path e) (wfp r)); [|discriminate]. apply beqb_eq in H1. apply N.eqb_eq in H2. now subst.
    + intros (kw' & H0 & H1 & H2). injection H0 as ->. now rewrite H1, H2, beqb_refl, N.eqb_refl.
  - split; [discriminate | intros (kw & H & _); discriminate].
Qed.

Lemma coverb_spec C t k r : coverb C t k r = true <-> Cover C t k r.
Proof.
  unfold coverb, Cover. rewrite forallb_forall. split.
  - intros H e He De Se. specialize (H e He). apply scopeb_spec in Se. rewrite De, Se in H. now apply covb_spec.
  - intros H e He. destruct (f_dir e) eqn:De; [|reflexivity]. destruct (scopeb C (f_path e)) eqn:Se; [|reflexivity].
    apply covb_spec. apply H; auto. now apply scopeb_spec.
Qed.

(* ------------------------------------------------------------------ concrete witnesses *)
Definition pR : bytes := [47;115;47;82]%N.          (* "/s/R" - the watched root *)
Definition pO : bytes := [47;115;47;79]%N.          (* "/s/O" - outside *)
Definition sub (d : bytes) (n : N) : bytes := d ++ sep :: [n].
Definition w0 : world :=
  {| w_fs := [ {| f_path := pR; f_ino := 1; f_dir := true |}; {| f_path := pO; f_ino := 2; f_dir := true |};
               {| f_path := sub pO 100; f_ino := 3; f_dir := true |};
               {| f_path := sub (sub pO 100) 101; f_ino := 4; f_dir := true |} ];
     w_next_ino := 5 |}.
Definition cfgx (recursive movein : bool) : cfg :=
  {| c_recursive := recursive; c_mask := WATCHDOG_ALL; c_root := pR; c_fix_ignored := true; c_fix_movein := movein;
     c_fix_simulate := true; c_fix_relabel := true; c_fix_moveout := true; c_faults := [] |}.
Definition Px (movein : bool) : pcfg :=
  {| pc_reader := cfgx true movein; pc_full := false; pc_filter := None; pc_delay := 5 |}.

Lemma npath_sub d n : gpath d -> valid_name [n] = true -> npath (sub d n).
Proof. intros G V. exists d, [n]. split; [reflexivity | split; assumption]. Qed.

Lemma w0_wf : wf_fs w0.
Proof.
  assert (GS : gpath [47;115]%N) by (split; [discriminate | reflexivity]).
  assert (NR : npath pR) by (apply (npath_sub [47;115]%N 82 GS); reflexivity).
  assert (NO : npath pO) by (apply (npath_sub [47;115]%N 79 GS); reflexivity).
  assert (ND : npath (sub pO 100)) by (apply npath_sub; [now apply npath_gpath | reflexivity]).
  assert (NE : npath (sub (sub pO 100) 101)) by (apply npath_sub; [now apply npath_gpath | reflexivity]).
  constructor; cbn [w0 w_fs w_next_ino map f_path f_ino]; [| | | | |lia].
  - repeat constructor; cbn; intuition discriminate.
  - repeat constructor; cbn; intuition discriminate.
  - intros e [<-|[<-|[<-|[<-|[]]]]]; cbn; lia.
  - intros e [<-|[<-|[<-|[<-|[]]]]]; assumption.
  - intros e d [<-|[<-|[<-|[<-|[]]]]] [<-|[<-|[<-|[<-|[]]]]] Hu; vm_compute in Hu; try discriminate.
    + eexists. split; [right; left; reflexivity | split; reflexivity].
    + eexists. split; [right; right; left; reflexivity | split; reflexivity].
    + eexists. split; [right; right; left; reflexivity | split; reflexivity].
Qed.

(* 2e: the pinned code (no watch for a directory that arrives from outside) loses Cover *)
Lemma pinned_movein_refuted :
  exists C w ops, c_fix_movein C = false /\ c_fix_ignored C = true /\ c_fix_simulate C = true /\ c_faults C = [] /\
    mask_ok C /\ wf_fs w /\ fisdir (c_root C) (w_fs w) = true /\
    exists r0 k0 w' k' r', construct C kinit (w_fs w) = Some (r0, k0) /\ rrun C w k0 r0 ops = Some (w', k', r') /\
                           ~ Cover C (w_fs w') k' r'.
Proof.
  exists (cfgx true false), w0, [Rename (sub pO 100) (sub pR 100)].
  repeat (split; [first [reflexivity | exact w0_wf | (repeat split; vm_compute; discriminate)]|]).
  eexists _, _, _, _, _. split; [vm_compute; reflexivity|]. split; [vm_compute; reflexivity|].
  intros H. apply coverb_spec in H. vm_compute in H. discriminate.
Qed.

(* the same history on the repaired code: the arrived directory and its sub-directory are covered *)
Lemma repaired_movein_example :
  exists r0 k0 w' k' r', construct (cfgx true true) kinit (w_fs w0) = Some (r0, k0) /\
    rrun (cfgx true true) w0 k0 r0 [Rename (sub pO 100) (sub pR 100)] = Some (w', k', r') /\
    Cover (cfgx true true) (w_fs w') k' r' /\ fisdir (sub (sub pR 100) 101) (w_fs w') = true.
Proof.
  eexists _, _, _, _, _. split; [vm_compute; reflexivity|]. split; [vm_compute; reflexivity|].
  split; [apply coverb_spec; vm_compute; reflexivity | vm_compute; reflexivity].
Qed.

(* the pacing exception of the property: mkdir a; rename a b before the first read - add_watch(a) fails with ENOENT,
   the MOVED_TO branch of the repaired code watches b *)
Lemma mkdir_rename_example :
  exists s0 s obs, pinit (Px true) w0 = Some s0 /\
    prun (Px true) s0 [AOp (Mkdir (sub pR 97)); AOp (Rename (sub pR 97) (sub pR 98)); ARead 3] [] = Done (s, obs) /\
    fisdir (sub pR 98) (w_fs (p_world s)) = true /\ k_queue (p_k s) = [] /\
    Cover (cfgx true true) (w_fs (p_world s)) (p_k s) (p_r s).
Proof.
  eexists _, _, _. split; [vm_compute; reflexivity|]. split; [vm_compute; reflexivity|].
  split; [vm_compute; reflexivity|]. split; [vm_compute; reflexivity|]. apply coverb_spec. vm_compute. reflexivity.
Qed.

Lemma mkdir_rename_pinned_refuted :
  exists s0 s obs, pinit (Px false) w0 = Some s0 /\
    prun (Px false) s0 [AOp (Mkdir (sub pR 97)); AOp (Rename (sub pR 97) (sub pR 98)); ARead 3] [] = Done (s, obs) /\
    k_queue (p_k s) = [] /\ ~ Cover (cfgx true false) (w_fs (p_world s)) (p_k s) (p_r s).
Proof.
  eexists _, _, _. split; [vm_compute; reflexivity|]. split; [vm_compute; reflexivity|].
  split; [vm_compute; reflexivity|]. intros H. apply coverb_spec in H. vm_compute in H. discriminate.
Qed.

(* ================================================================== 2d: the probe, and the non-recursive watch *)
Definition touch_raws (wd : N) (name p : bytes) : list raw :=
  [{| r_wd := wd; r_mask := IN_CREATE; r_cookie := 0; r_name := name; r_path := p |};
   {| r_wd := wd; r_mask := IN_OPEN; r_cookie := 0; r_name := name; r_path := p |};
   {| r_wd := wd; r_mask := IN_CLOSE_WRITE; r_cookie := 0; r_name := name; r_path := p |}].

Theorem probe_raws C w k r de name w' : RSync C w k r -> c_mask C = WATCHDOG_ALL ->
  In de (w_fs w) -> f_dir de = true -> scope C (f_path de) -> valid_name name = true ->
  let p := f_path de ++ sep :: name in
  apply_op w (Touch p) = Some w' ->
  let k1 := kernel_op k (w_fs w) (Touch p) in
  exists wd, read_batch C (w_fs w') (r, drainq k1, []) (k_queue k1) = Done (r, drainq k1, touch_raws wd name p).
Proof.
  intros S Hm Hde Dde Sde Vn p Ha k1. destruct S as [W Hr I Cv Hq Hpd].
  assert (Gd : gpath (f_path de)) by (apply npath_gpath; now apply (wf_np w W)).
  assert (Edn : dirname p = f_path de) by now apply dirname_np.
  assert (Ebn : basename p = name) by now apply basename_np.
  assert (Ejn : join (f_path de) name = p) by now apply join_np.
  destruct (Cv de Hde Dde Sde) as (kw & Cw & Cp & Cf).
  destruct (watch_of_ino_some _ _ _ Cw) as [Hkw _]. assert (Mkw := wi_mask _ _ _ _ I kw Hkw). rewrite Hm in Mkw.
  assert (Eino : ino_of (w_fs w) (dirname p) = f_ino de).
  { unfold ino_of. rewrite Edn. now rewrite (flookup_in _ de (wf_paths w W) Hde). }
  subst k1. cbn [kernel_op]. rewrite Eino, Ebn.
  rewrite (knotify_watched k _ _ _ _ _ kw Cw) by (rewrite Mkw; vm_compute; discriminate).
  rewrite Hq, kpush_nil.
  rewrite (knotify_watched (kset_queue k [kev kw IN_CREATE false 0 name]) _ _ _ _ _ kw); [|rewrite (watch_of_ino_ext k); [exact Cw | reflexivity] | rewrite Mkw; vm_compute; discriminate].
  cbn [kset_queue k_queue]. rewrite (kpush_snoc [] (kev kw IN_CREATE false 0 name)) by (vm_compute; discriminate).
  rewrite (knotify_watched _ _ _ _ _ _ kw); [|rewrite (watch_of_ino_ext k); [exact Cw | reflexivity] | rewrite Mkw; vm_compute; discriminate].
  cbn [kset_queue k_queue app]. rewrite (kpush_snoc [kev kw IN_CREATE false 0 name] (kev kw IN_OPEN false 0 name)) by (vm_compute; discriminate).
  cbn [app read_batch].
  assert (Hsp : src_path_of (f_path de) name = p) by (unfold src_path_of; destruct name; [discriminate Vn | exact Ejn]).
  rewrite (read_one_inert C _ _ _ _ _ (f_path de) Hpd); [|unfold inert; repeat split; vm_compute; reflexivity | exact Cp].
  rewrite (read_one_inert C _ _ _ _ _ (f_path de) Hpd); [|unfold inert; repeat split; vm_compute; reflexivity | exact Cp].
  rewrite (read_one_inert C _ _ _ _ _ (f_path de) Hpd); [|unfold inert; repeat split; vm_compute; reflexivity | exact Cp].
  unfold raw_ev, kev. cbn [k_wd k_mask k_cookie k_name app]. rewrite Hsp.
  eexists. reflexivity.
Qed.

Theorem probe C w k r de name w' : RSync C w k r -> c_mask C = WATCHDOG_ALL ->
  In de (w_fs w) -> f_dir de = true -> scope C (f_path de) -> valid_name name = true ->
  let p := f_path de ++ sep :: name in
  apply_op w (Touch p) = Some w' ->
  let k1 := kernel_op k (w_fs w) (Touch p) in
  exists wd rest,
    let ev := {| r_wd := wd; r_mask := IN_CREATE; r_cookie := 0; r_name := name; r_path := p |} in
    read_batch C (w_fs w') (r, drainq k1, []) (k_queue k1) = Done (r, drainq k1, ev :: rest) /\
    forall full rec content, emit_single full rec (c_root C) content ev = ([mk FileCreated p []; parent_modified p], false).
Proof.
  intros S Hm Hde Dde Sde Vn p Ha k1.
  destruct (probe_raws C w k r de name w' S Hm Hde Dde Sde Vn Ha) as (wd & H).
  eexists _, _. split; [exact H|]. intros full rec content. reflexivity.
Qed.


(* non-recursive watch: an operation in a directory other than the root produces no kernel event at all *)
Theorem flat C w k r p w' : RSync C w k r -> c_recursive C = false -> dirname p <> c_root C ->
  (apply_op w (Touch p) = Some w' -> k_queue (kernel_op k (w_fs w) (Touch p)) = []) /\
  (apply_op w (Mkdir p) = Some w' -> k_queue (kernel_op k (w_fs w) (Mkdir p)) = []).
Proof.
  intros S Hrec Hd. destruct S as [W Hr I Cv Hq Hpd].
  assert (Hun : fisdir (dirname p) (w_fs w) = true -> watch_of_ino k (ino_of (w_fs w) (dirname p)) = None).
  { intros Ed. destruct (fisdir_in _ _ Ed) as (de & Hde & Ede & _).
    assert (Eino : ino_of (w_fs w) (dirname p) = f_ino de).
    { unfold ino_of. rewrite <- Ede. now rewrite (flookup_in _ de (wf_paths w W) Hde). }
    rewrite Eino. apply (not_scope_unwatched C w k r de W I Hde). unfold scope. rewrite Hrec, Ede. exact Hd. }
  split; intros Ha; cbn [apply_op] in Ha; destruct (fisdir (dirname p) (w_fs w)) eqn:Ed; try discriminate;
    cbn [kernel_op]; repeat (rewrite (knotify_unwatched k) by auto); exact Hq.
Qed.

(* the only watch of a non-recursive Inotify is the root's *)
Theorem flat_watches C w k r : RSync C w k r -> c_recursive C = false ->
  forall kw, In kw (k_watches k) -> alookup N.eqb (kw_wd kw) (pfw r) = Some (c_root C).
Proof.
  intros S Hrec kw Hk. destruct (wi_exact _ _ _ _ (rs_inv _ _ _ _ S) kw Hk) as (e & _ & _ & Se & _ & Pe & _).
  unfold scope in Se. rewrite Hrec in Se. now rewrite <- Se.
Qed.

Lemma ops_covered_cons C w o ops w' : apply_op w o = Some w' -> covered_op C w o -> ops_covered C w' ops ->
  ops_covered C w (o :: ops).
Proof. intros Ha Ho Hc. cbn [ops_covered]. rewrite Ha. now split. Qed.

(* operations that leave the root and its ancestors alone (used by the full statements) *)
Definition op_keeps_root (C : cfg) (o : op) : Prop :=
  match o with
  | Rmdir p => p <> c_root C
  | Rename p q => p <> c_root C /\ q <> c_root C /\ under p (c_root C) = false
  | _ => True
  end.
