"""Regenerates the catch matrix (§10.4 of DESIGN.md) from seeded/*/meta.json:  python -m harness.seedtable"""
import glob
import json
import os

VERIF = os.path.dirname(os.path.dirname(os.path.abspath(__file__)))


def main():
    rows = []
    for d in sorted(glob.glob(os.path.join(VERIF, "seeded", "*", "meta.json"))):
        m = json.load(open(d))
        c = m["check"]
        how = "oracle failure with replay" if c["with_failing_input"] else "broken correspondence (no-failing-input-found)"
        if "proof=BROKEN" in " ".join(c.get("output") or []):
            how += " + broken proof obligation (regenerated table)"
        hist = " " + m["history"] if m.get("history") else ""
        if m.get("retired"):
            rows.append(f"| {m['id']} | {m['change']} | {m['needs_to_manifest']} | retired: caught before the repair of the F10 family; "
                        f"its demonstration no longer fails on the repaired tree.{hist} |")
            continue
        rows.append(f"| {m['id']} | {m['change']} | {m['needs_to_manifest']} | {'caught: ' + how if c['caught'] else 'MISSED'}.{hist} |")
    txt = """
### 10.4 Seeded changes (written by fresh sub-agents from the property text alone) and which check catches them

Every change below was confirmed in a scratch worktree of /repo (`python -m harness.seedeval`): the patch applies to
the current HEAD, the repository's own test-suite still passes with it, the author's demonstration passes without and
fails with it; then `WATCHDOG_REPO=<worktree> ./check Cxx` (quick tier) was run. Files: `seeded/<id>/{patch.diff,demo.py,notes.md,meta.json}`.
""" + f"{len(rows)} changes over nine rounds (rounds 2-10; ten to twelve per property; three retired because a repair of /repo removed the code they changed). In every round some were missed or caught only without a failing input by the check as it stood (9 in round 2, 10 in round 3, ..., 4 in round 8, 8 in round 9, 4 in round 10); each such miss led to a stronger model, oracle or generator (last column and section 10.6). The whole corpus was re-evaluated on the final harness on 2026-10-01: every change that still applies is caught by the quick check of its property; those marked 'no failing input' are caught by a broken proof or correspondence only.\n" + """
| id | change | needs | quick check of that property |
|----|--------|-------|------------------------------|
""" + "\n".join(rows) + "\n"
    p = os.path.join(VERIF, "DESIGN.md")
    s = open(p).read()
    if "\n### 10.4 Seeded changes" in s:
        s = s[: s.index("\n### 10.4 Seeded changes")]
    s += txt
    open(p, "w").write(s)
    print(len(rows), "rows")


if __name__ == "__main__":
    main()
