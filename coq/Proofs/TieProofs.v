(* C03 - [Contract.deliver_one] is what the Pipeline model delivers for
   AOp o; ARead (whole queue); ATick delay; AEmit ... from a state whose buffer is idle. *)
Require Import WD.Base.Prelude WD.Base.BStr WD.Model.SubEvents WD.Model.Emitter WD.Model.Fs WD.Model.Reader
               WD.Model.DelayQueue WD.Model.Grouping WD.Model.Pipeline WD.Model.Contract.
Require Import WD.Proofs.GroupingProofs WD.Proofs.ContractProofs.
Local Open Scope N_scope.

(* ================================================================== A. grouping: native events vs raw events *)
Section Rel.
  Variable C : cfg.
  Variable tbl : list (N * raw).

  Definition rel1 (e : nev) (r : raw) : Prop := raw_of tbl e = Some r /\ n_kind e = nkind_of C r.

  Definition relI (g : Grouping.item) (it : Emitter.item) : Prop :=
    match g, it with
    | ISingle e, Single r => rel1 e r
    | IPair f t, Pair a b => rel1 f a /\ rel1 t b
    | _, _ => False
    end.

  Lemma is_from_rel c g it : relI g it -> is_from c g = is_from_raw C c it.
  Proof.
    destruct g as [[i kd]|f t], it as [r|a b]; simpl; try contradiction; [|reflexivity].
    intros [_ Hk]. simpl in Hk. rewrite <- Hk. destruct kd; reflexivity.
  Qed.

  Lemma pair_rel c t tr : rel1 t tr -> forall g1 g2, Forall2 relI g1 g2 ->
    match pair_in_grouped c t g1, pair_in_batch C c tr g2 with
    | Some a, Some b => Forall2 relI a b
    | None, None => True
    | _, _ => False
    end.
  Proof.
    intros Ht g1 g2 H. induction H as [|g it g1 g2 Hr Hf IH]; simpl; [exact I|].
    rewrite <- (is_from_rel c g it Hr). destruct (is_from c g) eqn:E.
    - destruct g as [f|], it as [a|]; simpl in Hr; try contradiction; try discriminate.
      constructor; [split; assumption | exact Hf].
    - destruct (pair_in_grouped c t g1), (pair_in_batch C c tr g2); try contradiction; [|exact I].
      constructor; assumption.
  Qed.

  (* _group_events on one batch when the delay queue holds nothing to pair with *)
  Fixpoint ggo (b : list nev) (g : list Grouping.item) : list Grouping.item :=
    match b with
    | [] => g
    | e :: rest =>
      match n_kind e with
      | KTo c => match pair_in_grouped c e g with
                 | Some g' => ggo rest g'
                 | None => ggo rest (g ++ [ISingle e])
                 end
      | _ => ggo rest (g ++ [ISingle e])
      end
    end.

  Lemma ggo_rel b raws : Forall2 rel1 b raws -> forall g1 g2, Forall2 relI g1 g2 ->
    Forall2 relI (ggo b g1) (group_go C raws g2).
  Proof.
    intros H. induction H as [|e r b raws Hr Hf IH]; intros g1 g2 Hg; simpl; [exact Hg|].
    assert (Hs : Forall2 relI (g1 ++ [ISingle e]) (g2 ++ [Single r])).
    { apply Forall2_app; [exact Hg | constructor; [exact Hr | constructor]]. }
    destruct Hr as [Hraw Hk]. rewrite <- Hk. destruct (n_kind e) eqn:Ek; try (apply IH; exact Hs).
    assert (Hp := pair_rel cookie e r (conj Hraw (eq_trans Ek Hk)) g1 g2 Hg).
    destruct (pair_in_grouped cookie e g1), (pair_in_batch C cookie r g2); try contradiction.
    - apply IH. exact Hp.
    - apply IH. exact Hs.
  Qed.

  Lemma ggo_length b : forall g, (length (ggo b g) <= length g + length b)%nat.
  Proof.
    induction b as [|e b IH]; intros g; simpl; [lia|].
    assert (Hs : (length (ggo b (g ++ [ISingle e])) <= length g + S (length b))%nat).
    { specialize (IH (g ++ [ISingle e])). rewrite app_length in IH. simpl in IH. lia. }
    destruct (n_kind e); try exact Hs.
    destruct (pair_in_grouped cookie e g) as [g'|] eqn:Ep; [|exact Hs].
    apply pair_in_grouped_spec in Ep as [a [f [b0 [-> [-> _]]]]].
    specialize (IH (a ++ IPair f e :: b0)). rewrite !app_length in *. simpl in *. lia.
  Qed.
End Rel.

Lemma alookup_app_fresh {V} (A B : list (N * V)) k :
  (forall id, In id (map fst A) -> id <> k) -> alookup N.eqb k (A ++ B) = alookup N.eqb k B.
Proof.
  induction A as [|[x v] A IH]; simpl; intros H; [reflexivity|].
  destruct (N.eqb k x) eqn:E.
  - apply N.eqb_eq in E. exfalso. apply (H x); auto.
  - apply IH. intros id Hid. apply H. auto.
Qed.


Lemma number_spec C raws : forall n nevs tbl, number C n raws = (nevs, tbl) ->
  map fst tbl = map n_id nevs /\ (forall id, In id (map fst tbl) -> n <= id) /\
  length nevs = length raws /\
  forall tbl0, (forall id, In id (map fst tbl0) -> id < n) -> Forall2 (rel1 C (tbl0 ++ tbl)) nevs raws.
Proof.
  induction raws as [|e raws IH]; intros n nevs tbl H; simpl in H.
  - inversion H; subst. repeat split; try constructor. intros id [].
  - destruct (number C (n + 1) raws) as [a b] eqn:E. inversion H; subst. clear H.
    destruct (IH _ _ _ E) as [H1 [H2 [H3 H4]]]. simpl. repeat split.
    + now rewrite H1.
    + intros id [<-|Hid]; [lia|]. apply H2 in Hid. lia.
    + now rewrite H3.
    + intros tbl0 Hfresh. constructor.
      * split; [|reflexivity]. unfold raw_of. cbn [n_id].
        rewrite alookup_app_fresh by (intros id Hid Heq; apply Hfresh in Hid; lia).
        simpl. now rewrite N.eqb_refl.
      * change (tbl0 ++ (n, e) :: b) with (tbl0 ++ [(n, e)] ++ b). rewrite app_assoc. apply H4.
        intros id Hid. rewrite map_app in Hid. apply in_app_iff in Hid as [Hid|Hid]; [apply Hfresh in Hid; lia|].
        simpl in Hid. destruct Hid as [<-|[]]. lia.
Qed.

(* ================================================================== B. the reader thread runs to completion *)
Definition mkrst b g ds n its nr : rst :=
  {| batch := b; grouped := g; deleted_self := ds; next_el := n; items := its; nread := nr |}.

Definition kept (it : Grouping.item) : bool :=
  match it with ISingle e => negb (Grouping.is_ignored e) | IPair _ _ => true end.

Lemma item_of_in its id it : item_of its id = Some it -> In id (map fst its).
Proof.
  unfold item_of. induction its as [|[k v] its IH]; simpl; [discriminate|].
  destruct (N.eqb id k) eqn:E; [apply N.eqb_eq in E; auto | auto].
Qed.

Lemma Forall2_imp {A B} (R1 R2 : A -> B -> Prop) l1 l2 :
  (forall a b, R1 a b -> R2 a b) -> Forall2 R1 l1 l2 -> Forall2 R2 l1 l2.
Proof. intros H F. induction F; constructor; auto. Qed.

Section Run.
  Variable delay : N.

  Lemma run_done f d ds n its nr :
    reader_run delay f (d, mkrst [] [] ds n its nr) = (d, mkrst [] [] ds n its nr).
  Proof. destruct f; reflexivity. Qed.

  Lemma run_group b : forall f d g ds n its nr, q d = [] ->
    reader_run delay (length b + f) (d, mkrst b g ds n its nr)
    = reader_run delay f (d, mkrst [] (ggo b g) ds n its nr).
  Proof.
    induction b as [|e b IH]; intros f d g ds n its nr Hq; [reflexivity|].
    cbn [length plus reader_run snd batch grouped mkrst]. cbn [gstep mkrst batch grouped ggo].
    destruct (n_kind e) eqn:Ek; cbn [items deleted_self next_el nread]; try (apply IH; exact Hq).
    destruct (pair_in_grouped cookie e g) as [g'|]; [apply IH; exact Hq|].
    rewrite Hq. cbn. apply IH. exact Hq.
  Qed.

  Record QInv (d : st) (its : list (N * Grouping.item)) (n : N) (K : list Grouping.item) : Prop := {
    qi_items : Forall2 (fun en it => item_of its (e_id en) = Some it) (q d) K;
    qi_tins : forall en, In en (q d) -> e_tins en <= clock d;
    qi_pc : pc d = CIdle;
    qi_closed : closed d = false;
    qi_fresh : forall id, In id (map fst its) -> id < n }.

  Definition putq (d : st) (id : N) (dl : bool) : st :=
    let e := {| e_id := id; e_tins := clock d; e_delayed := dl |} in
    {| q := q d ++ [e]; closed := closed d; cl := cl d; clock := clock d; pc := notify (pc d);
       puts := puts d ++ [e]; got := got d; ends := ends d; removed := removed d |}.

  Lemma qinv_put d its n K it dl : QInv d its n K -> QInv (putq d n dl) (its ++ [(n, it)]) (n + 1) (K ++ [it]).
  Proof.
    intros [H1 H2 H3 H4 H5]. constructor; cbn [putq q clock pc closed].
    - apply Forall2_app.
      + eapply Forall2_imp; [|exact H1]. intros en g Hg. cbn beta in *.
        rewrite item_of_app_old; [exact Hg | eapply item_of_in; exact Hg].
      + constructor; [|constructor]. cbn [e_id]. apply item_of_app_new. intros Hin. apply H5 in Hin. lia.
    - intros en Hin. apply in_app_iff in Hin as [Hin|[<-|[]]]; [now apply H2 | cbn; lia].
    - now rewrite H3.
    - exact H4.
    - intros id Hid. rewrite map_app in Hid. apply in_app_iff in Hid as [Hid|Hid]; [apply H5 in Hid; lia|].
      simpl in Hid. destruct Hid as [<-|[]]. lia.
  Qed.

  Lemma run_put g : forall f d ds n its nr K, QInv d its n K ->
    exists d' ds' n' its',
      reader_run delay (length g + f) (d, mkrst [] g ds n its nr)
      = reader_run delay f (d', mkrst [] [] ds' n' its' nr) /\
      QInv d' its' n' (K ++ filter kept g) /\ clock d' = clock d.
  Proof.
    induction g as [|it g IH]; intros f d ds n its nr K HI.
    - exists d, ds, n, its. simpl. rewrite app_nil_r. auto.
    - cbn [length plus reader_run snd batch grouped mkrst]. cbn [gstep mkrst batch grouped].
      destruct it as [e|a b].
      + destruct (Grouping.is_ignored e) eqn:Ei.
        * cbn [items deleted_self next_el nread filter kept]. rewrite Ei. cbn [negb].
          apply IH. exact HI.
        * cbn [step items deleted_self next_el nread filter kept]. rewrite Ei. cbn [negb].
          destruct (IH f (putq d n (single_from (ISingle e))) (ds || is_delete_self_root e) (n + 1)
                       (its ++ [(n, ISingle e)]) nr (K ++ [ISingle e]) (qinv_put _ _ _ _ _ _ HI))
            as [d' [ds' [n' [its' [H1 [H2 H3]]]]]].
          exists d', ds', n', its'. rewrite <- app_assoc in H2. auto.
      + cbn [step items deleted_self next_el nread filter kept].
        destruct (IH f (putq d n false) ds (n + 1) (its ++ [(n, IPair a b)]) nr (K ++ [IPair a b])
                     (qinv_put _ _ _ _ _ _ HI)) as [d' [ds' [n' [its' [H1 [H2 H3]]]]]].
        exists d', ds', n', its'. rewrite <- app_assoc in H2. auto.
  Qed.

  Lemma reader_run_spec b d ds n its nr : q d = [] -> QInv d its n [] ->
    exists d' ds' n' its',
      reader_run delay (2 * length b + 2) (d, mkrst b [] ds n its nr) = (d', mkrst [] [] ds' n' its' nr) /\
      QInv d' its' n' (filter kept (ggo b [])) /\ clock d' = clock d.
  Proof.
    intros Hq HI. assert (Hl := ggo_length b []). simpl in Hl.
    replace (2 * length b + 2)%nat
      with (length b + (length (ggo b []) + (2 * length b + 2 - length b - length (ggo b []))))%nat by lia.
    rewrite run_group by exact Hq.
    destruct (run_put (ggo b []) (2 * length b + 2 - length b - length (ggo b [])) d ds n its nr [] HI)
      as [d' [ds' [n' [its' [H1 [H2 H3]]]]]].
    exists d', ds', n', its'. rewrite H1, run_done. auto.
  Qed.
End Run.

(* ================================================================== C. the consumer empties the queue *)
Definition popq (d : st) (rest : list entry) (en : entry) : st :=
  {| q := rest; closed := closed d; cl := cl d; clock := clock d; pc := CIdle; puts := puts d;
     got := got d ++ [(e_id en, clock d)]; ends := ends d; removed := removed d |}.

Lemma relI_emit C tbl g it : relI C tbl g it -> item_to_emit tbl g = Some it.
Proof.
  destruct g as [e|f t], it as [r|a b]; simpl; try contradiction.
  - intros [H _]. now rewrite H.
  - intros [[H1 _] [H2 _]]. now rewrite H1, H2.
Qed.

Lemma emit_nofilter full rec root ct it :
  emit_filtered None full rec root ct it = emit full rec root ct it.
Proof.
  unfold emit_filtered. destruct (emit full rec root ct it) as [evs stop]. cbn [fst snd]. f_equal.
  induction evs as [|e evs IH]; [reflexivity|]. simpl. now rewrite IH.
Qed.

Lemma three_steps delay d en rest :
  q d = en :: rest -> pc d = CIdle -> closed d = false -> e_tins en + delay <= clock d ->
  exists d1 d2, step delay d GetEnter = Some d1 /\ step delay d1 GetDelay = Some d2 /\
                step delay d2 GetPop = Some (popq d rest en).
Proof.
  intros Hq Hpc Hcl Ht. destruct d as [qq c0 cl0 ck pc0 pu go en0 rm]. cbn in *. subst.
  eexists. eexists. split; [reflexivity|]. cbn.
  assert (Hle : N.leb (e_tins en + delay) ck = true) by (apply N.leb_le; exact Ht).
  rewrite Hle, orb_true_r. split; [reflexivity|]. cbn. now rewrite N.eqb_refl.
Qed.

Section Loop.
  Variable P : pcfg.
  Hypothesis HF : pc_filter P = None.
  Let C := pc_reader P.
  Let delay := pc_delay P.

  Definition set_emit (s : pstate) (b : st * rst) (evs : list nevent) (stop : bool) : pstate :=
    {| p_world := p_world s; p_k := p_k s; p_r := p_r s; p_buf := b; p_tbl := p_tbl s; p_next := p_next s;
       p_out := p_out s ++ evs; p_stopped := stop |}.

  Lemma emit_step s d rs en rest git eit :
    p_buf s = (d, rs) -> p_stopped s = false ->
    q d = en :: rest -> pc d = CIdle -> closed d = false -> e_tins en + delay <= clock d ->
    item_of (items rs) (e_id en) = Some git -> item_to_emit (p_tbl s) git = Some eit ->
    pstep P s AEmit =
    let r := emit (pc_full P) (c_recursive C) (c_root C) (content (w_fs (p_world s))) eit in
    Done (set_emit s (popq d rest en, rs) (fst r) (snd r), OEvents (fst r)).
  Proof.
    intros Hb Hs Hq Hpc Hcl Ht Hit Hem. unfold pstep. rewrite Hs, Hb.
    destruct (three_steps delay d en rest Hq Hpc Hcl Ht) as [d1 [d2 [H1 [H2 H3]]]].
    fold delay. cbn [gstep]. rewrite H1. cbn [gstep]. rewrite H2. cbn [gstep]. rewrite H3.
    unfold delivered. cbn [fst snd got popq]. rewrite map_app, items_of_app. cbn [map fst].
    rewrite items_of_cons, Hit. cbn [items_of flat_map app]. rewrite rev_app_distr. cbn [rev app].
    rewrite Hem. fold C. rewrite HF, emit_nofilter.
    destruct (emit (pc_full P) (c_recursive C) (c_root C) (content (w_fs (p_world s))) eit) as [evs stop].
    reflexivity.
  Qed.

  Lemma emit_stopped s n acc : p_stopped s = true ->
    prun P s (repeat AEmit n) acc = Done (s, acc ++ repeat OSkip n).
  Proof.
    intros Hs. revert acc. induction n as [|n IH]; intros acc; simpl; [now rewrite app_nil_r|].
    rewrite Hs. rewrite IH. now rewrite <- app_assoc.
  Qed.

  Lemma emit_loop : forall K raws s d rs acc,
    p_buf s = (d, rs) -> pc d = CIdle -> closed d = false ->
    Forall2 (fun en it => item_of (items rs) (e_id en) = Some it) (q d) K ->
    (forall en, In en (q d) -> e_tins en + delay <= clock d) ->
    Forall2 (relI C (p_tbl s)) K raws ->
    exists s' obs, prun P s (repeat AEmit (length K)) acc = Done (s', obs) /\
      p_out s' = p_out s ++ (if p_stopped s then []
                             else emit_all (pc_full P) (c_recursive C) (c_root C) (content (w_fs (p_world s))) raws).
  Proof.
    induction K as [|git K IH]; intros raws s d rs acc Hb Hpc Hcl HQ Ht HR.
    - inversion HR; subst. exists s, acc. split; [reflexivity|]. destruct (p_stopped s); now rewrite app_nil_r.
    - destruct (p_stopped s) eqn:Hs.
      { exists s, (acc ++ repeat OSkip (length (git :: K))). split; [now apply emit_stopped | now rewrite app_nil_r]. }
      inversion HR as [|? eit ? raws' Hr1 HR']; subst. inversion HQ as [|en ? rest ? Hit HQ' Hqd]; subst.
      symmetry in Hqd.
      assert (Hstep := emit_step s d rs en rest git eit Hb Hs Hqd Hpc Hcl
                                 (Ht en ltac:(rewrite Hqd; left; reflexivity)) Hit (relI_emit _ _ _ _ Hr1)).
      cbn [length repeat prun]. rewrite Hstep. cbn zeta.
      cbn [emit_all].
      destruct (emit (pc_full P) (c_recursive C) (c_root C) (content (w_fs (p_world s))) eit) as [evs stop] eqn:Ee.
      cbn [fst snd].
      destruct (IH raws' (set_emit s (popq d rest en, rs) evs stop) (popq d rest en) rs (acc ++ [OEvents evs]))
        as [s' [obs [Hrun Hout]]]; try reflexivity.
      + exact Hcl.
      + exact HQ'.
      + intros en' Hin. cbn [popq q clock] in *. apply Ht. rewrite Hqd. now right.
      + exact HR'.
      + exists s', obs. split; [exact Hrun|]. rewrite Hout. cbn [set_emit p_out p_stopped p_world].
        now rewrite <- app_assoc.
  Qed.
End Loop.

(* ================================================================== D. assembly *)
Lemma Forall2_filter {A B} (R : A -> B -> Prop) f g l1 l2 :
  (forall a b, R a b -> f a = g b) -> Forall2 R l1 l2 -> Forall2 R (filter f l1) (filter g l2).
Proof.
  intros H F. induction F as [|a b l1 l2 Hab F IH]; simpl; [constructor|].
  rewrite <- (H a b Hab). destruct (f a); [constructor|]; assumption.
Qed.

Lemma kept_put C tbl g it : relI C tbl g it -> kept g = put_item C it.
Proof.
  destruct g as [e|f t], it as [r|a b]; simpl; try contradiction; [|reflexivity].
  intros [_ Hk]. unfold Grouping.is_ignored. rewrite Hk. destruct (nkind_of C r); reflexivity.
Qed.

Lemma read_step P s w k r d its n nr out tbl0 nx raws r' k' :
  s = {| p_world := w; p_k := k; p_r := r; p_buf := (d, mkrst [] [] false n its nr); p_tbl := tbl0; p_next := nx;
         p_out := out; p_stopped := false |} ->
  read_batch (pc_reader P) (w_fs w) (r, kdrained k, []) (k_queue k) = Done (r', k', raws) ->
  pstep P s (ARead (length (k_queue k))) =
  let '(nevs, tbl) := number (pc_reader P) nx raws in
  Done ({| p_world := w; p_k := k'; p_r := r';
           p_buf := reader_run (pc_delay P) (2 * length nevs + 2) (d, mkrst nevs [] false n its (nr ++ nevs));
           p_tbl := tbl0 ++ tbl; p_next := nx + N.of_nat (length raws); p_out := out; p_stopped := false |},
        ORaw (k_queue k)).
Proof.
  intros -> Hrd. unfold pstep. cbn [p_buf snd deleted_self mkrst p_k p_world p_r p_next p_tbl p_out p_stopped].
  rewrite firstn_all, skipn_all. fold (kdrained k). rewrite Hrd.
  destruct (number (pc_reader P) nx raws) as [nevs tbl]. reflexivity.
Qed.

Lemma prun_cons P s a h acc s' ob :
  pstep P s a = Done (s', ob) -> prun P s (a :: h) acc = prun P s' h (acc ++ [ob]).
Proof. intros H. cbn [prun]. now rewrite H. Qed.

Theorem pipeline_tie_holds : pipeline_tie.
Proof.
  intros P s o evs HF Hidle Hstop Hkq Hfresh Hdel.
  unfold deliver_one in Hdel.
  destruct (apply_op (p_world s) o) as [w'|] eqn:Happ; [|discriminate].
  set (k1 := kernel_op (p_k s) (w_fs (p_world s)) o) in *.
  destruct (read_batch (pc_reader P) (w_fs w') (p_r s, kdrained k1, []) (k_queue k1)) as [[[r' k'] raws]|] eqn:Hrd;
    [|discriminate].
  inversion Hdel; subst evs; clear Hdel.
  destruct s as [w k r [d rs] tbl0 nx out stopped]. cbn [p_world p_k p_r p_buf p_tbl p_next p_out p_stopped] in *.
  subst stopped. destruct Hidle as [Hq [Hcl [Hpc [Hb [Hg [Hds Hfr]]]]]]. cbn [fst snd] in *.
  destruct rs as [b0 g0 ds0 n0 its0 nr0]. cbn [batch grouped deleted_self items next_el] in *. subst b0 g0 ds0.
  destruct (number (pc_reader P) nx raws) as [nevs tbl] eqn:Hnum.
  destruct (number_spec _ _ _ _ _ Hnum) as [Hn1 [Hn2 [Hn3 Hn4]]].
  assert (HI : QInv d its0 n0 []).
  { constructor; [rewrite Hq; constructor | rewrite Hq; intros en [] | exact Hpc | exact Hcl | exact Hfr]. }
  destruct (reader_run_spec (pc_delay P) nevs d false n0 its0 (nr0 ++ nevs) Hq HI)
    as [d' [ds' [n' [its' [Hrun [HI' Hclk]]]]]].
  set (K := filter kept (ggo nevs [])) in *.
  exists (length K). unfold tie_history. cbn [p_k p_world]. fold k1.
  match goal with |- context [prun P ?s0 (AOp o :: _) _] =>
    assert (Hop : pstep P s0 (AOp o) =
                  Done ({| p_world := w'; p_k := k1; p_r := r; p_buf := (d, mkrst [] [] false n0 its0 nr0);
                           p_tbl := tbl0; p_next := nx; p_out := out; p_stopped := false |}, ONone))
      by (cbn [pstep p_world]; rewrite Happ; reflexivity);
    rewrite (prun_cons P _ _ _ _ _ _ Hop) end.
  erewrite prun_cons; [|rewrite (read_step P _ w' k1 r d its0 n0 nr0 out tbl0 nx raws r' k' eq_refl Hrd);
                         rewrite Hnum, Hrun; reflexivity].
  set (d2 := {| q := q d'; closed := closed d'; cl := cl d'; clock := clock d' + pc_delay P; pc := pc d';
               puts := puts d'; got := got d'; ends := ends d'; removed := removed d' |}).
  erewrite prun_cons with (s' := {| p_world := w'; p_k := k'; p_r := r';
                                    p_buf := (d2, mkrst [] [] ds' n' its' (nr0 ++ nevs));
                                    p_tbl := tbl0 ++ tbl; p_next := nx + N.of_nat (length raws); p_out := out;
                                    p_stopped := false |}); [|reflexivity].
  destruct HI' as [H1 H2 H3 H4 H5].
  match goal with |- context [prun P ?s3 (repeat AEmit _) ?acc] =>
    destruct (emit_loop P HF K (group_batch (pc_reader P) raws) s3 d2 (mkrst [] [] ds' n' its' (nr0 ++ nevs)) acc)
      as [s' [obs [Hrun' Hout]]] end; try reflexivity.
  - exact H3.
  - exact H4.
  - exact H1.
  - intros en Hin. cbn [d2 q clock] in *. apply H2 in Hin. lia.
  - cbn [p_tbl]. unfold K, group_batch. apply Forall2_filter; [apply kept_put|].
    apply ggo_rel; [|constructor]. apply Hn4. exact Hfresh.
  - exists s', obs. split; [exact Hrun'|]. rewrite Hout. reflexivity.
Qed.
