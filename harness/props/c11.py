"""C11 - an event filter only removes events; it never alters the rest of the stream.

Correspondence (model <-> /repo, every run):
  * unit, emitter table: the REAL InotifyEmitter.queue_events / InotifyFullEmitter.queue_events, fed scripted
    InotifyEvent singles and (from, to) pairs through a stub buffer, against the extracted Emitter.emit /
    emit_filtered (class, src, dest, synthetic of every queue_event call, and the stop request), for every
    flag x ISDIR x full_events x recursive x path kind, str and bytes watch paths, on a real scratch tree;
    isinstance against the extracted `accepts`; InotifyEvent.is_directory against the model's.
  * unit, mask table: the REAL get_event_mask_from_filter() against the extracted mask_of_filter.
  * translator self-test: gen_masktable.py accepts the source and refuses mutants of it.
  * (the table itself is tied by Gen/MaskTableGen.v + the proofs, see coq/Proofs/MaskTableProofs.v)
Oracle (independent of the model, real kernel): one InotifyObserver, two watches on the same scratch root - one
unfiltered, one with the filter - each with a recording handler; an operation history is run one operation at a
time with a drain after each; the filtered stream must equal the accepted part of the unfiltered stream, both
collapsed over adjacent identical events.
"""
from __future__ import annotations

import errno
import itertools
import os
import select
import shutil
import subprocess
import sys
import tempfile
import threading
import time

from harness import core
from harness.core import Atom, Failure, Mismatch, Result, sx

MANIFEST = dict(
    design_ref="DESIGN.md §6 C11 (Group I: Emitter.v, MaskTable.v, Fs.v, Reader.v, Contract.v, Pipeline.v)",
    text="Coq: executable model of InotifyEmitter.queue_events (Emitter.emit) and of get_event_mask_from_filter "
         "(MaskTable.mask_of_filter, proved equal to a table regenerated from the Python AST on every run); TABLE LEMMA "
         "C11_table (every native flag that can change the watched set or be translated into an accepted class is in the "
         "filter's mask: sweep 2 x 14 filters x 16 flags, lifted to all filter lists); emitter level: C11_emit_commutes, "
         "C11_emit_transparent(_pair), C11_stop_preserved, C11_item_stream; kernel/reader/buffer level: C11_kernel_twin (up to "
         "kernel coalescing), C11_kernel_no_coalescing, C11_reader_transparent, C11_reader_mask_irrelevant, "
         "C11_group_transparent; composed: C11_transparent_sequential_all - for EVERY filter, recursive and non-recursive, "
         "normal and full emitter, over all histories in which every operation is drained (one read of the whole kernel "
         "queue, grouping, emission), from Inotify.__init__ on: the filtered watch queues exactly the accepted part of what "
         "the unfiltered watch queues (repaired reader, F10: the filtered reader of a recursive watch may forget a moved-out "
         "directory later than the unfiltered one - the LAG; it is covered by a bisimulation on normal forms, C11_lag_step / "
         "C11_norm_fwd / C11_norm_bwd / C11_inert, under one filter-independent executable hypothesis on the UNFILTERED run, "
         "tidy_from: at drained points the reader's tables mention live kernel watches only; non-recursive watches and the "
         "pinned reader need no such hypothesis; on the histories of C02's sequential theorem - covered operations and "
         "directory move-outs from Inotify.__init__, CoverOutProofs.ops_x - the hypothesis is discharged by the cover "
         "invariant: C11_transparent_sequential(_all)_covered, C11_handler_sequential_covered, C11_full_drained_covered, "
         "non-vacuity C11_covered_lag_nonvacuous); C11_pipeline_tie_filtered / C11_pipeline_transparent_step tie one drained operation "
         "to Pipeline.prun with pc_filter. C11_table_refuted_pinned / C11_item_stream_refuted_pinned record F6. The "
         "unrestricted statement is kept as C11_full (gaps: undrained bursts, the skip-repeats queue, the induction over "
         "whole Pipeline histories) and is checked on the real kernel by the two-watch oracle.",
    note="Proved for drained histories over the Fs/Reader/Contract models (tied to the implementation by the pipeline checks "
         "C01-C03 and, here, by the emitter/mask unit correspondence and the real-kernel oracle); C11_full (bursts, stutter) is "
         "NOT proved. Kernel delivery rule (Fs.knotify: a bit is sent only if it is in the watch's mask; IN_IGNORED always) is "
         "modelled, validated end-to-end.",
    technique="Coq proof (finite vm_compute sweep + fold/lor lifting, case analysis of the emitter chain, twin simulation of "
              "kernel and reader under two masks, grouping commutation), AST translator (fail-closed), differential "
              "correspondence via extracted OCaml model, two-watch oracle on the real kernel",
)

TRUSTED = [
    "harness/translate/gen_masktable.py (AST -> Gen/MaskTableGen.v): trusted to render the accepted shape faithfully; "
    "fails closed on any other shape; its result is additionally compared at run time (real get_event_mask_from_filter "
    "vs extracted mask_of_filter)",
    "modelled, not verified: the kernel sends a watch exactly the user-space event bits of its mask (MaskTable.delivered); "
    "os.walk order and posixpath.dirname (validated against CPython in C14 / this run's unit correspondence)",
]
ASSUMPTIONS = [
    "C11_full (arbitrary histories, up to stutter) is stated, not proved. Proved: C11_transparent_sequential_all - every "
    "filter, both kinds of watch, every history in which each operation is followed by a read of the whole kernel queue and "
    "the emission of every item (hypotheses: root path non-empty and not ending in '/', rename sources have a base name). "
    "Not covered by proof: several operations per read (kernel coalescing differs between masks), pairing across reads "
    "through the delay queue. These are covered by the real-kernel oracle and the lock-step only",
    "repaired reader (F10), recursive watches: the history theorems assume tidy_from - at every drained point of the "
    "UNFILTERED run the (settled) reader's _path_for_wd/_wd_for_path mention descriptors of live kernel watches only. It "
    "says nothing about the filter, is executable (tidy_fromb) and is discharged by vm_compute in C11_lag_covered / "
    "C11_full_drained_lag_nonvacuous; it is PROVED from C02's cover invariant on the histories of C02's sequential theorem "
    "(TidyCoverProofs.tidy_from_covered; the _covered variants of the C11 history theorems carry no tidy hypothesis) and "
    "remains a hypothesis only outside them (operations C02 does not classify as covered, injected add_watch faults)",
    "end-to-end oracle: operations are issued one at a time with a drain in between (the regime of the proved theorem)",
    "filters are built from the 11 concrete event classes and the 2 base classes of watchdog.events",
]

CONCRETE = ["FileCreated", "FileDeleted", "FileModified", "FileMoved", "FileClosed", "FileClosedNoWrite", "FileOpened",
            "DirCreated", "DirDeleted", "DirModified", "DirMoved"]
BASES = ["FileSystemEvent", "FileSystemMovedEvent"]
ALL13 = BASES + CONCRETE

FLAGS = dict(ACCESS=1, MODIFY=2, ATTRIB=4, CLOSE_WRITE=8, CLOSE_NOWRITE=0x10, OPEN=0x20, MOVED_FROM=0x40,
             MOVED_TO=0x80, CREATE=0x100, DELETE=0x200, DELETE_SELF=0x400, MOVE_SELF=0x800,
             UNMOUNT=0x2000, Q_OVERFLOW=0x4000, IGNORED=0x8000, ISDIR=0x40000000)
FLAG_NAME = {v: k for k, v in FLAGS.items()}


def ev_class(name):
    import watchdog.events as E
    return getattr(E, name if name in BASES else name + "Event")


def cls_name(e):
    n = type(e).__name__
    return n[:-5] if n.endswith("Event") else n


def filt_wire(F):
    """None | list of names -> wire"""
    return [] if F is None else [[Atom(n) for n in F]]


def scratch_base():
    return "/dev/shm" if os.path.isdir("/dev/shm") and os.access("/dev/shm", os.W_OK) else None


# =================================================================== unit: emitter table
class StubBuffer:
    """Stands in for InotifyBuffer: read_event() hands out the scripted items."""

    def __init__(self, items):
        self.items = list(items)
        self.closed = False

    def read_event(self):
        return self.items.pop(0) if self.items else None

    def close(self):
        self.closed = True


def tree_of(path_b):
    """The tree below a directory in the order os.walk reports it, names as bytes: [[(name, sub)...], [file...]]."""
    by = {}
    for r, ds, fs in os.walk(path_b):
        by[r] = (list(ds), list(fs))

    def build(r):
        ds, fs = by.get(r, ([], []))
        return [[[d, build(os.path.join(r, d))] for d in ds], list(fs)]

    return build(path_b)


def unit_emit(ctx, res: Result):
    from watchdog.observers.api import EventQueue, ObservedWatch
    from watchdog.observers.inotify import InotifyEmitter, InotifyFullEmitter
    from watchdog.observers.inotify_c import InotifyEvent

    class RecQueue(EventQueue):
        """An EventQueue that also logs every put (the SkipRepeatsQueue drops adjacent repeats)."""

        def __init__(self):
            super().__init__()
            self.log = []

        def put(self, item, block=True, timeout=None):
            self.log.append(item)
            super().put(item, block, timeout)

    rng = ctx.rng("unit-emit")
    base = tempfile.mkdtemp(prefix="wdc11u", dir=scratch_base())
    cases, impls, metas = [], [], []
    try:
        R = os.path.join(os.fsencode(base), b"r")
        os.makedirs(os.path.join(R, b"d", b"a"))
        open(os.path.join(R, b"d", b"a", b"f"), "w").close()
        open(os.path.join(R, b"d", b"g"), "w").close()
        os.makedirs(os.path.join(R, b"e\xff", b"s"))         # a name that is not valid UTF-8
        open(os.path.join(R, b"e\xff", b"t\xfe"), "w").close()
        open(os.path.join(R, b"x"), "w").close()
        paths = {"root": R, "dir": os.path.join(R, b"d"), "dir8": os.path.join(R, b"e\xff"),
                 "file": os.path.join(R, b"x"), "gone": os.path.join(R, b"gone")}
        flagvals = list(FLAGS.values())
        masks = []
        for f in flagvals:
            masks += [f, f | FLAGS["ISDIR"]]
        masks += [0, FLAGS["MODIFY"] | FLAGS["ATTRIB"], FLAGS["CREATE"] | FLAGS["MOVED_TO"],
                  FLAGS["OPEN"] | FLAGS["CLOSE_NOWRITE"], FLAGS["IGNORED"] | FLAGS["DELETE_SELF"],
                  FLAGS["DELETE"] | FLAGS["MOVED_FROM"], FLAGS["MOVE_SELF"] | FLAGS["CLOSE_WRITE"],
                  FLAGS["DELETE_SELF"] | FLAGS["OPEN"], FLAGS["MOVED_FROM"] | FLAGS["MOVED_TO"] | FLAGS["ISDIR"]]
        for _ in range(40 if not ctx.thorough else 600):
            m = 0
            for f in flagvals:
                if rng.random() < 0.2:
                    m |= f
            masks.append(m)
        masks = list(dict.fromkeys(masks))

        def raw(mask, p, cookie=0):
            return (1, mask, cookie, os.path.basename(p) if p != R else b"", p)

        items = []          # (item wire, builder of the python item, description)
        for m in masks:
            for pk in ("root", "dir", "dir8", "file", "gone"):
                items.append((("S", raw(m, paths[pk])), f"single mask={m:#x} path={pk}"))
        D = FLAGS["ISDIR"]
        for (fk, tk), (fd, td) in itertools.product([("gone", "dir"), ("gone", "dir8"), ("gone", "file"), ("file", "gone"),
                                                     ("dir8", "dir")],
                                                    [(D, D), (0, 0), (D, 0), (0, D)]):
            items.append((("P", raw(FLAGS["MOVED_FROM"] | fd, paths[fk], 5), raw(FLAGS["MOVED_TO"] | td, paths[tk], 5)),
                          f"pair {fk}->{tk} isdir={bool(fd)},{bool(td)}"))
        items.append((("P", raw(FLAGS["MOVED_FROM"] | FLAGS["DELETE_SELF"], paths["gone"], 6),
                       raw(FLAGS["MOVED_TO"], paths["dir"], 6)), "pair whose from-half is a directory through DELETE_SELF"))

        filters = [None] + [[n] for n in ALL13] + [["FileMoved", "DirCreated"], ["FileSystemMovedEvent", "FileDeleted", "DirModified"], []]
        configs = []
        for full, recursive, as_bytes in itertools.product([False, True], [False, True], [False, True]):
            configs.append((None, full, recursive, as_bytes, items))
        # filtered emitters: every filter, a reduced item set (every single flag on the directory path, the pairs)
        reduced = [it for it in items if it[0][0] == "P" or (it[1].endswith("path=dir") and "mask=" in it[1])]
        for F in filters[1:]:
            for full, as_bytes in itertools.product([False, True], [False, True]):
                configs.append((F, full, True, as_bytes, reduced if not ctx.thorough else items))
            configs.append((F, False, False, False, reduced))

        for F, full, recursive, as_bytes, its in configs:
            wp = R if as_bytes else os.fsdecode(R)
            fcls = None if F is None else [ev_class(n) for n in F]
            klass = InotifyFullEmitter if full else InotifyEmitter
            for wire_item, desc in its:
                q = RecQueue()
                em = klass(q, ObservedWatch(wp, recursive=recursive, event_filter=fcls), event_filter=fcls)
                if wire_item[0] == "S":
                    pyitem = InotifyEvent(*wire_item[1])
                    wanted = [wire_item[1][4]]
                else:
                    pyitem = (InotifyEvent(*wire_item[1]), InotifyEvent(*wire_item[2]))
                    wanted = [wire_item[2][4]]
                stub = StubBuffer([pyitem])
                em._inotify = stub
                em.queue_events(1.0)
                got = [[cls_name(e), os.fsencode(e.src_path), os.fsencode(e.dest_path), bool(e.is_synthetic)]
                       for e, w in q.log]
                stopped = not em.should_keep_running()
                drained = []
                while not q.empty():
                    e, w = q.get_nowait()
                    drained.append([cls_name(e), os.fsencode(e.src_path), os.fsencode(e.dest_path), bool(e.is_synthetic)])
                content = [[p, tree_of(p)] for p in wanted if os.path.isdir(p)]
                witem = [Atom("S"), *wire_item[1]] if wire_item[0] == "S" else [Atom("P"), list(wire_item[1]), list(wire_item[2])]
                head = [Atom("emit")] if F is None else [Atom("emitf"), filt_wire(F)]
                cases.append(sx(head + [full, recursive, R, content, witem]))
                impls.append((got, stopped))
                meta = {"pair": "InotifyFullEmitter.queue_events" if full else "InotifyEmitter.queue_events",
                        "filter": F, "full_events": full, "recursive": recursive, "watch_path": "bytes" if as_bytes else "str",
                        "item": desc}
                metas.append(meta)
                if F is None:
                    cases.append(sx([Atom("collapse"), full, recursive, R, content, witem]))
                    impls.append((drained, None))
                    metas.append({**meta, "pair": "EventQueue after queue_events (skip repeats)"})
                res.evaluations += 1
                res.hist("unit_item", "pair" if wire_item[0] == "P" else "single")
                res.hist("unit_events_per_item", len(got))
                if got:
                    res.nontrivial.add(core.digest(["unit", F, full, recursive, as_bytes, desc]))
                if len(res.samples) < 2 and len(got) >= 4:
                    res.samples.append({**meta, "events": [[c, s.decode("latin1"), d.decode("latin1"), y] for c, s, d, y in got][:6]})
    finally:
        shutil.rmtree(base, ignore_errors=True)
    outs = core.run_model("emitter", cases)
    for c, o, (got, stopped), me in zip(cases, outs, impls, metas):
        res.traces_validated += 1
        if stopped is None:
            mo = [[e[0], core.unhex(e[1]), core.unhex(e[2]), e[3] == "1"] for e in o]
            ok = mo == got
        else:
            mo = [[e[0], core.unhex(e[1]), core.unhex(e[2]), e[3] == "1"] for e in o[0]]
            ok = mo == got and (o[1] == "1") == stopped
        if not ok:
            res.mismatches.append(Mismatch(pair=me["pair"], case=me, model=str(o)[:700], impl=str((got, stopped))[:700]))

    # isinstance vs accepts / subclass; is_directory
    cases, impls, metas = [], [], []
    import watchdog.events as E
    for c in CONCRETE:
        inst = ev_class(c)("a", "b") if c.endswith("Moved") else ev_class(c)("a")
        for b in ALL13:
            cases.append(sx([Atom("accepts"), [[Atom(b)]], Atom(c)]))
            impls.append(isinstance(inst, ev_class(b)))
            metas.append(f"isinstance({c}Event(), {b})")
            cases.append(sx([Atom("subclass"), Atom(c), Atom(b)]))
            impls.append(issubclass(ev_class(c), ev_class(b)))
            metas.append(f"issubclass({c}Event, {b})")
        cases.append(sx([Atom("accepts"), [], Atom(c)]))
        impls.append(True)
        metas.append("no filter")
        cases.append(sx([Atom("accepts"), [[]], Atom(c)]))
        impls.append(False)
        metas.append("empty filter")
    for m in masks:
        cases.append(sx([Atom("isdir"), m]))
        impls.append(InotifyEvent(1, m, 0, b"", b"p").is_directory)
        metas.append(f"InotifyEvent(mask={m:#x}).is_directory")
    outs = core.run_model("emitter", cases)
    for o, im, me in zip(outs, impls, metas):
        res.traces_validated += 1
        res.evaluations += 1
        if (o == "1") != bool(im):
            res.mismatches.append(Mismatch(pair="class lattice / is_directory", case=me, model=o, impl=im))
    # the class list itself
    names = {n for n in dir(E) if n.endswith("Event") and isinstance(getattr(E, n), type)
             and issubclass(getattr(E, n), E.FileSystemEvent)}
    want = {c + "Event" for c in CONCRETE} | set(BASES)
    if names != want:
        res.mismatches.append(Mismatch(pair="event class list", case="watchdog.events", model=sorted(want), impl=sorted(names)))


# =================================================================== unit: mask table
def real_mask(F, recursive, full=False):
    from watchdog.observers.api import EventQueue, ObservedWatch
    from watchdog.observers.inotify import InotifyEmitter, InotifyFullEmitter
    fcls = None if F is None else [ev_class(n) for n in F]
    klass = InotifyFullEmitter if full else InotifyEmitter
    em = klass(EventQueue(), ObservedWatch("/nonexistent-c11", recursive=recursive, event_filter=fcls), event_filter=fcls)
    return em.get_event_mask_from_filter()


def filter_universe(ctx, n_random):
    rng = ctx.rng("filters")
    singles = [[n] for n in ALL13]
    pairs = [list(p) for p in itertools.combinations(ALL13, 2)]
    rand = []
    for _ in range(n_random):
        k = rng.randint(3, 7)
        rand.append(sorted(rng.sample(ALL13, k)))
    return singles, pairs, rand


def unit_mask(ctx, res: Result):
    """real get_event_mask_from_filter vs model; returns the static gaps {(filter name, recursive): [flag names]}."""
    singles, pairs, rand = filter_universe(ctx, 50 if not ctx.thorough else 300)
    filters = [None, []] + singles + pairs + rand
    cases, impls, metas = [], [], []
    for F in filters:
        for recursive in (False, True):
            for full in (False, True):
                cases.append(sx([Atom("mask"), recursive, filt_wire(F)]))
                impls.append(real_mask(F, recursive, full))
                metas.append({"pair": "get_event_mask_from_filter", "filter": F, "recursive": recursive, "full": full})
    outs = core.run_model("masktable", cases)
    for o, im, me in zip(outs, impls, metas):
        res.traces_validated += 1
        res.evaluations += 1
        mo = None if o == [] else int(o[0])
        if mo != im:
            res.mismatches.append(Mismatch(pair="get_event_mask_from_filter", case=me,
                                           model=mo if mo is None else hex(mo), impl=im if im is None else hex(im)))
    # static reading of the property on the real table: which needed flags does the real mask lack?
    cases, keys = [], []
    for F in singles:
        for recursive in (False, True):
            cases.append(sx([Atom("needed"), recursive, filt_wire(F)]))
            keys.append((F[0], recursive))
    outs = core.run_model("masktable", cases)
    gaps = {}
    for (name, recursive), o in zip(keys, outs):
        rm = real_mask([name], recursive)
        missing = sorted({FLAG_NAME[int(b)] for b in o if rm & int(b) != int(b)})
        if missing:
            gaps[(name, recursive)] = missing
    return gaps


# =================================================================== translator self-test
def translator_selftest(ctx, res: Result):
    gen = core.VERIF / "harness" / "translate" / "gen_masktable.py"
    tmp = tempfile.mkdtemp(prefix="wdc11t", dir=scratch_base())
    try:
        src_dir = os.path.join(tmp, "src", "watchdog", "observers")
        os.makedirs(src_dir)
        orig = {n: (core.REPO / "src" / "watchdog" / "observers" / n).read_text() for n in ("inotify.py", "inotify_c.py")}

        def run(mut):
            for n, t in orig.items():
                t2 = mut.get(n, lambda s: s)(t)
                with open(os.path.join(src_dir, n), "w") as f:
                    f.write(t2)
            out = os.path.join(tmp, "out.v")
            env = dict(os.environ, WATCHDOG_REPO=tmp, GEN_MASKTABLE_OUT=out)
            p = subprocess.run([sys.executable, str(gen)], capture_output=True, text=True, env=env, timeout=60)
            return p.returncode, (open(out).read() if os.path.exists(out) else "")

        def rep(old, new, count=1):
            def f(s):
                if old not in s:
                    raise KeyError(old)
                return s.replace(old, new, count)
            return f

        rc0, text0 = run({})
        res.evaluations += 1
        if rc0 != 0:
            res.mismatches.append(Mismatch(pair="translator", case="unmodified source", model="accept", impl=f"rc={rc0}"))
            return
        must_refuse = {
            "return narrows the mask": {"inotify.py": rep("        return event_mask\n", "        return event_mask & ~InotifyConstants.IN_MOVED_FROM\n")},
            "initial mask not a constant name": {"inotify.py": rep("event_mask = InotifyConstants.IN_DELETE_SELF", "event_mask = 0")},
            "and-assignment in a branch": {"inotify.py": rep("event_mask |= InotifyConstants.IN_MOVE\n", "event_mask &= InotifyConstants.IN_MOVE\n")},
            "extra statement in the loop": {"inotify.py": rep("        for cls in self._event_filter:\n", "        for cls in self._event_filter:\n            if cls is None:\n                continue\n")},
            "statement after the loop": {"inotify.py": rep("        return event_mask\n", "        event_mask ^= InotifyConstants.IN_CREATE\n        return event_mask\n")},
            "constant computed differently": {"inotify_c.py": rep("IN_MOVED_FROM = 0x00000040", "IN_MOVED_FROM = 0x00000040 + 0")},
            "override in the full emitter": {"inotify.py": rep("    def queue_events(self, timeout: float, *, events: bool = True) -> None:  # type: ignore[override]\n",
                                                               "    def get_event_mask_from_filter(self):\n        return 0\n\n    def queue_events(self, timeout: float, *, events: bool = True) -> None:  # type: ignore[override]\n")},
            "class name re-bound": {"inotify.py": rep("logger = logging.getLogger(__name__)\n", "logger = logging.getLogger(__name__)\nFileDeletedEvent = FileCreatedEvent\n")},
        }
        for what, mut in must_refuse.items():
            res.evaluations += 1
            try:
                rc, text = run(mut)
            except KeyError as e:
                res.notes.append(f"translator self-test: anchor for mutant '{what}' not present in the source ({e})")
                continue
            if rc == 0 or "Definition mask1" in text:
                res.mismatches.append(Mismatch(pair="translator", case=f"mutant: {what}", model="refuse (exit != 0)", impl=f"rc={rc}"))
        # a mutant of the accepted shape must change the generated table
        res.evaluations += 1
        try:
            rc, text = run({"inotify.py": rep("InotifyConstants.IN_MOVE | InotifyConstants.IN_CREATE\n", "InotifyConstants.IN_MOVE\n")})
            if rc != 0 or text == text0:
                res.mismatches.append(Mismatch(pair="translator", case="mutant: IN_CREATE dropped", model="accepted, different table",
                                               impl=f"rc={rc} same={text == text0}"))
        except KeyError:
            pass
    finally:
        shutil.rmtree(tmp, ignore_errors=True)


# =================================================================== lock-step: Pipeline model under the filter's mask
def lockstep_filtered(ctx, res: Result):
    """The REAL gated observer, scheduled with event_filter=F, against the extracted Pipeline model configured the way
    C11_transparent_sequential(_all) configures the filtered watch: c_mask = the event bits of mask_of_filter F,
    pc_filter = F.  Compared action by action (harness/pipe.compare): the raw records the real kernel hands to the
    reader under the reduced mask (Fs.knotify's delivery rule), and the events of every queue_events() call.
    Histories: drained and bursty (the model is the full Pipeline LTS, not only the drained regime)."""
    from harness import pipe
    # does the checkout under test carry the repair of F10 (directories moved out of a recursive watch are forgotten)?
    src_c = (core.REPO / "src" / "watchdog" / "observers" / "inotify_c.py").read_text()
    moveout_fixed = "_moved_out_candidate" in src_c
    # ... and the repair of F10e (Inotify._add_watch deletes the stale key of a descriptor that comes back under another path)?
    relabel_fixed = "known_as" in src_c
    rng = ctx.rng("lockstep")
    singles, pairs, rand = filter_universe(ctx, 20)
    filters = singles + (pairs + rand if ctx.thorough else pairs[::9] + rand[:4])
    n = 1500 if ctx.thorough else 150
    masks = core.run_model("masktable", [sx([Atom("effective"), r, filt_wire(F)]) for F in filters for r in (False, True)])
    mask_of = {}
    it = iter(masks)
    for F in filters:
        for r in (False, True):
            mask_of[(tuple(F), r)] = int(next(it)) & 0xFFF
    batch = []
    for i in range(n):
        F = filters[i % len(filters)]
        recursive = bool((i // len(filters) + i) & 1)
        full = bool(i & 2)
        kind = "bytes" if i % 5 == 0 else "str"
        hist = pipe.gen_history(rng, n_ops=rng.randint(3, 12), paced=True, burst_prob=rng.choice([0.0, 0.5, 0.9]))
        run = pipe.Run(recursive=recursive, full=full, path_kind=kind, event_filter=[ev_class(x) for x in F])
        try:
            run.execute(hist)
            # pipe.Run.model_case with the filter's mask and class filter in place of ("all", "none")
            root = os.fsencode(run.rootp)
            cfg = [recursive, full, pipe.DELAY_UNITS, root, mask_of[(tuple(F), recursive)], True, True, True, [],
                   [Atom(x) for x in F], moveout_fixed, relabel_fixed]
            ents = [[pth, j + 1, d] for j, (pth, d) in enumerate(run.init_fs)]
            acts = []
            for e in run.log:
                if e["a"] == "op":
                    a = [Atom(e["kind"]), os.fsencode(run.real(e["path"]))]
                    if e["kind"] == "rename":
                        a.append(os.fsencode(run.real(e["path2"])))
                    acts.append(a)
                elif e["a"] == "read":
                    acts.append([Atom("read"), e["k"]])
                elif e["a"] == "emit":
                    acts.append(Atom("emit"))
                elif e["a"] == "tick":
                    acts.append([Atom("tick"), e["d"]])
            case = sx([cfg, [ents, len(ents) + 1], acts])
        finally:
            run.close()
        meta = {"pair": "Pipeline model (c_mask = kmask F, pc_filter = F) vs real observer with event_filter",
                "filter": F, "recursive": recursive, "full_events": full, "path_kind": kind, "history": hist}
        batch.append((meta, run, case))
        res.evaluations += 1
        res.hist("lockstep_filter_size", len(F))
        nev = sum(len(e["events"]) for e in run.log if e["a"] == "emit")
        nraw = sum(len(e["raw"]) for e in run.log if e["a"] == "read")
        res.hist("lockstep_raw_records", min(nraw, 24) // 4 * 4)
        if nev and nraw:
            res.nontrivial.add(core.digest(["lockstep", F, recursive, full, hist]))
    outs = core.run_model("pipeline", [c for _, _, c in batch])
    for (meta, run, _), o in zip(batch, outs):
        res.traces_validated += 1
        diffs = pipe.compare(run, o)
        if diffs:
            what, idx, m, r = diffs[0]
            res.mismatches.append(Mismatch(meta["pair"] + ": " + what, {k: v for k, v in meta.items() if k != "pair"} | {"at_action": idx},
                                           str(m)[:600], str(r)[:600]))


# =================================================================== end-to-end: two watches on the real kernel
# operations: paths relative to the lane's root R ("o:" prefix = relative to the sibling directory O, outside the watch)
HISTORIES = {
    "file-life": [("mkfile", "a"), ("write", "a"), ("chmod", "a"), ("read", "a"), ("rm", "a")],
    "dir-life": [("mkdir", "d"), ("chmod", "d"), ("mkdir", "d/e"), ("mkfile", "d/e/f"), ("write", "d/e/f"),
                 ("rm", "d/e/f"), ("rmdir", "d/e"), ("rmdir", "d")],
    "rename-file": [("mkfile", "a"), ("mv", "a", "b"), ("write", "b"), ("rm", "b")],
    "rename-dir": [("mkdir", "d"), ("mkfile", "d/x"), ("mkdir", "d/s"), ("mv", "d", "e"), ("mkfile", "e/y"), ("write", "e/x")],
    "move-out": [("mkfile", "a"), ("mvout", "a", "a"), ("mkdir", "d"), ("mkfile", "d/x"), ("mvout", "d", "d")],
    "move-in": [("omkfile", "f"), ("omkdir", "g"), ("omkfile", "g/x"), ("mvin", "f", "f"), ("mvin", "g", "g"), ("mkfile", "h")],
    "replace": [("mkfile", "a"), ("mkfile", "b"), ("mv", "a", "b"), ("rm", "b")],
    "between-dirs": [("mkdir", "d"), ("mkfile", "d/a"), ("mv", "d/a", "a"), ("mvout", "a", "z"), ("rmdir", "d")],
    "root-removed": [("mkfile", "a"), ("rm", "a"), ("rmroot",)],
    # a directory leaves the tree and is used at its new place: neither watch may report anything from there (the
    # recursive watch always asks for both halves of a move for its own bookkeeping, whatever the filter)
    "after-move-out": [("mkdir", "d"), ("mkfile", "d/x"), ("mkdir", "d/s"), ("mvout", "d", "d"), ("write", "o:d/x"),
                       ("mkfile", "o:d/s/g"), ("read", "o:d/x"), ("mkfile", "top"), ("write", "top")],
}
OPS_IN = ["mkfile", "write", "chmod", "read", "rm", "mkdir", "rmdir", "mv", "mvout", "mvin"]


def apply_op(op, R, O):
    def p(rel):
        return os.path.join(O, rel[2:]) if rel.startswith("o:") else os.path.join(R, rel)
    k = op[0]
    if k == "mkfile":
        os.close(os.open(p(op[1]), os.O_CREAT | os.O_EXCL | os.O_WRONLY, 0o644))
    elif k == "omkfile":
        os.close(os.open(os.path.join(O, op[1]), os.O_CREAT | os.O_EXCL | os.O_WRONLY, 0o644))
    elif k == "omkdir":
        os.mkdir(os.path.join(O, op[1]))
    elif k == "write":
        fd = os.open(p(op[1]), os.O_WRONLY | os.O_APPEND)
        os.write(fd, b"x")
        os.close(fd)
    elif k == "read":
        fd = os.open(p(op[1]), os.O_RDONLY)
        os.read(fd, 10)
        os.close(fd)
    elif k == "chmod":
        st = os.stat(p(op[1]))
        os.chmod(p(op[1]), (st.st_mode & 0o777) ^ 0o040)
    elif k == "rm":
        os.unlink(p(op[1]))
    elif k == "mkdir":
        os.mkdir(p(op[1]))
    elif k == "rmdir":
        os.rmdir(p(op[1]))
    elif k == "mv":
        os.rename(p(op[1]), p(op[2]))
    elif k == "mvout":
        os.rename(p(op[1]), os.path.join(O, op[2]))
    elif k == "mvin":
        os.rename(os.path.join(O, op[1]), p(op[2]))
    elif k == "rmroot":
        for n in os.listdir(R):
            q = os.path.join(R, n)
            if os.path.isdir(q) and not os.path.islink(q):
                shutil.rmtree(q)
            else:
                os.unlink(q)
        os.rmdir(R)
    else:
        raise ValueError(op)


def collapse(evs):
    out = []
    for e in evs:
        if not out or out[-1] != e:
            out.append(e)
    return out


def show(e, R=None):
    def rel(p):
        p = os.fsdecode(p) if isinstance(p, bytes) else p
        if R and p.startswith(R):
            return "R" + p[len(R):]
        return p
    t = [cls_name(e), rel(e.src_path)]
    if e.dest_path != "" or cls_name(e).endswith("Moved"):
        t.append(rel(e.dest_path))
    if e.is_synthetic:
        t.append("synthetic")
    return t


class Lane:
    """One scratch root with two watches (unfiltered / filtered) of one observer."""

    def __init__(self, base, idx, F, recursive, full):
        self.F, self.recursive, self.full = F, recursive, full
        self.dir = os.path.join(base, f"L{idx}")
        self.R = os.path.join(self.dir, "r")
        self.O = os.path.join(self.dir, "o")
        os.makedirs(self.R)
        os.makedirs(self.O)
        # the drain sentinel: a file that exists before the watches do; a drain toggles its mode, which the
        # unfiltered watch reports as FileModified(R/.s) and nothing else (no parent DirModified)
        self.S = os.path.join(self.R, ".s")
        os.close(os.open(self.S, os.O_CREAT | os.O_EXCL | os.O_WRONLY, 0o600))
        self.hu = self.hf = None
        self.marks = []          # (len(unfiltered), len(filtered)) after each step
        self.dead = None         # reason the lane could not be driven to the end
        self.root_gone = False

    def is_sentinel(self, e):
        for p in (e.src_path, e.dest_path):
            if p and p == self.S:
                return True
        return False


def make_handler():
    from watchdog.events import FileSystemEventHandler

    class Rec(FileSystemEventHandler):
        def __init__(self):
            self.events = []

        def on_any_event(self, event):
            self.events.append(event)

    return Rec()


def emitter_quiet(em):
    """nothing readable on the emitter's inotify descriptor and nothing waiting in its delay queue"""
    buf = em._inotify
    if buf is None:
        return True
    try:
        ino = buf._inotify
        if ino._closed:
            return True
        r, _, _ = select.select([ino.fd], [], [], 0)
        if r:
            return False
        return len(buf._queue._queue) == 0
    except (OSError, ValueError, AttributeError):
        return True


def wait_quiet(observers, emitters, live, timeout, runs=4):
    """Every event queue dispatched, nothing readable on any inotify descriptor, every delay queue empty -
    observed `runs` times in a row, 12 ms apart."""
    quiet_runs = 0
    deadline = time.monotonic() + timeout
    while quiet_runs < runs and time.monotonic() < deadline:
        ok = all(ob.event_queue.unfinished_tasks == 0 for ob in observers.values())
        if ok:
            for ln in live:
                eu, ef = emitters[id(ln)]
                if not (emitter_quiet(ef) and emitter_quiet(eu)):
                    ok = False
                    break
        quiet_runs = quiet_runs + 1 if ok else 0
        time.sleep(0.012)
    return quiet_runs >= runs


def run_lanes(lanes, history, res: Result | None, timeout=8.0):
    """Drive `history` on all lanes (they share one observer per emitter kind).  Returns per-lane verdicts."""
    from watchdog.events import DirDeletedEvent, FileModifiedEvent
    from watchdog.observers.inotify import InotifyObserver

    observers = {}
    emitters = {}
    try:
        for ln in lanes:
            ob = observers.get(ln.full)
            if ob is None:
                ob = observers[ln.full] = InotifyObserver(generate_full_events=ln.full)
                ob.start()
            ln.hu, ln.hf = make_handler(), make_handler()
            fcls = [ev_class(n) for n in ln.F]
            wu = ob.schedule(ln.hu, ln.R, recursive=ln.recursive)
            wf = ob.schedule(ln.hf, ln.R, recursive=ln.recursive, event_filter=fcls)
            by_watch = {em.watch: em for em in ob.emitters}
            emitters[id(ln)] = (by_watch[wu], by_watch[wf])
        for step, op in enumerate(history):
            live = [ln for ln in lanes if not ln.dead]
            for ln in live:
                try:
                    apply_op(op, ln.R, ln.O)
                except OSError as e:
                    ln.dead = f"operation {op} failed: {e}"
            live = [ln for ln in lanes if not ln.dead]
            # ---- drain: a sentinel the unfiltered watch reports, then quiescence of the filtered watch
            waiting = {}
            for ln in live:
                start = ln.marks[-1][0] if ln.marks else 0
                if op[0] == "rmroot":
                    ln.root_gone = True
                    waiting[id(ln)] = (ln, start, lambda e, ln=ln: isinstance(e, DirDeletedEvent) and e.src_path == ln.R)
                else:
                    os.chmod(ln.S, 0o600 if step & 1 else 0o640)
                    waiting[id(ln)] = (ln, start, lambda e, s=ln.S: isinstance(e, FileModifiedEvent) and e.src_path == s)
            deadline = time.monotonic() + timeout
            while waiting and time.monotonic() < deadline:
                for k in list(waiting):
                    ln, start, pred = waiting[k]
                    evs = ln.hu.events
                    if any(pred(evs[j]) for j in range(start, len(evs))):
                        del waiting[k]
                if waiting:
                    time.sleep(0.005)
            for k, (ln, _, _) in waiting.items():
                ln.dead = f"drain time-out after {op}: the unfiltered watch never reported the sentinel"
            if not wait_quiet(observers, emitters, live, timeout):
                for ln in live:
                    if not ln.dead:
                        ln.dead = f"no quiescence within {timeout}s after {op}"
            for ln in lanes:
                ln.marks.append((len(ln.hu.events), len(ln.hf.events)))
        # final settle before the streams are judged
        time.sleep(0.05)
        wait_quiet(observers, emitters, [ln for ln in lanes if not ln.dead], timeout)
    finally:
        for ob in observers.values():
            try:
                ob.stop()
            except Exception:
                pass
        for ob in observers.values():
            try:
                ob.join(10)
            except Exception:
                pass


def judge(ln: Lane, history):
    """The oracle: the property text on the two recorded streams."""
    fcls = tuple(ev_class(n) for n in ln.F)
    U = [e for e in ln.hu.events if not ln.is_sentinel(e)]
    Fi = [e for e in ln.hf.events if not ln.is_sentinel(e)]
    expected = collapse([e for e in U if isinstance(e, fcls)])
    got = collapse(Fi)
    verdict = None
    if expected != got:
        # locate the first operation whose segment differs
        opi = None
        pu = pf = 0
        for i, (mu, mf) in enumerate(ln.marks):
            su = collapse([e for e in ln.hu.events[pu:mu] if not ln.is_sentinel(e) and isinstance(e, fcls)])
            sf = collapse([e for e in ln.hf.events[pf:mf] if not ln.is_sentinel(e)])
            if su != sf:
                opi = i
                break
            pu, pf = mu, mf
        exp_s, got_s = [show(e, ln.R) for e in expected], [show(e, ln.R) for e in got]
        missing = [x for x in exp_s if x not in got_s]
        extra = [x for x in got_s if x not in exp_s]
        kind = "missing" if missing and not extra else "extra" if extra and not missing else "different"
        verdict = dict(op=history[opi] if opi is not None else None, op_index=opi, kind=kind, missing=missing[:6], extra=extra[:6],
                       expected=exp_s, got=got_s)
    return verdict, U, expected


def e2e(ctx, res: Result, plan, batch=26, label=""):
    """plan: list of (history name, history, [(F, recursive, full)...]).  Lanes are run `batch` at a time."""
    errors = []
    old_hook = threading.excepthook

    def hook(args):
        errors.append(f"{args.thread.name if args.thread else '?'}: {args.exc_type.__name__}: {args.exc_value}")
    threading.excepthook = hook
    try:
        for hname, history, configs in plan:
            i = 0
            while i < len(configs):
                chunk = configs[i:i + batch]
                base = tempfile.mkdtemp(prefix="wdc11e", dir=scratch_base())
                try:
                    lanes = [Lane(base, j, F, r, fu) for j, (F, r, fu) in enumerate(chunk)]
                    try:
                        run_lanes(lanes, history, res)
                    except OSError as e:
                        if e.errno in (errno.EMFILE, errno.ENOSPC) and batch > 2:
                            res.notes.append(f"inotify limit hit with {len(chunk)} lanes ({e}); halving the batch")
                            batch = max(2, batch // 2)
                            continue
                        raise
                    for ln in lanes:
                        case = {"filter": ln.F, "recursive": ln.recursive, "full_events": ln.full, "history_name": hname,
                                "history": [list(o) for o in history]}
                        res.evaluations += 1
                        res.hist("e2e_history", hname)
                        res.hist("e2e_filter_size", len(ln.F))
                        res.hist("e2e_config", f"{'rec' if ln.recursive else 'flat'}/{'full' if ln.full else 'normal'}")
                        if ln.dead:
                            res.hist("e2e_undriven", ln.dead.split(":")[0][:40])
                            res.notes.append(f"lane not driven to the end ({ln.F}, rec={ln.recursive}, full={ln.full}, {hname}): {ln.dead}")
                            continue
                        verdict, U, expected = judge(ln, history)
                        res.traces_validated += 1
                        res.hist("e2e_unfiltered_events", min(len(U), 60) // 10 * 10)
                        if 0 < len(expected) < len(collapse(U)):
                            res.nontrivial.add(core.digest([ln.F, ln.recursive, ln.full, hname]))
                        if len(res.samples) < 6 and 0 < len(expected) < len(collapse(U)) and len(ln.F) >= 1 and hname in ("move-out", "rename-dir"):
                            res.samples.append({**case, "unfiltered": [show(e, ln.R) for e in U][:14],
                                                "filtered_expected": [show(e, ln.R) for e in expected][:8]})
                        if verdict:
                            res.failures.append(Failure(
                                what=f"filter {ln.F} ({'recursive' if ln.recursive else 'non-recursive'}, "
                                     f"{'full' if ln.full else 'normal'} emitter): the filtered watch's stream is not the accepted "
                                     f"part of the unfiltered watch's stream - {verdict['kind']} after {verdict['op']}",
                                case=case,
                                signature={"filter": "+".join(ln.F), "recursive": ln.recursive, "full": ln.full,
                                           "op": verdict["op"][0] if verdict["op"] else None, "kind": verdict["kind"]},
                                observed={"filtered_watch": verdict["got"], "missing": verdict["missing"], "extra": verdict["extra"]},
                                expected={"accepted_part_of_unfiltered_watch": verdict["expected"]}))
                finally:
                    shutil.rmtree(base, ignore_errors=True)
                i += len(chunk)
    finally:
        threading.excepthook = old_hook
    if errors:
        res.notes.append(f"{len(errors)} uncaught exception(s) in library threads during the end-to-end runs: {errors[:3]}")


def random_history(rng, n):
    """A history over a small name space that keeps every name fresh after it left the tree (no F1/F10 territory)."""
    files, dirs, used, outside = [], [], set(), []
    h = []
    names = iter(f"n{i}" for i in range(100))

    def fresh():
        return next(names)
    for _ in range(n):
        choices = ["mkfile", "mkdir"]
        if files:
            choices += ["write", "chmod", "read", "rm", "mvfile", "mvoutfile"]
        if dirs:
            choices += ["mkfile_in", "mkdir_in", "mvdir", "chmoddir"]
        if outside:
            choices += ["mvin"]
        k = rng.choice(choices)
        if k == "mkfile":
            f = fresh()
            files.append(f)
            h.append(("mkfile", f))
        elif k == "mkdir":
            d = fresh()
            dirs.append(d)
            h.append(("mkdir", d))
        elif k in ("write", "chmod", "read"):
            h.append((k, rng.choice(files)))
        elif k == "rm":
            f = rng.choice(files)
            files.remove(f)
            h.append(("rm", f))
        elif k == "mvfile":
            f = rng.choice(files)
            files.remove(f)
            g = fresh() if not dirs or rng.random() < 0.5 else rng.choice(dirs) + "/" + fresh()
            files.append(g)
            h.append(("mv", f, g))
        elif k == "mvoutfile":
            f = rng.choice(files)
            files.remove(f)
            o = fresh()
            outside.append(o)
            h.append(("mvout", f, o))
        elif k == "mkfile_in":
            f = rng.choice(dirs) + "/" + fresh()
            files.append(f)
            h.append(("mkfile", f))
        elif k == "mkdir_in":
            d = rng.choice(dirs) + "/" + fresh()
            dirs.append(d)
            h.append(("mkdir", d))
        elif k == "chmoddir":
            h.append(("chmod", rng.choice(dirs)))
        elif k == "mvdir":
            d = rng.choice([x for x in dirs])
            nd = fresh()
            if "/" in d:
                nd = d.rsplit("/", 1)[0] + "/" + nd
            files = [nd + f[len(d):] if f.startswith(d + "/") else f for f in files]
            dirs = [nd + x[len(d):] if x == d or x.startswith(d + "/") else x for x in dirs]
            h.append(("mv", d, nd))
        elif k == "mvin":
            o = outside.pop()
            f = fresh()
            files.append(f)
            h.append(("mvin", o, f))
    return h


def build_plan(ctx, gaps):
    singles, pairs, rand = filter_universe(ctx, 50)
    plan = []
    # corpus first: minimised past failures (F6 on the pinned tree)
    by_hist = {}
    for c in ctx.corpus():
        h = tuple(tuple(o) for o in c["history"])
        by_hist.setdefault((c.get("history_name", "corpus"), h), []).append((c["filter"], c["recursive"], c["full_events"]))
    for (hname, h), cfgs in by_hist.items():
        plan.append(("corpus:" + hname, list(h), cfgs))
    if not ctx.thorough:
        # with a single class the accepted stream is often one event repeated (stutter hides a lost repeat):
        # a few two-class filters whose second class separates the repeats
        separators = [["FileModified", "DirModified"], ["FileOpened", "DirModified"],
                      ["FileSystemMovedEvent", "FileDeleted"], ["FileCreated", "DirDeleted"]]
        # the static reading of the real table names (class, flag) gaps: aim lanes at them
        targeted = []
        for (name, recursive), flags in sorted(gaps.items()):
            for F in ([name], [name, "FileModified"], [name, "FileOpened"]):
                if len(set(F)) == len(F):
                    targeted += [(F, recursive, False), (F, recursive, True)]
        targeted = targeted[:60]
        for hname, h in HISTORIES.items():
            cfgs = []
            for F in singles + separators:
                for recursive in (False, True):
                    # alternate the emitter kind so that both kinds see every filter and every history
                    full = ((ALL13.index(F[0]) + len(F)) + int(recursive) + list(HISTORIES).index(hname)) % 2 == 1
                    cfgs.append((F, recursive, full))
            have = {(tuple(F), r, fu) for F, r, fu in cfgs}
            cfgs += [c for c in targeted if (tuple(c[0]), c[1], c[2]) not in have]
            plan.append((hname, h, cfgs))
    else:
        rng = ctx.rng("histories")
        filters = singles + pairs + rand
        for hname, h in HISTORIES.items():
            cfgs = [(F, recursive, full) for F in singles for recursive in (False, True) for full in (False, True)]
            cfgs += [(F, bool(i & 1), bool(i & 2)) for i, F in enumerate(pairs + rand)]
            plan.append((hname, h, cfgs))
        for k in range(6):
            h = random_history(rng, 14)
            cfgs = [(F, bool((i + k) & 1), bool((i + k) & 2)) for i, F in enumerate(filters)]
            plan.append((f"random-{k}", h, cfgs))
    return plan


def confirm(ctx, res: Result, limit=6):
    """A handful of divergences in an otherwise clean run may come from the drain heuristic (real time, real
    threads): each is re-run alone, twice; one that never shows again is reported in the notes and the
    histogram, not as a property failure.  Many divergences (a genuinely broken table) are kept as they are."""
    if not res.failures or len(res.failures) > limit:
        return
    kept = []
    for f in res.failures:
        again = 0
        for _ in range(2):
            base = tempfile.mkdtemp(prefix="wdc11c", dir=scratch_base())
            try:
                ln = Lane(base, 0, f.case["filter"], f.case["recursive"], f.case["full_events"])
                history = [tuple(o) for o in f.case["history"]]
                run_lanes([ln], history, None)
                if not ln.dead and judge(ln, history)[0]:
                    again += 1
            finally:
                shutil.rmtree(base, ignore_errors=True)
        res.evaluations += 2
        if again:
            f.what += f" (reproduced {again}/2 times when re-run alone)"
            kept.append(f)
        else:
            res.hist("e2e_unreproduced_divergence", f.signature.get("filter"))
            res.notes.append(f"divergence seen once but not reproduced in 2 solo re-runs (not counted): {f.what}; "
                             f"observed={f.observed}")
    res.failures[:] = kept


# =================================================================== entry points
def run(ctx) -> Result:
    res = Result()
    res.rule = ("unit: every inotify flag x ISDIR x {normal, full} x {recursive, not} x {watch root, directory with content, "
                "non-UTF-8 directory, file, missing path} x {str, bytes} + pairs through the real queue_events; distinct = "
                "(filter, config, item), non-trivial = at least one event queued.  end-to-end: (filter, recursive, emitter "
                "kind, history) on the real kernel with an unfiltered and a filtered watch on the same root; non-trivial = the "
                "accepted part of the unfiltered stream is neither empty nor everything")
    t0 = time.time()
    rc, head = core.sh(["git", "-C", str(core.REPO), "rev-parse", "--short", "HEAD"])
    rc2, dirty = core.sh(["git", "-C", str(core.REPO), "status", "--porcelain", "--", "src/watchdog/observers"])
    res.notes.append(f"watchdog checkout under test: {core.REPO} HEAD={head.strip() if rc == 0 else '?'}"
                     + (f" with local changes: {dirty.split()}" if dirty.strip() else ""))
    unit_emit(ctx, res)
    gaps = unit_mask(ctx, res)
    translator_selftest(ctx, res)
    tl = time.time()
    lockstep_filtered(ctx, res)
    res.notes.append(f"timing: lock-step of the filtered Pipeline model {time.time() - tl:.1f}s")
    t1 = time.time()
    if gaps:
        res.notes.append("static reading of the table in the source: flags that matter but are absent from the real mask: "
                         + "; ".join(f"{k[0]}{'/recursive' if k[1] else ''}: {'|'.join(v)}" for k, v in sorted(gaps.items())[:30]))
    plan = build_plan(ctx, gaps)
    e2e(ctx, res, plan, batch=34 if not ctx.thorough else 30)
    confirm(ctx, res)
    res.notes.append(f"timing: unit+translator {t1 - t0:.1f}s, end-to-end {time.time() - t1:.1f}s; "
                     f"{sum(len(c) for _, _, c in plan)} lanes over {len(plan)} histories")
    return res


def replay(ctx, obj) -> int:
    case = obj.get("case", obj)
    if not isinstance(case, dict) or "history" not in case:
        print("replay: nothing to run for this record (kind =", obj.get("kind"), ")")
        for k in ("proof_problems", "first_disagreement", "harness_problem"):
            if k in obj:
                print(k, ":", obj[k])
        return 1
    history = [tuple(o) for o in case["history"]]
    base = tempfile.mkdtemp(prefix="wdc11r", dir=scratch_base())
    try:
        ln = Lane(base, 0, case["filter"], case["recursive"], case["full_events"])
        run_lanes([ln], history, None)
        print(f"filter={case['filter']} recursive={case['recursive']} full_events={case['full_events']}")
        print("history:", history)
        if ln.dead:
            print("lane not driven to the end:", ln.dead)
            return 1
        verdict, U, expected = judge(ln, history)
        print("unfiltered watch :", [show(e, ln.R) for e in U])
        print("accepted part    :", [show(e, ln.R) for e in expected])
        print("filtered watch   :", [show(e, ln.R) for e in collapse([e for e in ln.hf.events if not ln.is_sentinel(e)])])
        print("real mask        :", hex(real_mask(case["filter"], case["recursive"], case["full_events"])))
        if verdict:
            print(f"FAIL: {verdict['kind']} after operation {verdict['op']}: missing={verdict['missing']} extra={verdict['extra']}")
            return 1
        print("OK: the filtered stream is the accepted part of the unfiltered stream")
        return 0
    finally:
        shutil.rmtree(base, ignore_errors=True)
