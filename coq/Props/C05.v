(* C05 - After unschedule/remove/stop returns, the removed handler is never called again. *)
Require Import WD.Base.Prelude WD.Model.Observer WD.Proofs.ObserverProofs WD.Proofs.ObserverInv WD.Proofs.ObserverRet
  WD.Proofs.ObserverDisp WD.Proofs.ObserverLive WD.Proofs.ObserverExamples.

(* In every run: if a callback (h,w,_) occurs after a removal event that covers (h,w) - the mutation of
   remove_handler_for_watch (GRemoved), unschedule / a failed start (GRemovedW), unschedule_all / stop
   (GRemovedAll) - then (h,w) was registered again in between.  The log is newest-first.
   The membership re-check before each callback is what makes this hold for re-entrant removals. *)
Theorem C05_no_callback_after_removal : forall s, reachable s ->
  forall l3 h w e l2 r l1, glog s = l3 ++ GCb h w e :: l2 ++ r :: l1 -> covers r h w -> In (GAdded h w) l2.
Proof. exact no_callback_after_removal. Qed.
Print Assumptions C05_no_callback_after_removal.

(* The removal events are issued by the removing calls before their Return (program order of `body`). *)
Theorem C05_removing_calls_remove : forall fx h w,
  In (IRemH h w) (body fx (CRemove h w)) /\ In (IUnsched w) (body fx (CUnschedule w)) /\
  In IClear (body fx CUnscheduleAll) /\ In IClear (body fx CStop).
Proof. exact removing_bodies. Qed.
Print Assumptions C05_removing_calls_remove.

(* A callback needs the handler to be registered now (and the dispatcher to be at a turn). *)
Theorem C05_callback_needs_membership : forall s t i k inp s' h w e x,
  exec s t i k inp = Some s' -> glog s' = GCb h w e :: x :: glog s ->
  i = DTurns /\ dcur s = Some (e, w) /\ memN h (dtodo s) = true /\
  memN h (hset w (handlers s)) = true /\ dtodo s' = remN h (dtodo s) /\ x = GTurn h.
Proof. exact exec_callback. Qed.
Print Assumptions C05_callback_needs_membership.

(* unschedule(w) continues with stop + join of the emitter it removed, before release and Return ... *)
Theorem C05_unschedule_joins : forall s t w k s' e,
  alookup N.eqb w (efw s) = Some e -> amem N.eqb w (handlers s) = true -> memE e (emitters s) = true ->
  exec s t (IUnsched w) k NoIn = Some s' ->
  cont s' t = IEmStop e :: IEmJoin e :: IDelWatch w :: k.
Proof. exact unschedule_joins. Qed.
Print Assumptions C05_unschedule_joins.

(* ... join returns only for an exited (or never started) emitter thread ... *)
Theorem C05_join_means_exited : forall s t e k inp s', exec s t (IEmJoin e) k inp = Some s' ->
  exists m, get_em s e = Some m /\ (em_started m = false \/ em_exited m = true).
Proof. exact join_means_exited. Qed.
Print Assumptions C05_join_means_exited.

(* ... and an exited emitter thread never takes a step again: no later put. *)
Theorem C05_exited_emitter_silent : forall s l e m,
  em_of l = Some e -> get_em s e = Some m -> em_exited m = true -> step s l = None.
Proof. exact exited_no_step. Qed.
Print Assumptions C05_exited_emitter_silent.

(* FULL STATEMENT, Return-label form (the log is newest-first).  If a callback (h,w,_) occurs after the
   non-raised Return of a call c by thread t that removes (h,w) - remove_handler_for_watch(h,w),
   unschedule(w), unschedule_all(), stop() - then: the call's removal event r lies between the call's
   begin and its Return (no begin of t's call c in between), and (h,w) was registered again after r.
   (The earlier formulation "re-added after the Return" is false of the code and of the model: another
   thread may re-add (h,w) between the removing call's release of the lock and its Return.) *)
Theorem C05_full : forall s, reachable s ->
  forall l3 h w e l2 t c l1, glog s = l3 ++ GCb h w e :: l2 ++ GRet t c false :: l1 ->
    (c = CRemove h w \/ c = CUnschedule w \/ c = CUnscheduleAll \/ c = CStop) ->
    exists la r lb, l1 = la ++ r :: lb /\ covers r h w /\
      (forall x, In x la -> is_call_of x t c = false) /\
      In (GAdded h w) (l2 ++ GRet t c false :: la).
Proof. exact no_callback_after_return. Qed.
Print Assumptions C05_full.

(* LockInv: an instruction that touches the registry - in particular the removal instruction of a removing
   call and everything up to its release, and every handler turn - is reached only with the lock held by
   the executing thread; callbacks are made by the dispatcher thread while it holds the lock. *)
Theorem C05_registry_access_under_lock : forall s t i k, reachable s -> cont s t = i :: k -> needs_lock i = true ->
  exists n, lock s = Some (t, S n).
Proof. exact needs_lock_owner. Qed.
Print Assumptions C05_registry_access_under_lock.

Theorem C05_callback_under_lock : forall s t i k inp s' h w e x, reachable s -> cont s t = i :: k ->
  exec s t i k inp = Some s' -> glog s' = GCb h w e :: x :: glog s ->
  t = TD /\ exists n, lock s = Some (TD, S n).
Proof. exact callback_under_lock. Qed.
Print Assumptions C05_callback_under_lock.

(* "Exited" is stable: once an emitter thread has exited it stays exited along every run. *)
Theorem C05_exited_stable : forall e s l s', exited_at e s -> step s l = Some s' -> exited_at e s'.
Proof. exact exited_stable. Qed.
Print Assumptions C05_exited_stable.

(* Emitter half, still partial: C05_unschedule_joins + C05_join_means_exited + C05_exited_emitter_silent give
   "unschedule stops and joins the emitter it removed, join returns only for an exited or never started
   thread, an exited thread never puts and stays exited (C05_exited_stable)"; not proved: that a removed, never started emitter is never started
   later (start() only starts emitters of the registry, under the lock). *)
Definition C05_emitter_full : Prop := forall s, reachable s ->
  forall l3 e w ev l2 t l1, glog s = l3 ++ GPut e w ev :: l2 ++ GRet t (CUnschedule w) false :: l1 ->
    exists la lb, l1 = la ++ GRemovedW w :: lb /\ In (GEmNew e w) (l2 ++ GRet t (CUnschedule w) false :: la).

Example C05_nonvacuous :
  option_map (fun s => (delivered 1%N 2%N s, dequeued 2%N s, existsb (fun g => match g with GRemoved 1%N 2%N => true | _ => false end) (glog s)))
             (run init tr_remove) = Some ([7], [7; 8], true)%N.
Proof. vm_compute. reflexivity. Qed.
