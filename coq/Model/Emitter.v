(* Model of the inotify *emitter* translation table:
     watchdog.observers.inotify.InotifyEmitter.queue_events / InotifyFullEmitter.queue_events,
     InotifyEmitter._decode_path (the model works on the os.fsencode'd bytes of every path),
     watchdog.observers.api.EventEmitter.queue_event (class filter, isinstance),
     the is_* properties of watchdog.observers.inotify_c.InotifyEvent and the InotifyConstants flags.
   Definitions only (this file is extracted). *)
Require Import WD.Base.Prelude WD.Base.BStr WD.Model.SubEvents.

(* ------------------------------------------------------------------ event classes *)
(* the 11 concrete classes of watchdog.events *)
Inductive evclass :=
  | FileCreated | FileDeleted | FileModified | FileMoved | FileClosed | FileClosedNoWrite | FileOpened
  | DirCreated | DirDeleted | DirModified | DirMoved.

(* what may stand in an event filter: the two base classes and the concrete classes *)
Inductive evbase :=
  | AnyEvent                 (* FileSystemEvent *)
  | AnyMoved                 (* FileSystemMovedEvent *)
  | Concrete (c : evclass).

Definition all_classes : list evclass :=
  [FileCreated; FileDeleted; FileModified; FileMoved; FileClosed; FileClosedNoWrite; FileOpened;
   DirCreated; DirDeleted; DirModified; DirMoved].

Definition all_bases : list evbase := AnyEvent :: AnyMoved :: map Concrete all_classes.

Definition evclass_eqb (a b : evclass) : bool :=
  match a, b with
  | FileCreated, FileCreated | FileDeleted, FileDeleted | FileModified, FileModified
  | FileMoved, FileMoved | FileClosed, FileClosed | FileClosedNoWrite, FileClosedNoWrite
  | FileOpened, FileOpened | DirCreated, DirCreated | DirDeleted, DirDeleted
  | DirModified, DirModified | DirMoved, DirMoved => true
  | _, _ => false
  end.

Definition evbase_eqb (a b : evbase) : bool :=
  match a, b with
  | AnyEvent, AnyEvent | AnyMoved, AnyMoved => true
  | Concrete x, Concrete y => evclass_eqb x y
  | _, _ => false
  end.

(* issubclass(c, b): the hierarchy of watchdog.events (FileMovedEvent and DirMovedEvent derive from
   FileSystemMovedEvent, everything derives from FileSystemEvent, no other inheritance). *)
Definition subclass (c : evclass) (b : evbase) : bool :=
  match b with
  | AnyEvent => true
  | AnyMoved => match c with FileMoved | DirMoved => true | _ => false end
  | Concrete c' => evclass_eqb c c'
  end.

(* EventEmitter.queue_event: `self._event_filter is None or any(isinstance(event, cls) for cls in filter)` *)
Definition accepts (F : option (list evbase)) (c : evclass) : bool :=
  match F with
  | None => true
  | Some l => existsb (subclass c) l
  end.

(* ------------------------------------------------------------------ events *)
(* A FileSystemEvent as delivered: class, src_path, dest_path ("" for non-move events), is_synthetic.
   Paths are the os.fsencode'd bytes of what the implementation carries (str watch: fsdecode'd). *)
Record nevent := { ev_cls : evclass; ev_src : bytes; ev_dest : bytes; ev_synth : bool }.

(* An InotifyEvent, including the src_path the reader computed for it. *)
Record raw := { r_wd : N; r_mask : N; r_cookie : N; r_name : bytes; r_path : bytes }.

(* What InotifyBuffer.read_event returns: one event or a paired (moved_from, moved_to). *)
Inductive item := Single (e : raw) | Pair (f t : raw).

(* ------------------------------------------------------------------ InotifyConstants *)
Definition IN_ACCESS        : N := 1.
Definition IN_MODIFY        : N := 2.
Definition IN_ATTRIB        : N := 4.
Definition IN_CLOSE_WRITE   : N := 8.
Definition IN_CLOSE_NOWRITE : N := 16.
Definition IN_OPEN          : N := 32.
Definition IN_MOVED_FROM    : N := 64.
Definition IN_MOVED_TO      : N := 128.
Definition IN_CREATE        : N := 256.
Definition IN_DELETE        : N := 512.
Definition IN_DELETE_SELF   : N := 1024.
Definition IN_MOVE_SELF     : N := 2048.
Definition IN_UNMOUNT       : N := 8192.
Definition IN_Q_OVERFLOW    : N := 16384.
Definition IN_IGNORED       : N := 32768.
Definition IN_ISDIR         : N := 1073741824.   (* 0x40000000 *)
Definition IN_MOVE          : N := N.lor IN_MOVED_FROM IN_MOVED_TO.

(* The 16 flags an event read from the descriptor can carry (12 user-space events, 3 kernel
   notices, IN_ISDIR). *)
Definition all_flags : list N :=
  [IN_ACCESS; IN_MODIFY; IN_ATTRIB; IN_CLOSE_WRITE; IN_CLOSE_NOWRITE; IN_OPEN; IN_MOVED_FROM; IN_MOVED_TO;
   IN_CREATE; IN_DELETE; IN_DELETE_SELF; IN_MOVE_SELF; IN_UNMOUNT; IN_Q_OVERFLOW; IN_IGNORED; IN_ISDIR].

(* `self._mask & FLAG > 0` *)
Definition has (m flag : N) : bool := N.ltb 0 (N.land m flag).

Definition is_modify        (m : N) := has m IN_MODIFY.
Definition is_close_write   (m : N) := has m IN_CLOSE_WRITE.
Definition is_close_nowrite (m : N) := has m IN_CLOSE_NOWRITE.
Definition is_open          (m : N) := has m IN_OPEN.
Definition is_access        (m : N) := has m IN_ACCESS.
Definition is_delete        (m : N) := has m IN_DELETE.
Definition is_delete_self   (m : N) := has m IN_DELETE_SELF.
Definition is_create        (m : N) := has m IN_CREATE.
Definition is_moved_from    (m : N) := has m IN_MOVED_FROM.
Definition is_moved_to      (m : N) := has m IN_MOVED_TO.
Definition is_move          (m : N) := has m IN_MOVE.
Definition is_move_self     (m : N) := has m IN_MOVE_SELF.
Definition is_attrib        (m : N) := has m IN_ATTRIB.
Definition is_ignored       (m : N) := has m IN_IGNORED.
(* "the kernel does not provide this information for IN_DELETE_SELF and IN_MOVE_SELF: assume a dir" *)
Definition is_directory     (m : N) := is_delete_self m || is_move_self m || has m IN_ISDIR.

(* ------------------------------------------------------------------ queue_events *)
Definition mk (c : evclass) (src dest : bytes) : nevent :=
  {| ev_cls := c; ev_src := src; ev_dest := dest; ev_synth := false |}.

(* DirModifiedEvent(os.path.dirname(p)) *)
Definition parent_modified (p : bytes) : nevent := mk DirModified (dirname p) [].

Definition moved_cls   (d : bool) : evclass := if d then DirMoved else FileMoved.
Definition created_cls (d : bool) : evclass := if d then DirCreated else FileCreated.
Definition deleted_cls (d : bool) : evclass := if d then DirDeleted else FileDeleted.
Definition modified_cls (d : bool) : evclass := if d then DirModified else FileModified.

(* generate_sub_moved_events(src, dest) over the tree found under dest (the repaired code: count=1) *)
Definition sub_moved (src dest : bytes) (t : tree) : list nevent :=
  map (fun x : kind * bytes * bytes =>
         let '(k, s, d) := x in
         {| ev_cls := moved_cls (match k with KDir => true | KFile => false end);
            ev_src := s; ev_dest := d; ev_synth := true |})
      (sub_moved_events replace_first src dest t).

(* generate_sub_created_events(p) over the tree found under p *)
Definition sub_created (p : bytes) (t : tree) : list nevent :=
  map (fun x : kind * bytes =>
         let '(k, s) := x in
         {| ev_cls := created_cls (match k with KDir => true | KFile => false end);
            ev_src := s; ev_dest := []; ev_synth := true |})
      (sub_created_events p t).

Section Emit.
  Variable full_events recursive : bool.
  Variable watch_path : bytes.                (* os.fsencode(self.watch.path) *)
  Variable content : bytes -> tree.           (* what os.walk finds under a path at emit time *)

  (* `if isinstance(event, tuple):` *)
  Definition emit_pair (f t : raw) : list nevent * bool :=
    let src := r_path f in
    let dest := r_path t in
    let d := is_directory (r_mask f) in
    ( mk (moved_cls d) src dest
      :: parent_modified src
      :: parent_modified dest
      :: (if d && recursive then sub_moved src dest (content dest) else []),
      false ).

  (* the `if / elif` chain for a single event, in source order *)
  Definition emit_single (e : raw) : list nevent * bool :=
    let m := r_mask e in
    let p := r_path e in
    let d := is_directory m in
    if is_moved_to m then
      ( (if full_events then mk (moved_cls d) [] p else mk (created_cls d) p [])
        :: parent_modified p
        :: (if d && recursive then sub_created p (content p) else []),
        false )
    else if is_attrib m || is_modify m then
      ( [mk (modified_cls d) p []], false )
    else if is_delete m || (is_moved_from m && negb full_events) then
      ( [mk (deleted_cls d) p []; parent_modified p], false )
    else if is_moved_from m && full_events then
      ( [mk (moved_cls d) p []; parent_modified p], false )
    else if is_create m then
      ( [mk (created_cls d) p []; parent_modified p], false )
    else if is_delete_self m && beqb p watch_path then
      ( [mk (deleted_cls d) p []], true )                       (* self.stop() *)
    else if negb d then
      if is_open m then ( [mk FileOpened p []], false )
      else if is_close_write m then ( [mk FileClosed p []; parent_modified p], false )
      else if is_close_nowrite m then ( [mk FileClosedNoWrite p []], false )
      else ( [], false )
    else ( [], false ).

  (* One call of queue_events that got an item from the buffer: the events handed to
     self.queue_event, in order, and whether self.stop() was called. *)
  Definition emit (it : item) : list nevent * bool :=
    match it with
    | Single e => emit_single e
    | Pair f t => emit_pair f t
    end.
End Emit.

(* EventEmitter.queue_event(event) under filter F: what reaches the event queue. *)
Definition queue_event (F : option (list evbase)) (e : nevent) : list nevent :=
  if accepts F (ev_cls e) then [e] else [].

(* queue_events of an emitter constructed with event_filter = F. *)
Definition emit_filtered (F : option (list evbase)) (full_events recursive : bool) (watch_path : bytes)
    (content : bytes -> tree) (it : item) : list nevent * bool :=
  let r := emit full_events recursive watch_path content it in
  (flat_map (queue_event F) (fst r), snd r).

(* SkipRepeatsQueue (C16) as seen on one burst of puts with nobody consuming: an item equal to the
   last one put is dropped.  Used for the unit correspondence of the drained queue. *)
Definition nevent_eqb (a b : nevent) : bool :=
  evclass_eqb (ev_cls a) (ev_cls b) && beqb (ev_src a) (ev_src b) && beqb (ev_dest a) (ev_dest b)
  && Bool.eqb (ev_synth a) (ev_synth b).

Fixpoint collapse (l : list nevent) : list nevent :=
  match l with
  | [] => []
  | a :: l' => match l' with
               | [] => [a]
               | b :: _ => if nevent_eqb a b then collapse l' else a :: collapse l'
               end
  end.
