(* C01 past directory move-outs (repair of F10): the replay law for a directory that leaves the tree, and for the
   operations that follow it (from the pending state and from states synchronised up to junk). *)
Require Import WD.Base.Prelude WD.Base.BStr WD.Model.SubEvents WD.Model.Emitter WD.Model.Fs WD.Model.Reader
               WD.Model.Contract.
Require Import WD.Proofs.SubEventsProofs WD.Proofs.ReaderFixProofs WD.Proofs.ContractProofs WD.Proofs.PathProofs
               WD.Proofs.CoverProofs WD.Proofs.CoverOutProofs WD.Proofs.ReplayProofs.

Local Arguments sep : simpl never.

(* ---------------------------------------------------------------- the contract of a directory move-out, replayed *)
Lemma ctr_rename_dir_out full root w p q w' : wf_fs w -> isdir_in root (w_fs w) -> npath p -> npath q ->
  apply_op w (Rename p q) = Some w' -> fisdir p (w_fs w) = true ->
  in_scope true root p = true -> in_scope true root q = false -> q <> root ->
  ctr_ok true root (tl true root w) (tl true root w') (contract true full root (w_fs w) (Rename p q)).
Proof.
  intros W (er & Her & Eer & _) Np Nq Ha Fp Ip Iq Hqr.
  destruct (rename_look w p q w' W Np Nq Ha) as (ep & Elp & Hne & Hpq & Hqp & Hbelow & Hqd & Hl).
  assert (Gp := npath_gpath _ Np).
  assert (Hrq : under q root = false) by (rewrite <- Eer; now apply Hbelow).
  assert (Hins : forall x, in_scope true root x = under root x) by (intros x; unfold in_scope; cbn [orb]; apply andb_true_r).
  assert (Hnb : forall x, in_scope true root x = true -> below q x = false).
  { intros x Hx. rewrite Hins in Hx. destruct (below q x) eqn:Eb; [|reflexivity]. exfalso. unfold below in Eb.
    apply orb_true_iff in Eb as [Eb|Eb].
    - apply beqb_eq in Eb. subst x. rewrite Hins in Iq. congruence.
    - destruct (under_cmp root q x Hx Eb) as [E|[E|E]]; [congruence | rewrite Hins in Iq; congruence | congruence]. }
  assert (Hg' : forall x, tl true root w' x = if in_scope true root x then (if below p x then None else fdl (w_fs w) x) else None).
  { intros x. unfold tl. fold (fdl (w_fs w') x). destruct (in_scope true root x) eqn:Ix; [|reflexivity].
    rewrite Hl. cbv zeta. rewrite (Hnb x Ix). destruct (below p x); [reflexivity|].
    destruct (beqb x q) eqn:E; [|reflexivity]. apply beqb_eq in E. subst x. congruence. }
  assert (Hdel : peq (fdel p (tl true root w)) (tl true root w')).
  { intros x. rewrite Hg'. unfold fdel, tl. fold (fdl (w_fs w) x). now destruct (below p x), (in_scope true root x). }
  assert (Hdid : peq (fdel p (tl true root w')) (tl true root w')).
  { apply fdel_id. intros x Hb. rewrite Hg', Hb. now destruct (in_scope true root x). }
  assert (He0 : forall g, freplay1 true root g (if full then mk (moved_cls true) p [] else mk (deleted_cls true) p []) = fdel p g).
  { intros g. destruct full; unfold freplay1, mk; cbn [ev_cls ev_src ev_dest moved_cls deleted_cls]; [|reflexivity].
    destruct p; [destruct Gp; contradiction | reflexivity]. }
  cbn [contract]. rewrite Fp, Ip, Iq. cbn [andb].
  split; [intros x; rewrite He0; apply Hdel|].
  intros e [<-|[<-|[]]]; [intros x; rewrite He0; apply Hdid | intros x; reflexivity].
Qed.

Section ROut.
  Variable C : cfg.
  Variable full : bool.
  Hypothesis Hfaults : c_faults C = [].
  Hypothesis Hmo : c_fix_moveout C = true.
  Hypothesis Hm : c_mask C = WATCHDOG_ALL.
  Let rec := c_recursive C.
  Let root := c_root C.

  (* junk in front of the queue is skipped: the read is the read of the state with an empty queue *)
  Lemma junk_read_eq w k r o t' : JSync C w k r ->
    read_batch C t' (r, drainq (kernel_op k (w_fs w) o), []) (k_queue (kernel_op k (w_fs w) o)) =
    read_batch C t' (r, drainq (kernel_op (kset_queue k []) (w_fs w) o), []) (k_queue (kernel_op (kset_queue k []) (w_fs w) o)).
  Proof.
    intros [S HJ].
    assert (Q : qext (k_queue k) k (kset_queue k [])) by (repeat split; cbn; now rewrite ?app_nil_r).
    assert (JF : jfree (k_queue k) (kset_queue k [])).
    { intros a kw Ha' Hk. rewrite Forall_forall in HJ. destruct (HJ a Ha') as [_ H]. now apply H. }
    assert (Q1 := kernel_op_qext _ _ _ (w_fs w) o Q JF).
    rewrite (qext_drainq _ _ _ Q1). destruct Q1 as (_ & _ & _ & ->).
    apply (read_batch_skip C Hmo); [apply (rs_pend _ _ _ _ S)|].
    eapply Forall_impl; [|exact HJ]. intros a [H _]. exact H.
  Qed.

  (* a directory of the tree moved out to a fresh place outside: deleted (or Moved(p, "")) + parent modified *)
  Theorem replay_step_out w k r p q w' ep t : RSync C w k r -> npath p -> npath q -> c_recursive C = true ->
    apply_op w (Rename p q) = Some w' -> flookup p (w_fs w) = Some ep -> f_dir ep = true ->
    scope C p -> p <> root -> ~ scope C q -> flookup q (w_fs w) = None ->
    TInv rec root t w ->
    let k1 := kernel_op k (w_fs w) (Rename p q) in
    forall r' k' raws, read_batch C (w_fs w') (r, drainq k1, []) (k_queue k1) = Done (r', k', raws) ->
    TInv rec root (replay rec root t (delivered C full w' raws)) w'.
  Proof.
    intros S Np Nq Hrec Ha Elp Dep Sp Hpr Sq Elq [Tn Tg] k1 r' k' raws Hrd.
    assert (W := rs_wf _ _ _ _ S). assert (Hq := rs_queue _ _ _ _ S). assert (Hpd := rs_pend _ _ _ _ S).
    destruct (rename_inv w p q w' W Np Nq Ha) as (ep' & t1 & Elp' & Hne & Hupq & Edq & _ & Hbelow & _).
    assert (Cp : cover C r k (w_fs w) (dirname p)) by (eapply cover_parent; eassumption).
    assert (Npp := Np). assert (Nqq := Nq).
    destruct Np as (dp & np & -> & [Hdp Hsp] & Hvp). destruct Nq as (dq & nq & -> & [Hdq Hsq] & Hvq).
    rewrite (dirname_np dq nq (conj Hdq Hsq) Hvq) in Edq. rewrite (dirname_np dp np (conj Hdp Hsp) Hvp) in Cp.
    assert (Hdel : delivers C full w k r (Rename (dp ++ sep :: np) (dq ++ sep :: nq))).
    { apply (contract_rename_dir C full w k r Hq Hpd dp np dq nq w'); try assumption; try (now apply cover_dir).
      - unfold fisdir. now rewrite Elp.
      - unfold fexists. now rewrite Elq.
      - intros e He. apply npath_wf_path. now apply (wf_np w W). }
    destruct Hdel as (evs & Hd & Hcol).
    assert (Hev : evs = delivered C full w' raws).
    { unfold deliver_one in Hd. rewrite Ha in Hd.
      change (kdrained (kernel_op k (w_fs w) (Rename (dp ++ sep :: np) (dq ++ sep :: nq)))) with (drainq k1) in Hd.
      fold k1 in Hd. rewrite Hrd in Hd. now injection Hd as <-. }
    rewrite <- Hev. unfold TInv, rec. rewrite Hrec.
    apply (replay_contract true root evs (contract true full root (w_fs w) (Rename (dp ++ sep :: np) (dq ++ sep :: nq))) t (tl true root w) (tl true root w')); try assumption.
    - unfold rec, root in Hcol. rewrite Hrec in Hcol. exact Hcol.
    - assert (Hqr : dq ++ sep :: nq <> root).
      { intros E. apply Sq. unfold scope. rewrite Hrec. left. exact E. }
      apply ctr_rename_dir_out; try assumption.
      + apply S.
      + unfold fisdir. now rewrite Elp.
      + unfold in_scope. cbn [orb]. rewrite andb_true_r. unfold scope in Sp. rewrite Hrec in Sp. destruct Sp; [contradiction | assumption].
      + unfold in_scope. cbn [orb]. rewrite andb_true_r. destruct (under root (dq ++ sep :: nq)) eqn:E; [|reflexivity].
        exfalso. apply Sq. unfold scope. rewrite Hrec. now right.
    - unfold rec in Tg. now rewrite Hrec in Tg.
  Qed.

  (* ---------------------------------------------------------------- the operations of the replay law, past move-outs *)
  Inductive c01_x (w : world) : op -> Prop :=
  | c1_op o : c01_op C w o -> c01_x w o
  | c1_out p q ep : npath p -> npath q -> c_recursive C = true -> flookup p (w_fs w) = Some ep -> f_dir ep = true ->
      scope C p -> p <> root -> ~ scope C q -> flookup q (w_fs w) = None -> c01_x w (Rename p q).

  Definition step_ok1 (w : world) (hot : option bytes) (o : op) : Prop :=
    match hot with
    | None => c01_x w o
    | Some h => c01_op C w o /\ watched_parent C w o /\ (forall d, In d (notified o) -> blw h d = false)
    end.

  Lemma step_ok1_ok w hot o : step_ok1 w hot o -> step_ok C w hot o.
  Proof.
    destruct hot as [h|]; cbn [step_ok1 step_ok].
    - intros (Ho & H2 & H3). split; [now apply c01_op_covered | auto].
    - intros [o' Ho|p q ep Np Nq Hrec El De Sp Hpr Sq Elq]; [apply cx_op; now apply c01_op_covered | eapply cx_out; eassumption].
  Qed.

  Fixpoint ops_x1 (w : world) (hot : option bytes) (ops : list op) : Prop :=
    match ops with
    | [] => True
    | o :: ops' =>
      match apply_op w o with
      | None => ops_x1 w hot ops'
      | Some w' => step_ok1 w hot o /\ ops_x1 w' (hot_next C w hot o) ops'
      end
    end.

  Theorem gs_replay_step w k r hot o w' t : GS C w k r hot -> step_ok1 w hot o -> apply_op w o = Some w' ->
    TInv rec root t w ->
    let k1 := kernel_op k (w_fs w) o in
    exists r' k' raws, read_batch C (w_fs w') (r, drainq k1, []) (k_queue k1) = Done (r', k', raws) /\
      GS C w' k' r' (hot_next C w hot o) /\ Forall (rsafe C) raws /\
      TInv rec root (replay rec root t (delivered C full w' raws)) w'.
  Proof.
    intros G Hs Ea T k1.
    destruct (gs_step C Hfaults Hmo w k r hot o w' Hm G (step_ok1_ok _ _ _ Hs) Ea) as (r' & k' & raws & Hrd & G' & Hsafe).
    exists r', k', raws. split; [exact Hrd|]. split; [exact G'|]. split; [exact Hsafe|]. unfold k1 in Hrd. clear k1.
    assert (M : mask_ok C) by (unfold mask_ok; rewrite Hm; repeat split; vm_compute; discriminate).
    destruct hot as [h|]; cbn [GS step_ok1] in *.
    - destruct G as (c & p & PO). destruct Hs as (Ho & Hwp & Hnh).
      assert (Qne := record_produced C w k r o Hm (rs_wf _ _ _ _ (po_clean _ _ _ _ _ _ _ PO)) (po_cover _ _ _ _ _ _ _ PO) (po_mask _ _ _ _ _ _ _ PO) Hwp).
      destruct (pout_step C Hfaults Hmo w k r h c p o w' M PO (c01_op_covered _ _ _ Ho) Hnh Ea Qne)
        as (r2 & k2 & evs & Hrd2 & _ & _ & kc & rc & k3 & Sc & Hrdc).
      cbv zeta in Hrd2. rewrite Hrd in Hrd2. injection Hrd2 as <- <- <-.
      destruct (replay_step C full w kc rc o w' t Hfaults Hm Sc Ho Ea T) as (r4 & k4 & raws4 & Hrd4 & _ & _ & T4).
      rewrite Hrdc in Hrd4. injection Hrd4 as <- <- <-. exact T4.
    - rewrite (junk_read_eq w k r o (w_fs w') G) in Hrd.
      destruct Hs as [o' Ho|p q ep Np Nq Hrec El De Sp Hpr Sq Elq].
      + destruct (replay_step C full w (kset_queue k []) r o' w' t Hfaults Hm (js_sync _ _ _ _ G) Ho Ea T) as (r4 & k4 & raws4 & Hrd4 & _ & _ & T4).
        rewrite Hrd in Hrd4. injection Hrd4 as <- <- <-. exact T4.
      + exact (replay_step_out w (kset_queue k []) r p q w' ep t (js_sync _ _ _ _ G) Np Nq Hrec Ea El De Sp Hpr Sq Elq T r' k' raws Hrd).
  Qed.

  (* op; read all; group; emit - the accumulated stream, past directory move-outs *)
  Theorem replay_sequential_x : forall ops w k r hot t0 out, GS C w k r hot ->
    TInv rec root (replay rec root t0 out) w -> ops_x1 w hot ops ->
    exists w' k' r' out' hot', drun C full w k r ops out = Some (w', k', r', out') /\ GS C w' k' r' hot' /\
      TInv rec root (replay rec root t0 out') w'.
  Proof.
    induction ops as [|o ops IH]; intros w k r hot t0 out G T Hc; cbn [drun ops_x1] in *.
    - exists w, k, r, out, hot. split; [reflexivity|]. split; assumption.
    - destruct (apply_op w o) as [w'|] eqn:Ea; [|now apply (IH w k r hot)].
      destruct Hc as [Hs Hc].
      destruct (gs_replay_step w k r hot o w' _ G Hs Ea T) as (r' & k' & raws & -> & G' & _ & T').
      apply (IH w' k' r' _ t0 _ G'); [|exact Hc]. unfold replay in *. now rewrite fold_left_app.
  Qed.

  Theorem replay_from_start_x ops w : wf_fs w -> fisdir root (w_fs w) = true -> ops_x1 w None ops ->
    exists r0 k0 w' k' r' out, construct C kinit (w_fs w) = Some (r0, k0) /\
      drun C full w k0 r0 ops [] = Some (w', k', r', out) /\
      forall x, alookup beqb x (replay rec root (tree_of rec root w) out) = alookup beqb x (tree_of rec root w').
  Proof.
    intros W Hroot Hc. destruct (construct_cover C Hfaults w W Hroot) as (r0 & k0 & Hcons & I & Cv & Hq & _ & Hp0).
    assert (S : RSync C w k0 r0) by (constructor; try assumption; now apply fisdir_in).
    destruct (replay_sequential_x ops w k0 r0 None (tree_of rec root w) [] (RSync_JSync C _ _ _ S) (TInv_init _ _ w W) Hc)
      as (w' & k' & r' & out & hot' & Hrun & _ & T).
    exists r0, k0, w', k', r', out. split; [exact Hcons|]. split; [exact Hrun|]. now apply TInv_tree_eq.
  Qed.

  (* ---------------------------------------------------------------- directory move-outs back to back *)
  Definition step_ok12 (w : world) (hot : option bytes) (o : op) : Prop :=
    match hot with
    | None => c01_x w o
    | Some h => c01_x w o /\ watched_parent C w o /\ (forall d, In d (notified o) -> blw h d = false)
    end.

  Lemma c01_x_covered w o : c01_x w o -> covered_x C w o.
  Proof. intros [o' Ho|p q ep Np Nq Hrec El De Sp Hpr Sq Elq]; [apply cx_op; now apply c01_op_covered | eapply cx_out; eassumption]. Qed.

  Lemma step_ok12_ok w hot o : step_ok12 w hot o -> step_ok2 C w hot o.
  Proof.
    destruct hot as [h|]; cbn [step_ok12 step_ok2].
    - intros (Ho & H2 & H3). split; [now apply c01_x_covered | auto].
    - apply c01_x_covered.
  Qed.

  Fixpoint ops_x12 (w : world) (hot : option bytes) (ops : list op) : Prop :=
    match ops with
    | [] => True
    | o :: ops' =>
      match apply_op w o with
      | None => ops_x12 w hot ops'
      | Some w' => step_ok12 w hot o /\ ops_x12 w' (is_dir_out C w o) ops'
      end
    end.

  Theorem gs2_replay_step w k r hot o w' t : GS2 C w k r hot -> step_ok12 w hot o -> apply_op w o = Some w' ->
    TInv rec root t w ->
    let k1 := kernel_op k (w_fs w) o in
    exists r' k' raws, read_batch C (w_fs w') (r, drainq k1, []) (k_queue k1) = Done (r', k', raws) /\
      GS2 C w' k' r' (is_dir_out C w o) /\ Forall (rsafe C) raws /\
      TInv rec root (replay rec root t (delivered C full w' raws)) w'.
  Proof.
    intros G Hs Ea T k1.
    destruct (gs2_step C Hfaults Hmo w k r hot o w' Hm G (step_ok12_ok _ _ _ Hs) Ea) as (r' & k' & raws & Hrd & G' & Hsafe).
    exists r', k', raws. split; [exact Hrd|]. split; [exact G'|]. split; [exact Hsafe|]. unfold k1 in Hrd. clear k1.
    assert (M : mask_ok C) by (unfold mask_ok; rewrite Hm; repeat split; vm_compute; discriminate).
    destruct hot as [h|]; cbn [GS2 step_ok12] in *.
    - destruct G as (c & p & PJ0). destruct Hs as (Hx & Hwp & Hnh).
      assert (PO := pj_out _ _ _ _ _ _ _ PJ0). assert (Pclean := po_clean _ _ _ _ _ _ _ PO).
      assert (Qne := record_produced C w k r o Hm (rs_wf _ _ _ _ Pclean) (po_cover _ _ _ _ _ _ _ PO) (po_mask _ _ _ _ _ _ _ PO) Hwp).
      destruct Hx as [o' Ho|p2 q2 ep Np Nq Hrec El De Sp Hpr Sq Elq].
      + destruct (replay_step C full w _ _ o' w' t Hfaults Hm Pclean Ho Ea T) as (r4 & k4 & raws4 & Hrd4 & S4 & _ & T4).
        destruct (pj_transfer C Hmo w k r h c p o' (w_fs w') r4 k4 raws4 PJ0 Hnh Qne Hrd4 (rs_queue _ _ _ _ S4)) as (kb & Hreal & _).
        rewrite Hrd in Hreal. injection Hreal as _ _ <-. exact T4.
      + destruct M as (M1 & M2 & M3).
        destruct (out_pout C Hmo w _ _ p2 q2 w' ep Pclean Np Nq Hrec M2 M3 Ea El De Sp Hpr Sq) as (r4 & k4 & raws4 & Hrd4 & PO4 & _).
        assert (T4 := replay_step_out w _ _ p2 q2 w' ep t Pclean Np Nq Hrec Ea El De Sp Hpr Sq Elq T r4 k4 raws4 Hrd4).
        destruct (pj_transfer C Hmo w k r h c p (Rename p2 q2) (w_fs w') r4 k4 raws4 PJ0 Hnh Qne Hrd4 (po_queue _ _ _ _ _ _ _ PO4)) as (kb & Hreal & _).
        rewrite Hrd in Hreal. injection Hreal as _ _ <-. exact T4.
    - rewrite (junk_read_eq w k r o (w_fs w') G) in Hrd.
      destruct Hs as [o' Ho|p q ep Np Nq Hrec El De Sp Hpr Sq Elq].
      + destruct (replay_step C full w (kset_queue k []) r o' w' t Hfaults Hm (js_sync _ _ _ _ G) Ho Ea T) as (r4 & k4 & raws4 & Hrd4 & _ & _ & T4).
        rewrite Hrd in Hrd4. injection Hrd4 as <- <- <-. exact T4.
      + exact (replay_step_out w (kset_queue k []) r p q w' ep t (js_sync _ _ _ _ G) Np Nq Hrec Ea El De Sp Hpr Sq Elq T r' k' raws Hrd).
  Qed.

  Theorem replay_sequential_x2 : forall ops w k r hot t0 out, GS2 C w k r hot ->
    TInv rec root (replay rec root t0 out) w -> ops_x12 w hot ops ->
    exists w' k' r' out' hot', drun C full w k r ops out = Some (w', k', r', out') /\ GS2 C w' k' r' hot' /\
      TInv rec root (replay rec root t0 out') w'.
  Proof.
    induction ops as [|o ops IH]; intros w k r hot t0 out G T Hc; cbn [drun ops_x12] in *.
    - exists w, k, r, out, hot. split; [reflexivity|]. split; assumption.
    - destruct (apply_op w o) as [w'|] eqn:Ea; [|now apply (IH w k r hot)].
      destruct Hc as [Hs Hc].
      destruct (gs2_replay_step w k r hot o w' _ G Hs Ea T) as (r' & k' & raws & -> & G' & _ & T').
      apply (IH w' k' r' _ t0 _ G'); [|exact Hc]. unfold replay in *. now rewrite fold_left_app.
  Qed.

  Theorem replay_from_start_x2 ops w : wf_fs w -> fisdir root (w_fs w) = true -> ops_x12 w None ops ->
    exists r0 k0 w' k' r' out, construct C kinit (w_fs w) = Some (r0, k0) /\
      drun C full w k0 r0 ops [] = Some (w', k', r', out) /\
      forall x, alookup beqb x (replay rec root (tree_of rec root w) out) = alookup beqb x (tree_of rec root w').
  Proof.
    intros W Hroot Hc. destruct (construct_cover C Hfaults w W Hroot) as (r0 & k0 & Hcons & I & Cv & Hq & _ & Hp0).
    assert (S : RSync C w k0 r0) by (constructor; try assumption; now apply fisdir_in).
    destruct (replay_sequential_x2 ops w k0 r0 None (tree_of rec root w) [] (RSync_JSync C _ _ _ S) (TInv_init _ _ w W) Hc)
      as (w' & k' & r' & out & hot' & Hrun & _ & T).
    exists r0, k0, w', k', r', out. split; [exact Hcons|]. split; [exact Hrun|]. now apply TInv_tree_eq.
  Qed.
End ROut.

Lemma ops_x1_cons C w hot o ops w' : apply_op w o = Some w' -> step_ok1 C w hot o -> ops_x1 C w' (hot_next C w hot o) ops ->
  ops_x1 C w hot (o :: ops).
Proof. intros Ha Hs Hc. cbn [ops_x1]. rewrite Ha. now split. Qed.

(* ---------------------------------------------------------------- the F10d history: replay on the repaired and on the pinned model *)
Definition run_replay (C : cfg) (ops : list op) : option bool :=
  match construct C kinit (w_fs w0) with
  | Some (r, k) => match drun C false w0 k r ops [] with
                   | Some (w', _, _, out) =>
                     Some (same_tree (replay (c_recursive C) (c_root C) (tree_of (c_recursive C) (c_root C) w0) out)
                                     (tree_of (c_recursive C) (c_root C) w'))
                   | None => None
                   end
  | None => None
  end.

Lemma f10d_replay_pinned_refuted : run_replay (cfgo false) f10d_ops = Some false.
Proof. vm_compute. reflexivity. Qed.
Lemma f10d_replay_repaired : run_replay (cfgo true) f10d_ops = Some true /\ run_replay (cfgo true) f10b_ops = Some true.
Proof. split; vm_compute; reflexivity. Qed.
