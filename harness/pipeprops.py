"""Oracles for the inotify pipeline properties (C01, C02, C03, C07, C19), evaluated on what the REAL
observer delivered for a history executed by harness/pipe.py.  Each oracle encodes the property text;
none of them consults the Coq model."""
from __future__ import annotations

import os

from harness import pipe

PROBE = "zz_probe"


def scope_listing(run: pipe.Run):
    """(abs path bytes, isdir) of everything under the watched root, honouring recursive/non-recursive scope."""
    root = os.fsencode(run.rootp)
    out = set()
    if run.recursive:
        for r, ds, fs in os.walk(run.rootp):
            for d in ds:
                out.add((os.fsencode(os.path.join(r, d)), True))
            for f in fs:
                out.add((os.fsencode(os.path.join(r, f)), False))
    else:
        if os.path.isdir(run.rootp):
            for e in os.scandir(run.rootp):
                out.add((os.fsencode(e.path), e.is_dir(follow_symlinks=False)))
    return out


def in_scope(run: pipe.Run, p: bytes):
    root = os.fsencode(run.rootp)
    if not p.startswith(root + b"/"):
        return False
    return run.recursive or p[len(root) + 1:].count(b"/") == 0


# ------------------------------------------------------------------ C01
def replay(tree0, events, run: pipe.Run):
    """Apply delivered created / deleted / moved events, in order, to a copy of the initial tree."""
    tree = dict(tree0)

    def below(p):
        return [k for k in tree if k == p or k.startswith(p + b"/")]

    for cls, src, dest, synth in events:
        isdir = cls.startswith("Dir")
        if cls.endswith("Created"):
            if in_scope(run, src):
                tree[src] = isdir
        elif cls.endswith("Deleted"):
            for k in below(src):
                del tree[k]
        elif cls.endswith("Moved"):
            if not src:                   # full emitter: arrival from outside
                if in_scope(run, dest):
                    tree[dest] = isdir
                continue
            if not dest:                  # full emitter: departure
                for k in below(src):
                    del tree[k]
                continue
            if src not in tree:
                # the source is not known to the replayed tree (e.g. the synthetic event of a descendant whose
                # parent's move already carried it, or whose creation was never announced separately):
                # applying the move can only mean that the destination exists now
                if in_scope(run, dest):
                    tree[dest] = isdir
                continue
            for k in below(dest):
                del tree[k]
            moved = {k: tree[k] for k in below(src)}
            for k in moved:
                del tree[k]
            for k, v in moved.items():
                nk = dest + k[len(src):]
                if in_scope(run, nk):
                    tree[nk] = v
    return tree


def oracle_replay(run: pipe.Run, tree0):
    events = [e for ent in run.log if ent["a"] == "emit" for e in ent["events"]]
    got = replay(tree0, events, run)
    want = dict(scope_listing(run))
    if got != want:
        missing = sorted(set(want) - set(got))
        extra = sorted(set(got) - set(want))
        wrong = sorted(k for k in set(got) & set(want) if got[k] != want[k])
        return {"missing_in_replay": [m.decode("latin1") for m in missing][:6],
                "extra_in_replay": [m.decode("latin1") for m in extra][:6],
                "wrong_kind": [m.decode("latin1") for m in wrong][:6]}
    return None


# ------------------------------------------------------------------ provenance of directories (signatures)
def provenance(run: pipe.Run, upto=None, taint=None):
    """How each directory currently in the tree came to be there, from the operation log:
    path tuple -> set of tags.  taint (a set), when given, collects every path ever held by a directory involved in a
    name re-use before the first read (F10e)."""
    tags = {("R",): {"root"}, ("O",): {"outside-root"}}
    stale = set()               # in-tree paths of directories at the moment they were moved out of the tree
    for p, d in [(tuple(os.path.relpath(os.fsdecode(x), run.sc).split("/")), isd) for x, isd in run.init_fs]:
        if d and len(p) > 1:
            tags[p] = {"present-at-start"}
    pending_dirops = set()      # directory paths created since the last completed drain (no read yet)
    vacated = {}                # name a not-yet-read directory was renamed away from -> its current path (until the next read)
    TOOK, LOST = ("took-over-the-name-of-a-directory-renamed-before-its-first-read",
                  "its-name-was-re-used-before-its-first-read")

    def arrives(path):
        if path in vacated:
            tags[path].add(TOOK)
            if vacated[path] in tags:
                tags[vacated[path]].add(LOST)

    for ent in run.log[:upto]:
        if ent["a"] == "read":
            pending_dirops.clear()
            vacated.clear()
        if ent["a"] != "op" or not ent["ok"]:
            continue
        p = tuple(ent["path"])
        if ent["kind"] == "mkdir":
            tags[p] = {"created"}
            pending_dirops.add(p)
            arrives(p)
        elif ent["kind"] == "rmdir":
            tags.pop(p, None)
        elif ent["kind"] == "rename" and p in tags:
            q = tuple(ent["path2"])
            stale_before = set(stale)
            moved = {k: v for k, v in tags.items() if k[:len(p)] == p}
            for k in moved:
                del tags[k]
            for k, v in moved.items():
                nv = set(v)
                if p[0] == "R" and q[0] == "O":
                    stale.add(k)
                if k == p:
                    if p in pending_dirops and p in stale_before:
                        nv.add("first-seen-under-the-stale-path-of-a-directory-that-was-moved-out")
                    if p[0] == "O" and q[0] == "R":
                        nv.add("moved-in-from-outside")
                    if p[0] == "R" and q[0] == "O":
                        nv.add("moved-out")
                    if p[0] == "R" and q[0] == "R":
                        nv.add("renamed")
                    if p in pending_dirops:
                        nv.add("renamed-before-first-read")
                else:
                    if p[0] == "O" and q[0] == "R":
                        nv.add("ancestor-moved-in")
                    if p[0] == "R" and q[0] == "O":
                        nv.add("ancestor-moved-out")
                tags[q + k[len(p):]] = nv
            for name, cur in list(vacated.items()):
                if cur[:len(p)] == p:
                    vacated[name] = q + cur[len(p):]
            if p in pending_dirops:
                pending_dirops.discard(p)
                pending_dirops.add(q)
                if p[0] == "R":
                    vacated[p] = q
            elif p[0] == "O" and q[0] == "R":
                pending_dirops.add(q)        # a directory that has just arrived from outside
            if q[0] == "R":
                arrives(q)
        if taint is not None:
            taint.update(k for k, v in tags.items() if TOOK in v or LOST in v)
    return tags


F10E_TAGS = ("took-over-the-name-of-a-directory-renamed-before-its-first-read",
             "its-name-was-re-used-before-its-first-read")


def cause_of(tags):
    """Known stale-bookkeeping causes (F10 family), from the provenance tags of the directory concerned."""
    tags = set(tags)
    if "first-seen-under-the-stale-path-of-a-directory-that-was-moved-out" in tags:
        return "stale-path-of-moved-out-directory-reused-before-first-read"
    if ({"moved-out", "ancestor-moved-out"} & tags) and ({"moved-in-from-outside", "ancestor-moved-in"} & tags):
        return "directory-left-the-tree-and-came-back"
    if {"took-over-the-name-of-a-directory-renamed-before-its-first-read", "its-name-was-re-used-before-its-first-read"} & tags:
        return "name-of-a-directory-renamed-before-its-first-read-re-used-before-that-read"
    return "other"


def tags_of_paths_upto(run: pipe.Run, paths, upto):
    """Tags for classifying an unjustified event delivered at log index upto: the tags of the directories containing
    the paths, plus the F10e tag when a path lies under a name ever held by a directory involved in a name re-use
    before its first read (the wrong label can be any of those names)."""
    taint = set()
    prov = provenance(run, upto, taint)
    out = set()
    for p in paths:
        rel = tuple(os.path.relpath(os.fsdecode(p), run.sc).split("/"))
        if any(rel[:len(t)] == t for t in taint):
            out.add("its-name-was-re-used-before-its-first-read")
        while rel and rel not in prov:
            rel = rel[:-1]
        while len(rel) > 1:
            out |= prov.get(rel, set())
            rel = rel[:-1]
    return out


def tags_of_paths(run: pipe.Run, paths):
    """Provenance tags of the directories that contain the given absolute byte paths (nearest known ancestor)."""
    prov = provenance(run)
    out = set()
    for p in paths:
        rel = tuple(os.path.relpath(os.fsdecode(p), run.sc).split("/"))
        while rel and rel not in prov:
            rel = rel[:-1]
        # also every ancestor inside the tree
        while len(rel) > 1:
            out |= prov.get(rel, set())
            rel = rel[:-1]
    return out


def history_tags(run: pipe.Run):
    t = set()
    for v in provenance(run).values():
        t |= v
    # a directory that has left the tree at some point
    for ent in run.log:
        if ent["a"] == "op" and ent["ok"] and ent["kind"] == "rename" and ent["path"][0] == "R" and ent["path2"][0] == "O":
            if os.path.isdir(run.real(ent["path2"])) or True:
                t.add("something-moved-out")
    return t


# ------------------------------------------------------------------ C02
def oracle_probes(run: pipe.Run):
    """Touch a fresh file in every directory of the final tree; each must be reported under its real path
    (recursive) / only the root's (non-recursive). Returns list of failures."""
    bad = []
    dirs = [run.rootp]
    for r, ds, _ in os.walk(run.rootp):
        for d in ds:
            dirs.append(os.path.join(r, d))
    prov = provenance(run)
    for d in dirs:
        rel = tuple(os.path.relpath(d, run.sc).split("/"))
        probe = os.path.join(d, PROBE)
        n0 = len(run.log)
        try:
            open(probe, "x").close()
        except OSError:
            continue
        run.log.append({"a": "op", "kind": "touch", "path": list(rel) + [PROBE], "path2": None, "ok": True})
        run.drain()
        evs = [e for ent in run.log[n0:] if ent["a"] == "emit" for e in ent["events"]]
        want = os.fsencode(probe)
        created = [e for e in evs if e[0] == "FileCreated"]
        expected = run.recursive or d == run.rootp
        tagset = sorted(prov.get(rel, {"?"}) | {t for i in range(2, len(rel)) for t in prov.get(rel[:i], ())
                                                if t in F10E_TAGS})        # F10e is inherited from the ancestors
        if expected:
            if not any(e[1] == want for e in created):
                bad.append({"law": "probe-not-reported", "dir": "/".join(rel), "provenance": tagset,
                            "got": [e[1].decode("latin1") for e in created]})
            elif any(e[1] != want for e in created):
                bad.append({"law": "probe-reported-under-wrong-path", "dir": "/".join(rel), "provenance": tagset,
                            "got": [e[1].decode("latin1") for e in created]})
        else:
            if evs:
                bad.append({"law": "non-recursive-reports-deeper-change", "dir": "/".join(rel), "provenance": tagset,
                            "got": [[e[0], e[1].decode("latin1")] for e in evs]})
        os.unlink(probe)
        run.log.append({"a": "op", "kind": "unlink", "path": list(rel) + [PROBE], "path2": None, "ok": True})
        run.drain()
    return bad


# ------------------------------------------------------------------ C03
def contract(run: pipe.Run, kind, p, q, was_dir, existed_q, descendants):
    """Events one operation issued alone must deliver (as canonical event lists), by the property text.
    p, q: absolute bytes paths; descendants: list of (relative suffix bytes, isdir) of the moved/arrived directory
    in any order (compared as sorted runs)."""
    F = "Dir" if was_dir else "File"
    par = os.path.dirname
    ins_p, ins_q = in_scope(run, p), (q is not None and in_scope(run, q))

    def dm(x):
        return ["DirModified", par(x), b"", False]
    if kind == "touch":
        return [["FileCreated", p, b"", False], dm(p), ["FileOpened", p, b"", False], ["FileClosed", p, b"", False], dm(p)] if ins_p else []
    if kind == "write":
        return [["FileOpened", p, b"", False], ["FileModified", p, b"", False], ["FileClosed", p, b"", False], dm(p)] if ins_p else []
    if kind == "chmod":
        if not ins_p:
            return []
        return [[F + "Modified", p, b"", False]]
    if kind == "unlink":
        return [["FileDeleted", p, b"", False], dm(p)] if ins_p else []
    if kind == "mkdir":
        return [["DirCreated", p, b"", False], dm(p)] if ins_p else []
    if kind == "rmdir":
        return [["DirDeleted", p, b"", False], dm(p)] if ins_p else []
    if kind == "rename":
        deep = run.recursive and was_dir
        if ins_p and ins_q:
            evs = [[F + "Moved", p, q, False], dm(p), dm(q)]
            if deep:
                evs += sorted([("Dir" if d else "File") + "Moved", p + s, q + s, True] for s, d in descendants)
            return evs
        if ins_p:
            if run.full:
                return [[F + "Moved", p, b"", False], dm(p)]
            return [[F + "Deleted", p, b"", False], dm(p)]
        if ins_q:
            first = [F + "Moved", b"", q, False] if run.full else [F + "Created", q, b"", False]
            evs = [first, dm(q)]
            if deep:
                evs += sorted([("Dir" if d else "File") + "Created", q + s, b"", True] for s, d in descendants)
            return evs
        return []
    return []


def ever_existed(run: pipe.Run, path: bytes, isdir: bool):
    """Did the history ever have an entry of that kind under that path (created there or carried there by a rename)?"""
    for e in run.log:
        if e["a"] != "op" or not e.get("ok"):
            continue
        if e["kind"] in ("touch", "mkdir") and e["p"] == path and (e["kind"] == "mkdir") == isdir:
            return True
        if e["kind"] == "rename":
            if e["q"] == path and e["was_dir"] == isdir:
                return True
            if e["was_dir"] and any(e["q"] + s == path and d == isdir for s, d in e["descendants"]):
                return True
    return False


def justified(run: pipe.Run, ev, ops_so_far):
    """Is the delivered event explained by the operations executed so far (their paths as absolute bytes)?
    ops_so_far: list of dicts {kind, p, q, was_dir, descendants}. Returns None or a reason string."""
    cls, src, dest, synth = ev
    isdir = cls.startswith("Dir")
    what = cls[3:] if isdir else cls[4:]
    par = os.path.dirname
    root = os.fsencode(run.rootp)

    def scope_ok(x):
        return x == root or in_scope(run, x)
    for x in (src, dest):
        if x and not scope_ok(x):
            return f"path {x!r} is outside the watched scope"
    if what == "Modified" and isdir:
        # a directory whose entries changed, or whose own metadata changed
        for o in ops_so_far:
            if o["kind"] == "chmod" and o["p"] == src:
                return None
            if o["kind"] == "rename" and o["q"] == src and o.get("replaced") and o.get("replaced_dir"):
                return None       # the directory that was replaced by the rename: its own metadata changed (IN_ATTRIB)
            for x in (o["p"], o["q"]):
                if x and par(x) == src and o["kind"] != "chmod":
                    return None
        return "no entry of this directory changed"
    for o in ops_so_far:
        k, p, q, wd = o["kind"], o["p"], o["q"], o["was_dir"]
        if what == "Created":
            if not synth and ((k == "touch" and p == src and not isdir) or (k == "mkdir" and p == src and isdir)
                              or (k == "rename" and q == src and wd == isdir)):
                return None
            if synth and k == "rename" and wd and src.startswith(q + b"/") and ever_existed(run, src, isdir):
                return None       # a descendant of a directory that has just arrived
            if synth and k == "mkdir":
                # _recursive_simulate: entries found below a directory that has just been created
                pass
            if (k in ("touch", "mkdir")) and p == src and (k == "mkdir") == isdir:
                return None       # simulated create for an entry found by the reader's walk
        elif what == "Deleted":
            if synth:
                return "a deleted event is never synthetic"
            if (k == "unlink" and p == src and not isdir) or (k == "rmdir" and p == src and isdir) or \
                    (k == "rename" and p == src and wd == isdir) or (k == "rename" and q == src and o.get("replaced_dir") == isdir
                                                                     and o.get("replaced")):
                return None
        elif what == "Moved":
            if not synth and k == "rename" and wd == isdir and ((p == src and q == dest) or (not src and q == dest)
                                                                or (p == src and not dest)):
                return None
            if synth and k == "rename" and wd and src.startswith(p + b"/") and dest.startswith(q + b"/") \
                    and src[len(p):] == dest[len(q):] and ever_existed(run, dest, isdir):
                return None       # a descendant of the moved directory: same relative path under the old name
        elif what in ("Modified",):
            if k in ("write", "chmod") and p == src and not isdir and not synth:
                return None
            if not isdir and not synth and ((k == "unlink" and p == src) or (k == "rename" and q == src and o.get("replaced"))):
                return None       # the file's link count changed (IN_ATTRIB on a file that happens to have its own watch)
        elif what in ("Opened", "Closed", "ClosedNoWrite"):
            if k in ("touch", "write") and p == src and not synth:
                return None
    return "no operation of the history explains it"
