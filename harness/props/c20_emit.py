"""C20 parts 2 and 3: WindowsApiEmitter.queue_events and FSEventsEmitter.queue_events, run on Linux through
harness/shims.py, against the extracted models (`platemit`) and the property itself.

Every history is executed on a real scratch directory (so os.path.isdir / os.stat / os.walk answer for real);
after each operation (or burst of operations) the native notifications of the documented-semantics simulators
(Python mirrors of WinEmitter.win_kernel / FsEvents.fsevents_kernel - compared with the extracted functions
on every case) are fed to the real emitters:
  * Windows: as a FILE_NOTIFY_INFORMATION buffer returned by a patched winapi.read_directory_changes, so that the
    real read_events, _parse_event_buffer, WinAPINativeEvent and queue_events all run;
  * FSEvents: as fake _watchdog_fsevents.NativeEvent objects passed to the real queue_events.
The queue is a plain queue.Queue (the emitter's raw output, before SkipRepeatsQueue).
"""
from __future__ import annotations

import os
import queue
import shutil
import struct
import tempfile

from harness import core
from harness.core import Atom, Failure, Mismatch, Result, sx

NAMES = ["a", "b", "c", "ab"]
A_ADDED, A_REMOVED, A_MODIFIED, A_OLD, A_NEW = 1, 2, 3, 4, 5
F_CREATED, F_REMOVED, F_META, F_RENAMED, F_MODIFIED, F_FILE, F_DIR = 0x100, 0x200, 0x400, 0x800, 0x1000, 0x10000, 0x20000
ACTION_NAMES = {1: "FILE_ACTION_ADDED", 2: "FILE_ACTION_REMOVED", 3: "FILE_ACTION_MODIFIED",
                4: "FILE_ACTION_RENAMED_OLD_NAME", 5: "FILE_ACTION_RENAMED_NEW_NAME"}


# ------------------------------------------------------------------ real tree helpers
def listing(root):
    """Independent listing (scandir): {path tuple: (kind, ino)}."""
    out = {}

    def go(d, rel):
        with os.scandir(d) as it:
            ents = list(it)
        for e in ents:
            p = rel + (e.name,)
            isd = e.is_dir(follow_symlinks=False)
            out[p] = ("D" if isd else "F", e.inode())
            if isd:
                go(os.path.join(d, e.name), p)
    go(root, ())
    return out


def read_tree(root):
    """Tree below root in os.walk order (what generate_sub_*_events will see); a file has no content."""
    by = {}
    for r, ds, fs in os.walk(root):
        by[r] = (list(ds), list(fs))

    def build(r):
        ds, fs = by.get(r, ([], []))
        return [[[d, build(os.path.join(r, d))] for d in ds], list(fs)]
    return build(root)


def tree_wire(t):
    return [[[n.encode(), tree_wire(s)] for n, s in t[0]], [f.encode() for f in t[1]]]


def pw(p):
    return [n.encode() for n in p]


def fs_wire(fs):
    return [[pw(p), Atom(k), i] for p, k, i in fs]


def op_wire(o):
    t = o[0]
    if t in ("create", "mkdir"):
        return [Atom(t), pw(o[1]), o[2]]
    if t in ("write", "chmod", "unlink", "rmdir", "moveout"):
        return [Atom(t), pw(o[1])]
    if t == "rename":
        return [Atom(t), pw(o[1]), pw(o[2])]
    if t == "movein":
        return [Atom(t), pw(o[1]), Atom(o[2]), o[3], fs_wire(o[4])]
    raise ValueError(t)


def op_json(o):
    return [list(x) if isinstance(x, tuple) else ([[list(p), k, i] for p, k, i in x] if isinstance(x, list) else x) for x in o]


# ------------------------------------------------------------------ Python mirrors of the model (validated each run)
def under(p, q):
    return q[: len(p)] == p


def py_apply(fs, o):
    t = o[0]
    if t == "create":
        return fs + [(o[1], "F", o[2])]
    if t == "mkdir":
        return fs + [(o[1], "D", o[2])]
    if t in ("write", "chmod"):
        return fs
    if t in ("unlink", "rmdir", "moveout"):
        return [e for e in fs if not under(o[1], e[0])]
    if t == "rename":
        s, d = o[1], o[2]
        return [((d + e[0][len(s):]), e[1], e[2]) if under(s, e[0]) else e for e in fs]
    if t == "movein":
        return fs + [(o[1], o[2], o[3])] + [(o[1] + p, k, i) for p, k, i in o[4]]
    raise ValueError(t)


def py_win_kernel(o):
    t = o[0]
    rel = "/".join
    if t in ("create", "mkdir", "movein"):
        return [(A_ADDED, rel(o[1]))]
    if t in ("write", "chmod"):
        return [(A_MODIFIED, rel(o[1]))]
    if t in ("unlink", "rmdir", "moveout"):
        return [(A_REMOVED, rel(o[1]))]
    if t == "rename":
        return [(A_OLD, rel(o[1])), (A_NEW, rel(o[2]))]
    raise ValueError(t)


def py_fse_kernel(root, fs, o):
    byp = {p: (k, i) for p, k, i in fs}
    kf = {"F": F_FILE, "D": F_DIR}

    def ap(p):
        return root + "".join("/" + n for n in p)

    def ent(p, fl):
        k, i = byp[p]
        return [(ap(p), i, fl | kf[k])]
    t = o[0]
    if t == "create":
        return [(ap(o[1]), o[2], F_CREATED | F_FILE)]
    if t == "mkdir":
        return [(ap(o[1]), o[2], F_CREATED | F_DIR)]
    if t == "write":
        return ent(o[1], F_MODIFIED)
    if t == "chmod":
        return ent(o[1], F_META)
    if t in ("unlink", "rmdir"):
        return ent(o[1], F_REMOVED)
    if t == "rename":
        k, i = byp[o[1]]
        return [(ap(o[1]), i, F_RENAMED | kf[k]), (ap(o[2]), i, F_RENAMED | kf[k])]
    if t == "moveout":
        return ent(o[1], F_RENAMED)
    if t == "movein":
        return [(ap(o[1]), o[3], F_RENAMED | kf[o[2]])]
    raise ValueError(t)


def py_coalesce(ns):
    out = []
    for p, i, f in ns:
        for j, (p2, i2, f2) in enumerate(out):
            if p2 == p and i2 == i:
                out[j] = (p2, i2, f2 | f)
                break
        else:
            out.append((p, i, f))
    return out


# ------------------------------------------------------------------ history generation on the real directory
def rand_content(rng, depth=2):
    """Spec of a directory's content: {name: None | spec}."""
    spec = {}
    for n in rng.sample(NAMES, rng.randint(0, 3)):
        spec[n] = rand_content(rng, depth - 1) if depth > 0 and rng.random() < 0.4 else None
    return spec


def make_spec(base, spec):
    os.mkdir(base)
    for n, sub in spec.items():
        p = os.path.join(base, n)
        if sub is None:
            open(p, "w").close()
        else:
            make_spec(p, sub)


class World:
    def __init__(self, rng):
        self.rng = rng
        self.scratch = os.path.realpath(tempfile.mkdtemp(prefix="wdp", dir="/dev/shm" if os.path.isdir("/dev/shm") else None))
        self.root = os.path.join(self.scratch, "r")
        self.outside = os.path.join(self.scratch, "o")
        os.mkdir(self.root)
        os.mkdir(self.outside)
        self.fs = []          # [(path tuple, kind, ino)] in the model's order
        self.n_out = 0

    def close(self):
        shutil.rmtree(self.scratch, ignore_errors=True)

    def ap(self, p):
        return os.path.join(self.root, *p)

    def seed(self, spec, at=()):
        for n, sub in spec.items():
            p = at + (n,)
            if sub is None:
                open(self.ap(p), "w").close()
                self.fs.append((p, "F", os.lstat(self.ap(p)).st_ino))
            else:
                os.mkdir(self.ap(p))
                self.fs.append((p, "D", os.lstat(self.ap(p)).st_ino))
                self.seed(sub, p)

    def choose(self, want=None):
        """A valid operation in the current tree (not yet executed); None if `want` is impossible."""
        rng = self.rng
        byp = {p: k for p, k, _ in self.fs}
        dirs = [()] + [p for p, k in byp.items() if k == "D" and len(p) < 3]
        files = [p for p, k in byp.items() if k == "F"]
        ents = list(byp)

        def fresh():
            for _ in range(20):
                d = rng.choice(dirs)
                p = d + (rng.choice(NAMES),)
                if p not in byp:
                    return p
            return None
        kinds = ["create", "mkdir", "write", "chmod", "unlink", "rmdir", "rename", "rename", "rename", "moveout", "movein", "movein"]
        for _ in range(30):
            t = want or rng.choice(kinds)
            if t in ("create", "mkdir"):
                p = fresh()
                if p:
                    return (t, p)
            elif t in ("write", "chmod", "unlink") and files:
                return (t, rng.choice(files))
            elif t == "rmdir":
                empt = [p for p, k in byp.items() if k == "D" and not any(q != p and under(p, q) for q in byp)]
                if empt:
                    return (t, rng.choice(empt))
            elif t == "rename" and ents:
                s = rng.choice(ents)
                if rng.random() < 0.5:        # prefer directories with content: the interesting case
                    big = [p for p, k in byp.items() if k == "D" and any(q != p and under(p, q) for q in byp)]
                    if big:
                        s = rng.choice(big)
                d = fresh()
                if d and not under(s, d) and len(d) + self.depth_below(s) <= 4:
                    return (t, s, d)
            elif t == "moveout" and ents:
                return (t, rng.choice(ents))
            elif t == "movein":
                d = fresh()
                if d and len(d) <= 2:
                    return (t, d, rng.choice(["F", "D", "D"]))
            if want:
                return None
        return None

    def depth_below(self, s):
        return max([len(q) - len(s) for q, _, _ in self.fs if under(s, q)] + [0])

    def execute(self, c):
        """Run the chosen operation on the real directory; returns the model-level op (with inodes)."""
        t = c[0]
        if t == "create":
            open(self.ap(c[1]), "w").close()
            o = (t, c[1], os.lstat(self.ap(c[1])).st_ino)
        elif t == "mkdir":
            os.mkdir(self.ap(c[1]))
            o = (t, c[1], os.lstat(self.ap(c[1])).st_ino)
        elif t == "write":
            with open(self.ap(c[1]), "a") as f:
                f.write("x")
            o = c
        elif t == "chmod":
            os.chmod(self.ap(c[1]), 0o640)
            o = c
        elif t == "unlink":
            os.unlink(self.ap(c[1]))
            o = c
        elif t == "rmdir":
            os.rmdir(self.ap(c[1]))
            o = c
        elif t == "rename":
            os.rename(self.ap(c[1]), self.ap(c[2]))
            o = c
        elif t == "moveout":
            self.n_out += 1
            os.rename(self.ap(c[1]), os.path.join(self.outside, f"out{self.n_out}"))
            o = c
        elif t == "movein":
            self.n_out += 1
            tmp = os.path.join(self.outside, f"in{self.n_out}")
            if c[2] == "F":
                open(tmp, "w").close()
            else:
                make_spec(tmp, rand_content(self.rng))
            os.rename(tmp, self.ap(c[1]))
            content = [(p, k, i) for p, (k, i) in listing(self.ap(c[1])).items()] if c[2] == "D" else []
            o = (t, c[1], c[2], os.lstat(self.ap(c[1])).st_ino, content)
        else:
            raise ValueError(t)
        return o


# ------------------------------------------------------------------ driving the real emitters
def ev_tuple(e):
    """A real FileSystemEvent -> the model's event tuple."""
    from watchdog import events as E
    k = "D" if e.is_directory else "F"
    syn = 1 if e.is_synthetic else 0
    if isinstance(e, (E.FileMovedEvent, E.DirMovedEvent)):
        return ("V", k, e.src_path, e.dest_path, syn)
    if isinstance(e, (E.FileCreatedEvent, E.DirCreatedEvent)):
        return ("C", k, e.src_path, syn)
    if isinstance(e, (E.FileDeletedEvent, E.DirDeletedEvent)):
        return ("D", k, e.src_path)
    if isinstance(e, (E.FileModifiedEvent, E.DirModifiedEvent)):
        return ("M", k, e.src_path)
    return ("?", type(e).__name__, e.src_path)


def model_ev(o):
    """Wire event -> tuple comparable with ev_tuple."""
    def s(a):
        return bytes.fromhex(a[1:]).decode("latin1") if isinstance(a, str) else "".join(chr(int(c)) for c in a)
    if o[0] == "V":
        return ("V", o[1], s(o[2]), s(o[3]), int(o[4]))
    if o[0] == "C":
        return ("C", o[1], s(o[2]), int(o[3]))
    return (o[0], o[1], s(o[2]))


def drain(q):
    out = []
    while True:
        try:
            ev, _ = q.get_nowait()
        except queue.Empty:
            return out
        out.append(ev)


class WinDriver:
    def __init__(self, root, recursive):
        from harness import shims
        from watchdog.observers.api import ObservedWatch
        self.winapi = shims.winapi()
        rdc = shims.read_directory_changes()
        self.q = queue.Queue()
        self.em = rdc.WindowsApiEmitter(self.q, ObservedWatch(root, recursive=recursive), timeout=0.01)
        self.em._whandle = object()          # never started: no thread, no handle
        self.root = root
        self.state = ""                      # the pending RENAMED_OLD_NAME path the repaired code must hold
        self.trace = []                      # (state before, natives, state after, real attribute after | None)

    def feed(self, natives):
        """natives: [(action, relative name)] -> real events (through read_events and _parse_event_buffer)."""
        buf = b""
        for i, (a, name) in enumerate(natives):
            nb = name.encode("utf-16-le")
            pad = b"\0" * ((-(12 + len(nb))) % 4)
            size = 12 + len(nb) + len(pad)
            buf += struct.pack("<III", 0 if i == len(natives) - 1 else size, a, len(nb)) + nb + pad
        full = buf + b"\0" * 64
        saved = self.winapi.read_directory_changes
        self.winapi.read_directory_changes = lambda handle, path, *, recursive: (full, len(buf))
        try:
            self.em.queue_events(0.01)
        finally:
            self.winapi.read_directory_changes = saved
        before = self.state
        for a, name in natives:
            if a == A_OLD:
                self.state = os.path.join(self.root, name)
        self.last = (before, self.state, getattr(self.em, "_last_renamed_src_path", None))
        return drain(self.q)

    def oracles(self, natives):
        out = {}
        for a, name in natives:
            p = os.path.join(self.root, name)
            isd = os.path.isdir(p)
            out[p] = (isd, read_tree(p) if isd else [[], []])
        return out


class FseDriver:
    def __init__(self, root, recursive):
        from harness import shims
        from watchdog.observers.api import ObservedWatch
        self.mod = shims.fsevents()
        self.q = queue.Queue()
        self.em = self.mod.FSEventsEmitter(self.q, ObservedWatch(root, recursive=recursive), timeout=0.01)
        self.root = root
        self.next_id = 1
        self.vmap = None          # real st_ino -> the inode number the simulated file system handed out (inode re-use)

    def view(self):
        return sorted(self.em._fs_view)

    def feed(self, natives):
        cls = self.mod._fsevents.NativeEvent
        evs = []
        for p, i, f in natives:
            evs.append(cls(p, i, f, self.next_id))
            self.next_id += 1
        if self.vmap is None:
            self.em.queue_events(0.01, evs)
            return drain(self.q)
        # the emitter's os.stat must see the simulated inode numbers: proxy `os` in the fsevents module namespace only
        real_os, vmap = self.mod.os, self.vmap

        class _St:
            def __init__(self, st):
                self.st_ino = vmap.get(st.st_ino, st.st_ino)

        class _Os:
            def __getattr__(self, name):
                return getattr(real_os, name)

            def stat(self, path, *a, **k):
                return _St(real_os.stat(path, *a, **k))
        self.mod.os = _Os()
        try:
            self.em.queue_events(0.01, evs)
        finally:
            self.mod.os = real_os
        return drain(self.q)

    def oracles(self, natives):
        out = {}
        for p, i, f in natives:
            try:
                ino = os.stat(p).st_ino
                if self.vmap is not None:
                    ino = self.vmap.get(ino, ino)
            except OSError:
                ino = None
            out[p] = (ino, read_tree(p))
        return out


# ------------------------------------------------------------------ the property, evaluated on the real events
def rel_of(root, s):
    if s == root:
        return ()
    if not s.startswith(root + "/"):
        return None
    return tuple(s[len(root) + 1:].split("/"))


def py_replay(view, evs, root):
    """The consumer of PlatFs.replay: view = {path: kind}."""
    v = dict(view)
    for e in evs:
        if e[0] == "C":
            v[rel_of(root, e[2])] = e[1]
        elif e[0] == "D":
            p = rel_of(root, e[2])
            for q in [q for q in v if under(p, q)]:
                del v[q]
        elif e[0] == "V":
            s, d = rel_of(root, e[2]), rel_of(root, e[3])
            if s in v:
                v[d] = v.pop(s)
    return v


def check_step(emitter, recursive, root, before, after, ops, evs, kinds_at):
    """Returns a list of (law, detail, signature-extras) violated by the real events `evs` (tuples).
    kinds_at: {path: kind} snapshots before each operation of the batch (None: before/after only)."""
    bad = []
    bk = {p: k for p, (k, _) in before.items()}
    ak = {p: k for p, (k, _) in after.items()}
    seen = {}
    for snap in [bk, ak] + list(kinds_at or []):
        for p, k in snap.items():
            seen.setdefault(p, set()).add(k)
    if not recursive:
        return bad
    # replay law (paths only; kinds of the view come from created/moved events and are checked by the flavour law)
    got = py_replay(bk, evs, root)
    if set(got) != set(ak):
        extra = sorted(set(got) - set(ak))
        missing = sorted(set(ak) - set(got))
        bad.append(("replay", f"replayed tree differs: extra {extra[:3]} missing {missing[:3]}", {}))
    # flavour law: the File/Dir class of every event equals the kind of the entry it names
    for e in evs:
        if e[0] == "M" and rel_of(root, e[2]) == ():
            continue
        p = rel_of(root, e[3] if e[0] == "V" else e[2])
        kinds = seen.get(p, set())
        want = None if (not kinds or e[1] in kinds) else sorted(kinds)[0]     # flavour must be a kind the entry had
        if want is not None:
            bad.append(("flavour", f"{e} names a {'directory' if want == 'D' else 'file'}",
                        {"event": {"C": "Created", "D": "Deleted", "M": "Modified", "V": "Moved"}[e[0]],
                         "event_flavour": "File" if e[1] == "F" else "Dir",
                         "entry_kind": "directory" if want == "D" else "file"}))
    if len(ops) != 1:
        return bad
    o = ops[0]
    real_moves = [e for e in evs if e[0] == "V" and not e[4]]
    syn_moves = {(rel_of(root, e[2]), rel_of(root, e[3])) for e in evs if e[0] == "V" and e[4]}
    if o[0] == "rename":
        s, d = o[1], o[2]
        if [(rel_of(root, e[2]), rel_of(root, e[3])) for e in real_moves] != [(s, d)]:
            bad.append(("rename-one-moved-event", f"non-synthetic moved events {real_moves}", {}))
        want = {(s + q[len(d):], q) for q in ak if under(d, q) and q != d}
        if syn_moves != want:
            bad.append(("rename-synthetic-descendants", f"synthetic {sorted(syn_moves)[:4]} expected {sorted(want)[:4]}", {}))
    else:
        if real_moves or syn_moves:
            bad.append(("no-move-for-" + o[0], f"moved events {real_moves[:2]}", {}))
    if o[0] == "movein":
        c = [rel_of(root, e[2]) for e in evs if e[0] == "C" and not e[3]]
        if c != [o[1]]:
            bad.append(("move-in-created", f"non-synthetic created {c}", {}))
        syn = {rel_of(root, e[2]) for e in evs if e[0] == "C" and e[3]}
        want = {q for q in ak if under(o[1], q) and q != o[1]}
        if syn != want:
            bad.append(("move-in-synthetic-descendants", f"synthetic {sorted(syn)[:4]} expected {sorted(want)[:4]}", {}))
    if o[0] == "moveout":
        dl = [rel_of(root, e[2]) for e in evs if e[0] == "D"]
        if dl != [o[1]]:
            bad.append(("move-out-deleted", f"deleted {dl}", {}))
    return bad


def make_sig(emitter, law, mode, extra, natives):
    sig = {"emitter": emitter, "law": law, "mode": mode, **extra}
    if emitter == "windows" and law == "flavour":
        acts = sorted({ACTION_NAMES.get(a, str(a)) for a, _ in natives})
        sig["native_action"] = "FILE_ACTION_REMOVED" if extra.get("event") == "Deleted" else ",".join(acts)
    return sig


def flat_violations(root, evs):
    """Non-recursive FSEvents watch: every event concerns the root or one of its direct children."""
    bad = []
    for e in evs:
        paths = [rel_of(root, e[2])] + ([rel_of(root, e[3])] if e[0] == "V" else [])
        if all(p is None or len(p) > 1 for p in paths):
            bad.append(e)
    return bad


# ------------------------------------------------------------------ one history
def run_history(ctx, res, rng, hid, length, burst, pend):
    """Executes one history; appends the model cases to `pend` (resolved after all histories)."""
    w = World(rng)
    try:
        w.seed({"a": {"b": {"c": None}, "ab": None}, "b": None} if hid % 3 == 0 else rand_content(rng))
        rec_w = hid % 4 != 3
        rec_f = hid % 2 == 0
        wd = WinDriver(w.root, rec_w)
        fd = FseDriver(w.root, rec_f)
        # FSEvents: the emitter learns the initial inodes only from events; start with an empty view (as the real one)
        steps = 0
        trace = []
        while steps < length:
            k = 1 if not burst else rng.choice([2, 2, 3])
            before = listing(w.root)
            fs_before = list(w.fs)
            ops, wn, fn, kinds_at = [], [], [], []
            for _ in range(k):
                c = w.choose()
                if c is None:
                    break
                cur = list(w.fs)
                kinds_at.append({p: k_ for p, k_, _ in cur})
                o = w.execute(c)
                ops.append(o)
                pend["apply"].append((fs_wire(cur), op_wire(o), py_apply(cur, o), op_json(o)))
                wn += py_win_kernel(o)
                fn += py_fse_kernel(w.root, cur, o)
                pend["kern"].append((op_wire(o), py_win_kernel(o), w.root, fs_wire(cur), py_fse_kernel(w.root, cur, o)))
                w.fs = py_apply(cur, o)
                res.hist("op", o[0])
            if not ops:
                break
            steps += len(ops)
            fn_raw = list(fn)
            did_coalesce = False
            if burst and rng.random() < 0.5:
                n0 = len(fn)
                fn = py_coalesce(fn)
                did_coalesce = len(fn) < n0
            if burst:
                subj = [i for _, i in rename_subjects(fs_before, ops) if i is not None]
                pend["hyp"].append((fs_wire(fs_before), [op_wire(o) for o in ops], len(set(subj)) == len(subj),
                                    [[p.encode(), i, fl] for p, i, fl in fn_raw], len(set((p, i) for p, i, _ in fn_raw)) == len(fn_raw),
                                    [op_json(o) for o in ops]))
            is_paced = paced(ops, kinds_at)
            if burst:
                res.hist("burst_paced", is_paced)
            after = listing(w.root)
            # model fs tracks the real tree (apply_op validated against the real file system)
            res.traces_validated += 1
            mf = {p: (k_, i) for p, k_, i in w.fs}
            if mf != after:
                res.mismatches.append(Mismatch("PlatFs.apply_op vs real file system", [op_json(o) for o in ops], str(sorted(mf))[:300], str(sorted(after))[:300]))
            case = {"emitter": None, "seed_tree": None, "ops": [op_json(o) for o in ops], "burst": burst}
            # ---- Windows
            worc = wd.oracles(wn)
            wev = [ev_tuple(e) for e in wd.feed(wn)]
            pend["win"].append((rec_w, w.root, wn, worc, wev, [op_json(o) for o in ops], wd.last))
            if not burst:
                # the contract functions the theorems speak about, against the real events of this one operation
                o0 = ops[0]
                tgt = {"mkdir": o0[1], "rename": o0[2] if o0[0] == "rename" else None, "movein": o0[1]}.get(o0[0])
                subs = []
                if tgt is not None:
                    ap = w.ap(tgt)
                    subs = [[pw(tgt), tree_wire(read_tree(ap) if os.path.isdir(ap) else [[], []])]]
                pend["con"].append((rec_w, w.root, fs_wire(fs_before), fs_wire(w.fs), op_wire(o0), subs, op_json(o0)))
            res.evaluations += 1
            for law, detail, extra in (check_step("windows", rec_w, w.root, before, after, ops, wev, kinds_at) if is_paced else []):
                sig = make_sig("windows", law, "several-ops-per-batch" if burst else "one-op-per-batch", extra, wn)
                res.failures.append(Failure(
                    what=f"WindowsApiEmitter: {law} law violated", signature=sig,
                    case={"emitter": "windows", "recursive": rec_w, "mode": sig["mode"], "tree_before": sorted([list(p), k_] for p, (k_, _) in before.items()),
                          "ops": [op_json(o) for o in ops], "natives": wn},
                    observed=detail + " | events " + str(wev)[:400], expected="C01/C03 contract"))
            if not burst and ops[0][0] == "rename" and rec_w and rng.random() < 0.3:
                # the same notifications, cut between RENAMED_OLD_NAME and RENAMED_NEW_NAME (two reads, second emitter)
                wd2 = WinDriver(w.root, True)
                orc2 = wd2.oracles(wn)
                cut1 = [ev_tuple(e) for e in wd2.feed(wn[:1])]
                pend["win"].append((True, w.root, wn[:1], orc2, cut1, [op_json(o) for o in ops], wd2.last))
                cut2 = [ev_tuple(e) for e in wd2.feed(wn[1:])]
                pend["win"].append((True, w.root, wn[1:], orc2, cut2, [op_json(o) for o in ops], wd2.last))
                cut = cut1 + cut2
                res.evaluations += 1
                res.hist("win_cut_between_old_and_new", True)
                for law, detail, extra in check_step("windows", True, w.root, before, after, ops, cut, kinds_at):
                    if law == "flavour":
                        continue
                    res.failures.append(Failure(
                        what=f"WindowsApiEmitter: {law} law violated when the rename pair is cut across two reads",
                        signature={"emitter": "windows", "law": law, "mode": "rename-pair-cut-across-reads"},
                        case={"emitter": "windows", "recursive": True, "cut": 1, "mode": "rename-pair-cut-across-reads",
                              "tree_before": sorted([list(p), k_] for p, (k_, _) in before.items()),
                              "ops": [op_json(o) for o in ops], "natives": wn},
                        observed=detail + " | events " + str(cut)[:300], expected="one moved event with both paths"))
            # ---- FSEvents
            forc = fd.oracles(fn)
            view0 = fd.view()
            fev = [ev_tuple(e) for e in fd.feed(fn)]
            pend["fse"].append((rec_f, w.root, view0, fn, forc, fev, fd.view(), [op_json(o) for o in ops]))
            if not burst:
                pend["con"][-1] = pend["con"][-1] + (wev, rec_f, fev)
            res.evaluations += 1
            for law, detail, extra in (check_step("fsevents", rec_f, w.root, before, after, ops, fev, kinds_at) if is_paced else []):
                sig = make_sig("fsevents", law, "several-ops-per-batch" if burst else "one-op-per-batch", extra, fn)
                if burst:
                    sig["pattern"], sig["detail"] = batch_pattern(fs_before, ops, did_coalesce)
                    # every failing batch must violate a hypothesis of C20_fsevents_replay_full: F12a-c the executable
                    # one_rename_per_item, F12e distinct_itemsb (it was coalesced), F12d the semantic stat/walk clauses
                    one_ok, dist_ok = pend["hyp"][-1][2], pend["hyp"][-1][4]
                    explained = (not one_ok) or (did_coalesce and not dist_ok) or \
                        sig["pattern"] == "rename-flagged-path-moved-again-before-processing"
                    if not explained:
                        res.mismatches.append(Mismatch("C20_fsevents_replay_full hypotheses vs failing batch",
                                                       [op_json(o) for o in ops], "hypotheses hold", "replay law failed: " + detail[:200]))
                res.failures.append(Failure(
                    what=f"FSEventsEmitter: {law} law violated", signature=sig,
                    case={"emitter": "fsevents", "recursive": rec_f, "mode": sig["mode"], "coalesce": did_coalesce, "tree_before": sorted([list(p), k_] for p, (k_, _) in before.items()),
                          "ops": [op_json(o) for o in ops], "natives": fn},
                    observed=detail + " | events " + str(fev)[:400], expected="C01/C03 contract"))
            if not rec_f:
                for e in flat_violations(w.root, fev):
                    res.failures.append(Failure(
                        what="FSEventsEmitter: non-recursive watch reported something below the root's direct children",
                        signature={"emitter": "fsevents", "law": "flat"},
                        case={"emitter": "fsevents", "recursive": False, "ops": [op_json(o) for o in ops], "natives": fn},
                        observed=str(e), expected="only the root and its direct children"))
            trace.append({"ops": [op_json(o) for o in ops], "win_natives": wn, "win_events": wev[:6], "fse_natives": fn, "fse_events": fev[:8]})
            interesting = any(o[0] in ("rename", "movein", "moveout") and
                              (any(under(o[1], q) and q != o[1] for q in before) or (o[0] == "movein" and o[2] == "D" and o[4])) for o in ops)
            if interesting or burst:
                res.nontrivial.add(core.digest(["emit", burst, [op_json(o) for o in ops], sorted(map(list, before))]))
        res.hist("history_len", steps)
        res.hist("mode", "burst" if burst else "one-op-per-batch")
        res.hist("win_recursive", rec_w)
        res.hist("fse_recursive", rec_f)
        if len(res.samples) < 5 and len(trace) >= 3:
            res.samples.append({"history": hid, "burst": burst, "steps": trace[:3]})
    finally:
        w.close()


def op_paths(o):
    return [o[1]] + ([o[2]] if o[0] == "rename" else [])


def paced(ops, kinds_at):
    """C01's directory pacing condition inside one batch: after an operation that creates, renames, moves or removes a
    directory, no later operation of the same batch touches that directory's contents or re-uses one of its names
    (file operations may follow each other without limit).  kinds_at[i] = {path: kind} before operation i."""
    for i, o in enumerate(ops):
        t = o[0]
        isdir_op = t in ("mkdir", "rmdir") or (t == "movein" and o[2] == "D") or \
            (t in ("rename", "moveout") and kinds_at[i].get(o[1]) == "D")
        if not isdir_op:
            continue
        for later in ops[i + 1:]:
            for q in op_paths(later):
                # "touches": at, below or above (moving an ancestor moves the directory too)
                if any(under(dp, q) or under(q, dp) for dp in op_paths(o)):
                    return False
    return True


def rename_subjects(fs_before, ops):
    """(operation kind, inode of the item) for every operation of the batch that FSEvents flags ItemRenamed
    (rename inside the tree, move out, move in), in order - from the operation log, not from the emitter."""
    fs = list(fs_before)
    out = []
    for o in ops:
        byp = {p: i for p, _, i in fs}
        if o[0] in ("rename", "moveout"):
            out.append((o[0], byp.get(o[1])))
        elif o[0] == "movein":
            out.append((o[0], o[3]))
        fs = py_apply(fs, o)
    return out


def batch_pattern(fs_before, ops, coalesced):
    """The specific shape of a multi-operation batch, for failure signatures - computed from the operation log only.
    Returns (pattern, detail).
      item-...-in-one-batch : one and the same item (inode) is the subject of two or more operations that FSEvents flags
                              ItemRenamed (rename inside the tree / move in / move out) inside the batch;
      coalesced-rename-hoisted-over-earlier-operation-on-its-destination-name : the batch was coalesced, the source path
                              of a rename was already touched earlier in the batch (so the renamed flag joins that earlier
                              event) and an operation in between removed / moved away the old owner of the destination name;
      rename-flagged-path-moved-again-before-processing : an item arrived at / was renamed to a path and a later
                              operation of the batch renamed or moved out an ancestor directory of that path."""
    by = {}
    for t, i in rename_subjects(fs_before, ops):
        by.setdefault(i, []).append(t)
    for ts in by.values():
        if len(ts) < 2:
            continue
        n = ts.count("rename")
        words = (["moved-in"] if "movein" in ts else []) + \
                (["renamed-more-than-once"] if n >= 2 and len(ts) == n else ["renamed"] if n else []) + \
                (["moved-out"] if "moveout" in ts else [])
        return "item-" + "-then-".join(words) + "-in-one-batch", ",".join(ts)
    if coalesced:
        for k, o in enumerate(ops):
            if o[0] != "rename":
                continue
            firsts = [i for i in range(k) if o[1] in op_paths(ops[i])]
            if firsts and any(o[2] in op_paths(ops[j]) for j in range(firsts[0] + 1, k)):
                return "coalesced-rename-hoisted-over-earlier-operation-on-its-destination-name", "+".join(x[0] for x in ops)
    for i, o in enumerate(ops):
        landed = o[2] if o[0] == "rename" else o[1] if o[0] == "movein" else None
        if landed is None:
            continue
        for later in ops[i + 1:]:
            if later[0] in ("rename", "moveout") and later[1] != landed and under(later[1], landed):
                return "rename-flagged-path-moved-again-before-processing", "+".join(x[0] for x in ops)
    return "other:" + "+".join(sorted({o[0] for o in ops})), ""


def resolve(ctx, res, pend):
    """Run the extracted models on everything that was recorded and compare."""
    # apply_op / op_ok
    cases = [sx([Atom("apply"), f, o]) for f, o, _, _ in pend["apply"]]
    for (f, o, want, oj), out in zip(pend["apply"], core.run_model("platemit", cases)):
        res.traces_validated += 1
        got = None
        if isinstance(out, list) and len(out) == 3:
            got = [(tuple(bytes.fromhex(n[1:]).decode() for n in e[0]), e[1], int(e[2])) for e in out[2]]
        if got != want or out[0] != "1" or out[1] != "1":
            res.mismatches.append(Mismatch("PlatFs.apply_op/op_ok vs harness mirror (executed on the real fs)", oj, str(out)[:300], str(want)[:300]))
    # kernels
    cases = []
    for o, wn, root, f, fn in pend["kern"]:
        cases.append(sx([Atom("winkernel"), o]))
        cases.append(sx([Atom("fsekernel"), root.encode(), f, o]))
    outs = core.run_model("platemit", cases)
    for idx, (o, wn, root, f, fn) in enumerate(pend["kern"]):
        a, b = outs[2 * idx], outs[2 * idx + 1]
        res.traces_validated += 2
        ga = [(int(x[0]), bytes.fromhex(x[1][1:]).decode()) for x in a] if isinstance(a, list) else a
        gb = [(bytes.fromhex(x[0][1:]).decode(), int(x[1]), int(x[2])) for x in b] if isinstance(b, list) else b
        if ga != wn:
            res.mismatches.append(Mismatch("WinEmitter.win_kernel vs harness mirror", str(o), str(ga), str(wn)))
        if gb != fn:
            res.mismatches.append(Mismatch("FsEvents.fsevents_kernel vs harness mirror", str(o), str(gb), str(fn)))
    # Windows emitter
    cases = [sx([Atom("winemit"), rec, root.encode(), st[0].encode(), [[a, n.encode()] for a, n in wn],
                 [[p.encode(), d, tree_wire(t)] for p, (d, t) in orc.items()]]) for rec, root, wn, orc, wev, oj, st in pend["win"]]
    for (rec, root, wn, orc, wev, oj, st), out in zip(pend["win"], core.run_model("platemit", cases)):
        res.traces_validated += 1
        ok = isinstance(out, list) and len(out) == 3
        mo = [model_ev(e) for e in out[0]] if ok else out
        ms = bytes.fromhex(out[1][1:]).decode() if ok else None
        # st = (pending name before, expected after, the real emitter's attribute after | None on the pinned code)
        if mo != wev or ms != st[1] or (st[2] is not None and st[2] != ms):
            res.mismatches.append(Mismatch("WinEmitter.queue_events vs WindowsApiEmitter.queue_events",
                                           {"recursive": rec, "ops": oj, "natives": wn, "pending_old_name": st[0]},
                                           str((mo, ms))[:500], str((wev, st[2]))[:500]))
    # FSEvents emitter
    cases = [sx([Atom("fseemit"), rec, root.encode(), view0, [[p.encode(), i, f] for p, i, f in fn],
                 [[p.encode(), ([] if ino is None else [ino]), tree_wire(t)] for p, (ino, t) in orc.items()]])
             for rec, root, view0, fn, orc, fev, view1, oj in pend["fse"]]
    for (rec, root, view0, fn, orc, fev, view1, oj), out in zip(pend["fse"], core.run_model("platemit", cases)):
        res.traces_validated += 1
        ok = isinstance(out, list) and out and out[0] == "some"
        mo = [model_ev(e) for e in out[1]] if ok else out
        mv = sorted(int(x) for x in out[2]) if ok else None
        if mo != fev or mv != view1:
            res.mismatches.append(Mismatch("FsEvents.queue_events vs FSEventsEmitter.queue_events",
                                           {"recursive": rec, "ops": oj, "natives": fn, "view": view0},
                                           str((mo, mv))[:600], str((fev, view1))[:600]))


def resolve_contracts(ctx, res, pend):
    """WinEmitter.win_contract / FsEvents.fse_contract (the specifications of C20_win_contract, C20_fsevents_contract)
    rendered by the extracted model = the real events of every one-operation batch (recursive watches)."""
    cases, metas = [], []
    for rec_w, root, fb, fa, ow, subs, oj, wev, rec_f, fev in pend["con"]:
        cases.append(sx([Atom("wincontract"), rec_w, root.encode(), fa, ow, subs]))
        metas.append(("WinEmitter.win_contract vs WindowsApiEmitter.queue_events", oj, wev))
        if rec_f:
            cases.append(sx([Atom("fsecontract"), root.encode(), fb, fa, ow, subs]))
            metas.append(("FsEvents.fse_contract vs FSEventsEmitter.queue_events", oj, fev))
    for (pair, oj, real), out in zip(metas, core.run_model("platemit", cases)):
        res.traces_validated += 1
        mo = [model_ev(e) for e in out] if isinstance(out, list) and (not out or out[0] != "ERR") else out
        if mo != real:
            res.mismatches.append(Mismatch(pair, oj, str(mo)[:500], str(real)[:500]))


def resolve_hypotheses(ctx, res, pend):
    """The executable hypotheses of C20_fsevents_replay_full (FsEvents.one_rename_per_item, FsEvents.distinct_itemsb),
    extracted, against the harness's own reading of the operation log that classifies the F12 patterns."""
    cases, metas = [], []
    for fb, ows, one, nat, dist, oj in pend["hyp"]:
        cases.append(sx([Atom("onerename"), fb, ows]))
        metas.append(("FsEvents.one_rename_per_item vs operation log", oj, one))
        cases.append(sx([Atom("distinct"), nat]))
        metas.append(("FsEvents.distinct_itemsb vs native batch", oj, dist))
    for (pair, oj, want), out in zip(metas, core.run_model("platemit", cases)):
        res.traces_validated += 1
        res.hist(pair.split()[0], bool(want))
        if (out == "1") != bool(want):
            res.mismatches.append(Mismatch(pair, oj, str(out), str(want)))


STICKY_MASK = F_CREATED | F_MODIFIED | F_META     # the flags fsevents.py calls "spurious ... coalesced from an already processed event"


def parse_script(js):
    return [[((st[0], tuple(st[1])) + tuple(tuple(x) if isinstance(x, list) else x for x in st[2:-1]), bool(st[-1])) for st in b]
            for b in js]


def run_sticky_history(ctx, res, rng, hid, pend, script=None, opts=None):
    """FSEvents only.  One (sometimes two) operations per batch with the two environment choices the uncut, reuse-free
    histories never exercise:
      * per-item sticky flags across batch cuts: when an item is mentioned again at the same path in a later batch the
        event repeats the ItemCreated / ItemModified / ItemInodeMetaMod flags it accumulated earlier (the case the
        comments in fsevents.py describe; a removed or renamed-away (item, path) forgets its flags);
      * inode re-use: the simulated file system may hand the inode number of a deleted item to the next created one
        (ext4, HFS+ do; tmpfs here does not, so the number is mapped - the emitter's os.stat sees the mapped numbers).
    script: [[(chosen operation, reuse?) ...] ...] for the corpus; None = random."""
    w = World(rng)
    try:
        opts = opts or {}
        seed_tree = opts.get("seed_tree", {} if script is not None else ({"a": None, "d": {}} if hid % 2 else {}))
        w.seed(seed_tree)
        rec_f = opts.get("recursive", True if script is not None else hid % 5 != 4)
        fd = FseDriver(w.root, rec_f)
        fd.vmap = {}
        sticky, freed, trace = {}, [], []
        script_log = []          # the history as a replayable script: [[[op, path, ..., inode re-used?] ...] ...]
        gen = {}                 # inode number -> generation of the item that currently owns it (items, not numbers, coalesce)
        sticky_on = opts.get("sticky", True if script is not None else hid % 4 != 3)
        n_batches = len(script) if script is not None else rng.choice([5, 7, 9])
        for b in range(n_batches):
            before = listing(w.root)
            fs_before = list(w.fs)
            view0 = fd.view()
            ops, fn, kinds_at = [], [], []
            script_log.append([])
            if script is not None:
                plan = script[b]
            else:
                k = rng.choice([1, 1, 1, 2])
                kinds = ["create", "create", "unlink", "unlink", "write", "chmod"] + ([] if k == 2 else ["mkdir", "rmdir", "rename", "moveout", "movein"])
                plan = [(None, rng.random() < 0.7) for _ in range(k)]
            for c, reuse in plan:
                if c is None:
                    c = w.choose(rng.choice(kinds))
                    if c is None:
                        continue
                cur = list(w.fs)
                kinds_at.append({p: k_ for p, k_, _ in cur})
                o = w.execute(c)
                reused = False
                if o[0] in ("create", "mkdir"):
                    if reuse and freed:
                        fd.vmap[o[2]] = freed.pop(0)
                        reused = True
                        res.hist("sticky_inode_reused", True)
                    o = (o[0], o[1], fd.vmap.get(o[2], o[2]))
                    gen[o[2]] = gen.get(o[2], 0) + 1
                if o[0] in ("unlink", "rmdir"):
                    freed.append({p: i for p, _, i in cur}[o[1]])
                ops.append(o)
                script_log[-1].append([c[0], list(c[1])] + [list(x) if isinstance(x, tuple) else x for x in c[2:]] + [reused])
                pend["apply"].append((fs_wire(cur), op_wire(o), py_apply(cur, o), op_json(o)))
                raw = py_fse_kernel(w.root, cur, o)
                pend["kern"].append((op_wire(o), py_win_kernel(o), w.root, fs_wire(cur), raw))
                for p_, i_, fl in raw:
                    acc = sticky.get((p_, i_), 0) | fl
                    fn.append((p_, i_, (fl | (acc & STICKY_MASK)) if sticky_on else fl, gen.get(i_, 0)))
                    if fl & F_REMOVED or (fl & F_RENAMED and o[0] in ("rename", "moveout") and p_ == w.ap(o[1])):
                        sticky.pop((p_, i_), None)
                    else:
                        sticky[(p_, i_)] = acc
                w.fs = py_apply(cur, o)
                res.hist("sticky_op", o[0])
            if not ops:
                continue
            # FSEvents coalesces per ITEM and path: a new item that got a recycled inode number is a different item
            merged = []
            for p_, i_, fl, g_ in fn:
                for j, (p2, i2, f2, g2) in enumerate(merged):
                    if (p2, i2, g2) == (p_, i_, g_):
                        merged[j] = (p2, i2, f2 | fl, g2)
                        break
                else:
                    merged.append((p_, i_, fl, g_))
            fn = [(p_, i_, fl) for p_, i_, fl, _ in merged]
            after = {p: (k_, fd.vmap.get(i, i)) for p, (k_, i) in listing(w.root).items()}
            res.traces_validated += 1
            mf = {p: (k_, i) for p, k_, i in w.fs}
            if mf != after:
                res.mismatches.append(Mismatch("PlatFs.apply_op vs real file system (sticky histories)", [op_json(o) for o in ops], str(sorted(mf))[:300], str(sorted(after))[:300]))
            forc = fd.oracles(fn)
            fev = [ev_tuple(e) for e in fd.feed(fn)]
            pend["fse"].append((rec_f, w.root, view0, fn, forc, fev, fd.view(), [op_json(o) for o in ops]))
            res.evaluations += 1
            spurious = any(fl & F_CREATED and i in view0 for _, i, fl in fn)
            res.hist("sticky_spurious_created_flag", spurious)
            res.hist("sticky_created_and_removed_of_known_inode", any(fl & F_CREATED and fl & F_REMOVED and i in view0 for _, i, fl in fn))
            mode = "one-op-per-batch" if len(ops) == 1 else "several-ops-per-batch"
            for law, detail, extra in check_step("fsevents", rec_f, w.root, before, after, ops, fev, kinds_at):
                sig = make_sig("fsevents", law, mode, extra, fn)
                sig["environment"] = "sticky-flags-and-inode-reuse"
                res.failures.append(Failure(
                    what=f"FSEventsEmitter: {law} law violated (sticky per-item flags across batch cuts / inode re-use)", signature=sig,
                    case={"emitter": "fsevents", "fsevents_script": [b_ for b_ in script_log if b_],
                          "opts": {"seed_tree": seed_tree, "recursive": rec_f, "sticky": sticky_on},
                          "failing_batch": {"ops": [op_json(o) for o in ops], "natives": fn, "fs_view_before": view0}},
                    observed=detail + " | _fs_view before " + str(view0) + " | events " + str(fev)[:400], expected="C01/C03 contract"))
            if not rec_f:
                for e in flat_violations(w.root, fev):
                    res.failures.append(Failure(what="FSEventsEmitter: non-recursive watch reported something below the root's direct children",
                                                signature={"emitter": "fsevents", "law": "flat"},
                                                case={"emitter": "fsevents", "recursive": False, "ops": [op_json(o) for o in ops], "natives": fn},
                                                observed=str(e), expected="only the root and its direct children"))
            trace.append({"ops": [op_json(o) for o in ops], "fse_natives": fn, "fse_events": fev[:6]})
            if spurious or fd.vmap:
                res.nontrivial.add(core.digest(["sticky", [op_json(o) for o in ops], fn and [(f_, i_ in view0) for _, i_, f_ in fn]]))
        if script is None and hid < 2 and len(trace) >= 3:
            res.samples.append({"sticky_history": hid, "steps": trace[:4]})
    finally:
        w.close()


def run_removed_self(ctx, res: Result):
    """The synthetic buffer winapi builds when the watched directory itself is deleted, end to end:
    _generate_observed_path_deleted_event -> _parse_event_buffer -> queue_events = DirDeletedEvent(root) + stop."""
    from harness import shims
    winapi = shims.winapi()
    buf, n = winapi._generate_observed_path_deleted_event()
    got = [(a, s_) for a, s_ in winapi._parse_event_buffer(buf, n)]
    out = core.run_model("codecwin", [sx([Atom("parse"), Atom("le"), buf[:64], n])])[0]
    mo = [(int(a), "".join(chr(int(c)) for c in nm)) for a, nm in out[1]] if isinstance(out, list) and out[0] == "ok" else out
    res.evaluations += 1
    res.traces_validated += 1
    if mo != got:
        res.mismatches.append(Mismatch("CodecWin.parse vs _parse_event_buffer on _generate_observed_path_deleted_event()", buf[:n].hex(), str(mo), str(got)))
    if got != [(0xFFFE, ".")]:
        res.failures.append(Failure(what="observed-path-deleted buffer does not decode to (FILE_ACTION_DELETED_SELF, '.')",
                                    case={"emitter": "windows", "buffer": buf[:n].hex()},
                                    signature={"fn": "winapi._generate_observed_path_deleted_event", "law": "roundtrip"},
                                    observed=str(got), expected="[(65534, '.')]"))
    tmp = os.path.realpath(tempfile.mkdtemp(prefix="wds", dir="/dev/shm" if os.path.isdir("/dev/shm") else None))
    try:
        for rec in (True, False):
            d = WinDriver(tmp, rec)
            evs = [ev_tuple(e) for e in d.feed([(0xFFFE, ".")])]
            stopped = not d.em.should_keep_running()
            out = core.run_model("platemit", [sx([Atom("winemit"), rec, tmp.encode(), b"", [[0xFFFE, b"."]], []])])[0]
            mo = ([model_ev(e) for e in out[0]], out[2] == "1") if isinstance(out, list) and len(out) == 3 else out
            res.evaluations += 1
            res.traces_validated += 1
            if mo != (evs, stopped):
                res.mismatches.append(Mismatch("WinEmitter.queue_events vs WindowsApiEmitter.queue_events (REMOVED_SELF)", tmp, str(mo), str((evs, stopped))))
            if evs != [("D", "D", tmp)] or not stopped:
                res.failures.append(Failure(what="deletion of the watched directory is not reported as DirDeletedEvent(root) + stop",
                                            case={"emitter": "windows", "natives": [[0xFFFE, "."]]},
                                            signature={"emitter": "windows", "law": "removed-self"}, observed=str((evs, stopped))))
    finally:
        shutil.rmtree(tmp, ignore_errors=True)


def run(ctx, res: Result):
    run_removed_self(ctx, res)
    for c in ctx.corpus():
        c = c.get("case", c)
        if c.get("emitter") and not c.get("fsevents_script"):
            replay(ctx, c, res, quiet=True)
    rng = ctx.rng("emit")
    pend = {"apply": [], "kern": [], "win": [], "fse": [], "con": [], "hyp": []}
    n_hist = 120 if not ctx.thorough else 1200
    n_burst = 40 if not ctx.thorough else 400
    for h in range(n_hist):
        run_history(ctx, res, rng, h, rng.choice([4, 6, 8, 10]), False, pend)
    for h in range(n_burst):
        run_history(ctx, res, rng, h, rng.choice([4, 6, 8]), True, pend)
    for c in ctx.corpus():
        c = c.get("case", c)
        if c.get("fsevents_script"):
            run_sticky_history(ctx, res, ctx.rng("sticky-corpus"), 0, pend, script=parse_script(c["fsevents_script"]), opts=c.get("opts"))
    srng = ctx.rng("sticky")
    n_sticky = 80 if not ctx.thorough else 800
    for h in range(n_sticky):
        run_sticky_history(ctx, res, srng, h, pend)
    resolve(ctx, res, pend)
    resolve_contracts(ctx, res, pend)
    resolve_hypotheses(ctx, res, pend)
    res.notes.append(f"emitters: {n_hist} one-op-per-batch histories and {n_burst} burst histories (2-3 operations per batch, "
                     "FSEvents batches coalesced per (item, path) with probability 1/2) over names {a,b,c,ab}, depth <= 4, executed on a "
                     "real scratch directory; Windows natives through read_events/_parse_event_buffer; non-trivial = a rename / "
                     "move in / move out of a directory with content, or any burst; plus "
                     f"{n_sticky} FSEvents histories with per-item sticky flags across batch cuts (created/modified/meta repeated "
                     "when the item is mentioned again) and inode re-use (a deleted item's number handed to the next created one)")


def replay(ctx, case, res: Result, quiet=False):
    """Re-run a recorded emitter case: rebuild the tree, re-execute the operations, feed the recorded natives."""
    if case.get("fsevents_script"):
        # a whole FSEvents history (sticky flags / inode re-use): re-executed from the start, model compared as well
        pend = {"apply": [], "kern": [], "win": [], "fse": [], "con": [], "hyp": []}
        run_sticky_history(ctx, res, ctx.rng("sticky-replay"), 0, pend, script=parse_script(case["fsevents_script"]), opts=case.get("opts"))
        resolve(ctx, res, pend)
        return
    root_scratch = os.path.realpath(tempfile.mkdtemp(prefix="wdr", dir="/dev/shm" if os.path.isdir("/dev/shm") else None))
    try:
        root = os.path.join(root_scratch, "r")
        outside = os.path.join(root_scratch, "o")
        os.mkdir(root)
        os.mkdir(outside)
        for p, k in sorted(case["tree_before"], key=lambda x: len(x[0])):
            ap = os.path.join(root, *p)
            os.mkdir(ap) if k == "D" else open(ap, "w").close()
        before = listing(root)
        ops = []
        for o in case["ops"]:
            t = o[0]
            p = tuple(o[1])
            ap = os.path.join(root, *p)
            if t == "create":
                open(ap, "w").close()
            elif t == "mkdir":
                os.mkdir(ap)
            elif t == "write":
                open(ap, "a").write("x")
            elif t == "chmod":
                os.chmod(ap, 0o640)
            elif t == "unlink":
                os.unlink(ap)
            elif t == "rmdir":
                os.rmdir(ap)
            elif t == "rename":
                os.rename(ap, os.path.join(root, *o[2]))
            elif t == "moveout":
                os.rename(ap, os.path.join(outside, "out%d" % len(ops)))
            elif t == "movein":
                if o[2] == "F":
                    open(ap, "w").close()
                else:
                    os.mkdir(ap)
                    for q, k, _ in sorted(o[4], key=lambda x: len(x[0])):
                        aq = os.path.join(ap, *q)
                        os.mkdir(aq) if k == "D" else open(aq, "w").close()
            o2 = [tuple(x) if isinstance(x, list) and x and isinstance(x[0], str) else x for x in o]
            # inode numbers differ from the recorded run: take them from this execution, right after the operation
            if t in ("create", "mkdir"):
                o2 = [t, p, os.lstat(ap).st_ino]
            elif t == "movein":
                o2 = [t, p, o[2], os.lstat(ap).st_ino, [(q, k, i) for q, (k, i) in listing(ap).items()] if o[2] == "D" else []]
            ops.append(tuple(o2))
        after = listing(root)
        fse_ops = ops
        did_coalesce = False
        if case["emitter"] == "windows":
            d = WinDriver(root, case["recursive"])
            nat = [tuple(n) for n in case["natives"]]
            if case.get("cut"):
                evs = [ev_tuple(e) for e in d.feed(nat[:case["cut"]])] + [ev_tuple(e) for e in d.feed(nat[case["cut"]:])]
            else:
                evs = [ev_tuple(e) for e in d.feed(nat)]
        else:
            d = FseDriver(root, case["recursive"])
            # re-derive the natives from the simulator mirror (inode numbers of this execution)
            fs = [(p, k, i) for p, (k, i) in before.items()]
            natives = []
            fse_ops = []
            for o in ops:
                natives += py_fse_kernel(root, fs, o)
                fse_ops.append(o)
                fs = py_apply(fs, o)
            did_coalesce = False
            if len(natives) != len(case.get("natives") or natives) or case.get("coalesce"):
                n0 = len(natives)
                natives = py_coalesce(natives)
                did_coalesce = len(natives) < n0
            evs = [ev_tuple(e) for e in d.feed(natives)]
        if not quiet:
            print("events:", evs)
        bad = check_step(case["emitter"], case["recursive"], root, before, after, ops, evs, None)
        mode = case.get("mode") or ("one-op-per-batch" if len(ops) == 1 else "several-ops-per-batch")
        nat = [tuple(n) for n in case["natives"]] if case["emitter"] == "windows" else []
        res.evaluations += 1
        for law, detail, extra in bad:
            if case.get("cut") and law == "flavour":
                continue
            sig = make_sig(case["emitter"], law, mode, extra, nat)
            if case["emitter"] == "fsevents" and mode == "several-ops-per-batch":
                sig["pattern"], sig["detail"] = batch_pattern([(p, k, i) for p, (k, i) in before.items()], fse_ops, did_coalesce)
            res.failures.append(Failure(what=f"{case['emitter']}: {law} law violated", case=case,
                                        signature=sig,
                                        observed=detail + " | events " + str(evs)[:400]))
        if not case["recursive"] and case["emitter"] == "fsevents":
            for e in flat_violations(root, evs):
                res.failures.append(Failure(what="flat law violated", case=case, signature={"emitter": "fsevents", "law": "flat"}, observed=str(e)))
    finally:
        shutil.rmtree(root_scratch, ignore_errors=True)
