(* C11, kernel level: two inotify instances on the same file system that differ only in the mask of
   their watches (M for the unfiltered watch, M' inside M for the filtered one).  For the same operation
   the queue of the second is the [kkeep M']-part of the queue of the first - up to the kernel's
   coalescing of a record that agrees with the last unread one in descriptor, mask and name (the kernel's
   event_compare does not look at the cookie), which is stated honestly: [kcollapse]. *)
Require Import WD.Base.Prelude WD.Base.BStr WD.Model.SubEvents WD.Model.Emitter WD.Model.Fs.

(* what the kernel sends a watch with event mask M': IN_IGNORED always, otherwise a shared bit *)
Definition kkeep (M' : N) (m : N) : bool := Emitter.is_ignored m || negb (N.eqb (N.land m M') 0).

(* the kernel's coalescing, replayed on a list of records *)
Definition kcollapse (l : list kraw) : list kraw := fold_left kpush l [].

Lemma kcollapse_snoc l e : kcollapse (l ++ [e]) = kpush (kcollapse l) e.
Proof. unfold kcollapse. now rewrite fold_left_app. Qed.

Lemma kraw_eqb_refl e : kraw_eqb e e = true.
Proof. unfold kraw_eqb. now rewrite !N.eqb_refl, beqb_refl. Qed.

(* what the kernel compares when it coalesces: descriptor, mask and name - not the cookie *)
Definition kkey (e : kraw) : N * N * bytes := (k_wd e, k_mask e, k_name e).

Lemma kraw_eqb_key a b : kraw_eqb a b = true <-> kkey a = kkey b.
Proof.
  unfold kraw_eqb, kkey. split.
  - intros H. apply andb_true_iff in H as [H H3]. apply andb_true_iff in H as [H1 H2].
    apply N.eqb_eq in H1, H2. apply beqb_eq in H3. congruence.
  - intros H. inversion H as [[H1 H2 H3]]. now rewrite H1, H2, H3, !N.eqb_refl, beqb_refl.
Qed.

Lemma kraw_eqb_mask a b : kraw_eqb a b = true -> k_mask a = k_mask b.
Proof. intros H. apply kraw_eqb_key in H. unfold kkey in H. congruence. Qed.

Lemma kraw_eqb_trans_l a b c : kraw_eqb a b = true -> kraw_eqb b c = kraw_eqb a c.
Proof.
  intros H. apply kraw_eqb_key in H.
  destruct (kraw_eqb b c) eqn:E1, (kraw_eqb a c) eqn:E2; try reflexivity.
  - apply kraw_eqb_key in E1. assert (K : kkey a = kkey c) by congruence. apply kraw_eqb_key in K. congruence.
  - apply kraw_eqb_key in E2. assert (K : kkey b = kkey c) by congruence. apply kraw_eqb_key in K. congruence.
Qed.

(* kpush either leaves the queue alone (its last record agrees with e up to the cookie) or appends e *)
Lemma kpush_cases q e :
  (kpush q e = q /\ exists q0 l, q = q0 ++ [l] /\ kraw_eqb l e = true) \/ kpush q e = q ++ [e].
Proof.
  unfold kpush. destruct (rev q) as [|l r] eqn:E; [right; reflexivity|].
  destruct (kraw_eqb l e) eqn:El; [|right; reflexivity].
  left. split; [reflexivity|]. exists (rev r), l. split; [|exact El].
  rewrite <- (rev_involutive q), E. reflexivity.
Qed.

Lemma kpush_last q l e : kraw_eqb l e = true -> kpush (q ++ [l]) e = q ++ [l].
Proof. intros H. unfold kpush. rewrite rev_app_distr. simpl. now rewrite H. Qed.

(* after l has been pushed, a record that agrees with l up to the cookie is coalesced *)
Lemma kpush_absorb q l e : kraw_eqb l e = true -> kpush (kpush q l) e = kpush q l.
Proof.
  intros H. destruct (kpush_cases q l) as [[H1 [q0 [l0 [-> H2]]]]|H1]; rewrite H1.
  - apply kpush_last. rewrite <- (kraw_eqb_trans_l l0 l e H2). exact H.
  - apply kpush_last. exact H.
Qed.

Lemma kpush_idem q e : kpush (kpush q e) e = kpush q e.
Proof. apply kpush_absorb. apply kraw_eqb_refl. Qed.

Section Twin.
  Variables M M' : N.
  Hypothesis Hsub : N.land M' M = M'.                    (* M' is part of M *)
  Hypothesis Hnodir : N.land IN_ISDIR M' = 0%N.          (* IN_ISDIR is not an event bit *)

  Definition remask (w : kwatch) : kwatch := {| kw_wd := kw_wd w; kw_ino := kw_ino w; kw_mask := M' |}.

  (* same watches (descriptor, inode), every mask M on one side and M' on the other; same counters *)
  Record kwt (k k' : kst) : Prop := {
    kwt_watches : k_watches k' = map remask (k_watches k);
    kwt_mask : forall w, In w (k_watches k) -> kw_mask w = M;
    kwt_wd : k_next_wd k' = k_next_wd k;
    kwt_cookie : k_next_cookie k' = k_next_cookie k }.

  Definition kq (k k' : kst) : Prop :=
    k_queue k' = kcollapse (filter (fun x : kraw => kkeep M' (k_mask x)) (k_queue k)).

  Lemma find_remask ino l :
    find (fun w => N.eqb (kw_ino w) ino) (map remask l) = option_map remask (find (fun w => N.eqb (kw_ino w) ino) l).
  Proof.
    induction l as [|w l IH]; [reflexivity|]. simpl. destruct (N.eqb (kw_ino w) ino); [reflexivity | exact IH].
  Qed.

  Lemma watch_twin k k' ino : kwt k k' -> watch_of_ino k' ino = option_map remask (watch_of_ino k ino).
  Proof. intros T. unfold watch_of_ino. rewrite (kwt_watches _ _ T). apply find_remask. Qed.

  Lemma watch_in k ino w : watch_of_ino k ino = Some w -> In w (k_watches k).
  Proof. unfold watch_of_ino. intros H. apply find_some in H. tauto. Qed.

  Lemma sub_bit bit : N.eqb (N.land bit M) 0 = true -> N.eqb (N.land bit M') 0 = true.
  Proof.
    rewrite !N.eqb_eq. intros H. rewrite <- Hsub, N.land_assoc, (N.land_comm bit M'), <- N.land_assoc, H.
    apply N.land_0_r.
  Qed.

  (* pushing a record that the second instance is sent too / is not sent *)
  Lemma kq_push_kept (q q' : list kraw) (e : kraw) :
    q' = kcollapse (filter (fun x : kraw => kkeep M' (k_mask x)) q) -> kkeep M' (k_mask e) = true ->
    kpush q' e = kcollapse (filter (fun x : kraw => kkeep M' (k_mask x)) (kpush q e)).
  Proof.
    intros -> Hk. destruct (kpush_cases q e) as [[H [q0 [l [-> Hl]]]]|H]; rewrite H.
    - (* l is kept as well (same mask), and e is absorbed by it on the other side too *)
      rewrite filter_app. cbn [filter]. rewrite (kraw_eqb_mask l e Hl), Hk, kcollapse_snoc.
      apply kpush_absorb. exact Hl.
    - rewrite filter_app. cbn [filter]. rewrite Hk, kcollapse_snoc. reflexivity.
  Qed.

  Lemma kq_push_dropped (q : list kraw) (e : kraw) :
    kkeep M' (k_mask e) = false ->
    filter (fun x : kraw => kkeep M' (k_mask x)) (kpush q e) = filter (fun x : kraw => kkeep M' (k_mask x)) q.
  Proof.
    intros Hk. destruct (kpush_cases q e) as [[H _]|H]; rewrite H; [reflexivity|].
    rewrite filter_app. cbn [filter]. rewrite Hk. apply app_nil_r.
  Qed.

  (* the mask a notification is queued with is kept iff its event bit is in M' *)
  Definition evbit (bit : N) : Prop := Emitter.is_ignored bit = false.

  Lemma kkeep_bit bit (isdir : bool) : evbit bit ->
    kkeep M' (if isdir then N.lor bit IN_ISDIR else bit) = negb (N.eqb (N.land bit M') 0).
  Proof.
    unfold evbit, kkeep. intros Hb. destruct isdir.
    - assert (Hi : Emitter.is_ignored (N.lor bit IN_ISDIR) = false).
      { unfold Emitter.is_ignored, has in *. rewrite N.land_lor_distr_l.
        change (N.land IN_ISDIR IN_IGNORED) with 0%N. rewrite N.lor_0_r. exact Hb. }
      rewrite Hi, N.land_lor_distr_l, Hnodir, N.lor_0_r. reflexivity.
    - rewrite Hb. reflexivity.
  Qed.

  Lemma knotify_twin k k' ino bit isdir c name :
    evbit bit -> kwt k k' -> kq k k' ->
    kwt (knotify k ino bit isdir c name) (knotify k' ino bit isdir c name) /\
    kq (knotify k ino bit isdir c name) (knotify k' ino bit isdir c name).
  Proof.
    intros Hb T Q. unfold knotify. rewrite (watch_twin k k' ino T).
    destruct (watch_of_ino k ino) as [w|] eqn:Ew; cbn [option_map]; [|split; assumption].
    rewrite (kwt_mask _ _ T w (watch_in _ _ _ Ew)). cbn [remask kw_mask kw_wd].
    destruct (N.eqb (N.land bit M) 0) eqn:EM.
    - rewrite (sub_bit _ EM). split; assumption.
    - destruct (N.eqb (N.land bit M') 0) eqn:EM'.
      + split.
        * destruct T; constructor; assumption.
        * unfold kq in *. cbn [k_queue]. rewrite kq_push_dropped; [exact Q|].
          cbn [k_mask]. rewrite (kkeep_bit bit isdir Hb), EM'. reflexivity.
      + split.
        * destruct T; constructor; assumption.
        * unfold kq in *. cbn [k_queue]. apply kq_push_kept; [exact Q|].
          cbn [k_mask]. rewrite (kkeep_bit bit isdir Hb), EM'. reflexivity.
  Qed.

  Lemma knotify_watches k ino bit isdir c name : k_watches (knotify k ino bit isdir c name) = k_watches k.
  Proof.
    unfold knotify. destruct (watch_of_ino k ino); [|reflexivity].
    destruct (N.eqb (N.land bit (kw_mask k0)) 0); reflexivity.
  Qed.

  Lemma knotify_counters k ino bit isdir c name :
    k_next_wd (knotify k ino bit isdir c name) = k_next_wd k /\
    k_next_cookie (knotify k ino bit isdir c name) = k_next_cookie k.
  Proof.
    unfold knotify. destruct (watch_of_ino k ino); [|split; reflexivity].
    destruct (N.eqb (N.land bit (kw_mask k0)) 0); split; reflexivity.
  Qed.

  Lemma watch_of_knotify k ino bit isdir c name i :
    watch_of_ino (knotify k ino bit isdir c name) i = watch_of_ino k i.
  Proof. unfold watch_of_ino. now rewrite knotify_watches. Qed.

  Lemma filter_remask f l :
    filter (fun x => f (kw_wd x)) (map remask l) = map remask (filter (fun x => f (kw_wd x)) l).
  Proof.
    induction l as [|w l IH]; [reflexivity|]. simpl. destruct (f (kw_wd w)); simpl; now rewrite IH.
  Qed.

  Lemma kgone_twin k k' ino af :
    kwt k k' -> kq k k' -> kwt (kgone k ino af) (kgone k' ino af) /\ kq (kgone k ino af) (kgone k' ino af).
  Proof.
    intros T Q. unfold kgone. rewrite (watch_twin k k' ino T).
    destruct (watch_of_ino k ino) as [w|] eqn:Ew; cbn [option_map]; [|split; assumption].
    set (k1 := if af then knotify k ino IN_ATTRIB true 0 [] else k).
    set (k1' := if af then knotify k' ino IN_ATTRIB true 0 [] else k').
    assert (T1 : kwt k1 k1' /\ kq k1 k1').
    { subst k1 k1'. destruct af; [|split; assumption]. apply knotify_twin; [reflexivity | assumption | assumption]. }
    destruct T1 as [T1 Q1].
    destruct (knotify_twin k1 k1' ino IN_DELETE_SELF false 0 [] eq_refl T1 Q1) as [T2 Q2].
    set (k2 := knotify k1 ino IN_DELETE_SELF false 0 []) in *.
    set (k2' := knotify k1' ino IN_DELETE_SELF false 0 []) in *.
    cbn [remask kw_wd]. split.
    - constructor; cbn [k_watches k_next_wd k_next_cookie].
      + rewrite (kwt_watches _ _ T2).
        apply (filter_remask (fun wd => negb (N.eqb wd (kw_wd w)))).
      + intros x Hx. apply filter_In in Hx as [Hx _]. apply (kwt_mask _ _ T2 x Hx).
      + apply (kwt_wd _ _ T2).
      + apply (kwt_cookie _ _ T2).
    - unfold kq in *. cbn [k_queue]. apply kq_push_kept; [exact Q2 | reflexivity].
  Qed.

  Lemma kgone_counters k ino af :
    k_next_wd (kgone k ino af) = k_next_wd k /\ k_next_cookie (kgone k ino af) = k_next_cookie k.
  Proof.
    unfold kgone. destruct (watch_of_ino k ino); [|split; reflexivity]. cbn [k_next_wd k_next_cookie].
    destruct af; rewrite ?(proj1 (knotify_counters _ _ _ _ _ _)), ?(proj2 (knotify_counters _ _ _ _ _ _));
      rewrite ?(proj1 (knotify_counters _ _ _ _ _ _)), ?(proj2 (knotify_counters _ _ _ _ _ _)); split; reflexivity.
  Qed.

  (* THE KERNEL-LEVEL STATEMENT: the same operation on the same file system *)
  Theorem kernel_op_twin k k' t o :
    kwt k k' -> kq k k' -> kwt (kernel_op k t o) (kernel_op k' t o) /\ kq (kernel_op k t o) (kernel_op k' t o).
  Proof.
    intros T Q.
    assert (N2 : forall a a' i1 b1 d1 c1 n1 i2 b2 d2 c2 n2, evbit b1 -> evbit b2 -> kwt a a' -> kq a a' ->
               kwt (knotify (knotify a i1 b1 d1 c1 n1) i2 b2 d2 c2 n2) (knotify (knotify a' i1 b1 d1 c1 n1) i2 b2 d2 c2 n2) /\
               kq (knotify (knotify a i1 b1 d1 c1 n1) i2 b2 d2 c2 n2) (knotify (knotify a' i1 b1 d1 c1 n1) i2 b2 d2 c2 n2)).
    { intros. destruct (knotify_twin a a' i1 b1 d1 c1 n1) as [A B]; try assumption. apply knotify_twin; assumption. }
    destruct o as [p|p|p|p|p|p|p q]; cbn [kernel_op].
    - destruct (N2 k k' (ino_of t (dirname p)) IN_CREATE false 0%N (basename p)
                   (ino_of t (dirname p)) IN_OPEN false 0%N (basename p)) as [A B]; try assumption; try reflexivity.
      apply knotify_twin; [reflexivity | assumption | assumption].
    - destruct (N2 k k' (ino_of t (dirname p)) IN_OPEN false 0%N (basename p)
                   (ino_of t (dirname p)) IN_MODIFY false 0%N (basename p)) as [A B]; try assumption; try reflexivity.
      apply knotify_twin; [reflexivity | assumption | assumption].
    - destruct (knotify_twin k k' (ino_of t (dirname p)) IN_ATTRIB (fisdir p t) 0%N (basename p) eq_refl T Q) as [A B].
      destruct (fisdir p t); [|split; assumption]. apply knotify_twin; [reflexivity | assumption | assumption].
    - apply knotify_twin; [reflexivity | assumption | assumption].
    - apply knotify_twin; [reflexivity | assumption | assumption].
    - destruct (kgone_twin k k' (ino_of t p) false T Q) as [A B].
      apply knotify_twin; [reflexivity | assumption | assumption].
    - rewrite (kwt_cookie _ _ T).
      set (k0 := {| k_watches := k_watches k; k_next_wd := k_next_wd k; k_queue := k_queue k;
                    k_next_cookie := k_next_cookie k + 1 |}).
      set (k0' := {| k_watches := k_watches k'; k_next_wd := k_next_wd k'; k_queue := k_queue k';
                     k_next_cookie := k_next_cookie k + 1 |}).
      assert (T0 : kwt k0 k0').
      { destruct T as [a b c d]. constructor; unfold k0, k0'; cbn [k_watches k_next_wd k_next_cookie];
          try assumption; reflexivity. }
      assert (Q0 : kq k0 k0') by exact Q.
      destruct (N2 k0 k0' (ino_of t (dirname p)) IN_MOVED_FROM (fisdir p t) (k_next_cookie k) (basename p)
                   (ino_of t (dirname q)) IN_MOVED_TO (fisdir p t) (k_next_cookie k) (basename q))
        as [A B]; try assumption; try reflexivity.
      destruct (fisdir q t); [|split; assumption]. apply kgone_twin; assumption.
  Qed.

  (* inotify_add_watch on twins *)
  Lemma kadd_watch_twin k k' t p :
    kwt k k' ->
    match kadd_watch k t p M, kadd_watch k' t p M' with
    | Some (k1, wd), Some (k1', wd') => wd = wd' /\ kwt k1 k1' /\ k_queue k1 = k_queue k /\ k_queue k1' = k_queue k'
    | None, None => True
    | _, _ => False
    end.
  Proof.
    intros T. unfold kadd_watch. destruct (flookup p t) as [e|]; [|exact I].
    rewrite (watch_twin k k' (f_ino e) T).
    destruct (watch_of_ino k (f_ino e)) as [w|] eqn:Ew; cbn [option_map remask kw_wd].
    - split; [reflexivity|]. split; [|split; reflexivity].
      constructor; cbn [k_watches k_next_wd k_next_cookie].
      + rewrite (kwt_watches _ _ T), !map_map. apply map_ext. intros x. cbn [remask kw_wd].
        destruct (N.eqb (kw_wd x) (kw_wd w)); reflexivity.
      + intros x Hx. apply in_map_iff in Hx as [y [<- Hy]].
        destruct (N.eqb (kw_wd y) (kw_wd w)); [reflexivity | apply (kwt_mask _ _ T y Hy)].
      + apply (kwt_wd _ _ T).
      + apply (kwt_cookie _ _ T).
    - rewrite (kwt_wd _ _ T). split; [reflexivity|]. split; [|split; reflexivity].
      constructor; cbn [k_watches k_next_wd k_next_cookie].
      + rewrite (kwt_watches _ _ T), map_app. reflexivity.
      + intros x Hx. apply in_app_or in Hx as [Hx|[<-|[]]]; [apply (kwt_mask _ _ T x Hx) | reflexivity].
      + reflexivity.
      + apply (kwt_cookie _ _ T).
  Qed.
  (* inotify_rm_watch on twins: the same watch goes, the same IN_IGNORED record is queued (it is not maskable) *)
  Lemma find_wd_remask wd l :
    find (fun w => N.eqb (kw_wd w) wd) (map remask l) = option_map remask (find (fun w => N.eqb (kw_wd w) wd) l).
  Proof.
    induction l as [|w l IH]; [reflexivity|]. simpl. destruct (N.eqb (kw_wd w) wd); [reflexivity | exact IH].
  Qed.

  Lemma krm_watch_kwt k k' wd : kwt k k' -> kwt (krm_watch k wd) (krm_watch k' wd).
  Proof.
    intros T. unfold krm_watch. rewrite (kwt_watches _ _ T), find_wd_remask.
    destruct (find (fun w => N.eqb (kw_wd w) wd) (k_watches k)) as [w|]; cbn [option_map]; [|exact T].
    constructor; cbn [k_watches k_next_wd k_next_cookie].
    - apply (filter_remask (fun x => negb (N.eqb x wd))).
    - intros x Hx. apply filter_In in Hx as [Hx _]. apply (kwt_mask _ _ T x Hx).
    - apply (kwt_wd _ _ T).
    - apply (kwt_cookie _ _ T).
  Qed.

  Lemma krm_watch_twin k k' wd :
    kwt k k' -> k_queue k = k_queue k' ->
    kwt (krm_watch k wd) (krm_watch k' wd) /\ k_queue (krm_watch k wd) = k_queue (krm_watch k' wd).
  Proof.
    intros T Q. unfold krm_watch. rewrite (kwt_watches _ _ T), find_wd_remask.
    destruct (find (fun w => N.eqb (kw_wd w) wd) (k_watches k)) as [w|]; cbn [option_map]; [|split; assumption].
    split.
    - constructor; cbn [k_watches k_next_wd k_next_cookie].
      + apply (filter_remask (fun x => negb (N.eqb x wd))).
      + intros x Hx. apply filter_In in Hx as [Hx _]. apply (kwt_mask _ _ T x Hx).
      + apply (kwt_wd _ _ T).
      + apply (kwt_cookie _ _ T).
    - cbn [k_queue]. now rewrite Q.
  Qed.
End Twin.
