(* The Windows emitter meets the per-operation contract on the simulator's notifications, and the
   contract replays to the tree (C20 part 2). *)
Require Import WD.Base.Prelude WD.Base.BStr WD.Model.SubEvents WD.Proofs.SubEventsProofs.
Require Import WD.Model.PlatFs WD.Proofs.PlatFsProofs WD.Model.WinEmitter.

(* ---------------------------------------------------------------- one step per action *)
Section Steps.
  Variable isdir : bytes -> bool.
  Variable walk : bytes -> tree.
  Variable recursive : bool.
  Variable root : bytes.
  Let step := step isdir walk recursive root.

  Lemma step_old last p : step last (Native A_RENAMED_OLD p) = ([], join root p, false).
  Proof. reflexivity. Qed.

  Lemma step_new last p :
    step last (Native A_RENAMED_NEW p) =
    let src := join root p in
    if isdir src
    then (Moved KDir last src false ::
          (if recursive
           then map (fun x => Moved (fst (fst x)) (snd (fst x)) (snd x) true)
                    (sub_moved_events replace_first last src (walk src))
           else []), last, false)
    else ([Moved KFile last src false], last, false).
  Proof. reflexivity. Qed.

  Lemma step_modified last p :
    step last (Native A_MODIFIED p) = ([Modified (dirkind (isdir (join root p))) (join root p)], last, false).
  Proof. reflexivity. Qed.

  Lemma step_added last p :
    step last (Native A_ADDED p) =
    let src := join root p in
    (Created (dirkind (isdir src)) src false ::
     (if isdir src && recursive
      then map (fun x => Created (fst x) (snd x) true) (sub_created_events src (walk src))
      else []), last, false).
  Proof. reflexivity. Qed.

  Lemma step_removed last p : step last (Native A_REMOVED p) = ([Deleted KFile (join root p)], last, false).
  Proof. reflexivity. Qed.
End Steps.

(* ---------------------------------------------------------------- the contract *)
Section Contract.
  Variable isdir : bytes -> bool.
  Variable walk : bytes -> tree.
  Variable sub : path -> tree.
  Variable recursive : bool.
  Variable root : bytes.

  Hypothesis Hroot : root <> [].
  Hypothesis Hsep : last_is_sep root = false.
  (* the walk oracle lists the tree *)
  Hypothesis Hwalk : forall p, walk (abspath root p) = sub p.
  Hypothesis Hwf : forall p, wf_tree (sub p) = true.

  Lemma sub_created_abs p : p <> [] -> forallb valid_name p = true ->
    map (fun x => Created (fst x) (snd x) true) (sub_created_events (abspath root p) (walk (abspath root p)))
    = map (render root) (map (fun x => ACreated (fst x) (p ++ snd x) true) (desc [] (sub p))).
  Proof.
    intros Hp Hv. rewrite Hwalk.
    rewrite sub_created_correct;
      [| unfold abspath; destruct root; [contradiction | discriminate]
       | now apply last_is_sep_root | apply Hwf].
    rewrite !map_map. apply map_ext. intros [k rel]. cbn [fst snd render expect_created].
    unfold abspath. now rewrite relsuffix_app, app_assoc.
  Qed.

  Lemma sub_moved_abs s d : d <> [] -> forallb valid_name d = true ->
    map (fun x => Moved (fst (fst x)) (snd (fst x)) (snd x) true)
        (sub_moved_events replace_first (abspath root s) (abspath root d) (walk (abspath root d)))
    = map (render root) (map (fun x => AMoved (fst x) (s ++ snd x) (d ++ snd x) true) (desc [] (sub d))).
  Proof.
    intros Hd Hv. rewrite Hwalk.
    rewrite sub_moved_correct;
      [| unfold abspath; destruct root; [contradiction | discriminate]
       | unfold abspath; destruct root; [contradiction | discriminate]
       | now apply last_is_sep_root | apply Hwf].
    rewrite !map_map. apply map_ext. intros [k rel]. cbn [fst snd render expect_moved].
    unfold abspath. now rewrite !relsuffix_app, !app_assoc.
  Qed.

  (* the isdir oracle tells the truth about the tree after the operation *)
  Theorem win_contract_ok : forall (before : fs) (o : op),
    op_names_ok o = true -> op_ok before o = true ->
    let after := apply_op before o in
    (forall p, isdir (abspath root p) = fs_isdir after p) ->
    queue_events isdir walk recursive root (map render_native (win_kernel o))
    = (map (render root) (win_contract sub recursive after o), false).
  Proof.
    intros before o Hnames Hok after Hisdir.
    unfold queue_events.
    destruct o as [p i|p i|p|p|p|p|s d|s|d k i content]; cbn [win_kernel map batch_go]; unfold render_native; cbn [fst snd];
      cbn [op_names_ok] in Hnames.
    - (* create *)
      apply path_ok_split in Hnames as [Hp Hv].
      rewrite step_added. cbv zeta. rewrite join_rel by assumption.
      rewrite Hisdir. unfold after. cbn [apply_op]. rewrite isdir_new_entry by (apply (fresh_not_mem _ _ _ Hok)).
      reflexivity.
    - (* mkdir *)
      apply path_ok_split in Hnames as [Hp Hv].
      rewrite step_added. cbv zeta. rewrite join_rel by assumption.
      rewrite Hisdir. unfold after at 1 2. cbn [apply_op]. rewrite isdir_new_entry by (apply (fresh_not_mem _ _ _ Hok)).
      cbn [kind_eqb dirkind andb win_contract map render app].
      destruct recursive; [|reflexivity].
      rewrite sub_created_abs by assumption. cbn [app orb]. now rewrite app_nil_r.
    - (* write *)
      apply path_ok_split in Hnames as [Hp Hv].
      rewrite step_modified, join_rel by assumption. now rewrite Hisdir.
    - (* chmod *)
      apply path_ok_split in Hnames as [Hp Hv].
      rewrite step_modified, join_rel by assumption. now rewrite Hisdir.
    - apply path_ok_split in Hnames as [Hp Hv]. now rewrite step_removed, join_rel by assumption.
    - apply path_ok_split in Hnames as [Hp Hv]. now rewrite step_removed, join_rel by assumption.
    - (* rename inside the tree *)
      apply andb_true_iff in Hnames as [Hs Hd].
      apply path_ok_split in Hs as [Hs Hsv]. apply path_ok_split in Hd as [Hd Hdv].
      rewrite step_old, step_new. cbv zeta. rewrite !join_rel by assumption.
      rewrite Hisdir. cbn [win_contract]. destruct (fs_isdir after d); [|reflexivity].
      destruct recursive; [|reflexivity].
      rewrite sub_moved_abs by assumption. cbn [app orb]. now rewrite app_nil_r.
    - apply path_ok_split in Hnames as [Hp Hv]. now rewrite step_removed, join_rel by assumption.
    - (* move in *)
      apply andb_true_iff in Hnames as [Hnames _].
      apply path_ok_split in Hnames as [Hp Hv].
      rewrite step_added. cbv zeta. rewrite join_rel by assumption.
      rewrite Hisdir. unfold after at 1 2. cbn [apply_op].
      rewrite isdir_new_head by (cbn [op_ok] in Hok; apply andb_true_iff in Hok as [Hok _];
                                 apply andb_true_iff in Hok as [Hok _]; apply (fresh_not_mem _ _ _ Hok)).
      cbn [win_contract]. destruct k; cbn [kind_eqb dirkind andb map render app]; [reflexivity|].
      destruct recursive; [|reflexivity].
      rewrite sub_created_abs by assumption. cbn [app orb]. now rewrite app_nil_r.
  Qed.
End Contract.
