"""Generates MANIFEST.json from the table below:  /venv/bin/python -m harness.manifest"""
import json
from pathlib import Path

VERIF = Path(__file__).resolve().parent.parent

import importlib

CLAIMED = {}
PENDING = {}
for f in sorted((VERIF / "harness" / "props").glob("c[0-9]*.py")):
    mod = importlib.import_module(f"harness.props.{f.stem}")
    if getattr(mod, "MANIFEST", None):
        m = mod.MANIFEST
        if m.get("pending"):
            PENDING[f.stem.upper()] = m["pending"]
            continue
        CLAIMED[f.stem.upper()] = (m["design_ref"], m["text"], m["note"], m["technique"])

NOT_YET = "check not built yet in this session (planned in DESIGN.md §6); not claimed until its theorems and correspondence exist"


def main():
    props = [json.loads(l) for l in (VERIF / "properties.jsonl").read_text().splitlines() if l.strip()]
    checks = []
    na = []
    for p in props:
        i = p["id"]
        if i in CLAIMED:
            ref, text, note, tech = CLAIMED[i]
            checks.append({
                "property_id": i,
                "quick_cmd": f"./check {i} --tier quick",
                "thorough_cmd": f"./check {i} --tier thorough",
                "evidence_file": f"evidence/{i}.json",
                "replay_cmd_template": f"./check {i} --replay {{path}}",
                "engine": "coq-model+correspondence",
                "level_claimed": {"category": "proof", "text": text, "design_ref": ref},
                "level_note": note,
                "technique": tech,
            })
        else:
            na.append({"property_id": i, "reason": PENDING.get(i, NOT_YET)})
    m = {
        "version": 1,
        "setup_cmd": "./check --setup",
        "hooks": {
            "guard": "WATCHDOG_VERIF",
            "enable": "no source hooks: the harness sets WATCHDOG_VERIF=1 and instruments from outside (module-namespace patching at import time)",
            "baseline_off_cmd": "cd /repo && /venv/bin/python -m pytest -ra -q -p no:cacheprovider --timeout=900 --continue-on-collection-errors",
            "source_commits": [],
            "add_only": True,
        },
        "engines": [{
            "name": "coq-model+correspondence",
            "path": "check",
            "serves_properties": sorted(CLAIMED),
            "kind_free_text": "Coq 8.16 development (coq/), extracted OCaml model runner (bin/wdmodel), Python correspondence harness and oracles (harness/)",
        }],
        "checks": checks,
        "not_applicable": na,
        "notes": "Every check: (1) full .vo build + assumption audit of the property's theorems, (2) extracted model vs real code on the same inputs, (3) implementation-level oracle. See DESIGN.md.",
    }
    (VERIF / "MANIFEST.json").write_text(json.dumps(m, indent=1) + "\n")
    print("MANIFEST.json:", len(checks), "claimed,", len(na), "not claimed")


if __name__ == "__main__":
    main()
