(* AutoRestartTrick protocol: refutations for the pinned code (witness runs), sanity of the repaired one. *)
Require Import WD.Base.Prelude WD.Base.Lts WD.Model.Restart.

(* child 0 exits by itself; its watcher is inside _stop_process (flag set, dead child found) when an
   event-triggered restart finds the flag set, skips the stop and spawns child 1; the watcher then
   clears self.process and spawns child 2: children 1 and 2 are alive together, child 1 is orphaned. *)
Definition race_trace : list label :=
  [Exit 0%nat; WStep 0; WStep 0; WStep 0; WStep 0; WStep 0; WStep 0; WStep 0;
   Trigger; TStep; TStep; TStep; TStep; TStep; WStep 0; WStep 0; WStep 0; WStep 0].

Lemma two_children_pinned : exists tr s,
  run (restart_lts false true 4) (init_state true) tr = Some s /\ alive_children s = 2%nat /\ process s = Some 2%nat.
Proof. exists race_trace. eexists. vm_compute. repeat split. Qed.

(* and the orphan survives stop(): *)
Lemma orphan_survives_stop_pinned : exists tr s,
  run (restart_lts false true 4) (init_state true) tr = Some s /\ mpcs s = MReturned /\ alive_children s = 1%nat.
Proof.
  exists (race_trace ++ [WStep 0; WStep 0; WStep 0; TStep; TStep; StopCall; MStep; MStep; MStep; MStep; MStep;
                         Exit 2%nat; MStep; MStep; MStep; MStep; WStep 2; WStep 2; MStep]).
  eexists. vm_compute. repeat split.
Qed.

(* an event-triggered restart is waiting for child 0 to die (it ignores the signal); stop() finds
   _is_process_stopping set, skips the stop and returns while child 0 is still alive *)
Lemma alive_after_stop_pinned : exists tr s,
  run (restart_lts false true 4) (init_state true) tr = Some s /\ mpcs s = MReturned /\ alive_children s = 1%nat.
Proof.
  exists [Trigger; TStep; TStep; TStep; TStep; TStep; StopCall; MStep; MStep; MStep; MStep; WStep 0; WStep 0; MStep].
  eexists. vm_compute. repeat split.
Qed.

(* the repaired protocol blocks the second restarter on the lock: the race schedule is not a run *)
Lemma race_trace_not_serial : run (restart_lts true true 4) (init_state true) race_trace = None.
Proof. vm_compute. reflexivity. Qed.

(* A watcher that does not read its stop flag again after poll(): watcher 0 passes its flag test, an
   event restart stops it and kills child 0 (Exit 0 follows the signal), starts child 1; watcher 0 then
   sees child 0 dead and restarts once more: child 1 is killed, child 2 started - three children for one
   trigger although no child exited by itself. *)
Definition norecheck_trace : list label :=
  [WStep 0%nat; WStep 0] ++ [Trigger] ++ repeat TStep 5 ++ [Exit 0%nat] ++ repeat TStep 8 ++
  repeat (WStep 0%nat) 6 ++ [Exit 1%nat] ++ repeat (WStep 0%nat) 8.

Lemma norecheck_double_restart : exists tr s,
  run (restart_lts_norecheck true true 4) (init_state true) tr = Some s /\
  count_trigger tr = 1%nat /\ spawns s = 3%nat /\ admitted s = 2%nat /\ children s = [false; false; true].
Proof. exists norecheck_trace. eexists. vm_compute. repeat split. Qed.

(* the modelled watcher (flag read again at WNoticed) stays silent on the same schedule *)
Lemma recheck_single_restart : exists s,
  run (restart_lts true true 4) (init_state true)
      ([WStep 0%nat; WStep 0] ++ [Trigger] ++ repeat TStep 5 ++ [Exit 0%nat] ++ repeat TStep 8 ++ repeat (WStep 0%nat) 2)
    = Some s /\ spawns s = 2%nat /\ admitted s = 1%nat /\ children s = [false; true] /\
  watcher_done s 0 = true.
Proof. eexists. vm_compute. repeat split. Qed.
