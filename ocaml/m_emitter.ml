(* wire glue for coq/Model/Emitter.v   (model name: emitter)
   (emit full recursive watch_path ((path tree) ...) item)  -> ((ev ...) stop)
   (emitf F full recursive watch_path content item)         -> ((ev ...) stop)      filtered emitter
   (collapse full recursive watch_path content item)        -> (ev ...)             what a SkipRepeatsQueue keeps
   (accepts F cls) -> 0/1        (subclass cls base) -> 0/1      (isdir mask) -> 0/1
   item = (S wd mask cookie name path) | (P (wd mask cookie name path) (wd mask cookie name path))
   F = () for None, ((base ...)) for a filter; ev = (cls src dest synth) *)
open Sexp
open Conv
open Emitter

let cls_name = function
  | FileCreated -> "FileCreated" | FileDeleted -> "FileDeleted" | FileModified -> "FileModified"
  | FileMoved -> "FileMoved" | FileClosed -> "FileClosed" | FileClosedNoWrite -> "FileClosedNoWrite"
  | FileOpened -> "FileOpened" | DirCreated -> "DirCreated" | DirDeleted -> "DirDeleted"
  | DirModified -> "DirModified" | DirMoved -> "DirMoved"
let cls_of = function
  | A "FileCreated" -> FileCreated | A "FileDeleted" -> FileDeleted | A "FileModified" -> FileModified
  | A "FileMoved" -> FileMoved | A "FileClosed" -> FileClosed | A "FileClosedNoWrite" -> FileClosedNoWrite
  | A "FileOpened" -> FileOpened | A "DirCreated" -> DirCreated | A "DirDeleted" -> DirDeleted
  | A "DirModified" -> DirModified | A "DirMoved" -> DirMoved
  | _ -> failwith "emitter: class"
let base_of = function
  | A "FileSystemEvent" -> AnyEvent | A "FileSystemMovedEvent" -> AnyMoved | x -> Concrete (cls_of x)
let base_name = function
  | AnyEvent -> "FileSystemEvent" | AnyMoved -> "FileSystemMovedEvent" | Concrete c -> cls_name c
let filter_of x = opt_of (list_of base_of) x

let raw_of = function
  | [wd; mask; cookie; name; path] ->
    { r_wd = n_of wd; r_mask = n_of mask; r_cookie = n_of cookie; r_name = bytes_of name; r_path = bytes_of path }
  | _ -> failwith "emitter: raw"
let item_of = function
  | L (A "S" :: r) -> Single (raw_of r)
  | L [A "P"; L f; L t] -> Pair (raw_of f, raw_of t)
  | _ -> failwith "emitter: item"

let content_of x =
  let tbl = list_of (function L [p; t] -> (bytes_of p, M_subevents.tree_of t) | _ -> failwith "emitter: content") x in
  fun p -> match Stdlib.List.assoc_opt p tbl with Some t -> t | None -> SubEvents.Node ([], [])

let sx_ev e = L [A (cls_name e.ev_cls); sx_bytes e.ev_src; sx_bytes e.ev_dest; sx_bool e.ev_synth]
let sx_res (evs, stop) = L [sx_list sx_ev evs; sx_bool stop]

let run = function
  | L [A "emit"; full; recu; wp; content; it] ->
    sx_res (emit (bool_of full) (bool_of recu) (bytes_of wp) (content_of content) (item_of it))
  | L [A "emitf"; f; full; recu; wp; content; it] ->
    sx_res (emit_filtered (filter_of f) (bool_of full) (bool_of recu) (bytes_of wp) (content_of content) (item_of it))
  | L [A "collapse"; full; recu; wp; content; it] ->
    sx_list sx_ev (collapse (fst (emit (bool_of full) (bool_of recu) (bytes_of wp) (content_of content) (item_of it))))
  | L [A "accepts"; f; c] -> sx_bool (accepts (filter_of f) (cls_of c))
  | L [A "subclass"; c; b] -> sx_bool (subclass (cls_of c) (base_of b))
  | L [A "isdir"; m] -> sx_bool (is_directory (n_of m))
  | L [A "classes"] -> sx_list (fun c -> A (cls_name c)) all_classes
  | L [A "bases"] -> sx_list (fun c -> A (base_name c)) all_bases
  | L [A "flags"] -> sx_list sx_n all_flags
  | _ -> failwith "emitter: bad case"
