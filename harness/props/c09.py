"""C09 - a snapshot diff is a correct, minimal, inode-faithful description of the change.

Correspondence: pairs of virtual trees are snapshotted THROUGH the real DirectorySnapshot (injectable
stat/listdir, so walk() runs), the real DirectorySnapshotDiff is computed, and its eight public lists are
compared as sets with the extracted Coq model `snapshot` fed with the insertion sequence of the real
snapshots; DirectorySnapshot.path(inode) is compared with the model's path_of.
Oracle: the laws of the property text evaluated on the real diff object through the public API only.
"""
from __future__ import annotations

import copy
import errno
import itertools
import os
import stat as statmod

from harness import core
from harness.core import Atom, Failure, Mismatch, Result, sx

MANIFEST = dict(
    design_ref="DESIGN.md §6 C09",
    text="Coq theorems C09_account, C09_moved_iff, C09_created_iff, C09_deleted_iff, C09_modified_iff, C09_kinds, "
         "C09_disjoint, C09_self, C09_swap, C09_ignore_device, C09_total about an executable model of "
         "DirectorySnapshotDiff.__init__ (dict/set semantics, KeyError explicit) for all snapshots (no size bound); the model "
         "is tied to /repo by running the extracted model and the real classes on the same snapshot pairs on every run.",
    note="Trusted: Coq kernel; Python set/dict semantics are modelled as lists-as-sets with last-insertion-wins lookup "
         "(validated by the correspondence); correspondence is sampled (quick) / exhaustive for <= 3 entries (thorough).",
    technique="Coq proof (membership characterisations, first-order closing) + differential correspondence via extracted "
              "OCaml model + law oracle on the real objects",
)
TRUSTED = [
    "modelled, not verified: Python dict (insertion order, last assignment wins) and set algebra; iteration order of a set is "
    "not modelled (all eight lists are compared as sets and every loop body is independent of the others)",
]
ASSUMPTIONS = [
    "every inode has one path (the property's own hypothesis) and no snapshot path is the empty string (`if new_path:` "
    "treats '' as absent; os.stat('') fails, so no real snapshot contains it)",
    "mtime/size are compared with != only; the model uses naturals for them",
]

ROOT = "/r"
NAMES = ["a", "b", "c", "d"]
S_DIR = statmod.S_IFDIR | 0o755
S_REG = statmod.S_IFREG | 0o644


# ------------------------------------------------------------------ virtual file system
class VStat:
    __slots__ = ("st_ino", "st_dev", "st_mode", "st_mtime", "st_size")

    def __init__(self, ino, dev, isdir, mtime, size):
        self.st_ino, self.st_dev, self.st_mode, self.st_mtime, self.st_size = ino, dev, (S_DIR if isdir else S_REG), mtime, size


class VEntry:
    __slots__ = ("name",)

    def __init__(self, name):
        self.name = name


class VFS:
    """A tree {"st": [ino, dev, isdir, mtime, size], "ch": {name: node}} served through stat/listdir."""

    def __init__(self, tree, root=ROOT):
        self.stats = {}
        self.kids = {}
        self._add(root, tree)

    def _add(self, p, node):
        self.stats[p] = VStat(*node["st"])
        if node["st"][2]:
            self.kids[p] = list(node["ch"])
            for n, sub in node["ch"].items():
                self._add(os.path.join(p, n if isinstance(p, str) else n.encode()), sub)

    def stat(self, p):
        try:
            return self.stats[p]
        except KeyError:
            raise FileNotFoundError(errno.ENOENT, "virtual: no such entry", p) from None

    def listdir(self, p):
        if p not in self.stats:
            raise FileNotFoundError(errno.ENOENT, "virtual: no such entry", p)
        if p not in self.kids:
            raise NotADirectoryError(errno.ENOTDIR, "virtual: not a directory", p)
        return [VEntry(n if isinstance(p, str) else n.encode()) for n in self.kids[p]]


def node(ino, dev, isdir, mtime, size, ch=None):
    return {"st": [ino, dev, bool(isdir), mtime, size], "ch": ch or {}}


def entries(tree, prefix=()):
    """All (rel path tuple, node) below and including the root."""
    yield prefix, tree
    for n, sub in tree["ch"].items():
        yield from entries(sub, prefix + (n,))


def get(tree, rel):
    for n in rel:
        tree = tree["ch"][n]
    return tree


def used_inodes(tree):
    return [(n["st"][0], n["st"][1]) for _, n in entries(tree)]


# ------------------------------------------------------------------ generators
def inode_pool(rng):
    pool = [(i, 1) for i in range(1, 6)]
    if rng.random() < 0.2:
        pool = [(i, 2 if rng.random() < 0.4 else 1) for i, _ in pool]
    return pool


def rand_ms(rng):
    return rng.choice([(0, 0), (0, 0), (1, 0), (0, 1), (1, 1)])


def rand_tree(rng, pool, unique, max_entries=None):
    """Root + up to 4 (unique inodes) / 6 entries, depth <= 2, names from NAMES."""
    avail = list(pool)
    rng.shuffle(avail)

    def take():
        if unique:
            return avail.pop()
        return rng.choice(pool)
    ino, dev = take()
    root = node(ino, dev, True, *rand_ms(rng))
    n = rng.randint(0, max_entries if max_entries is not None else (4 if unique else 6))
    for _ in range(n):
        if unique and not avail:
            break
        add_entry(rng, root, take(), None)
    return root


def dirs_with_room(tree):
    return [rel for rel, nd in entries(tree) if nd["st"][2] and len(rel) < 2 and len(nd["ch"]) < len(NAMES)]


def add_entry(rng, tree, inode, sub):
    cands = dirs_with_room(tree)
    if not cands:
        return False
    parent = get(tree, rng.choice(cands))
    name = rng.choice([n for n in NAMES if n not in parent["ch"]])
    if sub is None:
        sub = node(inode[0], inode[1], rng.random() < 0.45, *rand_ms(rng))
    items = list(parent["ch"].items())
    items.insert(rng.randint(0, len(items)), (name, sub))
    parent["ch"] = dict(items)
    return True


def height(nd):
    return 1 + max((height(c) for c in nd["ch"].values()), default=0)


def mutate(rng, tree, pool):
    """One random change of the tree (in place); returns its name."""
    ents = [(rel, nd) for rel, nd in entries(tree)]
    nonroot = [rel for rel, _ in ents if rel]
    op = rng.choice(["rename", "rename", "delete", "create", "modify", "modify", "reinode", "swap", "kind", "reuse", "dev"])
    if op in ("rename", "delete") and nonroot:
        rel = rng.choice(nonroot)
        parent = get(tree, rel[:-1])
        sub = parent["ch"].pop(rel[-1])
        if op == "rename":
            cands = [r for r in dirs_with_room(tree) if len(r) + height(sub) <= 2]
            if cands:
                p2 = get(tree, rng.choice(cands))
                free = [n for n in NAMES if n not in p2["ch"]]
                if free:
                    p2["ch"][rng.choice(free)] = sub
        return op
    if op == "create":
        free = [i for i in pool if i not in used_inodes(tree)] or pool
        add_entry(rng, tree, rng.choice(free), None)
        return op
    if op == "modify":
        nd = rng.choice(ents)[1]
        k = rng.choice([3, 4])
        nd["st"][k] = 1 - nd["st"][k] if nd["st"][k] in (0, 1) else 0
        return op
    if op == "reinode":
        nd = rng.choice(ents)[1]
        free = [i for i in pool if i not in used_inodes(tree)]
        if free:
            nd["st"][0], nd["st"][1] = rng.choice(free)
        return op
    if op == "reuse" and len(ents) >= 2:
        a, b = rng.sample(ents, 2)
        a[1]["st"][0], a[1]["st"][1] = b[1]["st"][0], b[1]["st"][1]
        if rng.random() < 0.6 and b[0]:
            get(tree, b[0][:-1])["ch"].pop(b[0][-1], None)
        return op
    if op == "swap" and len(nonroot) >= 2:
        a, b = rng.sample(nonroot, 2)
        if a[:len(b)] != b and b[:len(a)] != a:
            pa, pb = get(tree, a[:-1]), get(tree, b[:-1])
            na, nb = pa["ch"][a[-1]], pb["ch"][b[-1]]
            if len(a) - 1 + height(nb) <= 2 and len(b) - 1 + height(na) <= 2:
                pa["ch"][a[-1]], pb["ch"][b[-1]] = nb, na
        return op
    if op == "kind":
        nd = rng.choice(ents)[1]
        if nd["st"][2] and not nd["ch"]:
            nd["st"][2] = False
        elif not nd["st"][2]:
            nd["st"][2] = True
        return op
    if op == "dev":
        for _, nd in ents:
            if rng.random() < 0.7:
                nd["st"][1] = 3 - nd["st"][1] if nd["st"][1] in (1, 2) else 1
        return op
    return "noop"


def dev_only(rng, tree):
    t = copy.deepcopy(tree)
    for _, nd in entries(t):
        if rng.random() < 0.8:
            nd["st"][1] = nd["st"][1] + rng.choice([1, 2])
    return t


def rand_pair(rng):
    pool = inode_pool(rng)
    unique = rng.random() < 0.8
    a = rand_tree(rng, pool, unique)
    mode = rng.random()
    ign = rng.random() < 0.25
    if mode < 0.4:
        b = rand_tree(rng, pool, unique)
        how = "independent"
    elif mode < 0.92:
        b = copy.deepcopy(a)
        ops = [mutate(rng, b, pool) for _ in range(rng.choice([1, 1, 2, 2, 3]))]
        how = "mutated"
    else:
        b = dev_only(rng, a)
        ign = rng.random() < 0.85
        how = "device-only"
    return {"A": a, "B": b, "recursive": rng.random() < 0.7, "ign": ign, "bytes": rng.random() < 0.1, "how": how}


def all_small_trees(ms_values):
    """All trees with a fixed root and <= 2 further entries over names {a,b}, inode pool {1,2,3} (duplicates
    allowed), kinds, the given (mtime, size) values; depth <= 2."""
    def ent(force_dir):
        for ino in (1, 2, 3):
            for kind in ((True,) if force_dir else (False, True)):
                for ms in ms_values:
                    yield (ino, 1, kind) + ms
    out = []
    R = (9, 1, True, 0, 0)
    out.append(node(*R))
    for n in ("a", "b"):
        for e in ent(False):
            out.append(node(*R, ch={n: node(*e)}))
    for e1 in ent(False):
        for e2 in ent(False):
            out.append(node(*R, ch={"a": node(*e1), "b": node(*e2)}))
    for n1 in ("a", "b"):
        for n2 in ("a", "b"):
            for e1 in ent(True):
                for e2 in ent(False):
                    out.append(node(*R, ch={n1: node(*e1, ch={n2: node(*e2)})}))
    return out


# ------------------------------------------------------------------ real code + wire
def take_snapshot(tree, recursive, as_bytes=False):
    from watchdog.utils.dirsnapshot import DirectorySnapshot
    root = ROOT.encode() if as_bytes else ROOT
    v = VFS(tree, root)
    return DirectorySnapshot(root, recursive=recursive, stat=v.stat, listdir=v.listdir)


def pb(p):
    return p if isinstance(p, bytes) else p.encode()


def snap_wire(snap):
    """The insertion sequence of the real snapshot (dict order of _stat_info)."""
    return [[pb(p), st.st_ino, st.st_dev, statmod.S_ISDIR(st.st_mode), st.st_mtime, st.st_size]
            for p, st in snap._stat_info.items()]


LISTS = ["files_created", "files_deleted", "files_modified", "files_moved",
         "dirs_created", "dirs_deleted", "dirs_modified", "dirs_moved"]


def canon(x):
    if isinstance(x, tuple):
        return [pb(x[0]).hex(), pb(x[1]).hex()]
    return pb(x).hex()


def impl_lists(d):
    out = []
    dup = False
    for nm in LISTS:
        l = getattr(d, nm)
        if len(set(l)) != len(l):
            dup = True
        out.append(sorted(canon(x) for x in l))
    return out, dup


def model_lists(o):
    """(OK (8 lists) wfR wfS) -> sorted canonical lists (duplicates merged: lists are sets)."""
    if not (isinstance(o, list) and o and o[0] == "OK"):
        return o
    out = []
    for l in o[1]:
        s = set()
        for x in l:
            s.add((x[0][1:], x[1][1:]) if isinstance(x, list) else x[1:])
        out.append(sorted(list(x) if isinstance(x, tuple) else x for x in s))
    return out


# ------------------------------------------------------------------ the oracle: the property text on the real objects
def every_inode_one_path(snap):
    ps = snap.paths
    return len({snap.inode(p) for p in ps}) == len(ps)


def oracle(r, s, d, mk_diff, ign):
    """Returns a list of (law, observed, expected). r, s: real snapshots; d: real diff(r, s, ign)."""
    bad = []
    R, S = r.paths, s.paths
    created = set(d.files_created) | set(d.dirs_created)
    deleted = set(d.files_deleted) | set(d.dirs_deleted)
    modified = set(d.files_modified) | set(d.dirs_modified)
    moved = set(d.files_moved) | set(d.dirs_moved)
    if ign:
        # only the stated law: a pure change of device id is no change
        pure = R == S and all(r.inode(p)[0] == s.inode(p)[0] and r.isdir(p) == s.isdir(p) and r.mtime(p) == s.mtime(p)
                              and r.size(p) == s.size(p) for p in R)
        if pure and (created or deleted or modified or moved):
            bad.append(("ignore_device: a pure device-id change is no change",
                        [sorted(map(repr, x)) for x in (created, deleted, modified, moved)], "all empty"))
        return bad, "ignore_device/device-only-change" if pure else "ignore_device/other (correspondence only)"
    if not (every_inode_one_path(r) and every_inode_one_path(s)):
        return bad, "hard-links (correspondence + self law only)"
    ir = {r.inode(p): p for p in R}
    is_ = {s.inode(p): p for p in S}
    src = {a for a, _ in moved}
    dst = {b for _, b in moved}
    # accounting
    got = ((R - deleted) - src) | created | dst
    if got != S:
        bad.append(("accounting: old - deleted - move sources + created + move destinations = new", sorted(map(repr, got)), sorted(map(repr, S))))
    # moved iff the same inode is found under a different path
    want_moved = {(a, is_[i]) for i, a in ir.items() if i in is_ and is_[i] != a}
    if moved != want_moved:
        bad.append(("moved iff same inode under a different path", sorted(map(repr, moved)), sorted(map(repr, want_moved))))
    # created / deleted only if the inode is absent from the other snapshot
    for p in created:
        if p not in S or s.inode(p) in ir:
            bad.append(("created only if its inode is absent from the old snapshot", repr(p), None))
    for p in deleted:
        if p not in R or r.inode(p) in is_:
            bad.append(("deleted only if its inode is absent from the new snapshot", repr(p), None))
    # modified iff it kept its identity but changed mtime or size
    want_mod = {a for i, a in ir.items() if i in is_ and (r.mtime(a) != s.mtime(is_[i]) or r.size(a) != s.size(is_[i]))}
    if modified != want_mod:
        bad.append(("modified iff same identity and mtime or size changed (old path)", sorted(map(repr, modified)), sorted(map(repr, want_mod))))
    # kinds
    for nm_f, nm_d, snp, key in (("files_created", "dirs_created", s, None), ("files_deleted", "dirs_deleted", r, None),
                                 ("files_modified", "dirs_modified", r, None), ("files_moved", "dirs_moved", r, 0)):
        lf, ld = getattr(d, nm_f), getattr(d, nm_d)
        if set(lf) & set(ld) or len(set(lf)) != len(lf) or len(set(ld)) != len(ld):
            bad.append((f"kinds: {nm_f}/{nm_d} entry in both lists or twice", repr((lf, ld)), None))
        for x in lf + ld:
            p = x if key is None else x[key]
            isd = snp.isdir(p)
            if key == 0 and s.isdir(x[1]) != isd:
                continue        # the same inode changed kind while moving: the text does not say which kind counts
            if isd != (x in ld):
                bad.append((f"kinds: {nm_f}/{nm_d} entry in the list of the wrong kind", repr(x), None))
    # pairwise consistency
    if deleted & src:
        bad.append(("consistency: a deleted path is also a move source", sorted(map(repr, deleted & src)), None))
    if created & dst:
        bad.append(("consistency: a created path is also a move destination", sorted(map(repr, created & dst)), None))
    if deleted & modified:
        bad.append(("consistency: a path is both deleted and modified", sorted(map(repr, deleted & modified)), None))
    if len(src) != len(moved) or len(dst) != len(moved) or any(a == b for a, b in moved):
        bad.append(("consistency: move sources / destinations not distinct", sorted(map(repr, moved)), None))
    # swap law
    d2 = mk_diff(s, r, False)
    c2 = set(d2.files_created) | set(d2.dirs_created)
    del2 = set(d2.files_deleted) | set(d2.dirs_deleted)
    mv2 = set(d2.files_moved) | set(d2.dirs_moved)
    if c2 != deleted or del2 != created or mv2 != {(b, a) for a, b in moved}:
        bad.append(("swap: diff(s, r) swaps created/deleted and reverses moves",
                    [sorted(map(repr, x)) for x in (c2, del2, mv2)], [sorted(map(repr, x)) for x in (deleted, created, moved)]))
    return bad, "every inode one path (all laws)"


def self_oracle(snap, mk_diff, ign):
    d = mk_diff(snap, snap, ign)
    return [nm for nm in LISTS if getattr(d, nm)]


def features(r, s, d):
    f = []
    created = set(d.files_created) | set(d.dirs_created)
    deleted = set(d.files_deleted) | set(d.dirs_deleted)
    modified = set(d.files_modified) | set(d.dirs_modified)
    moved = set(d.files_moved) | set(d.dirs_moved)
    if created & deleted:
        f.append("inode-replaced-under-same-name")
    if any((b, a) in moved for a, b in moved):
        f.append("swap-of-two-names")
    if modified & {a for a, _ in moved}:
        f.append("move+modify")
    if any(r.isdir(p) != s.isdir(p) for p in r.paths & s.paths):
        f.append("kind-change-in-place")
    if {b for _, b in moved} & deleted or {a for a, _ in moved} & created:
        f.append("move-over/under-other-change")
    return f


# ------------------------------------------------------------------ running cases
def run_cases(ctx, res: Result, cases, label, snaps=None, sample_pathof=0.1, count_samples=True):
    """cases: iterable of dicts {A, B, recursive, ign, bytes?}. `snaps` optionally caches real snapshots by id."""
    from watchdog.utils.dirsnapshot import DirectorySnapshotDiff

    def mk_diff(a, b, ign):
        return DirectorySnapshotDiff(a, b, ignore_device=ign)

    rng = ctx.rng("pathof/" + label)
    lines, impls, metas = [], [], []
    po_lines, po_impl, po_meta = [], [], []
    self_done = set()

    def flush():
        outs = core.run_model("snapshot", lines)
        for o, im, me in zip(outs, impls, metas):
            res.traces_validated += 1
            mo = model_lists(o)
            if mo != im:
                res.mismatches.append(Mismatch(pair="DirectorySnapshotDiff (eight lists as sets)", case=me,
                                               model=str(mo)[:800], impl=str(im)[:800]))
        outs = core.run_model("snapshot", po_lines)
        for o, im, me in zip(outs, po_impl, po_meta):
            res.traces_validated += 1
            mo = bytes.fromhex(o[0][1:]) if o else None
            if mo != im:
                res.mismatches.append(Mismatch(pair="DirectorySnapshot.path(inode)", case=me, model=repr(mo), impl=repr(im)))
        lines.clear(), impls.clear(), metas.clear(), po_lines.clear(), po_impl.clear(), po_meta.clear()

    for case in cases:
        rec, ign, asb = case["recursive"], case["ign"], case.get("bytes", False)
        if snaps is not None:
            r, wr = snaps[case["ia"]]
            s, ws = snaps[case["ib"]]
        else:
            r = take_snapshot(case["A"], rec, asb)
            s = take_snapshot(case["B"], rec, asb)
            wr, ws = sx(snap_wire(r)), sx(snap_wire(s))
        res.evaluations += 1
        try:
            d = mk_diff(r, s, ign)
        except Exception as ex:      # the real diff raised (KeyError ...): a failure of the property and of the correspondence
            res.failures.append(Failure(what=f"DirectorySnapshotDiff raised {type(ex).__name__}: {ex}", case=case,
                                        signature={"law": "total", "ign": ign, "exception": type(ex).__name__},
                                        observed=repr(ex), expected="a diff object"))
            lines.append(f"(diff {int(ign)} {wr} {ws})")
            impls.append(["CRASH", type(ex).__name__])
            metas.append(case)
            continue
        im, dup = impl_lists(d)
        if snaps is None and (res.evaluations % 3 == 0 or label == "replay"):
            # the same pair through DirectorySnapshotDiff.ContextManager (two snapshots of ONE path, taken on entry and on exit)
            root = ROOT.encode() if asb else ROOT
            va, vb = VFS(case["A"], root), VFS(case["B"], root)
            cur = [va]
            cm = DirectorySnapshotDiff.ContextManager(root, recursive=rec, stat=lambda q: cur[0].stat(q),
                                                      listdir=lambda q: cur[0].listdir(q), ignore_device=ign)
            with cm:
                cur[0] = vb
            im2, _ = impl_lists(cm.diff)
            res.hist("context_manager", True)
            if im2 != im:
                res.failures.append(Failure(
                    what="DirectorySnapshotDiff.ContextManager yields another diff than DirectorySnapshotDiff(pre, post, ignore_device)",
                    case=case, signature={"law": "context-manager", "ign": ign}, observed=str(im2)[:600], expected=str(im)[:600]))
        if dup:
            res.mismatches.append(Mismatch(pair="DirectorySnapshotDiff list without duplicates", case=case, model="sets", impl=str(im)))
        lines.append(f"(diff {int(ign)} {wr} {ws})")
        impls.append(im)
        metas.append(case)
        # oracle
        try:
            bad, cls = oracle(r, s, d, mk_diff, ign)
            for which, snp in (("A", r), ("B", s)):
                k = (case.get("ia") if which == "A" else case.get("ib"), ign) if snaps is not None else None
                if k is not None and k in self_done:
                    continue
                if k is not None:
                    self_done.add(k)
                nonempty = self_oracle(snp, mk_diff, ign)
                if nonempty:
                    bad.append((f"self: diff of snapshot {which} against itself is not empty", nonempty, "all eight lists empty"))
        except Exception as ex:
            bad, cls = [(f"total: a diff needed by the laws (swap / self) raised {type(ex).__name__}", repr(ex), None)], "raised"
        for law, obs, exp in bad[:3]:
            res.failures.append(Failure(what=f"DirectorySnapshotDiff: {law}", case=case,
                                        signature={"law": law.split(":")[0], "ign": ign}, observed=obs, expected=exp))
        # coverage accounting
        ne = [nm for nm, l in zip(LISTS, im) if l]
        feats = features(r, s, d)
        res.hist("oracle_class", cls)
        res.hist("recursive", rec)
        res.hist("entries_max(old,new)", max(len(r.paths), len(s.paths)))
        res.hist("nonempty_lists", len(ne))
        for f in feats or ["-"]:
            res.hist("feature", f)
        if "how" in case:
            res.hist("generator", case["how"])
        if ne:
            res.nontrivial.add(core.digest([wr, ws, rec, ign]))
        if count_samples and len(res.samples) < 5 and (len(feats) >= 1 or len(ne) >= 3) and not ign and \
                all(x.get("features") != feats for x in res.samples):
            res.samples.append({"case": {k: v for k, v in case.items() if k in ("A", "B", "recursive", "ign")},
                                "diff": {nm: l and [bytes.fromhex(x).decode() if isinstance(x, str) else
                                                    [bytes.fromhex(y).decode() for y in x] for x in l] for nm, l in zip(LISTS, im) if l},
                                "features": feats})
        if sample_pathof and rng.random() < sample_pathof:
            for snp, w in ((r, wr), (s, ws)):
                for i in range(1, 6):
                    for dv in (1, 2):
                        po_lines.append(f"(pathof {w} {i} {dv})")
                        p = snp.path((i, dv))
                        po_impl.append(None if p is None else pb(p))
                        po_meta.append({"snapshot": w, "inode": [i, dv]})
        if len(lines) >= 20000:
            flush()
    flush()


def corpus_cases():
    f, d = False, True
    A = node(1, 1, d, 0, 0, {"a": node(2, 1, f, 0, 0), "b": node(3, 1, f, 0, 0)})
    out = []

    def add(name, a, b, **kw):
        for rec in (True, False):
            for ign in (False, True):
                out.append({"A": a, "B": b, "recursive": rec, "ign": ign, "how": "corpus:" + name, **kw})
    add("inode reuse under the same name", A, node(1, 1, d, 0, 0, {"a": node(4, 1, f, 0, 0), "b": node(3, 1, f, 0, 0)}))
    add("swap of two names", A, node(1, 1, d, 0, 0, {"a": node(3, 1, f, 0, 0), "b": node(2, 1, f, 0, 0)}))
    add("move plus modification", A, node(1, 1, d, 0, 0, {"c": node(2, 1, f, 1, 0), "b": node(3, 1, f, 0, 1)}))
    add("kind change in place", A, node(1, 1, d, 0, 0, {"a": node(2, 1, d, 0, 0), "b": node(3, 1, f, 0, 0)}))
    add("move away and new file at the old name", A, node(1, 1, d, 0, 0, {"a": node(4, 1, f, 0, 0), "c": node(2, 1, f, 1, 1), "b": node(3, 1, f, 0, 0)}))
    add("hard link (two paths, one inode)", A, node(1, 1, d, 0, 0, {"a": node(2, 1, f, 0, 0), "b": node(2, 1, f, 0, 0)}))
    add("hard link in both", node(1, 1, d, 0, 0, {"a": node(2, 1, f, 0, 0), "b": node(2, 1, f, 0, 0)}),
        node(1, 1, d, 0, 0, {"b": node(2, 1, f, 0, 0), "c": node(2, 1, f, 1, 0)}))
    add("root replaced", A, node(5, 1, d, 0, 0, {"a": node(2, 1, f, 0, 0), "b": node(1, 1, d, 0, 0)}))
    add("directory moved with child", node(1, 1, d, 0, 0, {"a": node(2, 1, d, 0, 0, {"a": node(3, 1, f, 0, 0)})}),
        node(1, 1, d, 1, 0, {"b": node(2, 1, d, 0, 0, {"a": node(3, 1, f, 0, 0)})}))
    add("device change only", A, node(1, 2, d, 0, 0, {"a": node(2, 2, f, 0, 0), "b": node(3, 3, f, 0, 0)}))
    add("device change and modification", A, node(1, 2, d, 0, 0, {"a": node(2, 2, f, 1, 0), "b": node(3, 2, f, 0, 0)}))
    add("bytes paths", A, node(1, 1, d, 0, 0, {"c": node(2, 1, f, 0, 0)}), bytes=True)
    return out


def run_exhaustive(ctx, res: Result):
    ms = [(0, 0), (1, 0)] if os.environ.get("C09_EXH_MS2") else [(0, 0), (1, 0), (0, 1)]
    trees = all_small_trees(ms)
    n = 0
    for rec in (True, False):
        snaps = []
        for t in trees:
            s = take_snapshot(t, rec)
            snaps.append((s, sx(snap_wire(s))))
        if not rec:
            # non-recursive: distinct snapshots only (grandchildren are invisible)
            seen, keep = set(), []
            for i, (s, w) in enumerate(snaps):
                if w not in seen:
                    seen.add(w)
                    keep.append(i)
        else:
            keep = list(range(len(trees)))

        def gen():
            for k, (ia, ib) in enumerate(itertools.product(keep, keep)):
                yield {"ia": ia, "ib": ib, "A": trees[ia], "B": trees[ib], "recursive": rec, "ign": False, "how": "exhaustive"}
                if k % 8 == 0:
                    yield {"ia": ia, "ib": ib, "A": trees[ia], "B": trees[ib], "recursive": rec, "ign": True, "how": "exhaustive"}
        before = res.evaluations
        run_cases(ctx, res, gen(), f"exhaustive-{rec}", snaps=snaps, sample_pathof=0.002, count_samples=False)
        n += res.evaluations - before
        res.notes.append(f"exhaustive ({'recursive' if rec else 'non-recursive'}): all ordered pairs of the {len(keep)} distinct snapshots of "
                         f"trees with a fixed root and <= 2 further entries over names {{a,b}}, inodes {{1,2,3}} (duplicates allowed), "
                         f"file/dir kinds, (mtime,size) in {ms}; ignore_device=True on every 8th pair")
    return n


def run(ctx) -> Result:
    res = Result()
    res.rule = ("pairs of virtual trees (names a-d, depth <= 2, 5 inodes x 2 devices, mtime/size in {0,1}, file/dir kinds; second "
                "tree independent, mutated from the first by 1-3 operations, or a device-only change), snapshotted through the real "
                "DirectorySnapshot (recursive and non-recursive) and diffed with ignore_device on/off; distinct = (old snapshot, "
                "new snapshot, recursive, ignore_device); non-trivial = at least one of the eight lists is non-empty")
    cases = corpus_cases()
    for c in ctx.corpus():
        cases.append(c.get("case", c))
    run_cases(ctx, res, cases, "corpus", sample_pathof=1.0)
    rng = ctx.rng("pairs")
    n = 20000 if not ctx.thorough else 60000
    run_cases(ctx, res, (rand_pair(rng) for _ in range(n)), "random")
    if ctx.thorough:
        run_exhaustive(ctx, res)
        res.exhaustive = True
    return res


def replay(ctx, obj) -> int:
    case = obj.get("case", obj)
    if "first_disagreement" in obj:
        case = obj["first_disagreement"]["case"]
    print("replay case:", {k: v for k, v in case.items() if k in ("A", "B", "recursive", "ign", "bytes", "self")})
    res = Result()
    run_cases(ctx, res, [{k: v for k, v in case.items() if k not in ("ia", "ib")}], "replay", sample_pathof=1.0)
    r = take_snapshot(case["A"], case["recursive"], case.get("bytes", False))
    s = take_snapshot(case["B"], case["recursive"], case.get("bytes", False))
    print("old snapshot:", {p: (r.inode(p), r.isdir(p), r.mtime(p), r.size(p)) for p in sorted(r.paths)})
    print("new snapshot:", {p: (s.inode(p), s.isdir(p), s.mtime(p), s.size(p)) for p in sorted(s.paths)})
    from watchdog.utils.dirsnapshot import DirectorySnapshotDiff
    try:
        d = DirectorySnapshotDiff(r, s, ignore_device=case["ign"])
        print("real diff:", {nm: getattr(d, nm) for nm in LISTS if getattr(d, nm)})
    except Exception as ex:
        print("real diff raised:", repr(ex))
    for f in res.failures:
        print("FAIL:", f.what, "observed", f.observed, "expected", f.expected)
    for m in res.mismatches:
        print("MISMATCH:", m.pair, "model", m.model, "impl", m.impl)
    return 1 if res.failures or res.mismatches else 0
