(* Lock-step replay of an observation log of the real BaseObserver through the extracted model.
   Case: (replay item ...) ; item = one observation (see harness/obsprog.py: to_wire).
   Result: (ok steps finished deadlocked_seen) | (mismatch index what detail) *)
open Sexp
open Conv
open Observer

let tid_of = function
  | A "d" -> TD
  | A "m" -> TA (n_of_int 99)
  | A a when Stdlib.String.length a >= 2 && a.[0] = 'a' -> TA (n_of_int (int_of_string (Stdlib.String.sub a 1 (Stdlib.String.length a - 1))))
  | _ -> failwith "tid"
let call_of = function
  | L [A "schedule"; h; w] -> CSchedule (n_of h, n_of w)
  | L [A "unschedule"; w] -> CUnschedule (n_of w)
  | L [A "add"; h; w] -> CAdd (n_of h, n_of w)
  | L [A "remove"; h; w] -> CRemove (n_of h, n_of w)
  | L [A "unschedule_all"] -> CUnscheduleAll
  | L [A "start"] -> CStart
  | L [A "stop"] -> CStop
  | L [A "join"] -> CJoin
  | _ -> failwith "call"

exception Mismatch of string * string

let visible = function GEmNew _ | GAdded _ | GRemoved _ | GRemovedW _ | GRemovedAll | GSnap _ | GUnsched _ -> false | _ -> true

let rec take n l = if n <= 0 then [] else match l with [] -> [] | x :: r -> x :: take (n - 1) r

(* apply a label; return the new state and the visible ghost entries it produced, oldest first *)
let apply s l =
  match step s l with
  | None -> raise (Mismatch ("not-enabled", ""))
  | Some s' ->
    let n0 = Stdlib.List.length (glog s) and n1 = Stdlib.List.length (glog s') in
    (s', Stdlib.List.rev (Stdlib.List.filter visible (take (n1 - n0) (glog s'))))

(* instructions without an observation of their own that sit behind a blocking point *)
let rec advance s t =
  match cont s t with
  | (IYield | IJoinDisp) :: _ ->
    (match step s (LStep t) with Some s' -> advance s' t | None -> raise (Mismatch ("blocked", "yield/join")))
  | _ -> s

let expect got want = if got <> want then raise (Mismatch ("observation", "")) 

let do_item s it =
  match it with
  | L [A "call"; t; c] ->
    let t = tid_of t and c = call_of c in
    (match t with
     | TD -> let s = advance s TD in let (s', g) = apply s (LStep TD) in expect g [GCall (TD, c)]; s'
     | TA n -> let s = advance s t in let (s', g) = apply s (LCall (n, c)) in expect g [GCall (t, c)]; s')
  | L [A "ret"; t; c; r] ->
    let t = tid_of t in let s = advance s t in
    let (s', g) = apply s (LStep t) in expect g [GRet (t, call_of c, bool_of r)]; s'
  | L [A "acq"; t] -> let t = tid_of t in let s = advance s t in let (s', g) = apply s (LStep t) in expect g [GAcq t]; s'
  | L [A "rel"; t] -> let t = tid_of t in let s = advance s t in let (s', g) = apply s (LStep t) in expect g [GRel t]; s'
  | L [A "ord"; t; o] ->
    let t = tid_of t in let o = list_of nat_of o in let s = advance s t in
    let (s', g) = apply s (LOrd (t, o)) in expect g [GOrd (t, o)]; s'
  | L [A "ordprefix"; t; o] ->
    (* iteration order known only as far as the loop got: complete it with the remaining emitters *)
    let t = tid_of t in let o = list_of nat_of o in let s = advance s t in
    let o' = o @ Stdlib.List.filter (fun e -> not (Stdlib.List.mem e o)) (emitters s) in
    let (s', g) = apply s (LOrd (t, o')) in
    if g <> [GOrd (t, o')] && g <> [] then raise (Mismatch ("observation", ""));
    s'
  | L [A "emstart"; t; e; a] ->
    let t = tid_of t in let s = advance s t in
    let (s', g) = apply s (LStep t) in expect g [GEmStart (t, nat_of e, bool_of a)]; s'
  | L [A "emstop"; t; e] ->
    let t = tid_of t in let s = advance s t in
    let (s', g) = apply s (LStep t) in expect g [GEmStop (t, nat_of e)]; s'
  | L [A "emjoin"; t; e; ok] ->
    let t = tid_of t in let s = advance s t in
    let (s', g) = apply s (LStep t) in expect g [GEmJoin (t, nat_of e, bool_of ok)]; s'
  | L [A "dsetflag"; t] -> let t = tid_of t in let s = advance s t in let (s', g) = apply s (LStep t) in expect g [GDSetFlag t]; s'
  | L [A "dstart"; t; a] ->
    let t = tid_of t in let s = advance s t in
    let (s', g) = apply s (LStep t) in expect g [GDStart (t, bool_of a)]; s'
  | L [A "mread"; t; sk] ->
    let t = tid_of t in let s = advance s t in
    let (s', g) = apply s (LStep t) in expect g [GMarkerRead (t, bool_of sk)]; s'
  | L [A "putm"; t] -> let t = tid_of t in let s = advance s t in let (s', g) = apply s (LStep t) in expect g [GPutM t]; s'
  | L [A "echeck"; e; k] ->
    let e = nat_of e in
    let s = (match get_em s e with Some m when m.epcs = EPutPc -> fst (apply s (LEIdle e)) | _ -> s) in
    let (s', g) = apply s (LECheck e) in expect g [GECheck (e, bool_of k)]; s'
  | L [A "put"; e; w; ev] ->
    let (s', g) = apply s (LEPut (nat_of e, n_of ev)) in expect g [GPut (nat_of e, n_of w, n_of ev)]; s'
  | L [A "putskip"; e; w; ev] ->
    let (s', g) = apply s (LESkip (nat_of e, n_of ev)) in expect g [GPutSkip (nat_of e, n_of w, n_of ev)]; s'
  | L [A "eexit"; e] -> let (s', g) = apply s (LEExit (nat_of e)) in expect g [GEExit (nat_of e)]; s'
  | L [A "dcheck"; k] -> let (s', g) = apply s (LStep TD) in expect g [GDCheck (bool_of k)]; s'
  | L [A "dexit"] -> let (s', g) = apply s (LStep TD) in expect g [GDExit]; s'
  | L [A "get"; A "stop"] -> let (s', g) = apply s (LStep TD) in expect g [GGet QStop]; s'
  | L [A "get"; w; ev] -> let (s', g) = apply s (LStep TD) in expect g [GGet (QEv (n_of ev, n_of w))]; s'
  | L [A "turn"; h; calls; cb] ->
    let (s', g) = apply s (LTurn (n_of h, list_of call_of calls)) in
    (match cb with
     | L [] -> expect g [GTurn (n_of h)]
     | L [w; ev] -> expect g [GTurn (n_of h); GCb (n_of h, n_of w, n_of ev)]
     | _ -> failwith "turn");
    s'
  | L [A "taskdone"] -> let (s', g) = apply s (LStep TD) in expect g [GTaskDone]; s'
  | _ -> failwith "observer: bad item"

let run = function
  | L (A "replay" :: fx :: items) ->
    let s = ref (init_of (bool_of fx)) and i = ref 0 and dl = ref 0 in
    (try
       Stdlib.List.iter (fun it ->
           (try s := do_item !s it
            with Mismatch (w, d) -> raise (Mismatch (w, Sexp.to_string it)));
           if deadlocked !s then incr dl;
           incr i) items;
       L [A "ok"; sx_int !i; sx_bool (finished !s); sx_int !dl; sx_bool (any_enabled !s)]
     with Mismatch (w, d) -> L [A "mismatch"; sx_int !i; A w; A (Stdlib.String.map (fun c -> if c = ' ' then '_' else c) d)])
  | _ -> failwith "observer: bad case"
