(* C19 - placeholder until the theorems are proved *)
Require Import WD.Base.Prelude WD.Model.Pipeline.
