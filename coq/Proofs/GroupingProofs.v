Require Import WD.Base.Prelude WD.Model.DelayQueue WD.Proofs.DelayQueueProofs WD.Model.Grouping.
From Coq Require Import Permutation.
Local Open Scope N_scope.

(* ------------------------------------------------------------------ shapes of queue steps *)
Section Shapes.
  Variable delay : N.

  Ltac inv_some :=
    match goal with H : Some _ = Some _ |- _ => inversion H; subst; clear H end.

  Lemma put_shape d id dl d' : step delay d (Put id dl) = Some d' ->
    let e := {| e_id := id; e_tins := clock d; e_delayed := dl |} in
    q d' = q d ++ [e] /\ puts d' = puts d ++ [e] /\ got d' = got d /\ removed d' = removed d /\
    clock d' = clock d.
  Proof. simpl. intros H. inv_some. simpl. auto. Qed.

  Lemma remove_shape d sat d' en q' :
    remove_first sat (q d) = (Some en, q') -> step delay d (Remove sat) = Some d' ->
    (exists a b, q d = a ++ en :: b /\ q d' = a ++ b) /\
    puts d' = puts d /\ got d' = got d /\ removed d' = removed d ++ [e_id en] /\ clock d' = clock d.
  Proof.
    intros Hr H. simpl in H. rewrite Hr in H. inv_some. simpl.
    apply remove_first_some in Hr as [a [b [Hq [Hq' _]]]]. split; [exists a, b; auto | auto].
  Qed.

  Definition consumer_label (l : label) : bool :=
    match l with Put _ _ | Remove _ => false | _ => true end.

  Lemma qstep_shape d l d' : consumer_label l = true -> step delay d l = Some d' ->
    puts d' = puts d /\ removed d' = removed d /\
    ((q d' = q d /\ got d' = got d) \/
     (exists h q', q d = h :: q' /\ q d' = q' /\ got d' = got d ++ [(e_id h, clock d)])).
  Proof.
    intros Hc H. destruct l; try discriminate; simpl in H;
      repeat match goal with
             | H : context [match ?x with _ => _ end] |- _ => destruct x eqn:?; try discriminate
             | H : context [if ?x then _ else _] |- _ => destruct x eqn:?; try discriminate
             end; inv_some; simpl; auto.
    split; [reflexivity|]. split; [reflexivity|]. right. eexists; eexists. repeat split; eauto.
  Qed.
End Shapes.

Local Arguments step : simpl never.

(* ------------------------------------------------------------------ item tables *)
Lemma item_of_app_old its n it id :
  In id (map fst its) -> item_of (its ++ [(n, it)]) id = item_of its id.
Proof.
  unfold item_of. induction its as [|[k v] its IH]; simpl; intros H; [contradiction|].
  destruct (N.eqb id k) eqn:E; [reflexivity|].
  destruct H as [H|H]; [subst; rewrite N.eqb_refl in E; discriminate | auto].
Qed.

Lemma item_of_app_new its n it :
  ~ In n (map fst its) -> item_of (its ++ [(n, it)]) n = Some it.
Proof.
  unfold item_of. induction its as [|[k v] its IH]; simpl; intros H.
  - now rewrite N.eqb_refl.
  - destruct (N.eqb n k) eqn:E.
    + apply N.eqb_eq in E. subst. exfalso. apply H. auto.
    + apply IH. intros Hin. apply H. auto.
Qed.

Lemma items_of_app its a b : items_of its (a ++ b) = items_of its a ++ items_of its b.
Proof. unfold items_of. now rewrite flat_map_app. Qed.

Lemma items_of_ext its n it ids :
  (forall id, In id ids -> In id (map fst its)) ->
  items_of (its ++ [(n, it)]) ids = items_of its ids.
Proof.
  induction ids as [|x ids IH]; simpl; intros H; [reflexivity|].
  unfold items_of in *. simpl. rewrite item_of_app_old by (apply H; auto).
  f_equal. apply IH. intros id Hid. apply H. auto.
Qed.

Lemma items_of_cons its id ids :
  items_of its (id :: ids) = (match item_of its id with Some it => [it] | None => [] end) ++ items_of its ids.
Proof. reflexivity. Qed.

Lemma perm_move {A} (D A1 B G R : list A) f e :
  Permutation (D ++ (A1 ++ f :: B) ++ G ++ e :: R) (D ++ (A1 ++ B) ++ (G ++ [f; e]) ++ R).
Proof.
  apply Permutation_app_head.
  apply Permutation_trans with (f :: (A1 ++ B) ++ G ++ e :: R).
  - change (f :: (A1 ++ B) ++ G ++ e :: R) with ((f :: A1 ++ B) ++ G ++ e :: R).
    apply Permutation_app_tail. apply Permutation_sym. apply Permutation_middle.
  - rewrite <- (app_assoc G [f; e] R). cbn [app]. rewrite (app_assoc (A1 ++ B) G (f :: e :: R)).
    rewrite (app_assoc (A1 ++ B) G (e :: R)). apply Permutation_middle.
Qed.

Lemma flats_app a b : flats (a ++ b) = flats a ++ flats b.
Proof. unfold flats. now rewrite flat_map_app. Qed.

Lemma filter_app' {A} f (a b : list A) : filter f (a ++ b) = filter f a ++ filter f b.
Proof. induction a; simpl; auto. destruct (f a); simpl; now rewrite IHa. Qed.

(* ------------------------------------------------------------------ grouping inside a batch *)
Definition item_ok (it : item) : bool :=
  match it with
  | ISingle _ => true
  | IPair f t => keep f && keep t
  end.

Lemma is_from_single c it : is_from c it = true -> exists f, it = ISingle f /\ n_kind f = KFrom c.
Proof.
  destruct it as [[i k]|]; simpl; [|discriminate]. destruct k; try discriminate.
  intros H. apply N.eqb_eq in H. subst. eexists; split; reflexivity.
Qed.

Lemma pair_in_grouped_spec c t g g' :
  pair_in_grouped c t g = Some g' ->
  exists a f b, g = a ++ ISingle f :: b /\ g' = a ++ IPair f t :: b /\ n_kind f = KFrom c /\
                forallb (fun it => negb (is_from c it)) a = true.
Proof.
  revert g'; induction g as [|it g IH]; simpl; intros g' H; [discriminate|].
  destruct (is_from c it) eqn:E.
  - destruct (is_from_single _ _ E) as [f [-> Hk]]. inversion H; subst.
    exists [], f, g. simpl. auto.
  - destruct (pair_in_grouped c t g) as [g''|] eqn:E2; [|discriminate]. inversion H; subst.
    destruct (IH _ eq_refl) as [a [f [b [-> [-> [Hk Ha]]]]]].
    exists (it :: a), f, b. simpl. rewrite E. simpl. auto.
Qed.

Lemma pair_in_grouped_none c t g :
  pair_in_grouped c t g = None -> forallb (fun it => negb (is_from c it)) g = true.
Proof.
  induction g as [|it g IH]; simpl; intros H; [reflexivity|].
  destruct (is_from c it) eqn:E.
  - destruct (is_from_single _ _ E) as [f [-> _]]. discriminate.
  - simpl. destruct (pair_in_grouped c t g); [discriminate | auto].
Qed.

Lemma keep_from f c : n_kind f = KFrom c -> keep f = true.
Proof. unfold keep, is_ignored. intros ->. reflexivity. Qed.
Lemma keep_to t c : n_kind t = KTo c -> keep t = true.
Proof. unfold keep, is_ignored. intros ->. reflexivity. Qed.

(* ------------------------------------------------------------------ the composite invariant *)
Section Composite.
  Variable delay : N.

  Definition all_ok (l : list item) : Prop := forall it, In it l -> item_ok it = true.

  Record GInv (s : st * rst) : Prop := {
    g_q : Inv delay (fst s);
    g_ids : map fst (items (snd s)) = ids (puts (fst s));
    g_fresh : forall id, In id (map fst (items (snd s))) -> id < next_el (snd s);
    g_ok_g : all_ok (grouped (snd s));
    g_ok_i : all_ok (map snd (items (snd s)));
    g_once : Permutation (filter keep (nread (snd s)))
               (flats (delivered s) ++ flats (queued s) ++
                filter keep (flats (grouped (snd s))) ++ filter keep (batch (snd s)));
  }.

  Lemma ginv_init : GInv (ginit).
  Proof.
    constructor; simpl.
    - apply inv_init.
    - reflexivity.
    - intros id [].
    - intros it [].
    - intros it [].
    - constructor.
  Qed.

  Lemma fresh_notin (r : rst) :
    (forall id, In id (map fst (items r)) -> id < next_el r) -> ~ In (next_el r) (map fst (items r)).
  Proof. intros H Hin. apply H in Hin. lia. Qed.

  Lemma ok_filter_keep it : item_ok it = true -> forall (P : Prop), (filter keep (flat it) = flat it \/
     exists e, it = ISingle e) .
  Proof.
    intros H _. destruct it as [e|f t]; [right; eauto|]. left. simpl in *.
    apply andb_true_iff in H as [-> ->]. reflexivity.
  Qed.

  Lemma items_of_in_ok its ids : all_ok (map snd its) -> all_ok (items_of its ids).
  Proof.
    intros H it Hin. unfold items_of in Hin. apply in_flat_map in Hin as [id [_ Hid]].
    destruct (item_of its id) as [it'|] eqn:E; [|contradiction]. destruct Hid as [<-|[]].
    apply H. unfold item_of in E. clear -E. induction its as [|[k v] its IH]; simpl in *; [discriminate|].
    destruct (N.eqb id k); [inversion E; auto | auto].
  Qed.

  (* ids in the queue and in got are ids of puts *)
  Lemma q_ids_in_puts d : Inv delay d -> forall id, In id (ids (q d)) -> In id (ids (puts d)).
  Proof.
    intros I id H. eapply sublist_In; [apply (inv_fifo _ _ I)|]. apply in_app_iff. auto.
  Qed.
  Lemma got_ids_in_puts d : Inv delay d -> forall id, In id (gids d) -> In id (ids (puts d)).
  Proof.
    intros I id H. eapply sublist_In; [apply (inv_fifo _ _ I)|]. apply in_app_iff. auto.
  Qed.

  Lemma gstep_inv s l s' : GInv s -> gstep delay s l = Some s' -> GInv s'.
  Proof.
    intros [Iq Iids Ifresh Iokg Ioki Ionce] H. destruct s as [d r].
    unfold delivered, queued in Ionce. cbn [fst snd] in *. unfold gstep in H.
    destruct l.
    - (* RRead *)
      destruct (batch r) eqn:Eb; [|discriminate]. destruct (grouped r) eqn:Eg; [|discriminate].
      destruct (deleted_self r) eqn:Ed; [discriminate|]. inversion H; subst; clear H.
      constructor; simpl; auto.
      unfold delivered, queued. simpl. rewrite filter_app'.
        simpl in Ionce. rewrite !app_nil_r in Ionce.
        eapply Permutation_trans; [apply Permutation_app_tail; exact Ionce|].
        rewrite <- !app_assoc. reflexivity.
    - (* RGroup *)
      destruct (batch r) as [|e rest] eqn:Eb; [discriminate|].
      assert (Hplain : forall r', r' = {| batch := rest; grouped := grouped r ++ [ISingle e];
                            deleted_self := deleted_self r; next_el := next_el r; items := items r;
                            nread := nread r |} -> GInv (d, r')).
      { intros r' ->. constructor; simpl; auto.
        - intros it Hin. apply in_app_iff in Hin as [Hin|[<-|[]]]; [auto | reflexivity].
        - unfold delivered, queued. simpl. rewrite flats_app, filter_app'. simpl.
          eapply Permutation_trans; [exact Ionce|].
          apply Permutation_app_head. apply Permutation_app_head.
          rewrite <- app_assoc. apply Permutation_app_head.
          simpl. destruct (keep e); simpl; reflexivity. }
      destruct (n_kind e) as [c|c| | |] eqn:Ek;
        try (inversion H; subst; clear H; apply Hplain; reflexivity).
      (* KTo c *)
      destruct (pair_in_grouped c e (grouped r)) as [g'|] eqn:Ep.
      + inversion H; subst; clear H.
        apply pair_in_grouped_spec in Ep as [a [f [b [Hg [-> [Hkf _]]]]]].
        constructor; simpl; auto.
        * intros it Hin. apply in_app_iff in Hin as [Hin|[<-|Hin]].
          -- apply Iokg. rewrite Hg. apply in_app_iff. auto.
          -- simpl. now rewrite (keep_from _ _ Hkf), (keep_to _ _ Ek).
          -- apply Iokg. rewrite Hg. apply in_app_iff. right. right. exact Hin.
        * unfold delivered, queued. simpl. rewrite Hg in Ionce.
          rewrite !flats_app, !filter_app' in *. simpl in *.
          rewrite (keep_from _ _ Hkf), (keep_to _ _ Ek) in *. simpl.
          eapply Permutation_trans; [exact Ionce|].
          apply Permutation_app_head. apply Permutation_app_head.
          rewrite <- !app_assoc. apply Permutation_app_head. simpl. apply perm_skip.
          apply Permutation_sym. apply Permutation_cons_app. reflexivity.
      + destruct (remove_first (sat_from (items r) c (q d)) (q d)) as [[en|] q'] eqn:Er.
        2:{ inversion H; subst; clear H. apply Hplain; reflexivity. }
        destruct (step delay d (Remove (sat_from (items r) c (q d)))) as [d'|] eqn:Es; [|discriminate].
        destruct (item_of (items r) (e_id en)) as [[f|]|] eqn:Ei; try discriminate.
        inversion H; subst; clear H.
        destruct (remove_shape _ _ _ _ _ _ Er Es) as [[a [b [Hq Hq']]] [Hputs [Hgot [Hrem Hclk]]]].
        assert (Hsat := Er). apply remove_first_some in Hsat as [a0 [b0 [_ [_ Hmem]]]].
        (* en satisfies the predicate: its item is a FROM with cookie c *)
        assert (Hfk : n_kind f = KFrom c).
        { clear -Hmem Ei. unfold sat_from in Hmem.
          assert (Hin : In (e_id en) (map e_id (filter (fun e0 => match item_of (items r) (e_id e0) with
                        | Some it => is_from c it | None => false end) (q d)))).
          { clear -Hmem. induction (map e_id _) as [|x l IH]; simpl in *; [discriminate|].
            apply orb_true_iff in Hmem as [H|H]; [apply N.eqb_eq in H; auto | auto]. }
          apply in_map_iff in Hin as [e0 [He0 Hf]]. apply filter_In in Hf as [_ Hf].
          rewrite He0, Ei in Hf. apply is_from_single in Hf as [f' [Hf' Hk]]. inversion Hf'. subst. exact Hk. }
        constructor; simpl.
        * eapply step_inv; eauto.
        * rewrite Hputs. exact Iids.
        * exact Ifresh.
        * intros it Hin. apply in_app_iff in Hin as [Hin|[<-|[]]]; [auto|].
          simpl. now rewrite (keep_from _ _ Hfk), (keep_to _ _ Ek).
        * exact Ioki.
        * unfold delivered, queued. cbn [fst snd items grouped batch nread].
          assert (HQ : flats (items_of (items r) (map e_id (q d))) =
                       flats (items_of (items r) (map e_id a)) ++ f :: flats (items_of (items r) (map e_id b))).
          { rewrite Hq, map_app, items_of_app, flats_app. cbn [map]. rewrite items_of_cons, Ei. reflexivity. }
          assert (HQ' : flats (items_of (items r) (map e_id (q d'))) =
                       flats (items_of (items r) (map e_id a)) ++ flats (items_of (items r) (map e_id b))).
          { rewrite Hq', map_app, items_of_app, flats_app. reflexivity. }
          rewrite HQ in Ionce. rewrite HQ', Hgot. rewrite flats_app, filter_app'. cbn [flats flat_map flat app filter].
          rewrite (keep_from _ _ Hfk), (keep_to _ _ Ek). cbn [filter] in Ionce. rewrite (keep_to _ _ Ek) in Ionce.
          eapply Permutation_trans; [exact Ionce|]. apply perm_move.
    - (* RPut *)
      destruct (batch r) eqn:Eb; [|discriminate]. destruct (grouped r) as [|it rest] eqn:Eg; [discriminate|].
      assert (Hputcase : forall dl dself d', step delay d (Put (next_el r) dl) = Some d' ->
                 filter keep (flat it) = flat it ->
                 GInv (d', {| batch := []; grouped := rest; deleted_self := dself;
                              next_el := next_el r + 1; items := items r ++ [(next_el r, it)];
                              nread := nread r |})).
      { intros dl dself d' Hs Hkeep.
        destruct (put_shape _ _ _ _ _ Hs) as [Hq [Hputs [Hgot [Hrem Hclk]]]].
        assert (Hnew := fresh_notin r Ifresh).
        constructor; simpl.
        - eapply step_inv; eauto.
        - rewrite Hputs. unfold ids in *. rewrite !map_app. simpl. now rewrite Iids.
        - intros id Hin. rewrite map_app in Hin. cbn [map fst] in Hin.
          apply in_app_iff in Hin as [Hin|[Hin|[]]]; [apply Ifresh in Hin; lia | lia].
        - intros x Hx. apply Iokg. right. exact Hx.
        - intros x Hx. rewrite map_app in Hx. apply in_app_iff in Hx as [Hx|[<-|[]]]; [auto|].
          apply Iokg. left. reflexivity.
        - unfold delivered, queued. simpl. rewrite Hgot, Hq. unfold ids in *. rewrite map_app. simpl.
          rewrite items_of_app.
          rewrite (items_of_ext (items r)) by (intros id Hid; rewrite Iids; apply (got_ids_in_puts _ Iq); exact Hid).
          rewrite (items_of_ext (items r)) by (intros id Hid; rewrite Iids; apply (q_ids_in_puts _ Iq); exact Hid).
          unfold items_of at 3. simpl. rewrite item_of_app_new by exact Hnew. simpl.
          rewrite !flats_app. simpl. rewrite app_nil_r.
          simpl in Ionce. rewrite filter_app' in Ionce. rewrite Hkeep in Ionce.
          eapply Permutation_trans; [exact Ionce|].
          apply Permutation_app_head. rewrite <- !app_assoc. reflexivity. }
      destruct it as [e|f t].
      + destruct (is_ignored e) eqn:Eig.
        * inversion H; subst; clear H. constructor; simpl; auto.
          -- intros x Hx. apply Iokg. right. exact Hx.
          -- unfold delivered, queued. simpl. simpl in Ionce.
             assert (Hk : keep e = false) by (unfold keep; rewrite Eig; reflexivity).
             rewrite Hk in Ionce. exact Ionce.
        * destruct (step delay d (Put (next_el r) (single_from (ISingle e)))) as [d'|] eqn:Es; [|discriminate].
          injection H as <-. apply (Hputcase _ _ _ Es).
          simpl. unfold keep. rewrite Eig. reflexivity.
      + destruct (step delay d (Put (next_el r) false)) as [d'|] eqn:Es; [|discriminate].
        injection H as <-. apply (Hputcase _ _ _ Es).
        assert (Hok : item_ok (IPair f t) = true) by (apply Iokg; left; reflexivity).
        simpl in Hok. apply andb_true_iff in Hok as [Hf Ht]. simpl. rewrite Hf, Ht. reflexivity.
    - (* Q l *)
      assert (Hc : consumer_label l = true) by (destruct l; try reflexivity; discriminate).
      assert (Hs : exists d', step delay d l = Some d' /\ s' = (d', r)).
      { destruct l; try discriminate; destruct (step delay d _) as [d'|]; try discriminate;
          inversion H; eauto. }
      destruct Hs as [d' [Hs ->]]. clear H.
      destruct (qstep_shape _ _ _ _ Hc Hs) as [Hputs [Hrem Hcase]].
      constructor; simpl; auto.
      + eapply step_inv; eauto.
      + rewrite Hputs. exact Iids.
      + unfold delivered, queued. simpl.
        destruct Hcase as [[Hq Hgot]|[h [q' [Hq [Hq' Hgot]]]]].
        * rewrite Hq, Hgot. exact Ionce.
        * rewrite Hq', Hgot. rewrite Hq in Ionce. rewrite map_app. simpl in *.
          rewrite items_of_app, flats_app.
          unfold items_of at 2. simpl. rewrite app_nil_r.
          unfold items_of at 2 in Ionce. simpl in Ionce. rewrite flats_app in Ionce.
          rewrite <- !app_assoc. rewrite <- !app_assoc in Ionce. exact Ionce.
  Qed.

  Lemma grun_inv tr : forall s s', GInv s -> grun delay s tr = Some s' -> GInv s'.
  Proof.
    induction tr as [|l tr IH]; simpl; intros s s' I H.
    - inversion H; subst. exact I.
    - destruct (gstep delay s l) as [s1|] eqn:E; [|discriminate].
      eapply IH; [eapply gstep_inv; eauto | exact H].
  Qed.

  Theorem greachable_inv s : greachable delay s -> GInv s.
  Proof. intros [tr H]. eapply grun_inv; [apply ginv_init | exact H]. Qed.

  (* ---------------------------------------------------------------- second invariant: delays *)
  Record GInv2 (s : st * rst) : Prop := {
    g_nodup : NoDup (map fst (items (snd s)));
    g_early : Early delay (fst s);
    g_delayed : forall en it, In en (puts (fst s)) -> item_of (items (snd s)) (e_id en) = Some it ->
                              e_delayed en = single_from it;
    g_clock : forall id t, In (id, t) (got (fst s)) -> t <= clock (fst s);
  }.

  Lemma ginv2_init : GInv2 ginit.
  Proof.
    constructor; simpl.
    - constructor.
    - intros _ id t [].
    - intros en it [].
    - intros id t [].
  Qed.

  Lemma qstep_clock d l d' : step delay d l = Some d' -> clock d <= clock d'.
  Proof.
    intros H. destruct l; unfold step in H;
      repeat match goal with
             | H : context [match ?x with _ => _ end] |- _ => destruct x eqn:?; try discriminate
             | H : context [if ?x then _ else _] |- _ => destruct x eqn:?; try discriminate
             end; inversion H; subst; simpl; lia.
  Qed.

  Lemma gstep_inv2 s l s' : GInv s -> GInv2 s -> gstep delay s l = Some s' -> GInv2 s'.
  Proof.
    intros [Iq Iids Ifresh Iokg Ioki Ionce] [Ind Iearly Idel Iclk] H. destruct s as [d r].
    cbn [fst snd] in *. unfold gstep in H.
    destruct l.
    - destruct (batch r) eqn:Eb; [|discriminate]. destruct (grouped r) eqn:Eg; [|discriminate].
      destruct (deleted_self r) eqn:Ed; [discriminate|]. injection H as <-.
      constructor; cbn [fst snd items]; auto.
    - destruct (batch r) as [|e rest] eqn:Eb; [discriminate|].
      destruct (n_kind e) as [c|c| | |] eqn:Ek;
        try (injection H as <-; constructor; cbn [fst snd items]; auto).
      destruct (pair_in_grouped c e (grouped r)) as [g'|] eqn:Ep.
      + injection H as <-. constructor; cbn [fst snd items]; auto.
      + destruct (remove_first (sat_from (items r) c (q d)) (q d)) as [[en|] q'] eqn:Er.
        2:{ injection H as <-. constructor; cbn [fst snd items]; auto. }
        destruct (step delay d (Remove (sat_from (items r) c (q d)))) as [d'|] eqn:Es; [|discriminate].
        destruct (item_of (items r) (e_id en)) as [[f|]|] eqn:Ei; try discriminate.
        injection H as <-.
        destruct (remove_shape _ _ _ _ _ _ Er Es) as [_ [Hputs [Hgot [Hrem Hclk]]]].
        constructor; cbn [fst snd items]; auto.
        * eapply step_early; eauto.
        * rewrite Hputs. exact Idel.
        * rewrite Hgot, Hclk. exact Iclk.
    - destruct (batch r) eqn:Eb; [|discriminate]. destruct (grouped r) as [|it rest] eqn:Eg; [discriminate|].
      assert (Hputcase : forall dself d', step delay d (Put (next_el r) (single_from it)) = Some d' ->
                 GInv2 (d', {| batch := []; grouped := rest; deleted_self := dself;
                               next_el := next_el r + 1; items := items r ++ [(next_el r, it)];
                               nread := nread r |})).
      { intros dself d' Hs.
        destruct (put_shape _ _ _ _ _ Hs) as [Hq [Hputs [Hgot [Hrem Hclk]]]].
        assert (Hnew := fresh_notin r Ifresh).
        constructor; cbn [fst snd items].
        - rewrite map_app. cbn [map fst]. clear -Ind Hnew.
          induction (map fst (items r)) as [|x l IH]; simpl.
          + constructor; [intros [] | constructor].
          + inversion Ind; subst. constructor.
            * intros Hin. apply in_app_iff in Hin as [Hin|[Hin|[]]]; [contradiction|].
              apply Hnew. left. auto.
            * apply IH; auto. intros Hin. apply Hnew. right. exact Hin.
        - eapply step_early; eauto.
        - intros en it' Hen Hit. rewrite Hputs in Hen. apply in_app_iff in Hen as [Hen|[<-|[]]].
          + rewrite item_of_app_old in Hit.
            * eapply Idel; eauto.
            * rewrite Iids. unfold ids. apply in_map. exact Hen.
          + cbn [e_id e_delayed] in *. rewrite item_of_app_new in Hit by exact Hnew.
            inversion Hit. reflexivity.
        - rewrite Hgot, Hclk. exact Iclk. }
      destruct it as [e|f t].
      + destruct (is_ignored e) eqn:Eig.
        * injection H as <-. constructor; cbn [fst snd items]; auto.
        * destruct (step delay d (Put (next_el r) (single_from (ISingle e)))) as [d'|] eqn:Es; [|discriminate].
          injection H as <-. apply (Hputcase _ _ eq_refl).
      + destruct (step delay d (Put (next_el r) false)) as [d'|] eqn:Es; [|discriminate].
        injection H as <-. apply (Hputcase _ _ Es).
    - assert (Hc : consumer_label l = true) by (destruct l; try reflexivity; discriminate).
      assert (Hs : exists d', step delay d l = Some d' /\ s' = (d', r)).
      { destruct l; try discriminate; destruct (step delay d _) as [d'|]; try discriminate;
          inversion H; eauto. }
      destruct Hs as [d' [Hs ->]]. clear H.
      destruct (qstep_shape _ _ _ _ Hc Hs) as [Hputs [Hrem Hcase]].
      assert (Hck := qstep_clock _ _ _ Hs).
      constructor; cbn [fst snd items]; auto.
      + eapply step_early; eauto.
      + rewrite Hputs. exact Idel.
      + intros id t Hin. destruct Hcase as [[_ Hgot]|[h [q' [_ [_ Hgot]]]]]; rewrite Hgot in Hin.
        * apply Iclk in Hin. lia.
        * apply in_app_iff in Hin as [Hin|[Hin|[]]]; [apply Iclk in Hin; lia|].
          inversion Hin; subst. exact Hck.
  Qed.

  Lemma grun_inv2 tr : forall s s', GInv s -> GInv2 s -> grun delay s tr = Some s' -> GInv s' /\ GInv2 s'.
  Proof.
    induction tr as [|l tr IH]; simpl; intros s s' I I2 H.
    - inversion H; subst. auto.
    - destruct (gstep delay s l) as [s1|] eqn:E; [|discriminate].
      eapply IH; [eapply gstep_inv; eauto | eapply gstep_inv2; eauto | exact H].
  Qed.

  Theorem greachable_inv2 s : greachable delay s -> GInv s /\ GInv2 s.
  Proof. intros [tr H]. eapply grun_inv2; [apply ginv_init | apply ginv2_init | exact H]. Qed.

  (* ---------------------------------------------------------------- theorems *)
  (* exactly once *)
  Theorem exactly_once s : greachable delay s ->
    Permutation (filter keep (nread (snd s)))
      (flats (delivered s) ++ flats (queued s) ++
       filter keep (flats (grouped (snd s))) ++ filter keep (batch (snd s))).
  Proof. intros R. apply greachable_inv in R. apply (g_once _ R). Qed.

  (* never both alone and in a pair / never twice: the right-hand side has no duplicates *)
  Theorem no_double s : greachable delay s -> NoDup (map n_id (nread (snd s))) ->
    NoDup (map n_id (flats (delivered s) ++ flats (queued s) ++
           filter keep (flats (grouped (snd s))) ++ filter keep (batch (snd s)))).
  Proof.
    intros R Hn. eapply Permutation_NoDup; [apply Permutation_map; apply exactly_once; exact R|].
    clear -Hn. induction (nread (snd s)) as [|e l IH]; simpl in *; [constructor|].
    inversion Hn; subst. destruct (keep e); simpl; auto. constructor; auto.
    intros Hin. apply in_map_iff in Hin as [x [Hx Hf]]. apply filter_In in Hf as [Hf _].
    apply H1. rewrite <- Hx. apply in_map. exact Hf.
  Qed.

  (* a lone first half is delivered no earlier than the delay *)
  Theorem lone_from_not_early s : greachable delay s ->
    forall en f c t, In en (puts (fst s)) -> item_of (items (snd s)) (e_id en) = Some (ISingle f) ->
      n_kind f = KFrom c -> In (e_id en, t) (got (fst s)) -> e_tins en + delay <= t.
  Proof.
    intros R en f c t Hen Hit Hk Hg. destruct (greachable_inv2 _ R) as [I I2].
    assert (Hd : e_delayed en = true).
    { rewrite (g_delayed _ I2 en _ Hen Hit). simpl. destruct f as [i k]. simpl in Hk. now rewrite Hk. }
    eapply (g_early _ I2); eauto.
    rewrite <- (g_ids _ I). apply (g_nodup _ I2).
  Qed.

  Lemma memN_In x l : memN x l = true <-> In x l.
  Proof.
    induction l as [|y l IH]; simpl; [split; [discriminate | contradiction]|].
    rewrite orb_true_iff, N.eqb_eq, IH. split; intros [H|H]; auto.
  Qed.

  Lemma remove_first_finds sat l x : In x l -> memN (e_id x) sat = true ->
    exists y l', remove_first sat l = (Some y, l') /\ memN (e_id y) sat = true /\ In y l.
  Proof.
    induction l as [|z l IH]; simpl; intros Hin Hm; [contradiction|].
    destruct (memN (e_id z) sat) eqn:Ez.
    - exists z, l. auto.
    - destruct Hin as [->|Hin]; [congruence|].
      destruct (IH Hin Hm) as [y [l' [Hr [Hy Hyl]]]]. rewrite Hr. exists y, (z :: l'). auto.
  Qed.

  (* the pairing law *)
  Theorem pairing s : greachable delay s ->
    forall e rest c, batch (snd s) = e :: rest -> n_kind e = KTo c ->
    forall en f, In en (puts (fst s)) -> item_of (items (snd s)) (e_id en) = Some (ISingle f) ->
      n_kind f = KFrom c ->
      clock (fst s) < e_tins en + delay ->        (* the first half has not waited out the delay *)
      ~ In (e_id en) (removed (fst s)) ->          (* and was not taken by an earlier second half *)
    exists s' f', gstep delay s RGroup = Some s' /\ In (IPair f' e) (grouped (snd s')) /\
                  n_kind f' = KFrom c /\ batch (snd s') = rest.
  Proof.
    intros R e rest c Hb Hk en f Hen Hit Hkf Hclk Hnr.
    destruct (greachable_inv2 _ R) as [I I2]. destruct s as [d r].
    destruct I as [Iq Iids Ifresh Iokg Ioki Ionce]. destruct I2 as [Ind Iearly Idel Iclk].
    cbn [fst snd] in *.
    unfold gstep. rewrite Hb, Hk.
    destruct (pair_in_grouped c e (grouped r)) as [g'|] eqn:Ep.
    - apply pair_in_grouped_spec in Ep as [a [f' [b [Hg [-> [Hkf' _]]]]]].
      eexists; exists f'. split; [reflexivity|]. cbn [snd grouped batch]. split; [|auto].
      apply in_app_iff. right. left. reflexivity.
    - (* the first half is still queued *)
      assert (Hd : e_delayed en = true).
      { rewrite (Idel en _ Hen Hit). simpl. destruct f as [i k]. simpl in Hkf. now rewrite Hkf. }
      assert (Hnd : NoDup (ids (puts d))) by (rewrite <- Iids; exact Ind).
      assert (Hng : ~ In (e_id en) (gids d)).
      { intros Hg. unfold gids in Hg. apply in_map_iff in Hg as [[id t] [Hid Hg]]. simpl in Hid. subst id.
        assert (H1 := Iearly Hnd _ _ Hg en Hen eq_refl Hd).
        assert (H2 := Iclk _ _ Hg). lia. }
      assert (Hq : In (e_id en) (ids (q d))).
      { assert (Hp := inv_part _ _ Iq).
        assert (Hin : In (e_id en) (ids (puts d))) by (unfold ids; apply in_map; exact Hen).
        eapply Permutation_in in Hin; [|exact Hp].
        apply in_app_iff in Hin as [Hin|Hin]; [contradiction|].
        apply in_app_iff in Hin as [Hin|Hin]; [contradiction | exact Hin]. }
      unfold ids in Hq. apply in_map_iff in Hq as [en' [Hid' Hen']].
      assert (Hsat : memN (e_id en') (sat_from (items r) c (q d)) = true).
      { apply memN_In. unfold sat_from. apply in_map. apply filter_In. split; [exact Hen'|].
        rewrite Hid', Hit. simpl. destruct f as [i k]. simpl in Hkf. rewrite Hkf. apply N.eqb_refl. }
      destruct (remove_first_finds _ _ _ Hen' Hsat) as [y [l' [Hr [Hy Hyq]]]].
      rewrite Hr.
      (* y satisfies the predicate: its item is a FROM with cookie c *)
      apply memN_In in Hy. unfold sat_from in Hy. apply in_map_iff in Hy as [y0 [Hy0 Hf]].
      apply filter_In in Hf as [_ Hf]. rewrite Hy0 in Hf.
      destruct (item_of (items r) (e_id y)) as [ity|] eqn:Eiy; [|discriminate].
      apply is_from_single in Hf as [f' [-> Hkf']].
      assert (Hstep : exists d', step delay d (Remove (sat_from (items r) c (q d))) = Some d').
      { unfold step. rewrite Hr. eexists; reflexivity. }
      destruct Hstep as [d' Hstep]. rewrite Hstep.
      eexists; exists f'. split; [reflexivity|]. cbn [snd grouped batch]. split; [|auto].
      apply in_app_iff. right. left. reflexivity.
  Qed.
End Composite.

(* ------------------------------------------------------------------ the order law *)
From Coq Require Import Sorted.

Definition anch (it : item) (a : N) : Prop := In a (map n_id (flat it)).

Lemma ss_prefix (l1 l2 : list N) : StronglySorted N.lt (l1 ++ l2) -> StronglySorted N.lt l1.
Proof.
  induction l1 as [|x l1 IH]; simpl; intros H; [constructor|].
  inversion H as [|? ? Hs Hf]; subst. constructor; [auto|].
  rewrite Forall_forall in *. intros y Hy. apply Hf. apply in_app_iff. auto.
Qed.

Lemma ss_before (l1 l2 : list N) x : StronglySorted N.lt (l1 ++ x :: l2) -> forall a, In a l1 -> a < x.
Proof.
  induction l1 as [|y l1 IH]; simpl; intros H a Ha; [contradiction|].
  inversion H as [|? ? Hs Hf]; subst. destruct Ha as [->|Ha]; [|eauto].
  rewrite Forall_forall in Hf. apply Hf. apply in_app_iff. right. left. reflexivity.
Qed.

Lemma ss_snoc (l : list N) x : StronglySorted N.lt l -> (forall a, In a l -> a < x) ->
  StronglySorted N.lt (l ++ [x]).
Proof.
  induction l as [|y l IH]; simpl; intros H Hx; [repeat constructor|].
  inversion H as [|? ? Hs Hf]; subst. constructor.
  - apply IH; auto.
  - rewrite Forall_forall in *. intros z Hz. apply in_app_iff in Hz as [Hz|[<-|[]]]; auto.
Qed.

Lemma ss_delete (l1 l2 : list N) x : StronglySorted N.lt (l1 ++ x :: l2) -> StronglySorted N.lt (l1 ++ l2).
Proof.
  induction l1 as [|y l1 IH]; simpl; intros H.
  - inversion H; auto.
  - inversion H as [|? ? Hs Hf]; subst. constructor; [auto|]. rewrite Forall_forall in *. intros z Hz.
    apply Hf. apply in_app_iff in Hz as [Hz|Hz]; apply in_app_iff; auto. right. right. exact Hz.
Qed.

Lemma ss_sublist (l l' : list N) : sublist l' l -> StronglySorted N.lt l -> StronglySorted N.lt l'.
Proof.
  intros Hsub. induction Hsub as [|x a b Hab IH|x a b Hab IH]; intros H; [constructor | |].
  - inversion H; auto.
  - inversion H as [|? ? Hs Hf]; subst. constructor; [auto|]. rewrite Forall_forall in *. intros z Hz.
    apply Hf. eapply sublist_In; eauto.
Qed.

Lemma Forall2_replace {A B} (R : A -> B -> Prop) l1 x y l2 an :
  Forall2 R (l1 ++ x :: l2) an -> (forall a, R x a -> R y a) -> Forall2 R (l1 ++ y :: l2) an.
Proof.
  revert an; induction l1 as [|z l1 IH]; simpl; intros an H Hxy.
  - inversion H; subst. constructor; auto.
  - inversion H; subst. constructor; auto.
Qed.

Lemma Forall2_delete {A B} (R : A -> B -> Prop) l1 x l2 an :
  Forall2 R (l1 ++ x :: l2) an ->
  exists an1 a an2, an = an1 ++ a :: an2 /\ Forall2 R (l1 ++ l2) (an1 ++ an2).
Proof.
  revert an; induction l1 as [|z l1 IH]; simpl; intros an H.
  - inversion H as [|? y ? l' Hxy Hrest]; subst. exists [], y, l'. auto.
  - inversion H as [|? y ? l' Hzy Hrest]; subst. destruct (IH _ Hrest) as [an1 [a [an2 [-> HF]]]].
    exists (y :: an1), a, an2. split; [reflexivity|]. simpl. constructor; auto.
Qed.

Lemma Forall2_snoc {A B} (R : A -> B -> Prop) l an x a :
  Forall2 R l an -> R x a -> Forall2 R (l ++ [x]) (an ++ [a]).
Proof. intros H Hx. apply Forall2_app; [exact H | constructor; [exact Hx | constructor]]. Qed.

Lemma item_of_cons_other k v its id : id <> k -> item_of ((k, v) :: its) id = item_of its id.
Proof. intros H. unfold item_of. simpl. apply N.eqb_neq in H. now rewrite H. Qed.

Lemma items_of_cons_notin k v its ids : ~ In k ids -> items_of ((k, v) :: its) ids = items_of its ids.
Proof.
  induction ids as [|x ids IH]; intros H; [reflexivity|].
  rewrite !items_of_cons. rewrite item_of_cons_other by (intros ->; apply H; left; reflexivity).
  f_equal. apply IH. intros Hin. apply H. right. exact Hin.
Qed.

Lemma items_of_sublist {B} (R : item -> B -> Prop) its : forall ids an,
  NoDup (map fst its) -> sublist ids (map fst its) -> Forall2 R (map snd its) an ->
  exists an', Forall2 R (items_of its ids) an' /\ sublist an' an.
Proof.
  induction its as [|[k v] its IH]; simpl; intros ids an Hn Hs HF.
  - inversion Hs; subst. inversion HF; subst. exists []. split; constructor.
  - inversion Hn as [|? ? Hk Hn']; subst. inversion HF as [|? a ? an0 Hva HF']; subst.
    inversion Hs as [| ? ? ? Hs' | ? ? ? Hs']; subst.
    + assert (Hnot : ~ In k ids) by (intros Hin; apply Hk; eapply sublist_In; eauto).
      rewrite items_of_cons_notin by exact Hnot.
      destruct (IH _ _ Hn' Hs' HF') as [an' [H1 H2]]. exists an'. split; [exact H1 | apply sub_skip; exact H2].
    + assert (Hnot : ~ In k l) by (intros Hin; apply Hk; eapply sublist_In; eauto).
      rewrite items_of_cons. unfold item_of at 1. simpl. rewrite N.eqb_refl. simpl.
      rewrite items_of_cons_notin by exact Hnot.
      destruct (IH _ _ Hn' Hs' HF') as [an' [H1 H2]]. exists (a :: an'). split; [constructor; auto | apply sub_keep; exact H2].
Qed.

Section Order.
  Variable delay : N.
  Local Arguments step : simpl never.

  Definition hist (s : st * rst) : list item := map snd (items (snd s)) ++ grouped (snd s).

  Definition OInv (s : st * rst) : Prop :=
    StronglySorted N.lt (map n_id (nread (snd s))) ->
    exists pre an, nread (snd s) = pre ++ batch (snd s) /\
                   Forall2 anch (hist s) an /\ StronglySorted N.lt an /\
                   (forall a, In a an -> In a (map n_id pre)).

  Lemma oinv_init : OInv ginit.
  Proof. intros _. exists [], []. repeat split; try constructor. intros a []. Qed.

  Lemma nread_prefix s l s' : gstep delay s l = Some s' -> exists b, nread (snd s') = nread (snd s) ++ b.
  Proof.
    destruct s as [d r]. unfold gstep. intros H. destruct l as [b0| | |ql].
    - destruct (batch r); [|discriminate]. destruct (grouped r); [|discriminate].
      destruct (deleted_self r); [discriminate|]. injection H as <-. simpl. eauto.
    - destruct (batch r) as [|e rest]; [discriminate|].
      destruct (n_kind e);
        try (injection H as <-; exists []; simpl; now rewrite app_nil_r).
      destruct (pair_in_grouped _ _ _); [injection H as <-; exists []; simpl; now rewrite app_nil_r|].
      destruct (remove_first _ _) as [[en|] q'];
        [|injection H as <-; exists []; simpl; now rewrite app_nil_r].
      destruct (step delay d _); [|discriminate]. destruct (item_of _ _) as [[f|]|]; try discriminate.
      injection H as <-; exists []; simpl; now rewrite app_nil_r.
    - destruct (batch r); [|discriminate]. destruct (grouped r) as [|[e|f t] rest]; [discriminate| |].
      + destruct (is_ignored e); [injection H as <-; exists []; simpl; now rewrite app_nil_r|].
        destruct (step delay d _); [|discriminate]. injection H as <-; exists []; simpl; now rewrite app_nil_r.
      + destruct (step delay d _); [|discriminate]. injection H as <-; exists []; simpl; now rewrite app_nil_r.
    - destruct ql; try discriminate; destruct (step delay d _); try discriminate;
        injection H as <-; exists []; simpl; now rewrite app_nil_r.
  Qed.

  Lemma gstep_oinv s l s' : OInv s -> gstep delay s l = Some s' -> OInv s'.
  Proof.
    intros IO H Hsorted.
    destruct (nread_prefix _ _ _ H) as [bnew Hnew].
    assert (Hs0 : StronglySorted N.lt (map n_id (nread (snd s)))).
    { rewrite Hnew, map_app in Hsorted. eapply ss_prefix; eauto. }
    destruct (IO Hs0) as [pre [an [Hpre [HF [Hss Hin]]]]]. clear IO.
    destruct s as [d r]. unfold hist in *. cbn [fst snd] in *. unfold gstep in H.
    destruct l as [b0| | |ql].
    - (* RRead *)
      destruct (batch r) eqn:Eb; [|discriminate]. destruct (grouped r) eqn:Eg; [|discriminate].
      destruct (deleted_self r) eqn:Ed; [discriminate|]. injection H as <-.
      cbn [fst snd items grouped batch nread] in *. rewrite app_nil_r in Hpre. subst pre.
      exists (nread r), an. repeat split; auto.
    - (* RGroup *)
      destruct (batch r) as [|e rest] eqn:Eb; [discriminate|].
      assert (Hlt : forall a, In a an -> a < n_id e).
      { intros a Ha. apply Hin in Ha. rewrite Hpre, map_app in Hs0. simpl in Hs0.
        eapply ss_before; eauto. }
      assert (Hsnoc : forall it d' , anch it (n_id e) ->
                OInv (d', {| batch := rest; grouped := grouped r ++ [it]; deleted_self := deleted_self r;
                             next_el := next_el r; items := items r; nread := nread r |})).
      { intros it d' Ha _. exists (pre ++ [e]), (an ++ [n_id e]).
        unfold hist. cbn [fst snd items grouped batch nread].
        split; [rewrite Hpre, <- app_assoc; reflexivity|].
        split; [rewrite app_assoc; apply Forall2_snoc; auto|].
        split; [apply ss_snoc; auto|].
        intros a Ha'. rewrite map_app. apply in_app_iff in Ha' as [Ha'|[<-|[]]]; apply in_app_iff;
          [left; auto | right; left; reflexivity]. }
      destruct (n_kind e) as [c|c| | |] eqn:Ek;
        try (injection H as <-; apply Hsnoc; [left; reflexivity | exact Hsorted]).
      destruct (pair_in_grouped c e (grouped r)) as [g'|] eqn:Ep.
      + injection H as <-. apply pair_in_grouped_spec in Ep as [a [f [b [Hg [-> _]]]]].
        exists (pre ++ [e]), an. cbn [fst snd items grouped batch nread].
        split; [rewrite Hpre, <- app_assoc; reflexivity|].
        split.
        * rewrite Hg in HF. rewrite app_assoc in *. eapply Forall2_replace; [exact HF|].
          intros x Hx. unfold anch in *. simpl in *. destruct Hx as [Hx|[]]; auto.
        * split; [exact Hss|]. intros x Hx. rewrite map_app. apply in_app_iff. left. auto.
      + destruct (remove_first (sat_from (items r) c (q d)) (q d)) as [[en|] q'] eqn:Er.
        2:{ injection H as <-. apply Hsnoc; [left; reflexivity | exact Hsorted]. }
        destruct (step delay d (Remove (sat_from (items r) c (q d)))) as [d'|] eqn:Es; [|discriminate].
        destruct (item_of (items r) (e_id en)) as [[f|]|] eqn:Ei; try discriminate.
        injection H as <-. apply Hsnoc; [right; left; reflexivity | exact Hsorted].
    - (* RPut *)
      destruct (batch r) eqn:Eb; [|discriminate]. destruct (grouped r) as [|it rest] eqn:Eg; [discriminate|].
      assert (Hput : forall d' dself,
                OInv (d', {| batch := []; grouped := rest; deleted_self := dself;
                             next_el := next_el r + 1; items := items r ++ [(next_el r, it)];
                             nread := nread r |})).
      { intros d' dself _. exists pre, an. unfold hist. cbn [fst snd items grouped batch nread].
        split; [exact Hpre|]. split; [|auto].
        rewrite map_app. cbn [map snd]. rewrite <- app_assoc. exact HF. }
      destruct it as [e|f t].
      + destruct (is_ignored e) eqn:Eig.
        * injection H as <-. cbn [fst snd items grouped batch nread].
          destruct (Forall2_delete _ _ _ _ _ HF) as [an1 [a [an2 [-> HF']]]].
          exists pre, (an1 ++ an2). split; [exact Hpre|]. split; [exact HF'|].
          split; [eapply ss_delete; eauto|].
          intros x Hx. apply Hin. apply in_app_iff in Hx as [Hx|Hx]; apply in_app_iff; auto.
          right. right. exact Hx.
        * destruct (step delay d _) as [d'|]; [|discriminate]. injection H as <-. apply Hput. exact Hsorted.
      + destruct (step delay d _) as [d'|]; [|discriminate]. injection H as <-. apply Hput. exact Hsorted.
    - (* Q *)
      assert (Hs : exists d', s' = (d', r)).
      { destruct ql; try discriminate; destruct (step delay d _) as [d'|]; try discriminate;
          inversion H; eauto. }
      destruct Hs as [d' ->]. exists pre, an. auto.
  Qed.

  Lemma grun_oinv tr : forall s s', OInv s -> grun delay s tr = Some s' -> OInv s'.
  Proof.
    induction tr as [|l tr IH]; simpl; intros s s' I H.
    - inversion H; subst. exact I.
    - destruct (gstep delay s l) as [s1|] eqn:E; [|discriminate].
      eapply IH; [eapply gstep_oinv; eauto | exact H].
  Qed.

  (* Delivered and still-queued items, in that order, can be anchored at one of their own native
     events so that the anchors are strictly increasing in kernel order. *)
  Theorem kernel_order s : greachable delay s ->
    StronglySorted N.lt (map n_id (nread (snd s))) ->
    exists an, Forall2 anch (delivered s ++ queued s) an /\ StronglySorted N.lt an.
  Proof.
    intros R Hsorted.
    assert (IO : OInv s) by (destruct R as [tr Htr]; eapply grun_oinv; [apply oinv_init | exact Htr]).
    destruct (greachable_inv2 _ _ R) as [I I2].
    destruct (IO Hsorted) as [pre [an [_ [HF [Hss _]]]]].
    unfold hist in HF. apply Forall2_app_inv_l in HF as [an1 [an2 [HF1 [_ ->]]]].
    unfold delivered, queued. rewrite <- items_of_app.
    destruct (items_of_sublist anch (items (snd s)) (map fst (got (fst s)) ++ map e_id (q (fst s))) an1) as [an' [H1 H2]].
    - apply (g_nodup _ _ I2).
    - rewrite (g_ids _ _ I). apply (inv_fifo _ _ (g_q _ _ I)).
    - exact HF1.
    - exists an'. split; [exact H1|]. eapply ss_sublist; [exact H2|]. eapply ss_prefix; eauto.
  Qed.
End Order.
