(* 32-bit / 16-bit little-endian fields inside byte strings (struct "I"/"i"/DWORD, UTF-16-LE
   code units), with their round-trip lemmas.  Used by the two buffer codecs of C20. *)
Require Import WD.Base.Prelude.

Local Open Scope N_scope.

(* struct.pack("<I", n) for n < 2^32 *)
Definition le32 (n : N) : bytes :=
  [n mod 256; (n / 256) mod 256; (n / 65536) mod 256; (n / 16777216) mod 256].

Definition rd32 (b0 b1 b2 b3 : N) : N := b0 + 256 * b1 + 65536 * b2 + 16777216 * b3.

(* struct.unpack_from("<I", b, i) when i + 4 <= len(b) (callers check the bound) *)
Definition u32_at (i : nat) (b : bytes) : N :=
  rd32 (nth i b 0) (nth (S i) b 0) (nth (S (S i)) b 0) (nth (S (S (S i))) b 0).

(* two's complement: struct "i" *)
Definition to_s32 (u : N) : Z := if u <? 2147483648 then Z.of_N u else (Z.of_N u - 4294967296)%Z.
Definition of_s32 (z : Z) : N := Z.to_N (z mod 4294967296)%Z.

(* one UTF-16 code unit, little-endian / big-endian *)
Definition le16 (u : N) : bytes := [u mod 256; u / 256].
Definition rd16 (b0 b1 : N) : N := b0 + 256 * b1.

Definition is_byte (c : N) : bool := c <? 256.

(* ---------------------------------------------------------------- lemmas *)

Lemma rd32_le32 n : n < 4294967296 ->
  rd32 (n mod 256) ((n / 256) mod 256) ((n / 65536) mod 256) ((n / 16777216) mod 256) = n.
Proof. intros H. unfold rd32. lia. Qed.

Lemma u32_at_0_le32 n r : n < 4294967296 -> u32_at 0 (le32 n ++ r) = n.
Proof. intros H. unfold u32_at, le32. cbn [nth app]. apply rd32_le32, H. Qed.

Lemma le32_length n : length (le32 n) = 4%nat.
Proof. reflexivity. Qed.

Lemma u32_at_skip4 i a r : u32_at (4 + i) (le32 a ++ r) = u32_at i r.
Proof. reflexivity. Qed.

Lemma s32_roundtrip z : (-2147483648 <= z < 2147483648)%Z -> to_s32 (of_s32 z) = z.
Proof.
  intros H. unfold to_s32, of_s32.
  destruct (N.ltb_spec (Z.to_N (z mod 4294967296)) 2147483648); lia.
Qed.

Lemma of_s32_lt z : of_s32 z < 4294967296.
Proof. unfold of_s32. lia. Qed.

Lemma rd16_le16 u : u < 65536 -> rd16 (u mod 256) (u / 256) = u.
Proof. intros H. unfold rd16. lia. Qed.

Lemma le32_bytes n : forallb is_byte (le32 n) = true.
Proof.
  unfold le32, is_byte. cbn [forallb]. rewrite !andb_true_iff. repeat split; try apply N.ltb_lt; lia.
Qed.
