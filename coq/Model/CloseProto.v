(* CloseProto - the close()/read_events() hand-over protocol of watchdog.observers.inotify_c.Inotify
   together with the outer loop of the InotifyBuffer thread (inotify_buffer.py: run / stop).

   Definitions only (this file is extracted).  Proofs: Proofs/CloseProtoProofs.v.

   One model step = one observable operation of one thread: taking / releasing the instance
   lock, one kernel call on one of the three descriptors, one access to the buffer thread's
   stop event.  The manipulation of the lock-protected flags `_closed` / `_is_reading` that
   precedes an operation inside the same critical section is folded into that operation's step
   (nobody else can observe the flags while the lock is held).

   Source lines (src/watchdog/observers/inotify_c.py):
     __init__      l.149-156  three descriptors, _closed = False, _is_reading = <variant>
     close()       l.257-272  locked: if not closed: closed := True; rm_watch(root wd) if present;
                              if is_reading: write(kill_w) else _close_resources()
     read_events() l.310-335  section 1 (locked): closed -> return []; is_reading := True
                              poll(inotify fd, kill_r); read(inotify fd) only if it is readable
                              section 2 (locked): is_reading := False; closed -> close all three, return []
                   l.337-388  section 3 (locked): event processing; a directory-create event of a
                              recursive watch calls inotify_add_watch on the inotify descriptor
   inotify_buffer.py run()    while should_keep_running() and not deleted_self: read_events() ...
                     stop()   stopped_event.set(); inotify.close()
*)
Require Import WD.Base.Prelude.

(* ---------------------------------------------------------------- interleaving semantics
   (DESIGN 4.2; kept local to this model so that the file is self-contained) *)
Section Lts.
  Variables (St Lbl : Type) (stp : St -> Lbl -> option St).
  Fixpoint run (s : St) (tr : list Lbl) : option St :=
    match tr with
    | [] => Some s
    | l :: tr' => match stp s l with Some s' => run s' tr' | None => None end
    end.
End Lts.
Arguments run {St Lbl} stp s tr.

(* ---------------------------------------------------------------- the protocol *)
Inductive fdid := FI | FR | FW.          (* inotify fd, kill pipe read end, kill pipe write end *)
Inductive owner := Free | HeldR | HeldC.

(* The two variants of the source: the pinned tree and the repaired one (fixes F4b, F4c). *)
Record variant := { init_reading : bool;   (* value given to _is_reading in __init__ *)
                    guard3 : bool }.       (* section 3 returns at once when _closed *)
Definition pinned := {| init_reading := true; guard3 := false |}.
Definition repaired := {| init_reading := false; guard3 := true |}.

Inductive rpc :=
| RTop      (* InotifyBuffer.run loop head, before should_keep_running() *)
| RWant1 | RIn1          (* read_events section 1 *)
| RPolling | RReading    (* unlocked: poll, then read if the inotify fd is readable *)
| RWant2 | RIn2          (* section 2 *)
| RC2 | RC3 | RRel       (* reader runs _close_resources: inotify fd closed / + kill_r / + kill_w *)
| RWant3 | RIn3          (* section 3: event processing *)
| RDone.                 (* run() returned: thread finished *)

Inductive cpc :=
| CIdle                  (* close() not called yet *)
| CIn                    (* close(): lock held, _closed not looked at yet *)
| CRm                    (* _closed := True done, rm_watch done *)
| CC2 | CC3 | CRel       (* _close_resources in progress / write done; lock still held *)
| CDone.                 (* some close() has returned (another call may follow) *)

Record st := {
  fi : bool; fr : bool; fw : bool;        (* descriptor open? *)
  ni : nat; nr : nat; nw : nat;           (* number of close operations applied to each *)
  closed : bool; reading : bool;          (* _closed, _is_reading *)
  lock : owner;
  irdy : bool;                            (* inotify fd has unread events *)
  prdy : bool;                            (* the kill pipe holds a byte *)
  wdp : bool;                             (* root path present in _wd_for_path *)
  stopped : bool;                         (* InotifyBuffer stop event *)
  delself : bool;                         (* run()'s deleted_self *)
  pmk : bool; pdel : bool;                (* the batch just read contains: a directory create; IN_IGNORED of the root *)
  pr : rpc; pc : cpc
}.

Inductive badkind :=
| UseAfterClose (op : nat) (f : fdid)     (* op: 0 poll, 1 read, 2 write, 3 rm_watch, 4 add_watch *)
| DoubleClose (f : fdid).

Inductive state := Ok (s : st) | Bad (b : badkind).

Inductive ract :=
| Check                                   (* should_keep_running() and not deleted_self *)
| RAcq | RRl                              (* instance lock *)
| Poll
| Read (mk del : bool)                    (* what the kernel hands out: see pmk / pdel *)
| RClose (f : fdid)
| AddWatch.
Inductive cact :=
| Stop                                    (* stopped_event.set() *)
| CAcq | CRl
| RmWatch (ok : bool)                     (* ok: the kernel removed the watch and queued IN_IGNORED *)
| Write
| CClose (f : fdid).
Inductive label := R (a : ract) | C (a : cact) | KReadable.

Definition init (v : variant) (wd : bool) : st :=
  {| fi := true; fr := true; fw := true; ni := 0; nr := 0; nw := 0;
     closed := false; reading := init_reading v; lock := Free; irdy := false; prdy := false;
     wdp := wd; stopped := false; delself := false; pmk := false; pdel := false;
     pr := RTop; pc := CIdle |}.

(* field updates *)
Definition set_pr (s : st) (p : rpc) : st :=
  {| fi := fi s; fr := fr s; fw := fw s; ni := ni s; nr := nr s; nw := nw s; closed := closed s;
     reading := reading s; lock := lock s; irdy := irdy s; prdy := prdy s; wdp := wdp s;
     stopped := stopped s; delself := delself s; pmk := pmk s; pdel := pdel s; pr := p; pc := pc s |}.
Definition set_pc (s : st) (p : cpc) : st :=
  {| fi := fi s; fr := fr s; fw := fw s; ni := ni s; nr := nr s; nw := nw s; closed := closed s;
     reading := reading s; lock := lock s; irdy := irdy s; prdy := prdy s; wdp := wdp s;
     stopped := stopped s; delself := delself s; pmk := pmk s; pdel := pdel s; pr := pr s; pc := p |}.
Definition set_lock (s : st) (o : owner) : st :=
  {| fi := fi s; fr := fr s; fw := fw s; ni := ni s; nr := nr s; nw := nw s; closed := closed s;
     reading := reading s; lock := o; irdy := irdy s; prdy := prdy s; wdp := wdp s;
     stopped := stopped s; delself := delself s; pmk := pmk s; pdel := pdel s; pr := pr s; pc := pc s |}.
Definition set_closed (s : st) (b : bool) : st :=
  {| fi := fi s; fr := fr s; fw := fw s; ni := ni s; nr := nr s; nw := nw s; closed := b;
     reading := reading s; lock := lock s; irdy := irdy s; prdy := prdy s; wdp := wdp s;
     stopped := stopped s; delself := delself s; pmk := pmk s; pdel := pdel s; pr := pr s; pc := pc s |}.
Definition set_reading (s : st) (b : bool) : st :=
  {| fi := fi s; fr := fr s; fw := fw s; ni := ni s; nr := nr s; nw := nw s; closed := closed s;
     reading := b; lock := lock s; irdy := irdy s; prdy := prdy s; wdp := wdp s;
     stopped := stopped s; delself := delself s; pmk := pmk s; pdel := pdel s; pr := pr s; pc := pc s |}.
Definition set_irdy (s : st) (b : bool) : st :=
  {| fi := fi s; fr := fr s; fw := fw s; ni := ni s; nr := nr s; nw := nw s; closed := closed s;
     reading := reading s; lock := lock s; irdy := b; prdy := prdy s; wdp := wdp s;
     stopped := stopped s; delself := delself s; pmk := pmk s; pdel := pdel s; pr := pr s; pc := pc s |}.
Definition set_prdy (s : st) (b : bool) : st :=
  {| fi := fi s; fr := fr s; fw := fw s; ni := ni s; nr := nr s; nw := nw s; closed := closed s;
     reading := reading s; lock := lock s; irdy := irdy s; prdy := b; wdp := wdp s;
     stopped := stopped s; delself := delself s; pmk := pmk s; pdel := pdel s; pr := pr s; pc := pc s |}.
Definition set_stopped (s : st) (b : bool) : st :=
  {| fi := fi s; fr := fr s; fw := fw s; ni := ni s; nr := nr s; nw := nw s; closed := closed s;
     reading := reading s; lock := lock s; irdy := irdy s; prdy := prdy s; wdp := wdp s;
     stopped := b; delself := delself s; pmk := pmk s; pdel := pdel s; pr := pr s; pc := pc s |}.
Definition set_batch (s : st) (mk del : bool) : st :=
  {| fi := fi s; fr := fr s; fw := fw s; ni := ni s; nr := nr s; nw := nw s; closed := closed s;
     reading := reading s; lock := lock s; irdy := irdy s; prdy := prdy s; wdp := wdp s;
     stopped := stopped s; delself := delself s; pmk := mk; pdel := del; pr := pr s; pc := pc s |}.
Definition set_del (s : st) (d w : bool) : st :=
  {| fi := fi s; fr := fr s; fw := fw s; ni := ni s; nr := nr s; nw := nw s; closed := closed s;
     reading := reading s; lock := lock s; irdy := irdy s; prdy := prdy s; wdp := w;
     stopped := stopped s; delself := d; pmk := pmk s; pdel := pdel s; pr := pr s; pc := pc s |}.

Definition is_open (s : st) (f : fdid) : bool :=
  match f with FI => fi s | FR => fr s | FW => fw s end.

(* os.close(f): a closed descriptor -> Bad (double close) *)
Definition do_close (s : st) (f : fdid) : state :=
  if is_open s f then
    Ok match f with
       | FI => {| fi := false; fr := fr s; fw := fw s; ni := S (ni s); nr := nr s; nw := nw s; closed := closed s;
                  reading := reading s; lock := lock s; irdy := irdy s; prdy := prdy s; wdp := wdp s;
                  stopped := stopped s; delself := delself s; pmk := pmk s; pdel := pdel s; pr := pr s; pc := pc s |}
       | FR => {| fi := fi s; fr := false; fw := fw s; ni := ni s; nr := S (nr s); nw := nw s; closed := closed s;
                  reading := reading s; lock := lock s; irdy := irdy s; prdy := prdy s; wdp := wdp s;
                  stopped := stopped s; delself := delself s; pmk := pmk s; pdel := pdel s; pr := pr s; pc := pc s |}
       | FW => {| fi := fi s; fr := fr s; fw := false; ni := ni s; nr := nr s; nw := S (nw s); closed := closed s;
                  reading := reading s; lock := lock s; irdy := irdy s; prdy := prdy s; wdp := wdp s;
                  stopped := stopped s; delself := delself s; pmk := pmk s; pdel := pdel s; pr := pr s; pc := pc s |}
       end
  else Bad (DoubleClose f).

(* any other kernel call on descriptor f: closed -> Bad (use after close) *)
Definition use (s : st) (op : nat) (f : fdid) (k : state) : state :=
  if is_open s f then k else Bad (UseAfterClose op f).

Definition on_ok (x : state) (g : st -> st) : state :=
  match x with Ok s => Ok (g s) | Bad b => Bad b end.

(* ---- the reader: InotifyBuffer thread *)
Definition step_r (v : variant) (s : st) (a : ract) : option state :=
  match pr s, a with
  | RTop, Check =>
      Some (Ok (set_pr s (if stopped s || delself s then RDone else RWant1)))
  | RWant1, RAcq => match lock s with Free => Some (Ok (set_pr (set_lock s HeldR) RIn1)) | _ => None end
  | RIn1, RRl =>
      (* if self._closed: return [] ; self._is_reading = True *)
      if closed s then Some (Ok (set_pr (set_lock s Free) RTop))
      else Some (Ok (set_pr (set_lock (set_reading s true) Free) RPolling))
  | RPolling, Poll =>
      (* poll() on both descriptors; blocks until one of them is readable *)
      if negb (fi s) then Some (Bad (UseAfterClose 0 FI))
      else if negb (fr s) then Some (Bad (UseAfterClose 0 FR))
      else if irdy s then Some (Ok (set_pr s RReading))
      else if prdy s then Some (Ok (set_pr (set_batch s false false) RWant2))
      else None
  | RReading, Read mk del =>
      Some (use s 1 FI (Ok (set_pr (set_batch (set_irdy s false) mk del) RWant2)))
  | RWant2, RAcq => match lock s with Free => Some (Ok (set_pr (set_lock s HeldR) RIn2)) | _ => None end
  | RIn2, RRl =>
      (* self._is_reading = False; not closed: leave the section *)
      if closed s then None else Some (Ok (set_pr (set_lock (set_reading s false) Free) RWant3))
  | RIn2, RClose FI =>
      (* self._is_reading = False; closed: _close_resources() *)
      if closed s then Some (on_ok (do_close (set_reading s false) FI) (fun s' => set_pr s' RC2)) else None
  | RC2, RClose FR => Some (on_ok (do_close s FR) (fun s' => set_pr s' RC3))
  | RC3, RClose FW => Some (on_ok (do_close s FW) (fun s' => set_pr s' RRel))
  | RRel, RRl => Some (Ok (set_pr (set_lock s Free) RTop))
  | RWant3, RAcq => match lock s with Free => Some (Ok (set_pr (set_lock s HeldR) RIn3)) | _ => None end
  | RIn3, AddWatch =>
      if pmk s && negb (guard3 v && closed s)
      then Some (use s 4 FI (Ok s))
      else None
  | RIn3, RRl =>
      let s1 := if guard3 v && closed s then s
                else if pdel s then set_del s true false else s in
      Some (Ok (set_pr (set_lock (set_batch s1 false false) Free) RTop))
  | _, _ => None
  end.

(* ---- the closing thread(s): Inotify.close(), preceded by InotifyBuffer.stop()'s event.set() *)
Definition after_flag (s : st) : cact -> option state := fun a =>
  (* s has _closed = True and the rm_watch behind it: if self._is_reading: write else close all *)
  match a with
  | Write => if reading s then Some (use s 2 FW (Ok (set_pc (set_prdy s true) CRel))) else None
  | CClose FI => if reading s then None else Some (on_ok (do_close s FI) (fun s' => set_pc s' CC2))
  | _ => None
  end.

Definition step_c (s : st) (a : cact) : option state :=
  match a with
  | Stop => Some (Ok (set_stopped s true))
  | _ =>
    match pc s, a with
    | CIdle, CAcq | CDone, CAcq =>
        match lock s with Free => Some (Ok (set_pc (set_lock s HeldC) CIn)) | _ => None end
    | CIn, CRl => if closed s then Some (Ok (set_pc (set_lock s Free) CDone)) else None
    | CIn, RmWatch ok =>
        if closed s then None
        else if wdp s
        then Some (use s 3 FI (Ok (set_pc (set_irdy (set_closed s true) (irdy s || ok)) CRm)))
        else None
    | CIn, Write | CIn, CClose FI =>
        if closed s then None else if wdp s then None else after_flag (set_closed s true) a
    | CRm, Write | CRm, CClose FI => after_flag s a
    | CC2, CClose FR => Some (on_ok (do_close s FR) (fun s' => set_pc s' CC3))
    | CC3, CClose FW => Some (on_ok (do_close s FW) (fun s' => set_pc s' CRel))
    | CRel, CRl => Some (Ok (set_pc (set_lock s Free) CDone))
    | _, _ => None
    end
  end.

Definition step_st (v : variant) (s : st) (l : label) : option state :=
  match l with
  | R a => step_r v s a
  | C a => step_c s a
  | KReadable => if fi s then Some (Ok (set_irdy s true)) else None
  end.

(* Bad is absorbing and has no successor *)
Definition step (v : variant) (x : state) (l : label) : option state :=
  match x with Ok s => step_st v s l | Bad _ => None end.

Definition reachable (v : variant) (wd : bool) (x : state) : Prop :=
  exists tr, run (step v) (Ok (init v wd)) tr = Some x.

Definition is_bad (x : state) : bool := match x with Bad _ => true | Ok _ => false end.
Definition reader_done (s : st) : bool := match pr s with RDone => true | _ => false end.
Definition close_returned (s : st) : bool := match pc s with CDone => true | _ => false end.
Definition all_closed (s : st) : bool := negb (fi s) && negb (fr s) && negb (fw s).
Definition all_open (s : st) : bool := fi s && fr s && fw s.

(* ---- replay of an observed label list (used by the correspondence harness): the states after
   every step, stopping at the first label that is not enabled *)
Inductive obs :=
| OState (s : state)
| ONotEnabled.
Fixpoint replay (v : variant) (x : state) (tr : list label) : list obs :=
  match tr with
  | [] => []
  | l :: tr' => match step v x l with
                | Some x' => OState x' :: replay v x' tr'
                | None => [ONotEnabled]
                end
  end.
