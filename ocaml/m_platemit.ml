(* wire (model `platemit`):
   FS    = ((path kind ino) ...)      path = (name ...)   kind = F | D
   OP    = (create p ino) | (mkdir p ino) | (write p) | (chmod p) | (unlink p) | (rmdir p)
         | (rename s d) | (moveout s) | (movein d kind ino FS)
   ORACLES = ((pathstring isdir|ino-option tree) ...)       tree as in model `subevents`
   (apply FS OP)                          -> (ok names_ok FS')
   (winkernel OP)                         -> ((action relstring) ...)
   (winemit rec root last ((action relstring) ...) ORACLES)   -> ((EV ...) last' stop)     last = pending RENAMED_OLD_NAME path
   (wincontract rec root FS_after OP ((path tree) ...))  -> (EV ...)
   (fsekernel root FS OP)                 -> ((pathstring ino flags) ...)
   (fseemit rec root (ino ...) ((pathstring ino flags) ...) ORACLES) -> (some (EV ...) (ino ...) stop) | none
   (fsecontract root FS_before FS_after OP ((path tree) ...)) -> (EV ...)
   (coalesce ((pathstring ino flags) ...)) -> same
   (onerename FS (OP ...)) -> 0/1      no item is the subject of two rename-flagged operations in the batch
   (distinct ((pathstring ino flags) ...)) -> 0/1   no two events share (path, inode)
   EV = (C kind path syn) | (D kind path) | (M kind path) | (V kind src dst syn) *)
open Sexp
open Conv

let kind_of = function A "F" -> SubEvents.KFile | A "D" -> SubEvents.KDir | _ -> failwith "kind"
let sx_kind = function SubEvents.KFile -> A "F" | SubEvents.KDir -> A "D"
let path_of = list_of bytes_of
let rec tree_of = function
  | L [L ds; L fs] ->
    SubEvents.Node (Stdlib.List.map (function L [n; t] -> (bytes_of n, tree_of t) | _ -> failwith "tree") ds,
                    Stdlib.List.map bytes_of fs)
  | _ -> failwith "tree"
let entry_of = function
  | L [p; k; i] -> { PlatFs.e_path = path_of p; e_kind = kind_of k; e_ino = n_of i }
  | _ -> failwith "entry"
let fs_of = list_of entry_of
let sx_entry (e : PlatFs.entry) = L [sx_list sx_bytes e.PlatFs.e_path; sx_kind e.PlatFs.e_kind; sx_n e.PlatFs.e_ino]
let op_of = function
  | L [A "create"; p; i] -> PlatFs.OCreate (path_of p, n_of i)
  | L [A "mkdir"; p; i] -> PlatFs.OMkdir (path_of p, n_of i)
  | L [A "write"; p] -> PlatFs.OWrite (path_of p)
  | L [A "chmod"; p] -> PlatFs.OChmod (path_of p)
  | L [A "unlink"; p] -> PlatFs.OUnlink (path_of p)
  | L [A "rmdir"; p] -> PlatFs.ORmdir (path_of p)
  | L [A "rename"; s; d] -> PlatFs.ORename (path_of s, path_of d)
  | L [A "moveout"; s] -> PlatFs.OMoveOut (path_of s)
  | L [A "movein"; d; k; i; c] -> PlatFs.OMoveIn (path_of d, kind_of k, n_of i, fs_of c)
  | _ -> failwith "op"
let sx_ev = function
  | PlatFs.Created (k, p, s) -> L [A "C"; sx_kind k; sx_bytes p; sx_bool s]
  | PlatFs.Deleted (k, p) -> L [A "D"; sx_kind k; sx_bytes p]
  | PlatFs.Modified (k, p) -> L [A "M"; sx_kind k; sx_bytes p]
  | PlatFs.Moved (k, s, d, y) -> L [A "V"; sx_kind k; sx_bytes s; sx_bytes d; sx_bool y]
let empty_tree = SubEvents.Node ([], [])
let lookup_str tbl p = try Some (Stdlib.List.assoc p tbl) with Not_found -> None
let subs_of l =
  let tbl = list_of (function L [p; t] -> (path_of p, tree_of t) | _ -> failwith "sub") l in
  fun p -> match lookup_str tbl p with Some t -> t | None -> empty_tree
let fnat_of = function
  | L [p; i; f] -> { FsEvents.f_path = bytes_of p; f_ino = n_of i; f_flags = n_of f }
  | _ -> failwith "fnative"
let sx_fnat (x : FsEvents.fnative) = L [sx_bytes x.FsEvents.f_path; sx_n x.FsEvents.f_ino; sx_n x.FsEvents.f_flags]

let run = function
  | L [A "apply"; f; o] ->
    let f = fs_of f and o = op_of o in
    L [sx_bool (PlatFs.op_ok f o); sx_bool (PlatFs.op_names_ok o); sx_list sx_entry (PlatFs.apply_op f o)]
  | L [A "winkernel"; o] ->
    sx_list (fun x -> let n = WinEmitter.render_native x in L [sx_n n.WinEmitter.n_action; sx_bytes n.WinEmitter.n_path])
      (WinEmitter.win_kernel (op_of o))
  | L [A "winemit"; r; root; last; ns; orc] ->
    let tbl = list_of (function L [p; d; t] -> (bytes_of p, (bool_of d, tree_of t)) | _ -> failwith "oracle") orc in
    let isdir p = match lookup_str tbl p with Some (d, _) -> d | None -> false in
    let walk p = match lookup_str tbl p with Some (_, t) -> t | None -> empty_tree in
    let ns = list_of (function L [a; p] -> { WinEmitter.n_action = n_of a; n_path = bytes_of p } | _ -> failwith "native") ns in
    let ((evs, last'), stop) = WinEmitter.queue_events isdir walk (bool_of r) (bytes_of root) (bytes_of last) ns in
    L [sx_list sx_ev evs; sx_bytes last'; sx_bool stop]
  | L [A "wincontract"; r; root; f; o; subs] ->
    sx_list (fun e -> sx_ev (PlatFs.render (bytes_of root) e))
      (WinEmitter.win_contract (subs_of subs) (bool_of r) (fs_of f) (op_of o))
  | L [A "fsekernel"; root; f; o] ->
    sx_list (fun x -> sx_fnat (FsEvents.frender (bytes_of root) x)) (FsEvents.fsevents_kernel (fs_of f) (op_of o))
  | L [A "fseemit"; r; root; view; ns; orc] ->
    let tbl = list_of (function L [p; i; t] -> (bytes_of p, (opt_of n_of i, tree_of t)) | _ -> failwith "oracle") orc in
    let stat p = match lookup_str tbl p with Some (i, _) -> i | None -> None in
    let walk p = match lookup_str tbl p with Some (_, t) -> t | None -> empty_tree in
    (match FsEvents.queue_events stat walk (bool_of r) (bytes_of root) (list_of n_of view) (list_of fnat_of ns) with
     | Some ((evs, v), stop) -> L [A "some"; sx_list sx_ev evs; sx_list sx_n v; sx_bool stop]
     | None -> A "none")
  | L [A "fsecontract"; root; fb; fa; o; subs] ->
    sx_list (fun e -> sx_ev (PlatFs.render (bytes_of root) e))
      (FsEvents.fse_contract (subs_of subs) (fs_of fb) (fs_of fa) (op_of o))
  | L [A "onerename"; f; L ops] ->
    sx_bool (FsEvents.one_rename_per_item (fs_of f) (Stdlib.List.map op_of ops))
  | L [A "distinct"; ns] -> sx_bool (FsEvents.distinct_itemsb (list_of fnat_of ns))
  | L [A "coalesce"; ns] -> sx_list sx_fnat (FsEvents.coalesce_all (list_of fnat_of ns))
  | _ -> failwith "platemit: bad case"
