"""C19 - event paths keep the caller's path type and the entry's exact name, all backends."""
from __future__ import annotations

import os
import shutil
import time

from harness import core, pipe, pipecheck, pipeprops
from harness.core import Failure, Result

MANIFEST = dict(
    design_ref="DESIGN.md §6 C19",
    text="Coq theorems (coq/Props/C19.v): NAME law - over every action list of the pipeline model every path of every queued "
         "event is empty or the watched root followed by valid entry names (C19_pipeline_paths, via the reader invariant "
         "C19_reader_inv through construct/read_batch/re-key/simulate and the emitter law C19_event_paths incl. synthetic events "
         "through C14; for a root spelled with trailing separators the reader keeps 'every stored path is os.path.join of the "
         "root along valid names' over every batch incl. settle_pending/_forget_tree/stale-key clean-up/re-key/simulate "
         "(C19_reader_any_root, C19_rekey_any_root) and the emitter law holds for every non-empty root "
         "(C19_event_paths_any_root)); TYPE law - a typed transcription of queue_events whose erasure is the validated emitter model carries the "
         "watch's tag on every non-empty path (C19_type, C19_type_erase), polling join keeps the tag (C19_polling_type) and both "
         "backends yield the same value for the same entry (C19_agree, C19_event_agree). Lock-step pipeline correspondence on the real "
         "kernel with names from an alphabet incl. non-ASCII and undecodable bytes; oracle on the inotify and the polling "
         "observer: type of every path = type of the watched path (Path -> str) and fsencode(path) = the spelled root joined "
         "with the entry's real relative name.",
    note="Trusted: as C01; os.fsencode/os.fsdecode are taken as mutually inverse on file names (surrogateescape) - validated on "
         "the alphabet, not proved; relative spellings of the root are covered by the theorems (any non-empty root without a trailing '/'); "
         "trailing-slash spellings by the reader and emitter theorems for any root and by the oracle - the composed pipeline "
         "model is keyed by the normalised spelling and cannot be constructed on them (C19_pipeline_root).",
    technique="Coq proof (typed path algebra over the emitter model) + lock-step correspondence on the real kernel + type/name oracle on inotify and polling observers",
)
TRUSTED = pipecheck.TRUSTED + ["os.fsencode/os.fsdecode (surrogateescape) are modelled as a bijection on names"]
ASSUMPTIONS = pipecheck.ASSUMPTIONS

NAMES19 = ["a", "é", os.fsdecode(b"\xff"), "b c", "中"]
KINDS = ["str", "bytes", "path"]
SPELL = ["abs", "rel", "trail"]


def expected_paths(run: pipe.Run):
    """fsencode'd spellings an event path may have: the spelled root joined with the relative names of every path
    an operation of the log mentions (and their ancestors / descendants)."""
    root = os.fsencode(run.spelled_root)
    rels = set()
    for e in run.log:
        if e["a"] != "op":
            continue
        for pth, extra in ((e["path"], []), (e["path2"], e.get("descendants", [])), (e["path"], e.get("descendants", []))):
            if not pth or pth[0] != "R":
                continue
            names = [os.fsencode(n) for n in pth[1:]]
            for i in range(len(names) + 1):
                rels.add(tuple(names[:i]))
            for s, _ in extra:
                sub = [x for x in s.split(b"/") if x]
                for i in range(len(sub) + 1):
                    rels.add(tuple(names + sub[:i]))
    out = set()
    for rel in rels:
        if not rel:
            out.add(root)
            out.add(root.rstrip(b"/") or root)
        else:
            out.add((root if root.endswith(b"/") else root + b"/") + b"/".join(rel))
    return out


def check_events(run_kind, objs, want_type, expected, meta, res, backend):
    for e in objs:
        for label, x in (("src_path", e.src_path), ("dest_path", e.dest_path)):
            if x == "" or x == b"":
                continue
            if type(x) is not want_type:
                res.failures.append(Failure(
                    what=f"{backend}: {type(e).__name__}.{label} is {type(x).__name__} but the watch path was given as {run_kind}",
                    case=meta, signature={"law": "path-type", "backend": backend, "field": label, "class": type(e).__name__},
                    observed=repr(x), expected=want_type.__name__))
                return
            b = os.fsencode(x)
            if b not in expected:
                res.failures.append(Failure(
                    what=f"{backend}: {type(e).__name__}.{label} does not name the entry: not the watched path joined with a real relative name",
                    case=meta, signature={"law": "path-name", "backend": backend, "field": label, "class": type(e).__name__},
                    observed=repr(x), expected="one of the paths touched by the history, spelled from the watched path"))
                return


def one(ctx, res: Result, hist, recursive, full, kind, spelling, batch):
    run = pipe.Run(recursive=recursive, full=full, path_kind=kind, root_spelling=spelling)
    try:
        run.execute(hist)
        run.drain()
        case = run.model_case() if spelling == "abs" else None
        expected = expected_paths(run)
        objs = [o for ent in run.log if ent["a"] == "emit" for o in ent["objs"]]
    finally:
        stopped = run.close()
    meta = {"history": hist, "recursive": recursive, "full_events": full, "path_kind": kind, "root_spelling": spelling}
    res.evaluations += 1
    res.hist("path_kind", kind)
    res.hist("root_spelling", spelling)
    res.hist("events", min(40, len(objs)) // 5 * 5)
    want_type = bytes if kind == "bytes" else str
    if len(objs) >= 4:
        res.nontrivial.add(core.digest(meta))
    if len(res.samples) < 3 and len(objs) >= 5:
        res.samples.append({"config": [kind, spelling, recursive], "paths": [repr(o.src_path) for o in objs[:6]]})
    check_events(kind, objs, want_type, expected, meta, res, "inotify")
    res.failures += pipecheck.thread_failures(run, stopped, meta, "C19")
    if case is not None:
        batch.append((meta, run, case))
    return run


def polling(ctx, res: Result, hist, recursive, kind, spelling, second_kind=None):
    """The same operations under the polling observer (real threads, short interval): same oracle.  With second_kind a
    second handler is scheduled on the same observer for the same directory, its path given in another type: every
    handler must see the type of ITS OWN schedule() call."""
    import pathlib
    import tempfile
    from watchdog.events import FileSystemEventHandler
    from watchdog.observers.polling import PollingObserver
    sc = tempfile.mkdtemp(prefix="wdp", dir="/dev/shm" if os.path.isdir("/dev/shm") else None)
    cwd = os.getcwd()
    evs = []
    try:
        os.makedirs(os.path.join(sc, "R"))
        os.makedirs(os.path.join(sc, "O"))
        spelled = os.path.join(sc, "R")
        if spelling == "rel":
            os.chdir(sc)
            spelled = "R"
        elif spelling == "trail":
            spelled += "/"
        wp = os.fsencode(spelled) if kind == "bytes" else pathlib.Path(spelled) if kind == "path" else spelled

        class H(FileSystemEventHandler):
            def on_any_event(self, e):
                evs.append(e)
        obs = PollingObserver(timeout=0.01)
        obs.schedule(H(), wp, recursive=recursive)
        evs2 = []
        if second_kind:
            class H2(FileSystemEventHandler):
                def on_any_event(self, e):
                    evs2.append(e)
            wp2 = os.fsencode(spelled) if second_kind == "bytes" else pathlib.Path(spelled) if second_kind == "path" else spelled
            obs.schedule(H2(), wp2, recursive=recursive)
        obs.start()

        class FakeRun:
            pass
        fr = FakeRun()
        fr.log, fr.spelled_root = [], spelled
        for st in hist:
            if st[0] != "op":
                continue
            p = os.path.join(sc, *st[2])
            q = os.path.join(sc, *st[3]) if len(st) > 3 else None
            desc = []
            if st[1] == "rename" and os.path.isdir(p):
                for r, ds, fs in os.walk(p):
                    for d in ds + fs:
                        desc.append((os.fsencode(os.path.join(r, d)[len(p):]), True))
            try:
                k = st[1]
                if k == "touch":
                    open(p, "x").close()
                elif k == "write":
                    with open(p, "ab") as f:
                        f.write(b"x")
                elif k == "chmod":
                    os.chmod(p, 0o700)
                elif k == "unlink":
                    os.unlink(p)
                elif k == "mkdir":
                    os.mkdir(p)
                elif k == "rmdir":
                    os.rmdir(p)
                elif k == "rename":
                    os.rename(p, q)
            except OSError:
                continue
            fr.log.append({"a": "op", "path": st[2], "path2": st[3] if len(st) > 3 else None, "descendants": desc})
            time.sleep(0.03)
        time.sleep(0.08)
        obs.stop()
        obs.join(5)
        expected = expected_paths(fr)
    finally:
        os.chdir(cwd)
        shutil.rmtree(sc, ignore_errors=True)
    meta = {"history": hist, "recursive": recursive, "path_kind": kind, "root_spelling": spelling, "backend": "polling",
            "second_kind": second_kind}
    res.evaluations += 1
    if second_kind:
        res.hist("two_schedules_of_one_directory", f"{kind}+{second_kind}")
        check_events(second_kind, evs2, bytes if second_kind == "bytes" else str, expected, meta, res, "polling(second schedule)")
    res.hist("polling_events", min(40, len(evs)) // 5 * 5)
    if len(evs) >= 3:
        res.nontrivial.add(core.digest(meta))
    check_events(kind, evs, bytes if kind == "bytes" else str, expected, meta, res, "polling")


SELF_SIMILAR = [["op", "mkdir", ["R", "a"]], ["op", "mkdir", ["R", "a", "R"]], ["op", "mkdir", ["R", "a", "R", "b2"]],
                ["op", "touch", ["R", "a", "R", "b2", "f"]], ["op", "mkdir", ["R", "a", "R", "b"]],
                ["op", "touch", ["R", "a", "R", "b", "g"]], ["drain"],
                ["op", "rename", ["R", "a"], ["R", "b"]], ["drain"],
                ["op", "touch", ["R", "b", "R", "b2", "h"]], ["op", "rename", ["R", "b", "R", "b2"], ["R", "b", "R", "a"]], ["drain"]]


def run(ctx) -> Result:
    res = Result()
    res.rule = ("histories of 4-10 operations (one at a time and bursts; creates, renames incl. directory renames with "
                "descendants, moves in/out) over names {a, e-acute, byte 0xff (undecodable), 'b c', CJK}; watch path given as "
                "str / bytes / pathlib.Path, spelled absolute / relative / with trailing slash; inotify (gated, lock-step with the "
                "model for the absolute spelling) and polling observers; non-trivial = >= 4 (inotify) / >= 3 (polling) delivered "
                "events; distinct by (history, config)")
    rng = ctx.rng("c19")
    batch = []
    # names that repeat the watched root's own name and the renamed directory's new name deeper in the tree: whatever
    # rewrites a path prefix must rewrite it once, at the front - for every spelling of the root (a short relative root
    # makes the destination path text recur inside the tree)
    for idx, (kind, spelling) in enumerate((k, sp) for k in KINDS for sp in SPELL):
        one(ctx, res, SELF_SIMILAR, True, bool(idx % 2), kind, spelling, batch)
    n = 90 if not ctx.thorough else 1500
    for i in range(n):
        kind = KINDS[i % 3]
        spelling = SPELL[(i // 3) % 3]
        recursive = (i % 5) != 4
        if i % 5 == 3:
            # events inside a directory, the directory (or an ancestor) renamed, events inside it again (recursive runs)
            hist = pipe.gen_history_renames(rng, n_renames=rng.randint(1, 3))
        elif i % 5 == 2:
            # directories arriving WITH content (synthetic created events), some renamed right away
            hist = pipe.gen_history_arrivals(rng, n=rng.randint(1, 3), rename_prob=0.3)
        else:
            hist = pipe.gen_history(rng, n_ops=rng.randint(4, 10), paced=True, burst_prob=rng.choice([0.0, 0.6]), names=NAMES19)
        one(ctx, res, hist, recursive, bool(i % 7 == 3), kind, spelling, batch)
        if i % 2 == 0:
            # the polling backend, cycling through all path kinds and spellings independently of the native run
            k1 = KINDS[(i // 2) % 3]
            polling(ctx, res, hist, recursive, k1, SPELL[(i // 6) % 3],
                    second_kind=KINDS[(KINDS.index(k1) + 1 + (i // 4) % 2) % 3] if i % 4 == 0 else None)
    pipecheck.check_model(res, "C19", batch)
    return res


def replay(ctx, obj) -> int:
    case = obj.get("case", obj)
    res = Result()
    batch = []
    if case.get("backend") == "polling":
        polling(ctx, res, case["history"], case["recursive"], case["path_kind"], case["root_spelling"], case.get("second_kind"))
    else:
        one(ctx, res, case["history"], case["recursive"], case.get("full_events", False), case["path_kind"],
            case["root_spelling"], batch)
        pipecheck.check_model(res, "C19", batch)
    for f in res.failures:
        print("FAIL:", f.what, f.observed)
    for m in res.mismatches:
        print("MISMATCH:", m.pair, "\n model:", m.model, "\n real: ", m.impl)
    return 1 if res.failures or res.mismatches else 0
