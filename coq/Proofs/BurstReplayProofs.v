(* C01 / C02 over BURSTS of file-level operations (the class and the side condition of C03_burst_files_contract,
   Proofs/BurstProofs.v): replaying the stream delivered for the burst on the tree before the burst gives the tree after
   it, and the reader / kernel state after the burst's reads is synchronised (RSync, Cover) again. *)
Require Import WD.Base.Prelude WD.Base.BStr WD.Model.SubEvents WD.Model.Emitter WD.Model.Fs WD.Model.Reader
               WD.Model.DelayQueue WD.Model.Grouping WD.Model.Pipeline WD.Model.Contract.
Require Import WD.Proofs.ContractProofs WD.Proofs.CoverProofs WD.Proofs.CoverOutProofs WD.Proofs.ReplayProofs
               WD.Proofs.ReplayOutProofs WD.Proofs.ReplayPipeProofs WD.Proofs.CutsPipeProofs
               WD.Proofs.SoundSeqProofs WD.Proofs.SoundPipeProofs WD.Proofs.SoundLooseProofs WD.Proofs.ReplaceProofs
               WD.Proofs.BurstProofs.

Local Arguments sep : simpl never.

Section BurstReplay.
  Variable C : cfg.
  Variable full : bool.
  Let rec := c_recursive C.
  Let root := c_root C.

  (* a file-level operation of the sequential class is an operation of the one-operation replay law *)
  Lemma file_c01_op0 w o : c01_x C w o -> file_op w o -> c01_op0 C w o.
  Proof.
    intros [o' [Ho|Hin]|p q ep Np Nq Hrec El De Sp Hpr Sq Elq] Hf.
    - exact Ho.
    - destruct o' as [p|p|p|p|p|p|p q]; try contradiction. exfalso.
      destruct Hin as (ep & Np & Nq & Hrec & Hfix & El & De & _). cbn [file_op] in Hf. unfold fisdir in Hf. rewrite El in Hf. congruence.
    - exfalso. cbn [file_op] in Hf. unfold fisdir in Hf. rewrite El in Hf. congruence.
  Qed.

  (* chunk by chunk: each chunk replays like its contract *)
  Lemma chunks_replay ops : forall w k t chunks, wf_fs w -> burst_ok C w ops ->
    Forall2 (fun ch ct0 => collapse ch = collapse ct0) chunks (contracts_of C full w ops) ->
    TInv rec root t w -> TInv rec root (replay rec root t (concat chunks)) (snd (burst_end k w ops)).
  Proof.
    induction ops as [|o ops IH]; intros w k t chunks W Hb Hch T; cbn [burst_ok contracts_of burst_end] in *.
    - inversion Hch; subst. exact T.
    - destruct (apply_op w o) as [w'|] eqn:Ea; [|now apply IH].
      destruct Hb as (Hx & Hf & Hb). inversion Hch as [|ch ct0 chunks' cts Hc Hch']; subst. cbn [concat].
      assert (W' : wf_fs w') by exact (wf_apply_op w o w' W (proj1 (c01x_np C w o Hx)) Ea).
      unfold replay. rewrite fold_left_app. fold (replay rec root t ch). fold (replay rec root (replay rec root t ch) (concat chunks')).
      apply IH; [exact W' | exact Hb | exact Hch'|].
      destruct T as [Tn Tg]. unfold TInv.
      apply (replay_contract rec root ch _ t (tl rec root w) (tl rec root w') Hc); try assumption.
      apply ctr_ok_covered; [exact W | now apply file_c01_op0 | exact Ea].
  Qed.
End BurstReplay.

(* ================================================================== C01: the replay law over a burst *)
Theorem burst_files_replay C full w k r ops t :
  c_faults C = [] -> c_fix_moveout C = true -> c_mask C = WATCHDOG_ALL ->
  RSync C w k r -> burst_ok C w ops ->
  let KB := fst (burst_end k w ops) in let wn := snd (burst_end k w ops) in
  k_queue KB = concat (seq_qs k w ops) ->
  TInv (c_recursive C) (c_root C) t w ->
  exists r' raws, read_batch C (w_fs wn) (r, drainq KB, []) (k_queue KB) = Done (r', drainq KB, raws) /\
    TInv (c_recursive C) (c_root C) (replay (c_recursive C) (c_root C) t (delivered C full wn raws)) wn.
Proof.
  intros Hf Hmo Hm S Hb KB wn Hnc T.
  destruct (burst_files_contract C full Hf Hmo Hm w k r ops S Hb Hnc) as (r' & raws & chunks & Hrd & _ & Hdel & Hch).
  exists r', raws. split; [exact Hrd|]. fold KB wn in Hdel. unfold wn at 1 in Hdel. subst wn. rewrite Hdel.
  apply (chunks_replay C full ops w k t chunks (rs_wf _ _ _ _ S) Hb Hch T).
Qed.

(* from Inotify.__init__: the replayed stream of the burst is the tree after the burst *)
Theorem burst_files_replay_from_start C full w ops :
  c_faults C = [] -> c_fix_moveout C = true -> c_mask C = WATCHDOG_ALL ->
  wf_fs w -> fisdir (c_root C) (w_fs w) = true -> burst_ok C w ops ->
  exists r0 k0, construct C kinit (w_fs w) = Some (r0, k0) /\
    let KB := fst (burst_end k0 w ops) in let wn := snd (burst_end k0 w ops) in
    (k_queue KB = concat (seq_qs k0 w ops) ->
     exists r' raws, read_batch C (w_fs wn) (r0, drainq KB, []) (k_queue KB) = Done (r', drainq KB, raws) /\
       forall x, alookup beqb x (replay (c_recursive C) (c_root C) (tree_of (c_recursive C) (c_root C) w) (delivered C full wn raws))
               = alookup beqb x (tree_of (c_recursive C) (c_root C) wn)).
Proof.
  intros Hf Hmo Hm W Hroot Hb.
  destruct (construct_cover C Hf w W Hroot) as (r0 & k0 & Hcons & I & Cv & Hq & _ & Hp).
  assert (S : RSync C w k0 r0).
  { constructor; try assumption. destruct (fisdir_in _ _ Hroot) as (er & He & Ee & De). now exists er. }
  exists r0, k0. split; [exact Hcons|]. intros KB wn Hnc.
  destruct (burst_files_replay C full w k0 r0 ops _ Hf Hmo Hm S Hb Hnc (TInv_init _ _ w W)) as (r' & raws & Hrd & T).
  exists r', raws. split; [exact Hrd|]. now apply TInv_tree_eq.
Qed.

(* on the Pipeline model, with burst_hist *)
Theorem burst_files_replay_pipeline P s ops cuts L t0 : pc_filter P = None -> let C := pc_reader P in
  c_faults C = [] -> c_fix_moveout C = true -> c_mask C = WATCHDOG_ALL ->
  RSync C (p_world s) (p_k s) (p_r s) -> buffer_idle (p_buf s) -> p_stopped s = false ->
  (forall id, In id (map fst (p_tbl s)) -> (id < p_next s)%N) ->
  burst_ok C (p_world s) ops ->
  let KB := fst (burst_end (p_k s) (p_world s) ops) in
  k_queue KB = concat (seq_qs (p_k s) (p_world s) ops) ->
  CutsPipeProofs.sum cuts = length (k_queue KB) -> Forall tick_or_emit L ->
  TInv (c_recursive C) (c_root C) (replay (c_recursive C) (c_root C) t0 (p_out s)) (p_world s) ->
  exists nit s' obs, prun P s (burst_hist P ops cuts L nit) [] = Done (s', obs) /\
    TInv (c_recursive C) (c_root C) (replay (c_recursive C) (c_root C) t0 (p_out s')) (p_world s') /\
    RSync C (p_world s') (p_k s') (p_r s') /\ buffer_idle (p_buf s') /\ p_stopped s' = false /\
    (forall id, In id (map fst (p_tbl s')) -> (id < p_next s')%N).
Proof.
  intros HF C Hf Hmo Hm S Hidle Hal Htbl Hb KB Hnc Hsum HL T.
  destruct (burst_pipeline P HF Hf Hmo Hm s ops cuts L [] S Hidle Hal Htbl Hb Hnc Hsum HL)
    as (nit & s' & obs & chunks & Hrun & _ & Hout & Hch & Ew & S' & Hidle' & Hal' & Htbl').
  exists nit, s', obs. split; [exact Hrun|]. split; [|rewrite Ew; auto].
  rewrite Hout, Ew. unfold replay. rewrite fold_left_app.
  exact (chunks_replay C (pc_full P) ops (p_world s) (p_k s) _ chunks (rs_wf _ _ _ _ S) Hb Hch T).
Qed.

(* ================================================================== C02: the state after the burst is covered again *)
Theorem burst_files_cover C w k r ops :
  c_faults C = [] -> c_fix_moveout C = true -> c_mask C = WATCHDOG_ALL ->
  RSync C w k r -> burst_ok C w ops ->
  let KB := fst (burst_end k w ops) in let wn := snd (burst_end k w ops) in
  k_queue KB = concat (seq_qs k w ops) ->
  exists r' raws, read_batch C (w_fs wn) (r, drainq KB, []) (k_queue KB) = Done (r', drainq KB, raws) /\
    RSync C wn (drainq KB) r' /\ Cover C (w_fs wn) (drainq KB) r'.
Proof.
  intros Hf Hmo Hm S Hb KB wn Hnc.
  destruct (burst_files_contract C false Hf Hmo Hm w k r ops S Hb Hnc) as (r' & raws & chunks & Hrd & S' & _).
  exists r', raws. split; [exact Hrd|]. split; [exact S' | exact (rs_cover _ _ _ _ S')].
Qed.

Theorem burst_files_cover_pipeline P s ops cuts L : pc_filter P = None -> let C := pc_reader P in
  c_faults C = [] -> c_fix_moveout C = true -> c_mask C = WATCHDOG_ALL ->
  RSync C (p_world s) (p_k s) (p_r s) -> buffer_idle (p_buf s) -> p_stopped s = false ->
  (forall id, In id (map fst (p_tbl s)) -> (id < p_next s)%N) ->
  burst_ok C (p_world s) ops ->
  let KB := fst (burst_end (p_k s) (p_world s) ops) in
  k_queue KB = concat (seq_qs (p_k s) (p_world s) ops) ->
  CutsPipeProofs.sum cuts = length (k_queue KB) -> Forall tick_or_emit L ->
  exists nit s' obs, prun P s (burst_hist P ops cuts L nit) [] = Done (s', obs) /\
    p_world s' = snd (burst_end (p_k s) (p_world s) ops) /\
    RSync C (p_world s') (p_k s') (p_r s') /\ Cover C (w_fs (p_world s')) (p_k s') (p_r s') /\
    buffer_idle (p_buf s') /\ p_stopped s' = false.
Proof.
  intros HF C Hf Hmo Hm S Hidle Hal Htbl Hb KB Hnc Hsum HL.
  destruct (burst_pipeline P HF Hf Hmo Hm s ops cuts L [] S Hidle Hal Htbl Hb Hnc Hsum HL)
    as (nit & s' & obs & chunks & Hrun & _ & _ & _ & Ew & S' & Hidle' & Hal' & _).
  exists nit, s', obs. split; [exact Hrun|]. split; [exact Ew|]. rewrite Ew.
  split; [exact S'|]. split; [exact (rs_cover _ _ _ _ S') | auto].
Qed.

(* ================================================================== an instance (the burst of BurstProofs.v) *)
Lemma burst_replay_example :
  exists r0 k0, construct (cfgx true true) kinit (w_fs rp_world) = Some (r0, k0) /\
    let KB := fst (burst_end k0 rp_world burst_ops) in let wn := snd (burst_end k0 rp_world burst_ops) in
    k_queue KB = concat (seq_qs k0 rp_world burst_ops) /\
    exists r' raws, read_batch (cfgx true true) (w_fs wn) (r0, drainq KB, []) (k_queue KB) = Done (r', drainq KB, raws) /\
      length raws = 11%nat /\
      (forall x, alookup beqb x (replay true pR (tree_of true pR rp_world) (delivered (cfgx true true) false wn raws))
               = alookup beqb x (tree_of true pR wn)) /\
      RSync (cfgx true true) wn (drainq KB) r' /\ Cover (cfgx true true) (w_fs wn) (drainq KB) r' /\
      flookup bf_ef (w_fs wn) = None /\ fexists bf_oa (w_fs wn) = true.
Proof.
  destruct (construct_cover (cfgx true true) eq_refl rp_world rp_world_wf eq_refl) as (r & k & Hc & I & Cv & Hq & _ & Hp).
  assert (S : RSync (cfgx true true) rp_world k r).
  { constructor; try assumption; [exact rp_world_wf|]. eexists. split; [left; reflexivity | split; reflexivity]. }
  exists r, k. split; [exact Hc|]. cbv zeta.
  assert (Hc' := Hc). vm_compute in Hc'. inversion Hc'; subst r k. clear Hc'.
  match goal with |- ?A /\ _ => assert (Hnc : A) by (vm_compute; reflexivity) end.
  split; [exact Hnc|].
  destruct (burst_files_replay (cfgx true true) false rp_world _ _ burst_ops _ eq_refl eq_refl eq_refl S burst_ops_ok Hnc
              (TInv_init true pR rp_world rp_world_wf)) as (r' & raws & Hrd & T).
  destruct (burst_files_cover (cfgx true true) rp_world _ _ burst_ops eq_refl eq_refl eq_refl S burst_ops_ok Hnc)
    as (r2 & raws2 & Hrd2 & S2 & Cv2).
  cbv zeta in Hrd, Hrd2. rewrite Hrd in Hrd2. inversion Hrd2; subst r2 raws2.
  exists r', raws. split; [exact Hrd|].
  split; [|split; [now apply TInv_tree_eq | split; [exact S2 | split; [exact Cv2 | split; vm_compute; reflexivity]]]].
  assert (Hrd' := Hrd). vm_compute in Hrd'. inversion Hrd'. reflexivity.
Qed.
