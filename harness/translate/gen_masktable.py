"""Translate InotifyEmitter.get_event_mask_from_filter and the InotifyConstants table of the watchdog
checkout under test into coq/Gen/MaskTableGen.v (second tie of C11, DESIGN.md section 6 C11).

FAIL-CLOSED: only the shapes listed below are understood; anything else -> message on stderr, exit 2, and the
generated file is replaced by one that cannot compile, so the Coq build of the C11 proofs breaks.

inotify_c.py
    class InotifyConstants:   NAME = <int literal> | NAME = <bit-or of earlier names / literals>
                              | NAME = reduce(lambda x, y: x | y, [<earlier names>])
    WATCHDOG_ALL_EVENTS = reduce(lambda x, y: x | y, [InotifyConstants.NAME, ...])
inotify.py, class InotifyEmitter, exactly one definition in the module of
    def get_event_mask_from_filter(self):
        [docstring]
        if self._event_filter is None:
            return None
        event_mask = MASK
        [if self.watch.is_recursive:
            event_mask |= MASK]
        for cls in self._event_filter:
            (if TEST: event_mask |= MASK  [elif TEST: event_mask |= MASK]...)+      # no else branch
        return event_mask
    MASK ::= InotifyConstants.NAME | MASK '|' MASK | '(' MASK ')'
    TEST ::= cls in {C, ...} | cls is C | issubclass(K, cls) | TEST or TEST
    C    ::= an event class imported from watchdog.events (concrete or FileSystemEvent / FileSystemMovedEvent)
    K    ::= a concrete event class imported from watchdog.events

`event_mask |= X` only ever sets bits and no TEST reads event_mask, so one loop iteration is
`event_mask |= mask1(cls)` with mask1(cls) = the bit-or over the `if` statements of the mask of the first
branch of the statement whose test holds; that normal form is what is emitted.
"""
from __future__ import annotations

import ast
import os
import sys
from pathlib import Path

VERIF = Path(__file__).resolve().parent.parent.parent
REPO = Path(os.environ.get("WATCHDOG_REPO", "/repo"))
OUT = Path(os.environ.get("GEN_MASKTABLE_OUT") or (VERIF / "coq" / "Gen" / "MaskTableGen.v"))

CONCRETE = {
    "FileCreatedEvent": "FileCreated", "FileDeletedEvent": "FileDeleted", "FileModifiedEvent": "FileModified",
    "FileMovedEvent": "FileMoved", "FileClosedEvent": "FileClosed", "FileClosedNoWriteEvent": "FileClosedNoWrite",
    "FileOpenedEvent": "FileOpened", "DirCreatedEvent": "DirCreated", "DirDeletedEvent": "DirDeleted",
    "DirModifiedEvent": "DirModified", "DirMovedEvent": "DirMoved",
}
BASES = {"FileSystemEvent": "AnyEvent", "FileSystemMovedEvent": "AnyMoved"}
# the constants the model and the proofs refer to; all must be present in the source
REQUIRED = ["IN_ACCESS", "IN_MODIFY", "IN_ATTRIB", "IN_CLOSE_WRITE", "IN_CLOSE_NOWRITE", "IN_OPEN", "IN_MOVED_FROM",
            "IN_MOVED_TO", "IN_CREATE", "IN_DELETE", "IN_DELETE_SELF", "IN_MOVE_SELF", "IN_MOVE", "IN_UNMOUNT",
            "IN_Q_OVERFLOW", "IN_IGNORED", "IN_ISDIR", "IN_DONT_FOLLOW", "IN_ALL_EVENTS"]


class Refuse(Exception):
    pass


def refuse(node, why):
    line = getattr(node, "lineno", "?")
    raise Refuse(f"line {line}: {why}")


# ------------------------------------------------------------------ inotify_c.py
def is_reduce_or(node):
    """reduce(lambda x, y: x | y, [ ... ]) -> the list elements, else None"""
    if not (isinstance(node, ast.Call) and isinstance(node.func, ast.Name) and node.func.id == "reduce"
            and len(node.args) == 2 and not node.keywords):
        return None
    lam, lst = node.args
    if not (isinstance(lam, ast.Lambda) and [a.arg for a in lam.args.args] == ["x", "y"]
            and not lam.args.vararg and not lam.args.kwarg and not lam.args.kwonlyargs and not lam.args.defaults
            and isinstance(lam.body, ast.BinOp) and isinstance(lam.body.op, ast.BitOr)
            and isinstance(lam.body.left, ast.Name) and lam.body.left.id == "x"
            and isinstance(lam.body.right, ast.Name) and lam.body.right.id == "y"):
        return None
    if not isinstance(lst, ast.List):
        return None
    return lst.elts


def const_value(node, env):
    if isinstance(node, ast.Constant) and type(node.value) is int and node.value >= 0:
        return node.value
    if isinstance(node, ast.Name) and node.id in env:
        return env[node.id]
    if isinstance(node, ast.BinOp) and isinstance(node.op, ast.BitOr):
        return const_value(node.left, env) | const_value(node.right, env)
    elts = is_reduce_or(node)
    if elts is not None and elts:
        v = 0
        for e in elts:
            v |= const_value(e, env)
        return v
    refuse(node, "constant expression not understood: " + ast.dump(node)[:120])


def read_constants(path: Path):
    tree = ast.parse(path.read_text(), filename=str(path))
    klass = [n for n in tree.body if isinstance(n, ast.ClassDef) and n.name == "InotifyConstants"]
    if len(klass) != 1:
        raise Refuse("inotify_c.py: expected exactly one class InotifyConstants")
    if klass[0].bases or klass[0].decorator_list or klass[0].keywords:
        refuse(klass[0], "InotifyConstants has bases/decorators")
    env: dict[str, int] = {}
    for st in klass[0].body:
        if isinstance(st, ast.Expr) and isinstance(st.value, ast.Constant) and isinstance(st.value.value, str):
            continue
        if not (isinstance(st, ast.Assign) and len(st.targets) == 1 and isinstance(st.targets[0], ast.Name)):
            refuse(st, "InotifyConstants: statement is not NAME = <constant>")
        name = st.targets[0].id
        if name in env:
            refuse(st, f"InotifyConstants.{name} assigned twice")
        env[name] = const_value(st.value, env)
    for r in REQUIRED:
        if r not in env:
            raise Refuse(f"InotifyConstants.{r} missing")
    # nothing may re-bind the constants after the class body
    for n in ast.walk(tree):
        if isinstance(n, (ast.Assign, ast.AugAssign, ast.AnnAssign)):
            targets = n.targets if isinstance(n, ast.Assign) else [n.target]
            for t in targets:
                if isinstance(t, ast.Attribute) and isinstance(t.value, ast.Name) and t.value.id == "InotifyConstants":
                    refuse(n, "assignment to an InotifyConstants attribute")
        if isinstance(n, ast.Call) and isinstance(n.func, ast.Name) and n.func.id == "setattr":
            refuse(n, "setattr in inotify_c.py")
    # WATCHDOG_ALL_EVENTS
    wae = [n for n in tree.body if isinstance(n, ast.Assign) and len(n.targets) == 1
           and isinstance(n.targets[0], ast.Name) and n.targets[0].id == "WATCHDOG_ALL_EVENTS"]
    if len(wae) != 1:
        raise Refuse("inotify_c.py: expected exactly one module-level WATCHDOG_ALL_EVENTS = ...")
    elts = is_reduce_or(wae[0].value)
    if not elts:
        refuse(wae[0], "WATCHDOG_ALL_EVENTS is not reduce(lambda x, y: x | y, [...])")
    v = 0
    for e in elts:
        if not (isinstance(e, ast.Attribute) and isinstance(e.value, ast.Name) and e.value.id == "InotifyConstants"
                and e.attr in env):
            refuse(e, "WATCHDOG_ALL_EVENTS element is not InotifyConstants.NAME")
        v |= env[e.attr]
    return env, v


# ------------------------------------------------------------------ inotify.py
def is_self_attr(node, *attrs):
    """self.a.b ..."""
    for a in reversed(attrs):
        if not (isinstance(node, ast.Attribute) and node.attr == a):
            return False
        node = node.value
    return isinstance(node, ast.Name) and node.id == "self"


class Tr:
    def __init__(self, consts, imported_events, imports_constants):
        self.consts = consts
        self.imported = imported_events
        self.imports_constants = imports_constants

    def mask(self, node) -> str:
        if isinstance(node, ast.BinOp) and isinstance(node.op, ast.BitOr):
            return f"(N.lor {self.mask(node.left)} {self.mask(node.right)})"
        if (isinstance(node, ast.Attribute) and isinstance(node.value, ast.Name) and node.value.id == "InotifyConstants"
                and node.attr in self.consts):
            if not self.imports_constants:
                refuse(node, "InotifyConstants is not imported from watchdog.observers.inotify_c")
            return node.attr
        refuse(node, "mask expression not understood: " + ast.dump(node)[:120])

    def klass(self, node, concrete_only: bool) -> str:
        if not isinstance(node, ast.Name):
            refuse(node, "event class is not a plain name")
        if node.id not in self.imported:
            refuse(node, f"{node.id} is not imported from watchdog.events")
        if node.id in CONCRETE:
            return CONCRETE[node.id] if concrete_only else f"(Concrete {CONCRETE[node.id]})"
        if node.id in BASES and not concrete_only:
            return BASES[node.id]
        refuse(node, f"unsupported event class {node.id} here")

    def test(self, node) -> str:
        if isinstance(node, ast.BoolOp) and isinstance(node.op, ast.Or):
            return "(" + " || ".join(self.test(v) for v in node.values) + ")"
        if (isinstance(node, ast.Compare) and len(node.ops) == 1 and isinstance(node.left, ast.Name)
                and node.left.id == "cls"):
            op, rhs = node.ops[0], node.comparators[0]
            if isinstance(op, ast.In) and isinstance(rhs, ast.Set) and rhs.elts:
                return "(" + " || ".join(f"evbase_eqb cls {self.klass(e, False)}" for e in rhs.elts) + ")"
            if isinstance(op, ast.Is):
                return f"evbase_eqb cls {self.klass(rhs, False)}"
        if (isinstance(node, ast.Call) and isinstance(node.func, ast.Name) and node.func.id == "issubclass"
                and len(node.args) == 2 and not node.keywords
                and isinstance(node.args[1], ast.Name) and node.args[1].id == "cls"):
            return f"subclass {self.klass(node.args[0], True)} cls"
        refuse(node, "test not understood: " + ast.dump(node)[:160])

    def aug(self, body) -> str:
        if not (len(body) == 1 and isinstance(body[0], ast.AugAssign) and isinstance(body[0].op, ast.BitOr)
                and isinstance(body[0].target, ast.Name) and body[0].target.id == "event_mask"):
            refuse(body[0] if body else None, "branch body is not exactly `event_mask |= MASK`")
        return self.mask(body[0].value)

    def if_chain(self, st) -> str:
        """if T1: |= M1 elif T2: |= M2 ...  ->  if T1 then M1 else if T2 then M2 else 0"""
        if not isinstance(st, ast.If):
            refuse(st, "loop body statement is not an if")
        t, m = self.test(st.test), self.aug(st.body)
        if not st.orelse:
            rest = "0%N"
        elif len(st.orelse) == 1 and isinstance(st.orelse[0], ast.If):
            rest = self.if_chain(st.orelse[0])
        else:
            refuse(st.orelse[0], "else branch in the class chain")
        return f"if {t} then {m}\n    else {rest}"


def read_table(path: Path, consts):
    tree = ast.parse(path.read_text(), filename=str(path))
    imported, imports_constants = set(), False
    for n in tree.body:
        if isinstance(n, ast.ImportFrom) and n.module == "watchdog.events" and n.level == 0:
            for a in n.names:
                if a.asname is not None and a.asname != a.name:
                    refuse(n, "renaming import from watchdog.events")
                imported.add(a.name)
        if isinstance(n, ast.ImportFrom) and n.module == "watchdog.observers.inotify_c" and n.level == 0:
            if any(a.name == "InotifyConstants" and a.asname in (None, "InotifyConstants") for a in n.names):
                imports_constants = True
    # the names must not be re-bound at module level
    for n in tree.body:
        if isinstance(n, (ast.Assign, ast.AnnAssign, ast.AugAssign)):
            targets = n.targets if isinstance(n, ast.Assign) else [n.target]
            for t in targets:
                if isinstance(t, ast.Name) and (t.id in CONCRETE or t.id in BASES or t.id == "InotifyConstants"):
                    refuse(n, f"{t.id} re-bound at module level")
        if isinstance(n, (ast.ClassDef, ast.FunctionDef)) and (n.name in CONCRETE or n.name in BASES
                                                               or n.name == "InotifyConstants"):
            refuse(n, f"{n.name} re-defined at module level")
    defs = [n for n in ast.walk(tree) if isinstance(n, (ast.FunctionDef, ast.AsyncFunctionDef))
            and n.name == "get_event_mask_from_filter"]
    if len(defs) != 1:
        raise Refuse(f"inotify.py: {len(defs)} definitions of get_event_mask_from_filter (expected 1)")
    emitter = [n for n in tree.body if isinstance(n, ast.ClassDef) and n.name == "InotifyEmitter"]
    if len(emitter) != 1 or defs[0] not in emitter[0].body:
        raise Refuse("get_event_mask_from_filter is not a method of class InotifyEmitter")
    fn = defs[0]
    if not isinstance(fn, ast.FunctionDef) or fn.decorator_list or [a.arg for a in fn.args.args] != ["self"] \
            or fn.args.vararg or fn.args.kwarg or fn.args.kwonlyargs:
        refuse(fn, "signature is not get_event_mask_from_filter(self)")
    # every other reference to the method must be a plain call self.get_event_mask_from_filter()
    for n in ast.walk(tree):
        if isinstance(n, ast.Attribute) and n.attr == "get_event_mask_from_filter":
            if not (isinstance(n.value, ast.Name) and n.value.id == "self"):
                refuse(n, "get_event_mask_from_filter referenced other than as self.get_event_mask_from_filter")
        if isinstance(n, ast.Constant) and n.value == "get_event_mask_from_filter":
            refuse(n, "get_event_mask_from_filter referenced by name string")
    body = list(fn.body)
    if body and isinstance(body[0], ast.Expr) and isinstance(body[0].value, ast.Constant) \
            and isinstance(body[0].value.value, str):
        body = body[1:]
    tr = Tr(consts, imported, imports_constants)
    # 1. if self._event_filter is None: return None
    st = body.pop(0) if body else None
    if not (isinstance(st, ast.If) and not st.orelse and isinstance(st.test, ast.Compare) and len(st.test.ops) == 1
            and isinstance(st.test.ops[0], ast.Is) and is_self_attr(st.test.left, "_event_filter")
            and isinstance(st.test.comparators[0], ast.Constant) and st.test.comparators[0].value is None
            and len(st.body) == 1 and isinstance(st.body[0], ast.Return)
            and isinstance(st.body[0].value, ast.Constant) and st.body[0].value.value is None):
        refuse(st or fn, "expected `if self._event_filter is None: return None`")
    # 2. event_mask = MASK
    st = body.pop(0) if body else None
    if not (isinstance(st, ast.Assign) and len(st.targets) == 1 and isinstance(st.targets[0], ast.Name)
            and st.targets[0].id == "event_mask"):
        refuse(st or fn, "expected `event_mask = MASK`")
    init = tr.mask(st.value)
    # 3. optional: if self.watch.is_recursive: event_mask |= MASK
    rec_extra = "0%N"
    if body and isinstance(body[0], ast.If):
        st = body.pop(0)
        if not (is_self_attr(st.test, "watch", "is_recursive") and not st.orelse):
            refuse(st, "expected `if self.watch.is_recursive:` without else")
        rec_extra = tr.aug(st.body)
    # 4. for cls in self._event_filter:
    st = body.pop(0) if body else None
    if not (isinstance(st, ast.For) and isinstance(st.target, ast.Name) and st.target.id == "cls"
            and is_self_attr(st.iter, "_event_filter") and not st.orelse and st.body):
        refuse(st or fn, "expected `for cls in self._event_filter:`")
    chains = [tr.if_chain(s) for s in st.body]
    # 5. return event_mask
    st = body.pop(0) if body else None
    if not (isinstance(st, ast.Return) and isinstance(st.value, ast.Name) and st.value.id == "event_mask") or body:
        refuse(st or fn, "expected `return event_mask` as the last statement")
    return init, rec_extra, chains


def render(consts, wae, init, rec_extra, chains, src_c: Path, src_t: Path) -> str:
    out = []
    out.append("(* GENERATED on every run by harness/translate/gen_masktable.py from the Python AST of")
    out.append(f"     {src_t.name}: InotifyEmitter.get_event_mask_from_filter")
    out.append(f"     {src_c.name}: class InotifyConstants, WATCHDOG_ALL_EVENTS")
    out.append("   of the watchdog checkout under test.  Do not edit; not under version control. *)")
    out.append("Require Import WD.Base.Prelude WD.Model.Emitter.")
    out.append("")
    out.append("Module Gen.")
    for name in sorted(consts, key=lambda k: (consts[k], k)):
        out.append(f"Definition {name} : N := {consts[name]}%N.")
    out.append(f"Definition WATCHDOG_ALL_EVENTS : N := {wae}%N.")
    out.append("")
    out.append("(* event_mask = ... *)")
    out.append(f"Definition init : N := {init}.")
    out.append("(* if self.watch.is_recursive: event_mask |= ...   (0: the source has no such statement) *)")
    out.append(f"Definition rec_extra : N := {rec_extra}.")
    out.append("")
    out.append("(* what one iteration of `for cls in self._event_filter` ors into event_mask *)")
    out.append("Definition mask1 (cls : evbase) : N :=")
    for i, c in enumerate(chains):
        out.append(f"  N.lor ({c})")
        out.append("  (")
    out.append("  0%N" + ")" * len(chains) + ".")
    out.append("")
    out.append("Definition init_mask (recursive : bool) : N := if recursive then N.lor init rec_extra else init.")
    out.append("")
    out.append("Definition mask_of_filter_gen (recursive : bool) (F : option (list evbase)) : option N :=")
    out.append("  match F with")
    out.append("  | None => None")
    out.append("  | Some l => Some (fold_left (fun m cls => N.lor m (mask1 cls)) l (init_mask recursive))")
    out.append("  end.")
    out.append("End Gen.")
    return "\n".join(out) + "\n"


def main() -> int:
    src_c = REPO / "src" / "watchdog" / "observers" / "inotify_c.py"
    src_t = REPO / "src" / "watchdog" / "observers" / "inotify.py"
    try:
        consts, wae = read_constants(src_c)
        init, rec_extra, chains = read_table(src_t, consts)
        text = render(consts, wae, init, rec_extra, chains, src_c, src_t)
    except (Refuse, OSError, SyntaxError) as e:
        print(f"gen_masktable: REFUSED ({src_t}): {e}", file=sys.stderr)
        # fail closed: a stale table must not satisfy the proofs - leave a file that cannot compile
        OUT.parent.mkdir(exist_ok=True)
        msg = str(e).replace("*)", "* )").replace("(*", "( *")
        OUT.write_text(f"(* gen_masktable REFUSED the source: {msg} *)\n"
                       "Require Import WD.Gen.SOURCE_SHAPE_NOT_UNDERSTOOD_BY_gen_masktable.\n")
        for ext in (".vo", ".vos", ".vok", ".glob"):
            try:
                OUT.with_suffix(ext).unlink()
            except FileNotFoundError:
                pass
        return 2
    OUT.parent.mkdir(exist_ok=True)
    if not OUT.exists() or OUT.read_text() != text:
        OUT.write_text(text)
        print(f"gen_masktable: wrote {OUT} from {src_t}")
    else:
        print(f"gen_masktable: {OUT} up to date with {src_t}")
    return 0


if __name__ == "__main__":
    sys.exit(main())
