(* Bridging lemmas for the repair of F10 (Reader.v: settle_pending / forget_tree / pend): when no directory IN_MOVED_FROM
   is pending, or the repair is switched off, one loop iteration is the old loop body. *)
Require Import WD.Base.Prelude WD.Base.BStr WD.Model.SubEvents WD.Model.Emitter WD.Model.Fs WD.Model.Reader.
Local Open Scope N_scope.

Section Fix.
  Variable C : cfg.

  Lemma settle_pending_none r k e : pend r = None -> settle_pending C r k e = (r, k).
  Proof. intros H. unfold settle_pending. rewrite H. destruct (c_fix_moveout C); reflexivity. Qed.

  Lemma settle_pending_off r k e : c_fix_moveout C = false -> settle_pending C r k e = (r, k).
  Proof. intros H. unfold settle_pending. now rewrite H. Qed.

  (* the matching IN_MOVED_TO arrives in a directory the reader watches: the candidate is dropped, nothing else changes *)
  Lemma settle_pending_match r k e c p :
    c_fix_moveout C = true -> pend r = Some (c, p) -> is_moved_to (k_mask e) = true -> k_cookie e = c ->
    amem N.eqb (k_wd e) (pfw r) = true ->
    settle_pending C r k e = ({| wfp := wfp r; pfw := pfw r; mvf := mvf r; calls := calls r; pend := None |}, k).
  Proof. intros Hf Hp Hm Hc Hw. unfold settle_pending. rewrite Hf, Hp, Hm, Hc, N.eqb_refl, Hw. reflexivity. Qed.

  (* anything else arrives (also: the second half through a descriptor the reader has forgotten): the directory has left *)
  Lemma settle_pending_forget r k e c p :
    c_fix_moveout C = true -> pend r = Some (c, p) ->
    is_moved_to (k_mask e) && N.eqb (k_cookie e) c && amem N.eqb (k_wd e) (pfw r) = false ->
    settle_pending C r k e =
    forget_tree (wfp r) p {| wfp := wfp r; pfw := pfw r; mvf := mvf r; calls := calls r; pend := None |} k.
  Proof. intros Hf Hp Hm. unfold settle_pending. rewrite Hf, Hp, Hm. reflexivity. Qed.

  Lemma read_one_body_eq t r k acc e : pend r = None -> read_one C t (r, k, acc) e = read_one_body C t (r, k, acc) e.
  Proof. intros H. unfold read_one. now rewrite settle_pending_none. Qed.

  Lemma read_one_body_off t r k acc e : c_fix_moveout C = false -> read_one C t (r, k, acc) e = read_one_body C t (r, k, acc) e.
  Proof. intros H. unfold read_one. now rewrite settle_pending_off. Qed.

  (* forget_tree only removes: what survives was there before *)
  Lemma forget_tree_sub keys p : forall r k r' k',
    forget_tree keys p r k = (r', k') ->
    (forall q wd, alookup beqb q (wfp r') = Some wd -> alookup beqb q (wfp r) = Some wd) /\
    mvf r' = mvf r /\ calls r' = calls r /\ pend r' = pend r.
  Proof.
    induction keys as [|[q x] keys IH]; simpl; intros r k r' k' H.
    - inversion H; subst. repeat split; auto.
    - destruct (beqb q p || starts (p ++ [sep]) q); [|eauto].
      destruct (alookup beqb q (wfp r)) as [wd|] eqn:E; [|eauto].
      assert (Hsub : forall q0 w0, alookup beqb q0 (aremove beqb q (wfp r)) = Some w0 -> alookup beqb q0 (wfp r) = Some w0).
      { clear. intros q0 w0. induction (wfp r) as [|[a b] l IHl]; simpl; [discriminate|].
        destruct (beqb q a) eqn:Ea; simpl.
        - intros H. destruct (beqb q0 a) eqn:E0; [|auto].
          exfalso. apply beqb_eq in Ea, E0. subst. clear IHl. induction l as [|[a' b'] l IHl]; simpl in H; [discriminate|].
          destruct (beqb a a') eqn:E1; simpl in H; [auto|]. rewrite E1 in H. auto.
        - destruct (beqb q0 a); auto. }
      destruct (alookup N.eqb wd (pfw r)) as [q'|].
      + destruct (beqb q' q); apply IH in H; simpl in H; destruct H as (H1 & H2 & H3 & H4); repeat split; auto.
      + apply IH in H. simpl in H. destruct H as (H1 & H2 & H3 & H4). repeat split; auto.
  Qed.
  (* ---- repair F10e: unlabel only removes one key *)
  Lemma aremove_sub (q0 : bytes) (l : list (bytes * N)) q w :
    alookup beqb q (aremove beqb q0 l) = Some w -> alookup beqb q l = Some w.
  Proof.
    induction l as [|[a b] l IHl]; simpl; [discriminate|].
    destruct (beqb q0 a) eqn:Ea; simpl.
    - intros H. destruct (beqb q a) eqn:E0; [|auto].
      exfalso. apply beqb_eq in Ea, E0. subst. clear IHl. induction l as [|[a' b'] l IHl]; simpl in H; [discriminate|].
      destruct (beqb a a') eqn:E1; simpl in H; [auto|]. rewrite E1 in H. auto.
    - destruct (beqb q a); auto.
  Qed.

  Lemma aremove_in (q0 : bytes) (l : list (bytes * N)) x : In x (aremove beqb q0 l) -> In x l.
  Proof.
    induction l as [|[a b] l IHl]; simpl; [auto|]. destruct (beqb q0 a); simpl; [auto|]. intros [H|H]; auto.
  Qed.

  Lemma unlabel_off r wd p : c_fix_relabel C = false -> unlabel C r wd p = wfp r.
  Proof. intros H. unfold unlabel. now rewrite H. Qed.

  Lemma unlabel_sub r wd p q w : alookup beqb q (unlabel C r wd p) = Some w -> alookup beqb q (wfp r) = Some w.
  Proof.
    unfold unlabel. destruct (c_fix_relabel C); [|auto].
    destruct (alookup N.eqb wd (pfw r)) as [known|]; [|auto].
    destruct (negb (beqb known p) && _); [apply aremove_sub | auto].
  Qed.

  Lemma unlabel_in r wd p x : In x (unlabel C r wd p) -> In x (wfp r).
  Proof.
    unfold unlabel. destruct (c_fix_relabel C); [|auto].
    destruct (alookup N.eqb wd (pfw r)) as [known|]; [|auto].
    destruct (negb (beqb known p) && _); [apply aremove_in | auto].
  Qed.

  (* nothing to forget: the descriptor is new, or already recorded under this very path, or its old key points elsewhere *)
  Lemma unlabel_fresh r wd p : alookup N.eqb wd (pfw r) = None -> unlabel C r wd p = wfp r.
  Proof. intros H. unfold unlabel. rewrite H. now destruct (c_fix_relabel C). Qed.

  Lemma unlabel_same r wd p : alookup N.eqb wd (pfw r) = Some p -> unlabel C r wd p = wfp r.
  Proof. intros H. unfold unlabel. rewrite H, beqb_refl. now destruct (c_fix_relabel C). Qed.

  (* the only change: the stale key itself disappears *)
  Lemma unlabel_other r wd p q known :
    alookup N.eqb wd (pfw r) = Some known -> q <> known -> alookup beqb q (unlabel C r wd p) = alookup beqb q (wfp r).
  Proof.
    intros H Hq. unfold unlabel. rewrite H. destruct (c_fix_relabel C); [|reflexivity].
    destruct (negb (beqb known p) && _); [|reflexivity].
    clear H. induction (wfp r) as [|[a b] l IHl]; simpl; [reflexivity|].
    destruct (beqb known a) eqn:Ea; simpl.
    - apply beqb_eq in Ea. subst a. destruct (beqb q known) eqn:E; [apply beqb_eq in E; contradiction | exact IHl].
    - destruct (beqb q a); [reflexivity | exact IHl].
  Qed.
End Fix.
