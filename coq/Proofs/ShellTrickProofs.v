(* ShellCommandTrick: with wait_for_process or drop_during_process commands never overlap. *)
Require Import WD.Base.Prelude WD.Base.Lts WD.Model.ShellTrick.

Lemma count_alive_snoc l : count_alive (l ++ [true]) = S (count_alive l).
Proof. unfold count_alive. rewrite filter_app, app_length. simpl. lia. Qed.

Lemma count_alive_kill : forall i l, nth i l false = true ->
  S (count_alive (set_nth i false l)) = count_alive l.
Proof.
  unfold count_alive. induction i as [|i IH]; intros [|b l] H; simpl in *; try discriminate.
  - subst. simpl. reflexivity.
  - destruct b; simpl; rewrite <- (IH l H); reflexivity.
Qed.

Lemma nth_snoc_old : forall (l : list bool) p, nth p l false = true -> nth p (l ++ [true]) false = true.
Proof.
  intros l p H. destruct (Nat.lt_ge_cases p (length l)) as [L|L].
  - rewrite app_nth1; assumption.
  - rewrite nth_overflow in H; [discriminate | assumption].
Qed.

Lemma nth_snoc_new (l : list bool) : nth (length l) (l ++ [true]) false = true.
Proof. rewrite app_nth2, Nat.sub_diag; [reflexivity | lia]. Qed.

Section Opt.
  Variable wt dr : bool.
  Hypothesis opt : (wt || dr)%bool = true.
  Notation M := (shell_lts wt dr).

  Definition inv (s : state) : Prop :=
    (alive_children s = 0%nat \/
     (alive_children s = 1%nat /\ exists p, process s = Some p /\ child_alive s p = true)) /\
    (wt = true -> dpc s = None -> alive_children s = 0%nat) /\
    (forall c, dpc s = Some c -> process s = Some c) /\
    (max_alive s <= 1)%nat.

  Lemma inv_step s l s' : inv s -> sh_step wt dr s l = Some s' -> inv s'.
  Proof.
    unfold inv, alive_children, child_alive. intros (I1 & I2 & I4 & I3) H.
    destruct s as [ch pr ws dp ma st drp]. destruct l as [| |i|i]; unfold sh_step, child_alive in H; simpl in *.
    - (* Event *)
      destruct dp; [discriminate|].
      assert (Z : (dr && running (mk ch pr ws None ma st drp) = false)%bool -> count_alive ch = 0%nat).
      { intros E. destruct wt eqn:W; [apply I2; reflexivity|]. simpl in opt. subst dr. simpl in E.
        unfold running in E. apply orb_false_iff in E as [_ E]. simpl in E.
        destruct I1 as [I1 | (I1 & p & Hp & Ha)]; [exact I1|]. subst pr. unfold child_alive in E. simpl in E. congruence. }
      destruct (dr && running _)%bool eqn:E; inversion H; subst; clear H; simpl.
      + repeat split; auto.
      + specialize (Z eq_refl). rewrite count_alive_snoc, Z. repeat split.
        * right. split; [reflexivity|]. exists (length ch). split; [reflexivity | apply nth_snoc_new].
        * intros W. rewrite W. discriminate.
        * intros c. destruct wt; intros X; inversion X; reflexivity.
        * lia.
    - (* DStep *)
      destruct dp as [c|]; [|discriminate]. destruct (nth c ch false) eqn:A; [discriminate|].
      inversion H; subst; clear H; simpl. repeat split; auto; try discriminate.
      intros W _. destruct I1 as [I1 | (I1 & p & Hp & Ha)]; [exact I1|].
      rewrite (I4 c eq_refl) in Hp. inversion Hp; subst. congruence.
    - (* WStep *)
      destruct (nth_error ws i) as [[c [|]]|]; try discriminate.
      destruct (nth c ch false); [discriminate|]. inversion H; subst; clear H; simpl. repeat split; auto.
    - (* Exit *)
      destruct (nth i ch false) eqn:A; [|discriminate]. inversion H; subst; clear H; simpl.
      pose proof (count_alive_kill i ch A) as K.
      destruct I1 as [I1 | (I1 & p & Hp & Ha)]; [lia|].
      repeat split; auto; try (left; lia); intros; lia.
  Qed.

  Lemma inv_init : inv init_state.
  Proof. unfold inv; simpl. repeat split; auto; discriminate. Qed.

  Lemma shell_no_overlap tr s : run M init_state tr = Some s ->
    (alive_children s <= 1)%nat /\ (max_alive s <= 1)%nat.
  Proof.
    intros H. assert (I : inv s).
    { apply (invariant_reachable M inv inv_init inv_step). exists tr. exact H. }
    destruct I as ([I | (I & _)] & _ & _ & I3); split; lia.
  Qed.
End Opt.

(* without either option commands do overlap *)
Lemma shell_overlap_without_options : exists tr s,
  run (shell_lts false false) init_state tr = Some s /\ alive_children s = 2%nat.
Proof. exists [Event; Event]. eexists. vm_compute. repeat split. Qed.
