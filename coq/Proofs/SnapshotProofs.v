(* Proofs about the model of DirectorySnapshotDiff (Model/Snapshot.v); used by Props/C09.v.
   Layout: 1 generic list lemmas - 2 the two dictionaries - 3 stages of [diff] and its inversion -
   4 raw (wf-free) membership characterisations - 5 kinds / nodup / total / self / ignore_device /
   swap - 6 the theorems under [wf]. *)
Require Import WD.Base.Prelude WD.Model.Snapshot.

(* ------------------------------------------------------------------------------------------ *)
(** * 1. Generic lemmas *)

Section Eqb.
  Context {A : Type} (eqb : A -> A -> bool).
  Hypothesis eqb_spec : forall a b, eqb a b = true <-> a = b.

  Lemma existsb_eqb x l : existsb (eqb x) l = true <-> In x l.
  Proof.
    rewrite existsb_exists. split.
    - intros [y [Hy E]]. apply eqb_spec in E. subst. exact Hy.
    - intros H. exists x. split; [exact H | now apply eqb_spec].
  Qed.

  Lemma existsb_eqb_false x l : existsb (eqb x) l = false <-> ~ In x l.
  Proof.
    rewrite <- existsb_eqb. destruct (existsb (eqb x) l); split; intros H; congruence.
  Qed.

  Lemma dedup_in x l : In x (dedup eqb l) <-> In x l.
  Proof.
    induction l as [|a l IH]; simpl; [tauto|].
    destruct (existsb (eqb a) l) eqn:E.
    - apply existsb_eqb in E. rewrite IH. split; [tauto|]. intros [->|H]; assumption.
    - simpl. rewrite IH. tauto.
  Qed.

  Lemma dedup_nodup l : NoDup (dedup eqb l).
  Proof.
    induction l as [|a l IH]; simpl; [constructor|].
    destruct (existsb (eqb a) l) eqn:E; [exact IH|].
    apply existsb_eqb_false in E. constructor; [|exact IH]. now rewrite dedup_in.
  Qed.

  Lemma dedup_nil : dedup eqb [] = [].
  Proof. reflexivity. Qed.

  Lemma nodupb_nodup l : nodupb eqb l = true -> NoDup l.
  Proof.
    induction l as [|a l IH]; simpl; intros H; [constructor|].
    apply andb_true_iff in H as [H1 H2]. apply negb_true_iff in H1.
    apply existsb_eqb_false in H1. constructor; auto.
  Qed.

  Lemma in_dec_eqb x (l : list A) : In x l \/ ~ In x l.
  Proof.
    destruct (existsb (eqb x) l) eqn:E; [left; now apply existsb_eqb | right; now apply existsb_eqb_false].
  Qed.
End Eqb.

Lemma ppeqb_eq a b : ppeqb a b = true <-> a = b.
Proof.
  unfold ppeqb. destruct a as [a1 a2], b as [b1 b2]. simpl.
  rewrite andb_true_iff, !beqb_eq. split; [intros [-> ->]; reflexivity | intros H; inversion H; auto].
Qed.

Lemma ieqb_eq a b : ieqb a b = true <-> a = b.
Proof.
  unfold ieqb. destruct a as [a1 a2], b as [b1 b2]. simpl.
  rewrite andb_true_iff, !N.eqb_eq. split; [intros [-> ->]; reflexivity | intros H; inversion H; auto].
Qed.

Lemma gkeqb_eq a b : gkeqb a b = true <-> a = b.
Proof.
  unfold gkeqb. destruct a as [a1 [a2|]], b as [b1 [b2|]]; simpl;
    rewrite andb_true_iff, ?N.eqb_eq; split; intros H.
  - destruct H as [-> ->]. reflexivity.
  - inversion H; auto.
  - destruct H as [_ H]. discriminate.
  - discriminate.
  - destruct H as [_ H]. discriminate.
  - discriminate.
  - destruct H as [-> _]. reflexivity.
  - inversion H; auto.
Qed.

Lemma gkeqb_refl a : gkeqb a a = true.
Proof. now apply gkeqb_eq. Qed.

Lemma gkeqb_sym a b : gkeqb a b = gkeqb b a.
Proof.
  destruct (gkeqb a b) eqn:E1, (gkeqb b a) eqn:E2; try reflexivity.
  - apply gkeqb_eq in E1. subst. rewrite gkeqb_refl in E2. discriminate.
  - apply gkeqb_eq in E2. subst. rewrite gkeqb_refl in E1. discriminate.
Qed.

Lemma pmem_in p l : pmem p l = true <-> In p l.
Proof. apply (existsb_eqb beqb beqb_eq). Qed.

Lemma pmem_not_in p l : pmem p l = false <-> ~ In p l.
Proof. apply (existsb_eqb_false beqb beqb_eq). Qed.

Lemma ppmem_in p l : ppmem p l = true <-> In p l.
Proof. apply (existsb_eqb ppeqb ppeqb_eq). Qed.

Lemma ppmem_not_in p l : ppmem p l = false <-> ~ In p l.
Proof. apply (existsb_eqb_false ppeqb ppeqb_eq). Qed.

Lemma inode_eq_dec (a b : inode) : a = b \/ a <> b.
Proof.
  destruct (ieqb a b) eqn:E; [left; now apply ieqb_eq|].
  right. intros H. apply ieqb_eq in H. congruence.
Qed.

Lemma path_eq_dec (a b : path) : a = b \/ a <> b.
Proof. destruct (bytes_eq_dec a b); auto. Qed.

Lemma minus_in p a b : In p (minus a b) <-> In p a /\ ~ In p b.
Proof.
  unfold minus. rewrite filter_In, negb_true_iff, pmem_not_in. tauto.
Qed.

Lemma filter_nil {A} (f : A -> bool) l : (forall x, In x l -> f x = false) -> filter f l = [].
Proof.
  induction l as [|a l IH]; simpl; intros H; [reflexivity|].
  rewrite (H a) by auto. apply IH. intros x Hx. apply H. auto.
Qed.

Lemma filter_all {A} (f : A -> bool) l : (forall x, In x l -> f x = true) -> filter f l = l.
Proof.
  induction l as [|a l IH]; simpl; intros H; [reflexivity|].
  rewrite (H a) by auto. f_equal. apply IH. intros x Hx. apply H. auto.
Qed.

Lemma NoDup_map_inj {A B} (f : A -> B) l x y :
  NoDup (map f l) -> In x l -> In y l -> f x = f y -> x = y.
Proof.
  induction l as [|a l IH]; simpl; intros Hn Hx Hy E; [contradiction|].
  inversion Hn as [|? ? Hna Hn']; subst.
  destruct Hx as [->|Hx], Hy as [->|Hy]; auto.
  - exfalso. apply Hna. rewrite E. now apply in_map.
  - exfalso. apply Hna. rewrite <- E. now apply in_map.
Qed.

(** filterM *)
Lemma filterM_in {A} (f : A -> option bool) l l' :
  filterM f l = Some l' -> forall x, In x l' <-> In x l /\ f x = Some true.
Proof.
  revert l'. induction l as [|a l IH]; simpl; intros l' H x.
  - inversion H; subst. simpl. tauto.
  - destruct (f a) as [b|] eqn:Fa; [|discriminate].
    destruct (filterM f l) as [ys|] eqn:E; [|discriminate].
    inversion H; subst; clear H. specialize (IH ys eq_refl x).
    destruct b; simpl; rewrite IH; split.
    + intros [->|[H1 H2]]; auto.
    + intros [[->|H1] H2]; auto.
    + intros [H1 H2]; auto.
    + intros [[->|H1] H2]; [congruence | auto].
Qed.

Lemma filterM_defined {A} (f : A -> option bool) l l' :
  filterM f l = Some l' -> forall x, In x l -> exists b, f x = Some b.
Proof.
  revert l'. induction l as [|a l IH]; simpl; intros l' H x Hx; [contradiction|].
  destruct (f a) as [b|] eqn:Fa; [|discriminate].
  destruct (filterM f l) as [ys|] eqn:E; [|discriminate].
  destruct Hx as [->|Hx]; [eauto | eapply IH; eauto].
Qed.

Lemma filterM_total {A} (f : A -> option bool) l :
  (forall x, In x l -> exists b, f x = Some b) -> exists l', filterM f l = Some l'.
Proof.
  induction l as [|a l IH]; simpl; intros H; [eauto|].
  destruct (H a) as [b Hb]; auto. rewrite Hb.
  destruct IH as [ys Hys]; [intros x Hx; apply H; auto|]. rewrite Hys. eauto.
Qed.

Lemma filterM_nodup {A} (f : A -> option bool) l l' :
  NoDup l -> filterM f l = Some l' -> NoDup l'.
Proof.
  revert l'. induction l as [|a l IH]; simpl; intros l' Hn H.
  - inversion H; constructor.
  - destruct (f a) as [b|] eqn:Fa; [|discriminate].
    destruct (filterM f l) as [ys|] eqn:E; [|discriminate].
    inversion Hn as [|? ? Hna Hn']; subst. inversion H; subst; clear H.
    specialize (IH ys Hn' eq_refl). destruct b; [|exact IH].
    constructor; [|exact IH]. intros Hin. apply (filterM_in _ _ _ E) in Hin. tauto.
Qed.

Lemma filterM_nil {A} (f : A -> option bool) l :
  (forall x, In x l -> f x = Some false) -> filterM f l = Some [].
Proof.
  induction l as [|a l IH]; simpl; intros H; [reflexivity|].
  rewrite (H a) by auto. rewrite IH; [reflexivity|]. intros x Hx. apply H. auto.
Qed.

(** mapM *)
Lemma mapM_in {A B} (f : A -> option B) l l' :
  mapM f l = Some l' -> forall y, In y l' <-> exists x, In x l /\ f x = Some y.
Proof.
  revert l'. induction l as [|a l IH]; simpl; intros l' H y.
  - inversion H; subst. simpl. split; [tauto | intros [x [[] _]]].
  - destruct (f a) as [b|] eqn:Fa; [|discriminate].
    destruct (mapM f l) as [ys|] eqn:E; [|discriminate].
    inversion H; subst; clear H. specialize (IH ys eq_refl y). simpl. rewrite IH. split.
    + intros [->|[x [H1 H2]]]; eauto.
    + intros [x [[->|H1] H2]]; [left; congruence | eauto].
Qed.

Lemma mapM_total {A B} (f : A -> option B) l :
  (forall x, In x l -> exists y, f x = Some y) -> exists l', mapM f l = Some l'.
Proof.
  induction l as [|a l IH]; simpl; intros H; [eauto|].
  destruct (H a) as [b Hb]; auto. rewrite Hb.
  destruct IH as [ys Hys]; [intros x Hx; apply H; auto|]. rewrite Hys. eauto.
Qed.

Lemma mapM_map {A B C} (f : A -> option B) (g : B -> C) (h : A -> C) l l' :
  (forall x y, f x = Some y -> g y = h x) -> mapM f l = Some l' -> map g l' = map h l.
Proof.
  intros Hg. revert l'. induction l as [|a l IH]; simpl; intros l' H.
  - inversion H; reflexivity.
  - destruct (f a) as [b|] eqn:Fa; [|discriminate].
    destruct (mapM f l) as [ys|] eqn:E; [|discriminate].
    inversion H; subst; clear H. simpl. f_equal; auto.
Qed.

(** stays / moves *)
Lemma stays_in t p : In p (stays t) <-> In (p, None) t.
Proof.
  unfold stays. rewrite in_flat_map. split.
  - intros [[a [b|]] [H1 H2]]; simpl in H2; [contradiction|]. destruct H2 as [->|[]]. exact H1.
  - intros H. exists (p, None). split; [exact H | simpl; auto].
Qed.

Lemma moves_fwd_in t a b : In (a, b) (moves_fwd t) <-> In (a, Some b) t.
Proof.
  unfold moves_fwd. rewrite in_flat_map. split.
  - intros [[x [y|]] [H1 H2]]; simpl in H2; [|contradiction].
    destruct H2 as [H2|[]]. inversion H2; subst. exact H1.
  - intros H. exists (a, Some b). split; [exact H | simpl; auto].
Qed.

Lemma moves_bwd_in t a b : In (a, b) (moves_bwd t) <-> In (b, Some a) t.
Proof.
  unfold moves_bwd. rewrite in_flat_map. split.
  - intros [[x [y|]] [H1 H2]]; simpl in H2; [|contradiction].
    destruct H2 as [H2|[]]. inversion H2; subst. exact H1.
  - intros H. exists (b, Some a). split; [exact H | simpl; auto].
Qed.

Lemma stays_nodup t : NoDup (map fst t) -> NoDup (stays t).
Proof.
  induction t as [|[a o] t IH]; simpl; intros H; [constructor|].
  inversion H as [|? ? Hna Hn']; subst. specialize (IH Hn').
  destruct o; simpl; [exact IH|]. constructor; [|exact IH].
  intros Hin. apply Hna. apply stays_in in Hin. apply (in_map fst) in Hin. exact Hin.
Qed.

(* ------------------------------------------------------------------------------------------ *)
(** * 2. The two dictionaries: [lookup] and [path_of] *)

Lemma in_paths p s : In p (paths s) <-> In p (keys s).
Proof. apply (dedup_in beqb beqb_eq). Qed.

Lemma paths_nodup s : NoDup (paths s).
Proof. apply (dedup_nodup beqb beqb_eq). Qed.

Lemma lookup_in p s st : lookup p s = Some st -> In (p, st) s.
Proof.
  induction s as [|[q x] s IH]; simpl; [discriminate|].
  destruct (lookup p s) as [y|] eqn:E.
  - intros H. inversion H; subst. right. now apply IH.
  - destruct (beqb p q) eqn:B; [|discriminate]. apply beqb_eq in B. subst.
    intros H. inversion H; subst. now left.
Qed.

Lemma lookup_none p s : lookup p s = None <-> ~ In p (keys s).
Proof.
  induction s as [|[q x] s IH]; simpl; [tauto|].
  destruct (lookup p s) as [y|] eqn:E.
  - split; [discriminate|]. intros H. exfalso. destruct IH as [_ IH].
    assert (Some y = None) by (apply IH; tauto). discriminate.
  - destruct (beqb p q) eqn:B.
    + apply beqb_eq in B. subst. split; [discriminate | tauto].
    + apply beqb_neq in B. split; [|reflexivity]. intros _ [H|H]; [congruence|].
      destruct IH as [IH _]. now apply IH.
Qed.

Lemma lookup_some p s : In p (keys s) <-> exists st, lookup p s = Some st.
Proof.
  destruct (lookup p s) as [st|] eqn:E.
  - split; [eauto|]. intros _. apply lookup_in in E. apply (in_map fst) in E. exact E.
  - apply lookup_none in E. split; [contradiction | intros [st H]; discriminate].
Qed.

Lemma lookup_nodup p st s : NoDup (keys s) -> In (p, st) s -> lookup p s = Some st.
Proof.
  intros Hn Hin. destruct (lookup p s) as [x|] eqn:E.
  - apply lookup_in in E.
    assert (H := NoDup_map_inj fst s (p, st) (p, x) Hn Hin E eq_refl). congruence.
  - apply lookup_none in E. exfalso. apply E. apply (in_map fst) in Hin. exact Hin.
Qed.

Lemma in_paths_lookup p s : In p (paths s) <-> exists st, lookup p s = Some st.
Proof. rewrite in_paths. apply lookup_some. Qed.

Lemma path_of_in i s p : path_of i s = Some p -> exists st, In (p, st) s /\ inode_of st = i.
Proof.
  induction s as [|[q x] s IH]; simpl; [discriminate|].
  destruct (path_of i s) as [y|] eqn:E.
  - intros H. inversion H; subst. destruct (IH eq_refl) as [st [H1 H2]]. eauto.
  - destruct (ieqb i (inode_of x)) eqn:B; [|discriminate]. apply ieqb_eq in B.
    intros H. inversion H; subst. eauto.
Qed.

Lemma path_of_none i s : path_of i s = None <-> ~ In i (inodes s).
Proof.
  induction s as [|[q x] s IH]; simpl; [tauto|].
  destruct (path_of i s) as [y|] eqn:E.
  - split; [discriminate|]. intros H. exfalso. destruct IH as [_ IH].
    assert (Some y = None) by (apply IH; tauto). discriminate.
  - destruct (ieqb i (inode_of x)) eqn:B.
    + apply ieqb_eq in B. split; [discriminate|]. intros H. exfalso. apply H. left. congruence.
    + split; [|reflexivity]. intros _ [H|H].
      * symmetry in H. apply ieqb_eq in H. congruence.
      * destruct IH as [IH _]. now apply IH.
Qed.

Lemma path_of_nodup p st s : NoDup (inodes s) -> In (p, st) s -> path_of (inode_of st) s = Some p.
Proof.
  intros Hn Hin. destruct (path_of (inode_of st) s) as [x|] eqn:E.
  - apply path_of_in in E as [st' [H1 H2]].
    assert (H := NoDup_map_inj (fun e => inode_of (snd e)) s (p, st) (x, st') Hn Hin H1).
    simpl in H. symmetry in H2. specialize (H H2). congruence.
  - apply path_of_none in E. exfalso. apply E.
    apply (in_map (fun e => inode_of (snd e))) in Hin. exact Hin.
Qed.

Lemma truthy_some o p : truthy o = Some p -> o = Some p.
Proof. destruct o as [[|c q]|]; simpl; intros H; inversion H; reflexivity. Qed.

Lemma truthy_id i s : ~ In [] (keys s) -> truthy (path_of i s) = path_of i s.
Proof.
  intros Hne. destruct (path_of i s) as [[|c q]|] eqn:E; try reflexivity.
  exfalso. apply Hne. apply path_of_in in E as [st [H _]]. apply (in_map fst) in H. exact H.
Qed.

(** [inode_at] / [isdir_at] / [get_inode] in terms of [lookup] *)
Lemma inode_at_some s p i : inode_at s p = Some i <-> exists st, lookup p s = Some st /\ inode_of st = i.
Proof.
  unfold inode_at. destruct (lookup p s) as [st|]; simpl; split.
  - intros H. inversion H. eauto.
  - intros [x [H1 H2]]. congruence.
  - discriminate.
  - intros [x [H1 H2]]. discriminate.
Qed.

Lemma in_paths_inode p s : In p (paths s) <-> exists i, inode_at s p = Some i.
Proof.
  rewrite in_paths_lookup. unfold inode_at. destruct (lookup p s); simpl; split; eauto;
    intros [x H]; discriminate.
Qed.

Lemma in_paths_isdir p s : In p (paths s) <-> exists b, isdir_at s p = Some b.
Proof.
  rewrite in_paths_lookup. unfold isdir_at. destruct (lookup p s); simpl; split; eauto;
    intros [x H]; discriminate.
Qed.

Lemma inode_at_in_inodes s p i : inode_at s p = Some i -> In i (inodes s).
Proof.
  intros H. apply inode_at_some in H as [st [H1 H2]]. apply lookup_in in H1.
  apply (in_map (fun e => inode_of (snd e))) in H1. simpl in H1. subst i. exact H1.
Qed.

(** Facts under [wf] *)
Section WF.
  Variable s : snap.
  Hypothesis Hwf : wf s.

  Lemma wf_path_of i p : truthy (path_of i s) = Some p <-> inode_at s p = Some i.
  Proof.
    destruct Hwf as [Hk [Hi Hne]]. rewrite truthy_id by exact Hne. split.
    - intros H. apply path_of_in in H as [st [H1 H2]]. apply inode_at_some. exists st.
      split; [now apply lookup_nodup | exact H2].
    - intros H. apply inode_at_some in H as [st [H1 H2]]. apply lookup_in in H1. subst i.
      now apply path_of_nodup.
  Qed.

  Lemma wf_path_of_none i : truthy (path_of i s) = None <-> ~ In i (inodes s).
  Proof.
    destruct Hwf as [Hk [Hi Hne]]. rewrite truthy_id by exact Hne. apply path_of_none.
  Qed.

  Lemma wf_in_inodes i : In i (inodes s) <-> exists p, inode_at s p = Some i.
  Proof.
    split.
    - intros H. destruct (truthy (path_of i s)) as [p|] eqn:E.
      + exists p. now apply wf_path_of.
      + apply wf_path_of_none in E. contradiction.
    - intros [p H]. eapply inode_at_in_inodes; eauto.
  Qed.

  Lemma wf_inj a b i : inode_at s a = Some i -> inode_at s b = Some i -> a = b.
  Proof.
    intros H1 H2. apply wf_path_of in H1, H2. congruence.
  Qed.
End WF.

Lemma wfb_wf : forall s, wfb s = true -> wf s.
Proof.
  intros s H. unfold wfb in H. apply andb_true_iff in H as [H H3]. apply andb_true_iff in H as [H1 H2].
  repeat split.
  - apply (nodupb_nodup beqb beqb_eq). exact H1.
  - apply (nodupb_nodup ieqb ieqb_eq). exact H2.
  - apply negb_true_iff in H3. now apply pmem_not_in.
Qed.

(* ------------------------------------------------------------------------------------------ *)
(** * 3. The stages of [diff] *)

Definition created1 (r s : snap) (ch : list path) := dedup beqb (minus (paths s) (paths r) ++ ch).
Definition deleted1 (r s : snap) (ch : list path) := dedup beqb (minus (paths r) (paths s) ++ ch).
Definition moved_of (t1 t2 : list (path * option path)) := dedup ppeqb (moves_fwd t1 ++ moves_bwd t2).
Definition ch_f (ign : bool) (r s : snap) (p : path) : option bool :=
  do a <- get_inode ign r p; do b <- get_inode ign s p; Some (negb (gkeqb a b)).
Definition mod1_f (ign : bool) (r s : snap) (p : path) : option bool :=
  do a <- lookup p r; do b <- lookup p s; Some (gkeqb (gkey ign a) (gkey ign b) && ms_differ a b).
Definition mod2_f (r s : snap) (m : path * path) : option bool :=
  do a <- lookup (fst m) r; do b <- lookup (snd m) s; Some (ms_differ a b).
Definition tag_f (from other : snap) (p : path) : option (path * option path) :=
  do i <- inode_at from p; Some (p, truthy (path_of i other)).
Definition modified_of (mod1 : list path) (mod2 : list (path * path)) := dedup beqb (mod1 ++ map fst mod2).

Definition result_of t1 t2 mod1 mod2 dc dd dm dv : dresult :=
  mkD (stays t2) (stays t1) (modified_of mod1 mod2) (moved_of t1 t2) dc dd dm dv
      (minus (stays t2) dc) (minus (stays t1) dd) (minus (modified_of mod1 mod2) dm)
      (filter (fun m => negb (ppmem m dv)) (moved_of t1 t2)).

Record stages (ign : bool) (r s : snap) ch t1 t2 mod1 mod2 dc dd dm dv : Prop := mkStages {
  st_ch : filterM (ch_f ign r s) (common r s) = Some ch;
  st_t1 : mapM (tag_f r s) (deleted1 r s ch) = Some t1;
  st_t2 : mapM (tag_f s r) (created1 r s ch) = Some t2;
  st_mod1 : filterM (mod1_f ign r s) (common r s) = Some mod1;
  st_mod2 : filterM (mod2_f r s) (moved_of t1 t2) = Some mod2;
  st_dc : filterM (isdir_at s) (stays t2) = Some dc;
  st_dd : filterM (isdir_at r) (stays t1) = Some dd;
  st_dm : filterM (isdir_at r) (modified_of mod1 mod2) = Some dm;
  st_dv : filterM (fun m => isdir_at r (fst m)) (moved_of t1 t2) = Some dv }.

Definition diff_staged (ign : bool) (r s : snap) : option dresult :=
  do ch <- filterM (ch_f ign r s) (common r s);
  do t1 <- mapM (tag_f r s) (deleted1 r s ch);
  do t2 <- mapM (tag_f s r) (created1 r s ch);
  do mod1 <- filterM (mod1_f ign r s) (common r s);
  do mod2 <- filterM (mod2_f r s) (moved_of t1 t2);
  do dc <- filterM (isdir_at s) (stays t2);
  do dd <- filterM (isdir_at r) (stays t1);
  do dm <- filterM (isdir_at r) (modified_of mod1 mod2);
  do dv <- filterM (fun m => isdir_at r (fst m)) (moved_of t1 t2);
  Some (result_of t1 t2 mod1 mod2 dc dd dm dv).

Lemma diff_staged_eq ign r s : diff ign r s = diff_staged ign r s.
Proof. reflexivity. Qed.

Lemma bind_some {A B} (o : option A) (f : A -> option B) y :
  bind o f = Some y -> exists x, o = Some x /\ f x = Some y.
Proof. destruct o as [x|]; simpl; [eauto | discriminate]. Qed.

Lemma diff_inv ign r s d : diff ign r s = Some d ->
  exists ch t1 t2 mod1 mod2 dc dd dm dv,
    stages ign r s ch t1 t2 mod1 mod2 dc dd dm dv /\ d = result_of t1 t2 mod1 mod2 dc dd dm dv.
Proof.
  rewrite diff_staged_eq. unfold diff_staged. intros H.
  apply bind_some in H as [ch [E1 H]]. apply bind_some in H as [t1 [E2 H]].
  apply bind_some in H as [t2 [E3 H]]. apply bind_some in H as [mod1 [E4 H]].
  apply bind_some in H as [mod2 [E5 H]]. apply bind_some in H as [dc [E6 H]].
  apply bind_some in H as [dd [E7 H]]. apply bind_some in H as [dm [E8 H]].
  apply bind_some in H as [dv [E9 H]].
  exists ch, t1, t2, mod1, mod2, dc, dd, dm, dv. split.
  - constructor; assumption.
  - inversion H. reflexivity.
Qed.

Lemma diff_intro ign r s ch t1 t2 mod1 mod2 dc dd dm dv :
  stages ign r s ch t1 t2 mod1 mod2 dc dd dm dv ->
  diff ign r s = Some (result_of t1 t2 mod1 mod2 dc dd dm dv).
Proof.
  intros [E1 E2 E3 E4 E5 E6 E7 E8 E9].
  rewrite diff_staged_eq. unfold diff_staged.
  rewrite E1. cbn [bind]. rewrite E2. cbn [bind]. rewrite E3. cbn [bind]. rewrite E4. cbn [bind].
  rewrite E5. cbn [bind]. rewrite E6. cbn [bind]. rewrite E7. cbn [bind]. rewrite E8. cbn [bind].
  rewrite E9. reflexivity.
Qed.

(* ------------------------------------------------------------------------------------------ *)
(** * 4. Raw membership characterisations (no [wf]) *)

Lemma common_in r s p : In p (common r s) <-> In p (paths r) /\ In p (paths s).
Proof. unfold common. rewrite filter_In, pmem_in. tauto. Qed.

Lemma common_nodup r s : NoDup (common r s).
Proof. unfold common. apply NoDup_filter. apply paths_nodup. Qed.

Lemma ch_f_spec ign r s p b :
  ch_f ign r s p = Some b <->
  exists x y, lookup p r = Some x /\ lookup p s = Some y /\ b = negb (gkeqb (gkey ign x) (gkey ign y)).
Proof.
  unfold ch_f, get_inode, bind. destruct (lookup p r) as [x|]; simpl.
  - destruct (lookup p s) as [y|]; simpl.
    + split; [intros H; inversion H; eauto | intros [x' [y' [H1 [H2 H3]]]]; congruence].
    + split; [discriminate | intros [x' [y' [H1 [H2 H3]]]]; discriminate].
  - split; [discriminate | intros [x' [y' [H1 [H2 H3]]]]; discriminate].
Qed.

Lemma mod1_f_spec ign r s p b :
  mod1_f ign r s p = Some b <->
  exists x y, lookup p r = Some x /\ lookup p s = Some y /\
              b = gkeqb (gkey ign x) (gkey ign y) && ms_differ x y.
Proof.
  unfold mod1_f, bind. destruct (lookup p r) as [x|]; simpl.
  - destruct (lookup p s) as [y|]; simpl.
    + split; [intros H; inversion H; eauto | intros [x' [y' [H1 [H2 H3]]]]; congruence].
    + split; [discriminate | intros [x' [y' [H1 [H2 H3]]]]; discriminate].
  - split; [discriminate | intros [x' [y' [H1 [H2 H3]]]]; discriminate].
Qed.

Lemma mod2_f_spec r s m b :
  mod2_f r s m = Some b <->
  exists x y, lookup (fst m) r = Some x /\ lookup (snd m) s = Some y /\ b = ms_differ x y.
Proof.
  unfold mod2_f, bind. destruct (lookup (fst m) r) as [x|]; simpl.
  - destruct (lookup (snd m) s) as [y|]; simpl.
    + split; [intros H; inversion H; eauto | intros [x' [y' [H1 [H2 H3]]]]; congruence].
    + split; [discriminate | intros [x' [y' [H1 [H2 H3]]]]; discriminate].
  - split; [discriminate | intros [x' [y' [H1 [H2 H3]]]]; discriminate].
Qed.

Lemma tag_f_spec from other p e :
  tag_f from other p = Some e <-> exists i, inode_at from p = Some i /\ e = (p, truthy (path_of i other)).
Proof.
  unfold tag_f, bind. destruct (inode_at from p) as [i|]; simpl.
  - split; [intros H; inversion H; eauto | intros [i' [H1 H2]]; congruence].
  - split; [discriminate | intros [i' [H1 H2]]; discriminate].
Qed.

Lemma tag_in from other l t :
  mapM (tag_f from other) l = Some t ->
  forall p o, In (p, o) t <-> In p l /\ exists i, inode_at from p = Some i /\ o = truthy (path_of i other).
Proof.
  intros H p o. rewrite (mapM_in _ _ _ H). split.
  - intros [x [H1 H2]]. apply tag_f_spec in H2 as [i [H2 H3]]. inversion H3; subst. eauto.
  - intros [H1 [i [H2 H3]]]. exists p. split; [exact H1|]. apply tag_f_spec. exists i. subst; auto.
Qed.

Lemma tag_fst from other l t : mapM (tag_f from other) l = Some t -> map fst t = l.
Proof.
  intros H. rewrite (mapM_map (tag_f from other) fst (fun x => x) l t); [apply map_id | | exact H].
  intros x y Hy. apply tag_f_spec in Hy as [i [_ ->]]. reflexivity.
Qed.

Lemma ms_differ_spec a b :
  ms_differ a b = true <-> st_mtime a <> st_mtime b \/ st_size a <> st_size b.
Proof.
  unfold ms_differ. rewrite orb_true_iff, !negb_true_iff, !N.eqb_neq. tauto.
Qed.

Lemma gkey_false_eq a b : gkey false a = gkey false b <-> inode_of a = inode_of b.
Proof.
  unfold gkey, inode_of. split; intros H; inversion H; congruence.
Qed.

Section Raw.
  Variables (ign : bool) (r s : snap).
  Variables (ch : list path) (t1 t2 : list (path * option path)) (mod1 : list path)
            (mod2 : list (path * path)).
  (* each lemma depends only on the stage equations it uses *)
  Hypothesis Ech : filterM (ch_f ign r s) (common r s) = Some ch.
  Hypothesis Et1 : mapM (tag_f r s) (deleted1 r s ch) = Some t1.
  Hypothesis Et2 : mapM (tag_f s r) (created1 r s ch) = Some t2.
  Hypothesis Emod1 : filterM (mod1_f ign r s) (common r s) = Some mod1.
  Hypothesis Emod2 : filterM (mod2_f r s) (moved_of t1 t2) = Some mod2.

  Lemma ch_in p :
    In p ch <-> exists x y, lookup p r = Some x /\ lookup p s = Some y /\ gkey ign x <> gkey ign y.
  Proof.
    rewrite (filterM_in _ _ _ Ech), common_in, ch_f_spec. split.
    - intros [_ [x [y [H1 [H2 H3]]]]]. exists x, y. repeat split; auto.
      intros E. rewrite E, gkeqb_refl in H3. discriminate.
    - intros [x [y [H1 [H2 H3]]]]. split; [split; apply in_paths_lookup; eauto|].
      exists x, y. repeat split; auto.
      destruct (gkeqb (gkey ign x) (gkey ign y)) eqn:E; [|reflexivity].
      apply gkeqb_eq in E. contradiction.
  Qed.

  Lemma ch_sub p : In p ch -> In p (paths r) /\ In p (paths s).
  Proof.
    intros H. apply ch_in in H as [x [y [H1 [H2 _]]]]. split; apply in_paths_lookup; eauto.
  Qed.

  Lemma created1_in p : In p (created1 r s ch) <-> (In p (paths s) /\ ~ In p (paths r)) \/ In p ch.
  Proof. unfold created1. rewrite (dedup_in beqb beqb_eq), in_app_iff, minus_in. tauto. Qed.

  Lemma deleted1_in p : In p (deleted1 r s ch) <-> (In p (paths r) /\ ~ In p (paths s)) \/ In p ch.
  Proof. unfold deleted1. rewrite (dedup_in beqb beqb_eq), in_app_iff, minus_in. tauto. Qed.

  Lemma created1_sub p : In p (created1 r s ch) -> In p (paths s).
  Proof. rewrite created1_in. intros [[H _]|H]; [exact H | now apply ch_sub]. Qed.

  Lemma deleted1_sub p : In p (deleted1 r s ch) -> In p (paths r).
  Proof. rewrite deleted1_in. intros [[H _]|H]; [exact H | now apply ch_sub]. Qed.

  Lemma t1_in p o :
    In (p, o) t1 <-> In p (deleted1 r s ch) /\ exists i, inode_at r p = Some i /\ o = truthy (path_of i s).
  Proof. apply tag_in. exact Et1. Qed.

  Lemma t2_in p o :
    In (p, o) t2 <-> In p (created1 r s ch) /\ exists i, inode_at s p = Some i /\ o = truthy (path_of i r).
  Proof. apply tag_in. exact Et2. Qed.

  Lemma created_raw p :
    In p (stays t2) <->
    In p (created1 r s ch) /\ exists i, inode_at s p = Some i /\ truthy (path_of i r) = None.
  Proof.
    rewrite stays_in, t2_in. split; intros [H1 [i [H2 H3]]]; eauto.
  Qed.

  Lemma deleted_raw p :
    In p (stays t1) <->
    In p (deleted1 r s ch) /\ exists i, inode_at r p = Some i /\ truthy (path_of i s) = None.
  Proof.
    rewrite stays_in, t1_in. split; intros [H1 [i [H2 H3]]]; eauto.
  Qed.

  Lemma moved_raw a b :
    In (a, b) (moved_of t1 t2) <->
    (In a (deleted1 r s ch) /\ exists i, inode_at r a = Some i /\ truthy (path_of i s) = Some b) \/
    (In b (created1 r s ch) /\ exists i, inode_at s b = Some i /\ truthy (path_of i r) = Some a).
  Proof.
    unfold moved_of. rewrite (dedup_in ppeqb ppeqb_eq), in_app_iff, moves_fwd_in, moves_bwd_in, t1_in, t2_in.
    split; (intros [[H1 [i [H2 H3]]]|[H1 [i [H2 H3]]]]; [left|right]; eauto).
  Qed.

  (* both ends of a move exist *)
  Lemma moved_ends a b : In (a, b) (moved_of t1 t2) -> In a (paths r) /\ In b (paths s).
  Proof.
    rewrite moved_raw. intros [[H1 [i [H2 H3]]]|[H1 [i [H2 H3]]]].
    - split; [now apply deleted1_sub|]. apply truthy_some, path_of_in in H3 as [st [H3 _]].
      apply in_paths. apply (in_map fst) in H3. exact H3.
    - split; [|now apply created1_sub]. apply truthy_some, path_of_in in H3 as [st [H3 _]].
      apply in_paths. apply (in_map fst) in H3. exact H3.
  Qed.

  Lemma mod1_in p :
    In p mod1 <-> exists x y, lookup p r = Some x /\ lookup p s = Some y /\
                              gkey ign x = gkey ign y /\ ms_differ x y = true.
  Proof.
    rewrite (filterM_in _ _ _ Emod1), common_in, mod1_f_spec. split.
    - intros [_ [x [y [H1 [H2 H3]]]]]. exists x, y. symmetry in H3. apply andb_true_iff in H3 as [H3 H4].
      apply gkeqb_eq in H3. auto.
    - intros [x [y [H1 [H2 [H3 H4]]]]]. split; [split; apply in_paths_lookup; eauto|].
      exists x, y. repeat split; auto. rewrite H3, gkeqb_refl, H4. reflexivity.
  Qed.

  Lemma mod2_in a b :
    In (a, b) mod2 <-> In (a, b) (moved_of t1 t2) /\
                       exists x y, lookup a r = Some x /\ lookup b s = Some y /\ ms_differ x y = true.
  Proof.
    rewrite (filterM_in _ _ _ Emod2), mod2_f_spec. simpl.
    split; intros [H0 [x [y [H1 [H2 H3]]]]]; split; auto; exists x, y; auto.
  Qed.

  Lemma modified_raw p : In p (modified_of mod1 mod2) <-> In p mod1 \/ exists b, In (p, b) mod2.
  Proof.
    unfold modified_of. rewrite (dedup_in beqb beqb_eq), in_app_iff, in_map_iff. split.
    - intros [H|[[a b] [H1 H2]]]; [auto|]. simpl in H1. subst. eauto.
    - intros [H|[b H]]; [auto|]. right. exists (p, b). auto.
  Qed.

  Lemma modified_sub p : In p (modified_of mod1 mod2) -> In p (paths r).
  Proof.
    rewrite modified_raw. intros [H|[b H]].
    - apply mod1_in in H as [x [y [H1 _]]]. apply in_paths_lookup. eauto.
    - apply mod2_in in H as [H _]. now apply moved_ends in H.
  Qed.
End Raw.

(* ------------------------------------------------------------------------------------------ *)
(** * 5. Theorems that hold for all snapshots *)

(** ** Totality: no KeyError *)
Lemma diff_total : forall ign r s, exists d, diff ign r s = Some d.
Proof.
  intros ign r s.
  destruct (filterM_total (ch_f ign r s) (common r s)) as [ch E1].
  { intros p Hp. apply common_in in Hp as [H1 H2].
    apply in_paths_lookup in H1 as [x H1]. apply in_paths_lookup in H2 as [y H2].
    eexists. apply ch_f_spec. eauto. }
  destruct (mapM_total (tag_f r s) (deleted1 r s ch)) as [t1 E2].
  { intros p Hp. apply (deleted1_sub _ _ _ _ E1) in Hp. apply in_paths_inode in Hp as [i Hi].
    eexists. apply tag_f_spec. eauto. }
  destruct (mapM_total (tag_f s r) (created1 r s ch)) as [t2 E3].
  { intros p Hp. apply (created1_sub _ _ _ _ E1) in Hp. apply in_paths_inode in Hp as [i Hi].
    eexists. apply tag_f_spec. eauto. }
  destruct (filterM_total (mod1_f ign r s) (common r s)) as [mod1 E4].
  { intros p Hp. apply common_in in Hp as [H1 H2].
    apply in_paths_lookup in H1 as [x H1]. apply in_paths_lookup in H2 as [y H2].
    eexists. apply mod1_f_spec. eauto. }
  destruct (filterM_total (mod2_f r s) (moved_of t1 t2)) as [mod2 E5].
  { intros [a b] Hm. apply (moved_ends _ _ _ _ _ _ E1 E2 E3) in Hm as [H1 H2].
    apply in_paths_lookup in H1 as [x H1]. apply in_paths_lookup in H2 as [y H2].
    eexists. apply mod2_f_spec. simpl. eauto. }
  destruct (filterM_total (isdir_at s) (stays t2)) as [dc E6].
  { intros p Hp. apply (created_raw _ _ _ _ E3) in Hp as [Hp _].
    apply (created1_sub _ _ _ _ E1) in Hp. now apply in_paths_isdir. }
  destruct (filterM_total (isdir_at r) (stays t1)) as [dd E7].
  { intros p Hp. apply (deleted_raw _ _ _ _ E2) in Hp as [Hp _].
    apply (deleted1_sub _ _ _ _ E1) in Hp. now apply in_paths_isdir. }
  destruct (filterM_total (isdir_at r) (modified_of mod1 mod2)) as [dm E8].
  { intros p Hp. apply (modified_sub _ _ _ _ _ _ _ _ E1 E2 E3 E4 E5) in Hp. now apply in_paths_isdir. }
  destruct (filterM_total (fun m => isdir_at r (fst m)) (moved_of t1 t2)) as [dv E9].
  { intros [a b] Hm. apply (moved_ends _ _ _ _ _ _ E1 E2 E3) in Hm as [H1 H2]. simpl.
    now apply in_paths_isdir. }
  eexists. apply (diff_intro ign r s ch t1 t2 mod1 mod2 dc dd dm dv). constructor; assumption.
Qed.

(** ** Kinds *)
Section Kind.
  Context {A : Type} (eqb : A -> A -> bool).
  Hypothesis eqb_spec : forall a b, eqb a b = true <-> a = b.
  Variables (f : A -> option bool) (l l1 : list A).
  Hypothesis E : filterM f l = Some l1.
  Let l2 := filter (fun x => negb (existsb (eqb x) l1)) l.

  Lemma kind_true x : In x l1 <-> In x l /\ f x = Some true.
  Proof. apply filterM_in. exact E. Qed.

  Lemma kind_false x : In x l2 <-> In x l /\ f x = Some false.
  Proof.
    unfold l2. rewrite filter_In, negb_true_iff, (existsb_eqb_false eqb eqb_spec), kind_true. split.
    - intros [H1 H2]. split; [exact H1|]. destruct (filterM_defined _ _ _ E x H1) as [[|] Hb]; tauto.
    - intros [H1 H2]. split; [exact H1|]. intros [_ H3]. congruence.
  Qed.

  Lemma kind_cover x : In x l <-> In x l1 \/ In x l2.
  Proof.
    rewrite kind_true, kind_false. split; [|tauto].
    intros H. destruct (filterM_defined _ _ _ E x H) as [[|] Hb]; tauto.
  Qed.

  Lemma kind_excl x : ~ (In x l1 /\ In x l2).
  Proof. rewrite kind_true, kind_false. intros [[_ H1] [_ H2]]. congruence. Qed.

  Lemma kind_nodup : NoDup l -> NoDup l1 /\ NoDup l2.
  Proof.
    intros H. split; [eapply filterM_nodup; eauto | apply NoDup_filter; exact H].
  Qed.
End Kind.

Lemma diff_kinds : forall ign r s d, diff ign r s = Some d ->
  (forall p, In p (dirs_created d) <-> In p (d_created d) /\ isdir_at s p = Some true) /\
  (forall p, In p (files_created d) <-> In p (d_created d) /\ isdir_at s p = Some false) /\
  (forall p, In p (dirs_deleted d) <-> In p (d_deleted d) /\ isdir_at r p = Some true) /\
  (forall p, In p (files_deleted d) <-> In p (d_deleted d) /\ isdir_at r p = Some false) /\
  (forall p, In p (dirs_modified d) <-> In p (d_modified d) /\ isdir_at r p = Some true) /\
  (forall p, In p (files_modified d) <-> In p (d_modified d) /\ isdir_at r p = Some false) /\
  (forall a b, In (a, b) (dirs_moved d) <-> In (a, b) (d_moved d) /\ isdir_at r a = Some true) /\
  (forall a b, In (a, b) (files_moved d) <-> In (a, b) (d_moved d) /\ isdir_at r a = Some false).
Proof.
  intros ign r s d H.
  destruct (diff_inv _ _ _ _ H) as [ch [t1 [t2 [mod1 [mod2 [dc [dd [dm [dv [St ->]]]]]]]]]].
  destruct St as [E1 E2 E3 E4 E5 E6 E7 E8 E9]. cbn [result_of d_created d_deleted d_modified d_moved
    dirs_created dirs_deleted dirs_modified dirs_moved files_created files_deleted files_modified files_moved].
  split; [|split; [|split; [|split; [|split; [|split; [|split]]]]]].
  - apply (kind_true _ _ _ E6).
  - apply (kind_false beqb beqb_eq _ _ _ E6).
  - apply (kind_true _ _ _ E7).
  - apply (kind_false beqb beqb_eq _ _ _ E7).
  - apply (kind_true _ _ _ E8).
  - apply (kind_false beqb beqb_eq _ _ _ E8).
  - intros a b. apply (kind_true _ _ _ E9 (a, b)).
  - intros a b. apply (kind_false ppeqb ppeqb_eq _ _ _ E9 (a, b)).
Qed.

Lemma diff_kinds_partition : forall ign r s d, diff ign r s = Some d ->
  (forall p, In p (d_created d) <-> In p (dirs_created d) \/ In p (files_created d)) /\
  (forall p, In p (d_deleted d) <-> In p (dirs_deleted d) \/ In p (files_deleted d)) /\
  (forall p, In p (d_modified d) <-> In p (dirs_modified d) \/ In p (files_modified d)) /\
  (forall m, In m (d_moved d) <-> In m (dirs_moved d) \/ In m (files_moved d)) /\
  (forall p, ~ (In p (dirs_created d) /\ In p (files_created d))) /\
  (forall p, ~ (In p (dirs_deleted d) /\ In p (files_deleted d))) /\
  (forall p, ~ (In p (dirs_modified d) /\ In p (files_modified d))) /\
  (forall m, ~ (In m (dirs_moved d) /\ In m (files_moved d))).
Proof.
  intros ign r s d H.
  destruct (diff_inv _ _ _ _ H) as [ch [t1 [t2 [mod1 [mod2 [dc [dd [dm [dv [St ->]]]]]]]]]].
  destruct St as [E1 E2 E3 E4 E5 E6 E7 E8 E9]. cbn [result_of d_created d_deleted d_modified d_moved
    dirs_created dirs_deleted dirs_modified dirs_moved files_created files_deleted files_modified files_moved].
  split; [|split; [|split; [|split; [|split; [|split; [|split]]]]]]; intros x.
  - apply (kind_cover beqb beqb_eq _ _ _ E6).
  - apply (kind_cover beqb beqb_eq _ _ _ E7).
  - apply (kind_cover beqb beqb_eq _ _ _ E8).
  - apply (kind_cover ppeqb ppeqb_eq _ _ _ E9).
  - apply (kind_excl beqb beqb_eq _ _ _ E6).
  - apply (kind_excl beqb beqb_eq _ _ _ E7).
  - apply (kind_excl beqb beqb_eq _ _ _ E8).
  - apply (kind_excl ppeqb ppeqb_eq _ _ _ E9).
Qed.

Lemma diff_nodup : forall ign r s d, diff ign r s = Some d ->
  NoDup (dirs_created d) /\ NoDup (files_created d) /\ NoDup (dirs_deleted d) /\ NoDup (files_deleted d) /\
  NoDup (dirs_modified d) /\ NoDup (files_modified d) /\ NoDup (dirs_moved d) /\ NoDup (files_moved d).
Proof.
  intros ign r s d H.
  destruct (diff_inv _ _ _ _ H) as [ch [t1 [t2 [mod1 [mod2 [dc [dd [dm [dv [St ->]]]]]]]]]].
  destruct St as [E1 E2 E3 E4 E5 E6 E7 E8 E9]. cbn [result_of d_created d_deleted d_modified d_moved
    dirs_created dirs_deleted dirs_modified dirs_moved files_created files_deleted files_modified files_moved].
  assert (N2 : NoDup (stays t2)).
  { apply stays_nodup. rewrite (tag_fst _ _ _ _ E3). apply (dedup_nodup beqb beqb_eq). }
  assert (N1 : NoDup (stays t1)).
  { apply stays_nodup. rewrite (tag_fst _ _ _ _ E2). apply (dedup_nodup beqb beqb_eq). }
  assert (Nm : NoDup (modified_of mod1 mod2)) by apply (dedup_nodup beqb beqb_eq).
  assert (Nv : NoDup (moved_of t1 t2)) by apply (dedup_nodup ppeqb ppeqb_eq).
  destruct (kind_nodup beqb _ _ _ E6 N2). destruct (kind_nodup beqb _ _ _ E7 N1).
  destruct (kind_nodup beqb _ _ _ E8 Nm). destruct (kind_nodup ppeqb _ _ _ E9 Nv).
  repeat split; assumption.
Qed.

(** ** Empty diffs: [diff s s] and device-only changes *)
Lemma minus_nil a b : (forall p, In p a -> In p b) -> minus a b = [].
Proof.
  intros H. unfold minus. apply filter_nil. intros p Hp. apply negb_false_iff, pmem_in. auto.
Qed.

Lemma ms_differ_false a b :
  st_mtime a = st_mtime b -> st_size a = st_size b -> ms_differ a b = false.
Proof. intros H1 H2. unfold ms_differ. rewrite H1, H2, !N.eqb_refl. reflexivity. Qed.

Lemma diff_empty ign r s :
  (forall p, In p (paths r) <-> In p (paths s)) ->
  (forall p a b, lookup p r = Some a -> lookup p s = Some b ->
     gkey ign a = gkey ign b /\ ms_differ a b = false) ->
  diff ign r s = Some empty_diff.
Proof.
  intros HP HL.
  assert (E1 : filterM (ch_f ign r s) (common r s) = Some []).
  { apply filterM_nil. intros p Hp. apply common_in in Hp as [H1 H2].
    apply in_paths_lookup in H1 as [x H1]. apply in_paths_lookup in H2 as [y H2].
    apply ch_f_spec. exists x, y. repeat split; auto.
    destruct (HL _ _ _ H1 H2) as [-> _]. now rewrite gkeqb_refl. }
  assert (Ec : created1 r s [] = []).
  { unfold created1. rewrite minus_nil; [reflexivity | intros p; apply HP]. }
  assert (Ed : deleted1 r s [] = []).
  { unfold deleted1. rewrite minus_nil; [reflexivity | intros p; apply HP]. }
  assert (E4 : filterM (mod1_f ign r s) (common r s) = Some []).
  { apply filterM_nil. intros p Hp. apply common_in in Hp as [H1 H2].
    apply in_paths_lookup in H1 as [x H1]. apply in_paths_lookup in H2 as [y H2].
    apply mod1_f_spec. exists x, y. repeat split; auto.
    destruct (HL _ _ _ H1 H2) as [_ ->]. now rewrite andb_false_r. }
  change empty_diff with (result_of [] [] [] [] [] [] [] []).
  apply (diff_intro ign r s []). constructor; try assumption; try reflexivity.
  - rewrite Ed. reflexivity.
  - rewrite Ec. reflexivity.
Qed.

Lemma diff_self : forall ign s, diff ign s s = Some empty_diff.
Proof.
  intros ign s. apply diff_empty; [tauto|].
  intros p a b H1 H2. assert (a = b) by congruence. subst b. split; [reflexivity|].
  now apply ms_differ_false.
Qed.

Lemma diff_ignore_device : forall r s,
  (forall p, In p (paths r) <-> In p (paths s)) ->
  (forall p a b, lookup p r = Some a -> lookup p s = Some b ->
     st_ino a = st_ino b /\ st_mtime a = st_mtime b /\ st_size a = st_size b) ->
  diff true r s = Some empty_diff.
Proof.
  intros r s HP HL. apply diff_empty; [exact HP|].
  intros p a b H1 H2. destruct (HL _ _ _ H1 H2) as [Hi [Hm Hs]]. split.
  - unfold gkey. now rewrite Hi.
  - now apply ms_differ_false.
Qed.

(** ** Swapping the arguments *)
Lemma diff_swap : forall ign r s d d', diff ign r s = Some d -> diff ign s r = Some d' ->
  (forall p, In p (d_created d) <-> In p (d_deleted d')) /\
  (forall p, In p (d_deleted d) <-> In p (d_created d')) /\
  (forall a b, In (a, b) (d_moved d) <-> In (b, a) (d_moved d')).
Proof.
  intros ign r s d d' H H'.
  destruct (diff_inv _ _ _ _ H) as [ch [t1 [t2 [mod1 [mod2 [dc [dd [dm [dv [St ->]]]]]]]]]].
  destruct (diff_inv _ _ _ _ H') as [ch' [t1' [t2' [mod1' [mod2' [dc' [dd' [dm' [dv' [St' ->]]]]]]]]]].
  destruct St as [E1 E2 E3 _ _ _ _ _ _]. destruct St' as [E1' E2' E3' _ _ _ _ _ _].
  cbn [result_of d_created d_deleted d_moved].
  assert (Hch : forall p, In p ch <-> In p ch').
  { intros p. rewrite (ch_in _ _ _ _ E1), (ch_in _ _ _ _ E1').
    split; intros [x [y [H1 [H2 H3]]]]; exists y, x; repeat split; auto. }
  assert (Hcd : forall p, In p (created1 r s ch) <-> In p (deleted1 s r ch')).
  { intros p. rewrite created1_in, deleted1_in, Hch. tauto. }
  assert (Hdc : forall p, In p (deleted1 r s ch) <-> In p (created1 s r ch')).
  { intros p. rewrite created1_in, deleted1_in, Hch. tauto. }
  assert (T2 : forall p o, In (p, o) t2 <-> In (p, o) t1').
  { intros p o. rewrite (t2_in _ _ _ _ E3), (t1_in _ _ _ _ E2'), Hcd. tauto. }
  assert (T1 : forall p o, In (p, o) t1 <-> In (p, o) t2').
  { intros p o. rewrite (t1_in _ _ _ _ E2), (t2_in _ _ _ _ E3'), Hdc. tauto. }
  repeat split.
  - rewrite !stays_in. apply T2.
  - rewrite !stays_in. apply T2.
  - rewrite !stays_in. apply T1.
  - rewrite !stays_in. apply T1.
  - unfold moved_of. rewrite !(dedup_in ppeqb ppeqb_eq), !in_app_iff,
      !moves_fwd_in, !moves_bwd_in, T1, T2. tauto.
  - unfold moved_of. rewrite !(dedup_in ppeqb ppeqb_eq), !in_app_iff,
      !moves_fwd_in, !moves_bwd_in, T1, T2. tauto.
Qed.

(* ------------------------------------------------------------------------------------------ *)
(** * 6. Theorems for well-formed snapshots, [ignore_device = False] *)

Section WFDiff.
  Variables r s : snap.
  Hypothesis Hr : wf r.
  Hypothesis Hs : wf s.
  Variables (ch : list path) (t1 t2 : list (path * option path)) (mod1 : list path)
            (mod2 : list (path * path)).
  Hypothesis Ech : filterM (ch_f false r s) (common r s) = Some ch.
  Hypothesis Et1 : mapM (tag_f r s) (deleted1 r s ch) = Some t1.
  Hypothesis Et2 : mapM (tag_f s r) (created1 r s ch) = Some t2.
  Hypothesis Emod1 : filterM (mod1_f false r s) (common r s) = Some mod1.
  Hypothesis Emod2 : filterM (mod2_f r s) (moved_of t1 t2) = Some mod2.

  Lemma ch_wf p : In p ch <-> exists i j, inode_at r p = Some i /\ inode_at s p = Some j /\ i <> j.
  Proof.
    rewrite (ch_in _ _ _ _ Ech). split.
    - intros [x [y [H1 [H2 H3]]]]. exists (inode_of x), (inode_of y).
      repeat split; [apply inode_at_some; eauto | apply inode_at_some; eauto|].
      intros E. apply H3. now apply gkey_false_eq.
    - intros [i [j [H1 [H2 H3]]]]. apply inode_at_some in H1 as [x [H1 <-]].
      apply inode_at_some in H2 as [y [H2 <-]]. exists x, y. repeat split; auto.
      intros E. apply H3. now apply gkey_false_eq.
  Qed.

  (* a path of r whose inode is found in s under the path b: in deleted1 iff b is another path *)
  Lemma deleted1_wf a b i :
    inode_at r a = Some i -> inode_at s b = Some i -> (In a (deleted1 r s ch) <-> a <> b).
  Proof.
    intros Ha Hb. rewrite deleted1_in, ch_wf. split.
    - intros [[_ H]|[i' [j [H1 [H2 H3]]]]] E; subst b.
      + apply H. apply in_paths_inode. eauto.
      + congruence.
    - intros Hne. destruct (in_dec_eqb beqb beqb_eq a (paths s)) as [Hin|Hin].
      + right. apply in_paths_inode in Hin as [j Hj]. exists i, j. repeat split; auto.
        intros E. subst j. apply Hne. eapply (wf_inj s Hs); eauto.
      + left. split; [|exact Hin]. apply in_paths_inode. eauto.
  Qed.

  Lemma created1_wf a b i :
    inode_at r a = Some i -> inode_at s b = Some i -> (In b (created1 r s ch) <-> a <> b).
  Proof.
    intros Ha Hb. rewrite created1_in, ch_wf. split.
    - intros [[_ H]|[i' [j [H1 [H2 H3]]]]] E; subst b.
      + apply H. apply in_paths_inode. eauto.
      + congruence.
    - intros Hne. destruct (in_dec_eqb beqb beqb_eq b (paths r)) as [Hin|Hin].
      + right. apply in_paths_inode in Hin as [j Hj]. exists j, i. repeat split; auto.
        intros E. subst j. apply Hne. eapply (wf_inj r Hr); eauto.
      + left. split; [|exact Hin]. apply in_paths_inode. eauto.
  Qed.

  (* a path of s whose inode is unknown to r is in created1 (and symmetrically) *)
  Lemma created1_new p i : inode_at s p = Some i -> ~ In i (inodes r) -> In p (created1 r s ch).
  Proof.
    intros Hp Hi. rewrite created1_in, ch_wf.
    destruct (in_dec_eqb beqb beqb_eq p (paths r)) as [Hin|Hin].
    - right. apply in_paths_inode in Hin as [j Hj]. exists j, i. repeat split; auto.
      intros E. subst j. apply Hi. eapply inode_at_in_inodes; eauto.
    - left. split; [|exact Hin]. apply in_paths_inode. eauto.
  Qed.

  Lemma deleted1_gone p i : inode_at r p = Some i -> ~ In i (inodes s) -> In p (deleted1 r s ch).
  Proof.
    intros Hp Hi. rewrite deleted1_in, ch_wf.
    destruct (in_dec_eqb beqb beqb_eq p (paths s)) as [Hin|Hin].
    - right. apply in_paths_inode in Hin as [j Hj]. exists i, j. repeat split; auto.
      intros E. subst j. apply Hi. eapply inode_at_in_inodes; eauto.
    - left. split; [|exact Hin]. apply in_paths_inode. eauto.
  Qed.

  Lemma moved_wf a b :
    In (a, b) (moved_of t1 t2) <-> a <> b /\ exists i, inode_at r a = Some i /\ inode_at s b = Some i.
  Proof.
    rewrite (moved_raw _ _ _ _ _ Et1 Et2). split.
    - intros [[H1 [i [H2 H3]]]|[H1 [i [H2 H3]]]].
      + apply (wf_path_of s Hs) in H3. split; [|eauto]. now apply (deleted1_wf a b i).
      + apply (wf_path_of r Hr) in H3. split; [|eauto]. now apply (created1_wf a b i).
    - intros [Hne [i [H1 H2]]]. left. split; [now apply (deleted1_wf a b i)|].
      exists i. split; [exact H1|]. now apply (wf_path_of s Hs).
  Qed.

  Lemma created_wf p : In p (stays t2) <-> exists i, inode_at s p = Some i /\ ~ In i (inodes r).
  Proof.
    rewrite (created_raw _ _ _ _ Et2). split.
    - intros [_ [i [H1 H2]]]. exists i. split; [exact H1|]. now apply (wf_path_of_none r Hr).
    - intros [i [H1 H2]]. split; [eapply created1_new; eauto|].
      exists i. split; [exact H1|]. now apply (wf_path_of_none r Hr).
  Qed.

  Lemma deleted_wf p : In p (stays t1) <-> exists i, inode_at r p = Some i /\ ~ In i (inodes s).
  Proof.
    rewrite (deleted_raw _ _ _ _ Et1). split.
    - intros [_ [i [H1 H2]]]. exists i. split; [exact H1|]. now apply (wf_path_of_none s Hs).
    - intros [i [H1 H2]]. split; [eapply deleted1_gone; eauto|].
      exists i. split; [exact H1|]. now apply (wf_path_of_none s Hs).
  Qed.

  Lemma modified_wf a :
    In a (modified_of mod1 mod2) <->
    exists b sa sb, lookup a r = Some sa /\ lookup b s = Some sb /\ inode_of sa = inode_of sb /\
                    (st_mtime sa <> st_mtime sb \/ st_size sa <> st_size sb).
  Proof.
    rewrite modified_raw, (mod1_in _ _ _ _ Emod1). split.
    - intros [[x [y [H1 [H2 [H3 H4]]]]]|[b H]].
      + exists a, x, y. repeat split; auto; [now apply gkey_false_eq | now apply ms_differ_spec].
      + apply (mod2_in _ _ _ _ _ Emod2) in H as [Hm [x [y [H1 [H2 H3]]]]].
        apply moved_wf in Hm as [_ [i [Hi1 Hi2]]].
        apply inode_at_some in Hi1 as [x' [Hx <-]]. apply inode_at_some in Hi2 as [y' [Hy E]].
        exists b, x, y. repeat split; auto; [congruence | now apply ms_differ_spec].
    - intros [b [sa [sb [H1 [H2 [H3 H4]]]]]]. apply ms_differ_spec in H4.
      destruct (path_eq_dec a b) as [->|Hne].
      + left. exists sa, sb. repeat split; auto. now apply gkey_false_eq.
      + right. exists b. apply (mod2_in _ _ _ _ _ Emod2). split; [|eauto].
        apply moved_wf. split; [exact Hne|]. exists (inode_of sa).
        split; apply inode_at_some; eauto.
  Qed.
End WFDiff.

(** ** Consequences of the four characterisations *)
Lemma in_map_fst {A B} (a : A) (l : list (A * B)) : In a (map fst l) <-> exists b, In (a, b) l.
Proof.
  rewrite in_map_iff. split.
  - intros [[x y] [H1 H2]]. simpl in H1. subst. eauto.
  - intros [b H]. exists (a, b). auto.
Qed.

Lemma in_map_snd {A B} (b : B) (l : list (A * B)) : In b (map snd l) <-> exists a, In (a, b) l.
Proof.
  rewrite in_map_iff. split.
  - intros [[x y] [H1 H2]]. simpl in H1. subst. eauto.
  - intros [a H]. exists (a, b). auto.
Qed.

Section Abstract.
  Variables r s : snap.
  Hypothesis Hr : wf r.
  Hypothesis Hs : wf s.
  Variables (C D M : list path) (V : list (path * path)).
  Hypothesis HC : forall p, In p C <-> exists i, inode_at s p = Some i /\ ~ In i (inodes r).
  Hypothesis HD : forall p, In p D <-> exists i, inode_at r p = Some i /\ ~ In i (inodes s).
  Hypothesis HV : forall a b, In (a, b) V <->
    a <> b /\ exists i, inode_at r a = Some i /\ inode_at s b = Some i.
  Hypothesis HM : forall a, In a M <->
    exists b sa sb, lookup a r = Some sa /\ lookup b s = Some sb /\ inode_of sa = inode_of sb /\
                    (st_mtime sa <> st_mtime sb \/ st_size sa <> st_size sb).

  Lemma abs_account p :
    In p (paths s) <->
    (In p (paths r) /\ ~ In p D /\ ~ In p (map fst V)) \/ In p C \/ In p (map snd V).
  Proof.
    rewrite in_map_fst, in_map_snd. split.
    - intros Hp. apply in_paths_inode in Hp as [i Hi].
      destruct (in_dec_eqb ieqb ieqb_eq i (inodes r)) as [Hin|Hin].
      + apply (wf_in_inodes r Hr) in Hin as [a Ha]. destruct (path_eq_dec a p) as [->|Hne].
        * left. split; [apply in_paths_inode; eauto|]. split.
          -- intros Hd. apply HD in Hd as [i' [H1 H2]]. apply H2.
             assert (i' = i) by congruence. subst i'. eapply inode_at_in_inodes; eauto.
          -- intros [b Hb]. apply HV in Hb as [Hne [i' [H1 H2]]].
             assert (i' = i) by congruence. subst i'. apply Hne. eapply (wf_inj s Hs); eauto.
        * right. right. exists a. apply HV. eauto.
      + right. left. apply HC. eauto.
    - intros [[Hp [Hd Hv]]|[Hc|[a Ha]]].
      + apply in_paths_inode in Hp as [i Hi].
        destruct (in_dec_eqb ieqb ieqb_eq i (inodes s)) as [Hin|Hin].
        * apply (wf_in_inodes s Hs) in Hin as [b Hb]. destruct (path_eq_dec p b) as [->|Hne].
          -- apply in_paths_inode. eauto.
          -- exfalso. apply Hv. exists b. apply HV. eauto.
        * exfalso. apply Hd. apply HD. eauto.
      + apply HC in Hc as [i [Hi _]]. apply in_paths_inode. eauto.
      + apply HV in Ha as [_ [i [_ Hi]]]. apply in_paths_inode. eauto.
  Qed.

  Lemma abs_disjoint :
    (forall p, In p D -> ~ In p (map fst V)) /\
    (forall p, In p C -> ~ In p (map snd V)) /\
    (forall p, In p D -> ~ In p M) /\
    (forall a b b', In (a, b) V -> In (a, b') V -> b = b') /\
    (forall a a' b, In (a, b) V -> In (a', b) V -> a = a') /\
    (forall a b, In (a, b) V -> a <> b) /\
    (forall p, In p C -> In p D ->
       In p (paths r) /\ In p (paths s) /\ inode_at r p <> inode_at s p) /\
    (forall p, In p M -> In p C -> In p (map fst V)).
  Proof.
    split; [|split; [|split; [|split; [|split; [|split; [|split]]]]]].
    - intros p Hd Hv. apply in_map_fst in Hv as [b Hb]. apply HD in Hd as [i [H1 H2]].
      apply HV in Hb as [_ [i' [H3 H4]]]. assert (i' = i) by congruence. subst i'.
      apply H2. eapply inode_at_in_inodes; eauto.
    - intros p Hc Hv. apply in_map_snd in Hv as [a Ha]. apply HC in Hc as [i [H1 H2]].
      apply HV in Ha as [_ [i' [H3 H4]]]. assert (i' = i) by congruence. subst i'.
      apply H2. eapply inode_at_in_inodes; eauto.
    - intros p Hd Hm. apply HD in Hd as [i [H1 H2]].
      apply HM in Hm as [b [sa [sb [H3 [H4 [H5 _]]]]]].
      apply inode_at_some in H1 as [x [Hx <-]]. assert (x = sa) by congruence. subst x.
      apply H2. rewrite H5. apply (inode_at_in_inodes s b). apply inode_at_some. eauto.
    - intros a b b' H1 H2. apply HV in H1 as [_ [i [H1 H3]]]. apply HV in H2 as [_ [i' [H2 H4]]].
      assert (i' = i) by congruence. subst i'. eapply (wf_inj s Hs); eauto.
    - intros a a' b H1 H2. apply HV in H1 as [_ [i [H1 H3]]]. apply HV in H2 as [_ [i' [H2 H4]]].
      assert (i' = i) by congruence. subst i'. eapply (wf_inj r Hr); eauto.
    - intros a b H. apply HV in H. tauto.
    - intros p Hc Hd. apply HC in Hc as [i [H1 H2]]. apply HD in Hd as [j [H3 H4]].
      split; [apply in_paths_inode; eauto|]. split; [apply in_paths_inode; eauto|].
      rewrite H1, H3. intros E. inversion E; subst. apply H2. eapply inode_at_in_inodes; eauto.
    - intros p Hm Hc. apply HM in Hm as [b [sa [sb [H3 [H4 [H5 _]]]]]].
      apply HC in Hc as [i [H1 H2]]. apply in_map_fst. exists b. apply HV. split.
      + intros E. subst b. apply inode_at_some in H1 as [x [Hx <-]].
        assert (x = sb) by congruence. subst x. apply H2. rewrite <- H5.
        apply (inode_at_in_inodes r p). apply inode_at_some. eauto.
      + exists (inode_of sa). split; apply inode_at_some; eauto.
  Qed.
End Abstract.

(** ** The C09 statements *)
Ltac invert_diff H :=
  let ch := fresh "ch" in let t1 := fresh "t1" in let t2 := fresh "t2" in
  let mod1 := fresh "mod1" in let mod2 := fresh "mod2" in
  let dc := fresh "dc" in let dd := fresh "dd" in let dm := fresh "dm" in let dv := fresh "dv" in
  let St := fresh "St" in
  destruct (diff_inv _ _ _ _ H) as [ch [t1 [t2 [mod1 [mod2 [dc [dd [dm [dv [St ->]]]]]]]]]];
  destruct St as [E1 E2 E3 E4 E5 _ _ _ _];
  cbn [result_of d_created d_deleted d_modified d_moved].

Lemma diff_moved_iff : forall r s d, wf r -> wf s -> diff false r s = Some d ->
  forall a b, In (a, b) (d_moved d) <->
    a <> b /\ exists i, inode_at r a = Some i /\ inode_at s b = Some i.
Proof.
  intros r s d Hr Hs H. invert_diff H. exact (moved_wf r s Hr Hs _ _ _ E1 E2 E3).
Qed.

Lemma diff_created_iff : forall r s d, wf r -> wf s -> diff false r s = Some d ->
  forall p, In p (d_created d) <-> exists i, inode_at s p = Some i /\ ~ In i (inodes r).
Proof.
  intros r s d Hr Hs H. invert_diff H. exact (created_wf r s Hr _ _ E1 E3).
Qed.

Lemma diff_deleted_iff : forall r s d, wf r -> wf s -> diff false r s = Some d ->
  forall p, In p (d_deleted d) <-> exists i, inode_at r p = Some i /\ ~ In i (inodes s).
Proof.
  intros r s d Hr Hs H. invert_diff H. exact (deleted_wf r s Hs _ _ E1 E2).
Qed.

Lemma diff_modified_iff : forall r s d, wf r -> wf s -> diff false r s = Some d ->
  forall a, In a (d_modified d) <->
    exists b sa sb, lookup a r = Some sa /\ lookup b s = Some sb /\ inode_of sa = inode_of sb /\
                    (st_mtime sa <> st_mtime sb \/ st_size sa <> st_size sb).
Proof.
  intros r s d Hr Hs H. invert_diff H. exact (modified_wf r s Hr Hs _ _ _ _ _ E1 E2 E3 E4 E5).
Qed.

Lemma diff_account : forall r s d, wf r -> wf s -> diff false r s = Some d ->
  forall p, In p (paths s) <->
    (In p (paths r) /\ ~ In p (d_deleted d) /\ ~ In p (map fst (d_moved d)))
    \/ In p (d_created d) \/ In p (map snd (d_moved d)).
Proof.
  intros r s d Hr Hs H.
  exact (abs_account r s Hr Hs _ _ _
           (diff_created_iff r s d Hr Hs H) (diff_deleted_iff r s d Hr Hs H)
           (diff_moved_iff r s d Hr Hs H)).
Qed.

Lemma diff_disjoint : forall r s d, wf r -> wf s -> diff false r s = Some d ->
  (forall p, In p (d_deleted d) -> ~ In p (map fst (d_moved d))) /\
  (forall p, In p (d_created d) -> ~ In p (map snd (d_moved d))) /\
  (forall p, In p (d_deleted d) -> ~ In p (d_modified d)) /\
  (forall a b b', In (a, b) (d_moved d) -> In (a, b') (d_moved d) -> b = b') /\
  (forall a a' b, In (a, b) (d_moved d) -> In (a', b) (d_moved d) -> a = a') /\
  (forall a b, In (a, b) (d_moved d) -> a <> b) /\
  (forall p, In p (d_created d) -> In p (d_deleted d) ->
     In p (paths r) /\ In p (paths s) /\ inode_at r p <> inode_at s p) /\
  (forall p, In p (d_modified d) -> In p (d_created d) -> In p (map fst (d_moved d))).
Proof.
  intros r s d Hr Hs H.
  exact (abs_disjoint r s Hr Hs _ _ _ _
           (diff_created_iff r s d Hr Hs H) (diff_deleted_iff r s d Hr Hs H)
           (diff_moved_iff r s d Hr Hs H) (diff_modified_iff r s d Hr Hs H)).
Qed.
