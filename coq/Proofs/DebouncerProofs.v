(* Proofs about the EventDebouncer model (repaired loop) and refutations for the pinned loop. *)
Require Import WD.Base.Prelude WD.Base.Lts WD.Model.Debouncer.

(* ------------------------------------------------------------------ case analysis of one step *)
Ltac bsplit H :=
  repeat match type of H with
         | context [if ?b then _ else _] => let E := fresh "E" in destruct b eqn:E
         end.

Ltac step_cases H :=
  match type of H with
  | deb_step _ _ ?s ?l = Some _ =>
      destruct s as [ck st evs p nt dc hd dl]; destruct l as [e| | |d]; destruct p;
      cbn [deb_step thr_step notify set_pc enter_wait lock_free is_waiting
           clock stopped events pcs notified decided handed delivered] in H;
      bsplit H; try discriminate H; inversion H; subst; clear H
  end.

Section Repaired.
  Variable interval : N.
  Notation M := (deb_lts true interval).
  Notation dstep := (deb_step true interval).

  (* ---------------------------------------------------------------- A: nothing lost, nothing twice *)
  Definition inv_concat (s : state) : Prop := concat (batches s) ++ pending s = handed s.

  Lemma inv_concat_step s l s' : inv_concat s -> dstep s l = Some s' -> inv_concat s'.
  Proof.
    unfold inv_concat, pending, batches, in_flight. intros I H. step_cases H; simpl in *;
      try assumption;
      try (rewrite <- I; rewrite ?app_assoc; reflexivity);
      try (rewrite <- I, ?app_nil_r; reflexivity).
    - rewrite map_app, concat_app. simpl. rewrite app_nil_r, <- I, app_assoc. reflexivity.
  Qed.

  Lemma concat_law s : reachable M s -> inv_concat s.
  Proof. apply (invariant_reachable M inv_concat); [reflexivity | exact inv_concat_step]. Qed.

  (* ---------------------------------------------------------------- B: control invariant *)
  Definition inner_pc (p : pc) : bool :=
    match p with PInnerCheck | PInnerWait _ | PInnerReacq _ | PStopCheck => true | _ => false end.

  Definition inv_ctl (s : state) : Prop :=
    (* an un-notified waiter of the outer wait has nothing to do *)
    (pcs s = POuterWait -> notified s = false -> events s = [] /\ stopped s = false) /\
    (* stop() always wakes the timed waiter *)
    (forall d, pcs s = PInnerWait d -> stopped s = true -> notified s = true) /\
    (* no callback once stopped *)
    (stopped s = true -> in_flight s = []) /\
    (* the inner part is entered with something to deliver, or to stop *)
    (inner_pc (pcs s) = true -> events s <> [] \/ stopped s = true) /\
    (* batches are non-empty *)
    (forall b, pcs s = PCallback b -> b <> [] /\ events s = []) /\
    Forall (fun b => b <> []) (batches s) /\
    (* run() returns only after stop() *)
    (pcs s = PDone -> stopped s = true).

  Lemma app_not_nil {A} (l : list A) x : l ++ [x] <> [].
  Proof. destruct l; discriminate. Qed.

  Lemma is_nil_false {A} (l : list A) : is_nil l = false -> l <> [].
  Proof. destruct l; [discriminate | discriminate]. Qed.

  Lemma inv_ctl_step s l s' : inv_ctl s -> dstep s l = Some s' -> inv_ctl s'.
  Proof.
    unfold inv_ctl, batches, in_flight. intros (I1 & I2 & I3 & I4 & I5 & I6 & I7) H.
    step_cases H; cbn [clock stopped events pcs notified decided handed delivered inner_pc] in *;
      (repeat split; intros;
       try discriminate; try congruence; try assumption;
       try (left; apply app_not_nil);
       try (right; reflexivity);
       try solve [intuition congruence]).
    all: try solve [ match goal with E : (_ && _)%bool = true |- _ => apply andb_true_iff in E; destruct E as [E1 E2];
                       destruct evs; [|discriminate]; destruct st; [discriminate|]; split; reflexivity end ].
    all: try solve [ match goal with E : (_ && _)%bool = false |- _ => apply andb_false_iff in E; destruct E as [E1|E1];
                       [left; apply is_nil_false; exact E1 | right; destruct st; [reflexivity|discriminate] ] end ].
    all: try solve [ destruct (I4 eq_refl) as [X|X]; [ congruence | congruence ] ].
    all: try solve [ inversion H; subst; apply I5; reflexivity ].
    all: try solve [ split; [|reflexivity]; destruct (I4 eq_refl) as [X|X]; [ congruence | congruence ] ].
    all: try solve [ rewrite map_app; apply Forall_app; split; [assumption| constructor; [|constructor]]; simpl; apply I5; reflexivity ].
    all: try solve [ eapply I2; eauto ].
    all: try solve [ apply (I5 _ eq_refl) ].
    all: try solve [ split; apply (I5 _ eq_refl) ].
  Qed.

  Lemma inv_ctl_init : inv_ctl init_state.
  Proof. unfold inv_ctl; simpl; repeat split; intros; try discriminate; constructor. Qed.

  Lemma ctl_law s : reachable M s -> inv_ctl s.
  Proof. apply (invariant_reachable M inv_ctl); [exact inv_ctl_init | exact inv_ctl_step]. Qed.

  (* ---------------------------------------------------------------- no deadlock *)
  Lemma no_deadlock s : reachable M s -> pcs s <> PDone ->
    thr_step true interval s <> None \/ timer_pending s = true \/
    (pcs s = POuterWait /\ notified s = false /\ events s = [] /\ stopped s = false).
  Proof.
    intros R ND. destruct (ctl_law s R) as (I1 & _).
    destruct s as [ck st evs p nt dc hd dl]; destruct p; simpl in *; unfold thr_step, timer_pending; simpl;
      try (left; repeat match goal with |- context [if ?b then _ else _] => destruct b end; discriminate).
    - destruct nt; [left; discriminate | right; right]. destruct (I1 eq_refl eq_refl). auto.
    - destruct nt; [left; discriminate|]. destruct (N.leb d ck); [left; discriminate | right; left; reflexivity].
    - congruence.
  Qed.

  Lemma deadlocked_only_idle s : reachable M s -> deadlockedb true interval s = true ->
    pcs s = POuterWait /\ notified s = false /\ events s = [] /\ stopped s = false.
  Proof.
    intros R D. unfold deadlockedb in D.
    destruct (pcs s) eqn:P; try discriminate D;
      destruct (thr_step true interval s) eqn:T; try discriminate D;
      (assert (ND : pcs s <> PDone) by congruence);
      destruct (no_deadlock s R ND) as [X | [X | X]]; try congruence;
      try (unfold timer_pending in X; rewrite P in X; discriminate X).
    all: try (destruct X as (_ & ? & ? & ?); auto).
  Qed.

  (* ---------------------------------------------------------------- nothing after stop *)
  Lemma stopped_step s l s' : inv_ctl s -> stopped s = true -> dstep s l = Some s' ->
    stopped s' = true /\ delivered s' = delivered s.
  Proof.
    intros (_ & _ & I3 & _ & I5 & _) S H. unfold in_flight in I3.
    step_cases H; simpl in *; try (split; [assumption || reflexivity | reflexivity]).
    specialize (I3 S). destruct (I5 _ eq_refl) as [X _]. contradiction.
  Qed.

  Lemma stopped_run tr : forall s s', reachable M s -> stopped s = true -> run M s tr = Some s' ->
    stopped s' = true /\ delivered s' = delivered s.
  Proof.
    induction tr as [|l tr IH]; intros s s' R S H; simpl in H.
    - inversion H; subst; auto.
    - destruct (dstep s l) as [s1|] eqn:E; [|discriminate].
      destruct (stopped_step s l s1 (ctl_law s R) S E) as [S1 D1].
      destruct (IH s1 s' (reachable_step M s l s1 R E) S1 H) as [S2 D2]. split; congruence.
  Qed.

  Lemma nothing_after_stop tr1 tr2 s1 s' :
    run M init_state tr1 = Some s1 -> run M s1 (Stop :: tr2) = Some s' -> delivered s' = delivered s1.
  Proof.
    intros H1 H2.
    change (match deb_step true interval s1 Stop with Some x => run M x tr2 | None => None end = Some s') in H2.
    destruct (deb_step true interval s1 Stop) as [s2|] eqn:E; [|discriminate].
    assert (R1 : reachable M s1) by (exists tr1; exact H1).
    assert (R2 : reachable M s2) by (eapply reachable_step; eauto).
    assert (S2 : stopped s2 = true /\ delivered s2 = delivered s1).
    { clear H2 R1 H1 R2. destruct s1 as [ck st evs p nt dc hd dl]; destruct p; simpl in E;
        try discriminate E; inversion E; subst; simpl; auto. }
    destruct S2 as [S2 D2]. destruct (stopped_run tr2 s2 s' R2 S2 H2). congruence.
  Qed.

  (* ---------------------------------------------------------------- bounded exit after stop *)
  Lemma exit_rank_bound s : (exit_rank true s <= 5)%nat.
  Proof. unfold exit_rank. destruct (pcs s); try destruct r; lia. Qed.

  Lemma exit_step s l s' : inv_ctl s -> stopped s = true -> dstep s l = Some s' ->
    match l with Thr => (exit_rank true s' < exit_rank true s)%nat | _ => exit_rank true s' = exit_rank true s end.
  Proof.
    intros (_ & I2 & _) S H. unfold exit_rank.
    step_cases H; simpl in *; try lia; try reflexivity; try discriminate.
  Qed.

  Lemma exit_enabled s : reachable M s -> stopped s = true -> pcs s <> PDone -> thr_step true interval s <> None.
  Proof.
    intros R S ND. destruct (no_deadlock s R ND) as [X | [X | X]]; [exact X | |].
    - destruct (ctl_law s R) as (_ & I2 & _). unfold timer_pending in X.
      destruct (pcs s) eqn:P; try discriminate X. rewrite (I2 _ eq_refl S) in X. discriminate X.
    - destruct X as (_ & _ & _ & X). congruence.
  Qed.

  Lemma exit_run tr : forall s s', reachable M s -> stopped s = true -> run M s tr = Some s' ->
    (exit_rank true s' + count_thr tr <= exit_rank true s)%nat.
  Proof.
    induction tr as [|l tr IH]; intros s s' R S H; simpl in H.
    - inversion H; subst; simpl; lia.
    - destruct (dstep s l) as [s1|] eqn:E; [|discriminate].
      pose proof (exit_step s l s1 (ctl_law s R) S E) as X.
      destruct (stopped_step s l s1 (ctl_law s R) S E) as [S1 _].
      specialize (IH s1 s' (reachable_step M s l s1 R E) S1 H).
      destruct l; simpl; lia.
  Qed.

  (* ---------------------------------------------------------------- delivery progress while running *)
  Definition all_delivered (s : state) : Prop := pending s = [] /\ concat (batches s) = handed s.

  Lemma deliver_rank_bound s : (deliver_rank interval s <= 8)%nat.
  Proof. unfold deliver_rank. destruct (N.eqb interval 0), (pcs s), (notified s); try destruct r; simpl; lia. Qed.

  Lemma deliver_enabled s : reachable M s -> stopped s = false -> pending s <> [] ->
    thr_step true interval s <> None \/ timer_pending s = true.
  Proof.
    intros R S P. destruct (ctl_law s R) as (_ & _ & _ & _ & _ & _ & I7).
    assert (ND : pcs s <> PDone) by (intro X; specialize (I7 X); congruence).
    destruct (no_deadlock s R ND) as [X | [X | X]]; auto.
    destruct X as (X1 & _ & X2 & _). unfold pending, in_flight in P. rewrite X1, X2 in P. contradiction.
  Qed.

  Lemma deliver_thr s s' : reachable M s -> stopped s = false -> pending s <> [] ->
    thr_step true interval s = Some s' ->
    all_delivered s' \/
    (pending s' = pending s /\ stopped s' = false /\ (deliver_rank interval s' < deliver_rank interval s)%nat).
  Proof.
    intros R S P H.
    assert (R' : reachable M s') by (eapply (reachable_step M s Thr); eauto).
    pose proof (concat_law s' R') as C'. destruct (ctl_law s R) as (I1 & I2 & I3 & I4 & I5 & I6 & I7).
    unfold all_delivered, inv_concat, pending, in_flight, deliver_rank in *.
    destruct s as [ck st evs p nt dc hd dl]; destruct p;
      cbn [thr_step set_pc enter_wait clock stopped events pcs notified decided handed delivered] in *;
      subst st.
    all: try (destruct (N.eqb interval 0) eqn:EI).
    all: bsplit H; try discriminate H; inversion H; subst; clear H;
      cbn [clock stopped events pcs notified decided handed delivered] in *.
    all: try (right; repeat split; simpl; rewrite ?app_nil_r; try reflexivity; lia).
    all: try solve [ apply andb_true_iff in E; destruct E as [E _]; destruct evs; [contradiction | discriminate] ].
    all: try solve [ destruct (I5 _ eq_refl) as [_ X]; subst; left; split; [reflexivity | rewrite app_nil_r in C'; exact C'] ].
  Qed.

  Lemma deliver_tick s d s' : dstep s (Tick d) = Some s' ->
    pending s' = pending s /\ stopped s' = stopped s /\ deliver_rank interval s' = deliver_rank interval s.
  Proof. intros H. inversion H; subst. auto. Qed.

  (* ---------------------------------------------------------------- quiet interval *)
  Definition quiet_at (td : N) (h : list ev) : Prop :=
    forall e, In e h -> (snd e + interval <= td \/ td <= snd e)%N.

  Definition inv_quiet (s : state) : Prop :=
    Forall (fun e => snd e <= clock s)%N (handed s) /\
    (forall d, pcs s = PInnerWait d -> notified s = false -> Forall (fun e => snd e + interval <= d)%N (handed s)) /\
    (decided s <= clock s)%N /\
    (interval <> 0%N ->
       (pcs s = PInnerReacq false \/ (pcs s = PStopCheck /\ stopped s = false) \/ exists b, pcs s = PCallback b) ->
       quiet_at (decided s) (handed s)) /\
    Forall (fun x => (fst (fst x) <= snd (fst x) /\ snd (fst x) <= clock s)%N /\
                     (interval <> 0%N -> quiet_at (fst (fst x)) (handed s))) (delivered s).

  Lemma quiet_at_snoc td h e t : quiet_at td h -> (td <= t)%N -> quiet_at td (h ++ [(e, t)]).
  Proof.
    intros Q L x Hx. apply in_app_or in Hx as [Hx | [Hx | []]]; [auto | subst; simpl; right; exact L].
  Qed.

  Lemma Forall_snoc {A} (P : A -> Prop) l x : Forall P l -> P x -> Forall P (l ++ [x]).
  Proof. intros. apply Forall_app. split; [assumption | constructor; [assumption | constructor]]. Qed.

  Lemma deliv_mono ck ck' hd (dl : list (N * N * list ev)) :
    (ck <= ck')%N ->
    Forall (fun x => (fst (fst x) <= snd (fst x) /\ snd (fst x) <= ck)%N /\
                     (interval <> 0%N -> quiet_at (fst (fst x)) hd)) dl ->
    Forall (fun x => (fst (fst x) <= snd (fst x) /\ snd (fst x) <= ck')%N /\
                     (interval <> 0%N -> quiet_at (fst (fst x)) hd)) dl.
  Proof. intros L. apply Forall_impl. intros x ((A & B) & C). repeat split; auto; lia. Qed.

  Lemma deliv_snoc ck e hd (dl : list (N * N * list ev)) :
    Forall (fun x => (fst (fst x) <= snd (fst x) /\ snd (fst x) <= ck)%N /\
                     (interval <> 0%N -> quiet_at (fst (fst x)) hd)) dl ->
    Forall (fun x => (fst (fst x) <= snd (fst x) /\ snd (fst x) <= ck)%N /\
                     (interval <> 0%N -> quiet_at (fst (fst x)) (hd ++ [(e, ck)]))) dl.
  Proof.
    apply Forall_impl. intros x ((A & B) & C). repeat split; auto. intros NI. apply quiet_at_snoc; [auto | lia].
  Qed.

  Lemma inv_quiet_step s l s' : inv_quiet s -> dstep s l = Some s' -> inv_quiet s'.
  Proof.
    unfold inv_quiet. intros (Q1 & Q2 & Q3 & Q4 & Q5) H.
    step_cases H; cbn [clock stopped events pcs notified decided handed delivered] in *.
    (* HandleEvent *)
    all: try match goal with
      | |- Forall _ (_ ++ [_]) /\ _ =>
          repeat split;
          [ apply Forall_snoc; [exact Q1 | simpl; lia]
          | intros; try discriminate
          | exact Q3
          | intros NI X; apply quiet_at_snoc; [apply Q4; [exact NI | exact X] | exact Q3]
          | apply deliv_snoc; exact Q5 ]
      end.
    (* Tick *)
    all: try match goal with
      | |- Forall (fun _ => (_ <= ?ck + ?d)%N) _ /\ _ =>
          repeat split;
          [ eapply Forall_impl; [|exact Q1]; simpl; intros; lia
          | exact Q2 | lia | exact Q4
          | apply (deliv_mono ck (ck + d)); [lia | exact Q5] ]
      end.
    (* Stop and thread steps *)
    all: repeat split; try assumption; try lia; intros; try discriminate.
    all: try solve [ apply Q4; auto ].
    all: try solve [ match goal with X : _ \/ _ |- _ => destruct X as [X | [[X X'] | [b' X]]]; try discriminate end ].
    all: try solve [ apply Q4; [assumption | destruct H as [X | [[X X'] | [b' X]]]; try discriminate; eauto ] ].
    - destruct H0 as [X | [[X X'] | [b' X]]]; try discriminate. apply Q4; auto.
    - unfold enter_wait in *; simpl in *. inversion H; subst. eapply Forall_impl; [|exact Q1]. simpl; intros; lia.
    - intros x Hx. left. apply N.leb_le in E0. specialize (Q2 _ eq_refl eq_refl).
      rewrite Forall_forall in Q2. specialize (Q2 x Hx). simpl in Q2. lia.
    - apply Forall_snoc; [exact Q5|]. simpl. repeat split; try lia. intros NI. apply Q4; eauto.
  Qed.

  Lemma inv_quiet_init : inv_quiet init_state.
  Proof. unfold inv_quiet; simpl. repeat split; try constructor; intros; try discriminate; try lia.
    destruct H0 as [X | [[X X'] | [b' X]]]; discriminate. Qed.

  Lemma quiet_law s : reachable M s -> inv_quiet s.
  Proof. apply (invariant_reachable M inv_quiet); [exact inv_quiet_init | exact inv_quiet_step]. Qed.

  Lemma exit_rank_zero s : exit_rank true s = 0%nat <-> pcs s = PDone.
  Proof. unfold exit_rank. destruct (pcs s); try destruct r; split; intros; try discriminate; try lia; reflexivity. Qed.

  (* ---------------------------------------------------------------- packaged statements *)
  Lemma deb_concat tr s : run M init_state tr = Some s -> concat (batches s) ++ pending s = handed s.
  Proof. intros H. apply concat_law. exists tr. exact H. Qed.

  Lemma deb_nonempty tr s : run M init_state tr = Some s -> Forall (fun b => b <> []) (batches s).
  Proof. intros H. assert (R : reachable M s) by (exists tr; exact H). apply (ctl_law s R). Qed.

  Lemma deb_quiet tr s : run M init_state tr = Some s -> interval <> 0%N ->
    forall td tc b, In (td, tc, b) (delivered s) ->
      (td <= tc)%N /\ forall e, In e (handed s) -> (snd e + interval <= td \/ td <= snd e)%N.
  Proof.
    intros H NI td tc b Hin. assert (R : reachable M s) by (exists tr; exact H).
    destruct (quiet_law s R) as (_ & _ & _ & _ & Q5). rewrite Forall_forall in Q5.
    destruct (Q5 _ Hin) as ((A & _) & C). simpl in *. split; [exact A | exact (C NI)].
  Qed.

  Lemma deb_no_deadlock tr s : run M init_state tr = Some s -> pcs s <> PDone ->
    thr_step true interval s <> None \/ timer_pending s = true \/
    (pcs s = POuterWait /\ notified s = false /\ events s = [] /\ stopped s = false).
  Proof. intros H. apply no_deadlock. exists tr. exact H. Qed.

  Lemma deb_exit tr s : run M init_state tr = Some s -> stopped s = true ->
    (pcs s <> PDone -> thr_step true interval s <> None) /\
    (exit_rank true s <= 5)%nat /\
    forall tr' s', run M s tr' = Some s' ->
      stopped s' = true /\ (exit_rank true s' + count_thr tr' <= exit_rank true s)%nat.
  Proof.
    intros H S. assert (R : reachable M s) by (exists tr; exact H). repeat split.
    - apply exit_enabled; assumption.
    - apply exit_rank_bound.
    - apply (stopped_run tr' s s' R S H0).
    - apply exit_run; assumption.
  Qed.

  Lemma deb_progress tr s : run M init_state tr = Some s -> stopped s = false -> pending s <> [] ->
    (thr_step true interval s <> None \/ timer_pending s = true) /\
    (deliver_rank interval s <= 8)%nat /\
    (forall s', thr_step true interval s = Some s' ->
       (pending s' = [] /\ concat (batches s') = handed s') \/
       (pending s' = pending s /\ stopped s' = false /\ (deliver_rank interval s' < deliver_rank interval s)%nat)) /\
    (forall d s', dstep s (Tick d) = Some s' ->
       pending s' = pending s /\ stopped s' = stopped s /\ deliver_rank interval s' = deliver_rank interval s).
  Proof.
    intros H S P. assert (R : reachable M s) by (exists tr; exact H). repeat split.
    - apply deliver_enabled; assumption.
    - apply deliver_rank_bound.
    - intros s' T. apply (deliver_thr s s' R S P T).
    - apply (deliver_tick s d s' H0).
    - apply (deliver_tick s d s' H0).
    - apply (deliver_tick s d s' H0).
  Qed.
End Repaired.

(* ------------------------------------------------------------------ the pinned loop (finding F5) *)
Lemma pinned_deadlock : exists tr s,
  run (deb_lts false 0) init_state tr = Some s /\ stopped s = true /\ deadlockedb false 0 s = true.
Proof. exists [Stop; Thr; Thr]. eexists. vm_compute. repeat split. Qed.

Lemma pinned_event_held : exists tr s,
  run (deb_lts false 0) init_state tr = Some s /\ stopped s = false /\ events s <> [] /\
  delivered s = [] /\ deadlockedb false 0 s = true /\
  forall d, exists s', run (deb_lts false 0) s [Tick d] = Some s' /\ deadlockedb false 0 s' = true /\ events s' = events s.
Proof.
  exists [HandleEvent 1; Thr; Thr]. eexists. split; [vm_compute; reflexivity|].
  repeat split; try discriminate. intros d. eexists. repeat split.
Qed.
