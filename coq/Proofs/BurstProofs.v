(* C03 - BURSTS of file-level operations: several operations (touch, write, chmod of a file, unlink, rename of a file inside
   the tree / in / out / replacing a file) applied back to back from a synchronised state, then read.  The records of
   file-level operations are translated independently of the file system and of the kernel state at read time, so the read
   of the burst is the sequence of the reads of the single operations, and the delivered stream is the concatenation of the
   per-operation contracts up to collapse of the whole stream.  Side condition: the kernel did not coalesce a record across
   an operation border (only `chmod f; chmod f` does). *)
Require Import WD.Base.Prelude WD.Base.BStr WD.Model.SubEvents WD.Model.Emitter WD.Model.Fs WD.Model.Reader
               WD.Model.DelayQueue WD.Model.Grouping WD.Model.Pipeline WD.Model.Contract.
Require Import WD.Proofs.ReaderFixProofs WD.Proofs.ContractProofs WD.Proofs.TieProofs WD.Proofs.CoverProofs
               WD.Proofs.CoverOutProofs WD.Proofs.ReplayProofs WD.Proofs.ReplayOutProofs WD.Proofs.TieStrongProofs
               WD.Proofs.CutsProofs WD.Proofs.CutsReaderProofs WD.Proofs.CutsShapeProofs WD.Proofs.CutsPipeProofs WD.Proofs.C11ReaderProofs WD.Proofs.SoundSeqProofs WD.Proofs.SoundPipeProofs
               WD.Proofs.SoundLooseProofs WD.Proofs.ReplaceProofs.

Local Arguments sep : simpl never.

(* ================================================================== 1. records about files are read independently of t and k *)
Definition nondir (e : kraw) : Prop := is_directory (k_mask e) = false /\ Emitter.is_ignored (k_mask e) = false.
Definition of_rec (e : kraw) (x : raw) : Prop := r_mask x = k_mask e /\ r_cookie x = k_cookie e.

Section ReadFile.
  Variable C : cfg.

  Lemma settle_none r k e : pend r = None -> settle_pending C r k e = (r, k).
  Proof. intros H. unfold settle_pending. rewrite H. now destruct (c_fix_moveout C). Qed.

  Lemma ro_move_file r e wdp : pend r = None -> is_directory (k_mask e) = false ->
    exists rr ev, pend rr = None /\ of_rec e ev /\ forall t k, ro_move C t r k e wdp = (rr, k, ev).
  Proof.
    intros Hp Hd. unfold ro_move. rewrite Hd. rewrite ?andb_false_r. cbn [andb].
    destruct (is_moved_from (k_mask e)); [eexists; eexists; split; [|split; [|intros; reflexivity]]; [exact Hp | split; reflexivity]|].
    destruct (is_moved_to (k_mask e)); [|eexists; eexists; split; [|split; [|intros; reflexivity]]; [exact Hp | split; reflexivity]].
    destruct (alookup N.eqb (k_cookie e) (mvf r)) as [msrc|];
      [|eexists; eexists; split; [|split; [|intros; reflexivity]]; [exact Hp | split; reflexivity]].
    destruct (alookup beqb msrc (wfp r)) as [mwd|];
      [|eexists; eexists; split; [|split; [|intros; reflexivity]]; [exact Hp | split; reflexivity]].
    eexists; eexists; split; [|split; [|intros; reflexivity]]; [|split; reflexivity].
    destruct (c_recursive C); [rewrite CoverProofs.rekey_loop_pend|]; exact Hp.
  Qed.

  (* one record: the outcome does not depend on the file system, the kernel state or what was read before *)
  Lemma read_one_file r e : pend r = None -> nondir e ->
    (exists r' ev, pend r' = None /\ Forall (of_rec e) ev /\ forall t k acc, read_one C t (r, k, acc) e = Done (r', k, acc ++ ev)) \/
    (exists s, forall t k acc, read_one C t (r, k, acc) e = Crash s).
  Proof.
    intros Hp [Hd Hi].
    assert (Hone : forall t k acc, read_one C t (r, k, acc) e = read_one_body C t (r, k, acc) e)
      by (intros; unfold read_one; now rewrite (settle_none r _ e Hp)).
    destruct (alookup N.eqb (k_wd e) (pfw r)) as [wdp|] eqn:Ew.
    - destruct (ro_move_file r e wdp Hp Hd) as (rr & ev & Hpr & Hof & Hmv). left. exists rr, [ev].
      split; [exact Hpr|]. split; [constructor; [exact Hof | constructor]|].
      intros t k acc. rewrite Hone, read_one_body_factored, Ew, Hmv. unfold ro_ignored. rewrite Hi, Hd, andb_false_r. reflexivity.
    - destruct (c_fix_moveout C) eqn:Ef.
      + left. exists r, []. split; [exact Hp|]. split; [constructor|]. intros t k acc.
        rewrite Hone, read_one_body_factored, Ew, Ef. now rewrite app_nil_r.
      + right. eexists. intros t k acc. rewrite Hone, read_one_body_factored, Ew, Ef. reflexivity.
  Qed.
End ReadFile.

Section ReadFileBatch.
  Variable C : cfg.

  Lemma read_batch_file b : Forall nondir b -> forall r t1 k1 acc1 r' k1' out1, pend r = None ->
    read_batch C t1 (r, k1, acc1) b = Done (r', k1', out1) ->
    k1' = k1 /\ pend r' = None /\ exists ev, out1 = acc1 ++ ev /\
      Forall (fun x => exists e, In e b /\ of_rec e x) ev /\
      forall t2 k2 acc2, read_batch C t2 (r, k2, acc2) b = Done (r', k2, acc2 ++ ev).
  Proof.
    induction 1 as [|e b He Hb IH]; intros r t1 k1 acc1 r' k1' out1 Hp Hrd; cbn [read_batch] in *.
    - inversion Hrd; subst. split; [reflexivity|]. split; [exact Hp|]. exists []. split; [now rewrite app_nil_r|].
      split; [constructor|]. intros. now rewrite app_nil_r.
    - destruct (read_one_file C r e Hp He) as [(ra & ev1 & Hpa & Hof1 & Hone)|(s & Hcr)]; [|rewrite Hcr in Hrd; discriminate].
      rewrite Hone in Hrd.
      destruct (IH ra t1 k1 (acc1 ++ ev1) r' k1' out1 Hpa Hrd) as (Ek & Hp' & ev2 & Eo & Hof2 & Hall).
      split; [exact Ek|]. split; [exact Hp'|]. exists (ev1 ++ ev2). split; [now rewrite Eo, app_assoc|]. split.
      + apply Forall_app. split.
        * eapply Forall_impl; [|exact Hof1]. intros x Hx. exists e. split; [now left | exact Hx].
        * eapply Forall_impl; [|exact Hof2]. intros x (e0 & H0 & H1). exists e0. split; [now right | exact H1].
      + intros t2 k2 acc2. rewrite Hone. rewrite (Hall t2 k2 (acc2 ++ ev1)). now rewrite app_assoc.
  Qed.
End ReadFileBatch.

(* ================================================================== 2. the records of a file-level operation *)
Definition file_op (w : world) (o : op) : Prop :=
  match o with
  | Touch _ | Write _ | Unlink _ => True
  | Chmod p => fisdir p (w_fs w) = false
  | Rename p q => fisdir p (w_fs w) = false
  | Mkdir _ | Rmdir _ => False
  end.

Lemma knotify_nondir k ino bit c name : is_directory bit = false /\ Emitter.is_ignored bit = false ->
  Forall nondir (k_queue k) -> Forall nondir (k_queue (knotify k ino bit false c name)).
Proof.
  intros Hb Hq. unfold knotify. destruct (watch_of_ino k ino) as [kw|]; [|exact Hq].
  destruct (N.eqb (N.land bit (kw_mask kw)) 0); [exact Hq|]. cbn [k_queue].
  apply Forall_forall. intros a Ha. destruct (kpush_in _ _ _ Ha) as [Ha'|Ea]; [rewrite Forall_forall in Hq; now apply Hq | subst a; exact Hb].
Qed.

Lemma rename_file_target w p q w' : apply_op w (Rename p q) = Some w' -> fisdir p (w_fs w) = false -> fisdir q (w_fs w) = false.
Proof.
  cbn [apply_op]. unfold fisdir at 2. destruct (flookup p (w_fs w)) as [e|] eqn:El; [|discriminate].
  destruct (beqb p q || under p q || negb (fisdir (dirname q) (w_fs w))); [discriminate|]. intros H Hd.
  unfold fisdir. destruct (flookup q (w_fs w)) as [v|]; [|reflexivity]. rewrite Hd in H.
  destruct (f_dir v); [discriminate | reflexivity].
Qed.

Lemma kernel_op_file_nondir w k o w' : apply_op w o = Some w' -> file_op w o -> Forall nondir (k_queue k) ->
  Forall nondir (k_queue (kernel_op k (w_fs w) o)).
Proof.
  intros Ha Hf Hq. destruct o as [p|p|p|p|p|p|p q]; cbn [file_op] in Hf; try contradiction; cbn [kernel_op].
  - repeat apply knotify_nondir; try (split; reflexivity); exact Hq.
  - repeat apply knotify_nondir; try (split; reflexivity); exact Hq.
  - rewrite Hf. apply knotify_nondir; [split; reflexivity | exact Hq].
  - apply knotify_nondir; [split; reflexivity | exact Hq].
  - rewrite Hf, (rename_file_target w p q w' Ha Hf). repeat apply knotify_nondir; try (split; reflexivity); exact Hq.
Qed.


(* ================================================================== 3. grouping and emission of concatenated raws *)
Section GroupApp.
  Variable C : cfg.

  Lemma group_go_app b1 : forall b2 g, group_go C (b1 ++ b2) g = group_go C b2 (group_go C b1 g).
  Proof.
    induction b1 as [|e b1 IH]; intros b2 g; [reflexivity|]. cbn [app group_go].
    destruct (nkind_of C e); try apply IH. destruct (pair_in_batch C cookie e g); apply IH.
  Qed.

  Lemma pair_in_batch_frame c t G : (forall it, In it G -> is_from_raw C c it = false) -> forall g,
    pair_in_batch C c t (G ++ g) = match pair_in_batch C c t g with Some g' => Some (G ++ g') | None => None end.
  Proof.
    induction G as [|it G IH]; intros H g; [cbn [app]; now destruct (pair_in_batch C c t g)|].
    cbn [app pair_in_batch]. rewrite (H it (or_introl eq_refl)). rewrite IH by (intros x Hx; apply H; now right).
    now destruct (pair_in_batch C c t g).
  Qed.

  (* no IN_MOVED_TO of [b] has the cookie of a still single IN_MOVED_FROM of [G] *)
  Definition sepG (G : list Emitter.item) (b : list raw) : Prop :=
    forall e c, In e b -> nkind_of C e = KTo c -> forall it, In it G -> is_from_raw C c it = false.

  Lemma group_go_frame b : forall G g, sepG G b -> group_go C b (G ++ g) = G ++ group_go C b g.
  Proof.
    induction b as [|e b IH]; intros G g Hs; [reflexivity|]. cbn [group_go].
    assert (Hs' : sepG G b) by (intros x c Hx; apply Hs; now right).
    destruct (nkind_of C e) eqn:Ek; try (rewrite <- app_assoc; now apply IH).
    rewrite (pair_in_batch_frame cookie e G (Hs e cookie (or_introl eq_refl) Ek)).
    destruct (pair_in_batch C cookie e g); [now apply IH | rewrite <- app_assoc; now apply IH].
  Qed.

  (* the singles of a grouping are raws of the batch *)
  Lemma group_go_single b : forall g f, In (Single f) (group_go C b g) -> In (Single f) g \/ In f b.
  Proof.
    induction b as [|e b IH]; intros g f H; [now left|]. cbn [group_go] in H.
    assert (Hsn : In (Single f) (g ++ [Single e]) -> In (Single f) g \/ In f (e :: b)).
    { intros Hi. apply in_app_iff in Hi as [Hi|[Hi|[]]]; [now left | right; left; now inversion Hi]. }
    destruct (nkind_of C e); try (apply IH in H as [H|H]; [now apply Hsn | right; now right]).
    destruct (pair_in_batch C cookie e g) as [g'|] eqn:Ep; [|apply IH in H as [H|H]; [now apply Hsn | right; now right]].
    apply IH in H as [H|H]; [|right; now right]. left.
    clear -Ep H. revert g' Ep H. induction g as [|it g IHg]; intros g' Ep H; cbn [pair_in_batch] in Ep; [discriminate|].
    destruct (is_from_raw C cookie it).
    - destruct it; [|discriminate]. inversion Ep; subst. destruct H as [H|H]; [discriminate | now right].
    - destruct (pair_in_batch C cookie e g) as [g''|]; [|discriminate]. inversion Ep; subst.
      destruct H as [H|H]; [now left | right; now apply (IHg g'')].
  Qed.

  Definition sepR (R1 R2 : list raw) : Prop :=
    forall f t c, In f R1 -> In t R2 -> nkind_of C f = KFrom c -> nkind_of C t = KTo c -> False.

  Lemma group_batch_app R1 R2 : sepR R1 R2 -> group_batch C (R1 ++ R2) = group_batch C R1 ++ group_batch C R2.
  Proof.
    intros Hs. unfold group_batch. rewrite group_go_app.
    rewrite <- (app_nil_r (group_go C R1 [])) at 1. rewrite group_go_frame; [now rewrite filter_app|].
    intros t c Ht Hk it Hit. destruct it as [f|]; [|reflexivity]. cbn [is_from_raw].
    destruct (nkind_of C f) eqn:Ef; try reflexivity. destruct (N.eqb c cookie) eqn:E; [|reflexivity].
    apply N.eqb_eq in E. subst. exfalso. apply group_go_single in Hit as [[]|Hf]. exact (Hs f t cookie Hf Ht Ef Hk).
  Qed.
End GroupApp.

(* emission of items about files does not look at the file system *)
Definition file_item (it : Emitter.item) : Prop :=
  match it with Single e => is_directory (r_mask e) = false | Pair f _ => is_directory (r_mask f) = false end.

Lemma emit_file_ct full rec root ct1 ct2 it : file_item it -> emit full rec root ct1 it = emit full rec root ct2 it.
Proof.
  destruct it as [e|f t]; cbn [file_item emit]; intros H; [unfold emit_single | unfold emit_pair]; now rewrite H.
Qed.

Lemma emit_all_file_ct full rec root ct1 ct2 its : Forall file_item its ->
  emit_all full rec root ct1 its = emit_all full rec root ct2 its.
Proof.
  induction 1 as [|it its H Hf IH]; [reflexivity|]. cbn [emit_all]. rewrite (emit_file_ct full rec root ct1 ct2 it H).
  now rewrite IH.
Qed.

Lemma group_go_file C b : forall g, Forall (fun x => is_directory (r_mask x) = false) b -> Forall file_item g ->
  Forall file_item (group_go C b g).
Proof.
  induction b as [|e b IH]; intros g Hb Hg; [exact Hg|]. inversion Hb as [|? ? He Hb']; subst. cbn [group_go].
  assert (Hs : Forall file_item (g ++ [Single e])) by (apply Forall_app; split; [exact Hg | constructor; [exact He | constructor]]).
  destruct (nkind_of C e); try (apply IH; assumption).
  destruct (pair_in_batch C cookie e g) as [g'|] eqn:Ep; [|apply IH; assumption]. apply IH; [assumption|].
  clear -Ep Hg. revert g' Ep. induction Hg as [|it g Hit Hg IHg]; intros g' Ep; cbn [pair_in_batch] in Ep; [discriminate|].
  destruct (is_from_raw C cookie it).
  - destruct it; [|discriminate]. inversion Ep; subst. constructor; assumption.
  - destruct (pair_in_batch C cookie e g) as [g''|]; [|discriminate]. inversion Ep; subst. constructor; [assumption | now apply IHg].
Qed.

Lemma group_batch_file C b : Forall (fun x => is_directory (r_mask x) = false) b -> Forall file_item (group_batch C b).
Proof.
  intros H. unfold group_batch. assert (Hg := group_go_file C b [] H (Forall_nil _)).
  rewrite Forall_forall in *. intros it Hit. apply filter_In in Hit as [Hit _]. now apply Hg.
Qed.

(* ================================================================== 4. cookies of the records of one operation *)
Lemma knotify_fields k ino bit isd c name :
  k_watches (knotify k ino bit isd c name) = k_watches k /\ k_next_cookie (knotify k ino bit isd c name) = k_next_cookie k /\
  forall e, In e (k_queue (knotify k ino bit isd c name)) ->
    In e (k_queue k) \/ (k_cookie e = c /\ k_mask e = if isd then N.lor bit IN_ISDIR else bit).
Proof.
  unfold knotify. destruct (watch_of_ino k ino) as [kw|]; [|repeat split; auto].
  destruct (N.eqb (N.land bit (kw_mask kw)) 0); [repeat split; auto|]. cbn [k_watches k_next_cookie k_queue].
  repeat split. intros e He. destruct (kpush_in _ _ _ He) as [He'|Ee]; [now left | subst e; right; now split].
Qed.

Definition moved_rec (e : kraw) : Prop := is_moved_from (k_mask e) = true \/ is_moved_to (k_mask e) = true.

Lemma kernel_op_file_cookies w k o w' : apply_op w o = Some w' -> file_op w o -> k_queue k = [] ->
  let K := kernel_op k (w_fs w) o in
  (forall e, In e (k_queue K) -> moved_rec e -> k_cookie e = k_next_cookie k /\ k_next_cookie K = (k_next_cookie k + 1)%N) /\
  (k_next_cookie k <= k_next_cookie K)%N.
Proof.
  intros Ha Hf Hq. destruct o as [p|p|p|p|p|p|p q]; cbn [file_op] in Hf; try contradiction; cbn [kernel_op]; cbv zeta.
  1-4: split; [|try rewrite Hf; repeat (rewrite (proj1 (proj2 (knotify_fields _ _ _ _ _ _)))); lia].
  1-4: intros e He [Hm|Hm]; exfalso; try rewrite Hf in He;
       repeat (apply (proj2 (proj2 (knotify_fields _ _ _ _ _ _))) in He as [He|[_ Hk]]; [|rewrite Hk in Hm; vm_compute in Hm; discriminate]);
       rewrite Hq in He; destruct He.
  rewrite Hf, (rename_file_target w p q w' Ha Hf).
  set (k0 := {| k_watches := k_watches k; k_next_wd := k_next_wd k; k_queue := k_queue k; k_next_cookie := k_next_cookie k + 1 |}).
  split.
  - intros e He _. split; [|repeat (rewrite (proj1 (proj2 (knotify_fields _ _ _ _ _ _)))); reflexivity].
    repeat (apply (proj2 (proj2 (knotify_fields _ _ _ _ _ _))) in He as [He|[Hc _]]; [|exact Hc]).
    cbn [k0 k_queue] in He. rewrite Hq in He. destruct He.
  - repeat (rewrite (proj1 (proj2 (knotify_fields _ _ _ _ _ _)))). cbn [k0 k_next_cookie]. lia.
Qed.

(* ================================================================== 5. the burst *)
(* the kernel queues of the operations taken one at a time (each from a drained kernel), and the final kernel and world *)
Fixpoint seq_qs (k : kst) (w : world) (ops : list op) : list (list kraw) :=
  match ops with
  | [] => []
  | o :: ops' => match apply_op w o with
                 | None => seq_qs k w ops'
                 | Some w' => let K := kernel_op k (w_fs w) o in k_queue K :: seq_qs (drainq K) w' ops'
                 end
  end.
Fixpoint seq_end (k : kst) (w : world) (ops : list op) : kst * world :=
  match ops with
  | [] => (k, w)
  | o :: ops' => match apply_op w o with
                 | None => seq_end k w ops'
                 | Some w' => seq_end (drainq (kernel_op k (w_fs w) o)) w' ops'
                 end
  end.
(* the burst: the operations applied back to back, nothing read in between *)
Fixpoint burst_end (k : kst) (w : world) (ops : list op) : kst * world :=
  match ops with
  | [] => (k, w)
  | o :: ops' => match apply_op w o with
                 | None => burst_end k w ops'
                 | Some w' => burst_end (kernel_op k (w_fs w) o) w' ops'
                 end
  end.

Lemma burst_seq_world ops : forall k1 k2 w, snd (burst_end k1 w ops) = snd (seq_end k2 w ops).
Proof. induction ops as [|o ops IH]; intros k1 k2 w; cbn; [reflexivity|]. destruct (apply_op w o); apply IH. Qed.

Lemma G_app C R1 R2 : G C R1 -> G C R2 ->
  (forall f t c, In f R1 -> In t R2 -> nkind_of C f = KFrom c -> nkind_of C t = KTo c -> False) -> G C (R1 ++ R2).
Proof.
  intros H1 H2 Hs X t Y c E Hk.
  apply app_eq_app in E as [l [[E1 E2]|[EX E2]]].
  - destruct l as [|a l]; cbn [app] in E2.
    + assert (Ht : In t R2) by (rewrite <- E2; now left). rewrite app_nil_r in E1. subst X.
      destruct (H2 [] t Y c (eq_sym E2) Hk) as [H|(X' & f & El & _)]; [|destruct X'; discriminate].
      left. intros f Hf Hkf. exact (Hs f t c Hf Ht Hkf Hk).
    + injection E2 as <- _. exact (H1 X t l c E1 Hk).
  - (* t lies in R2 *)
    assert (Ht : In t R2) by (rewrite E2; apply in_app_iff; right; now left).
    destruct (H2 l t Y c E2 Hk) as [H|(X' & f & El & Hf & HX')].
    + left. intros f Hf. rewrite EX in Hf. apply in_app_iff in Hf as [Hf|Hf]; [intros Hkf; exact (Hs f t c Hf Ht Hkf Hk) | now apply H].
    + right. exists (R1 ++ X'), f. split; [rewrite EX, El; now rewrite app_assoc|]. split; [exact Hf|].
      intros f' Hf'. apply in_app_iff in Hf' as [Hf'|Hf']; [intros Hkf; exact (Hs f' t c Hf' Ht Hkf Hk) | now apply HX'].
Qed.

Section Burst.
  Variable C : cfg.
  Variable full : bool.
  Hypothesis Hfaults : c_faults C = [].
  Hypothesis Hmo : c_fix_moveout C = true.
  Hypothesis Hm : c_mask C = WATCHDOG_ALL.
  Let rec := c_recursive C.
  Let root := c_root C.

  (* file-level operations of the sequential class *)
  Fixpoint burst_ok (w : world) (ops : list op) : Prop :=
    match ops with
    | [] => True
    | o :: ops' => match apply_op w o with
                   | None => burst_ok w ops'
                   | Some w' => c01_x C w o /\ file_op w o /\ burst_ok w' ops'
                   end
    end.

  Definition mv_raw (x : raw) (c : N) : Prop := nkind_of C x = KFrom c \/ nkind_of C x = KTo c.

  Lemma mv_raw_rec x c e : of_rec e x -> mv_raw x c -> moved_rec e /\ k_cookie e = c.
  Proof.
    intros [Hmk Hck] [H|H]; [apply nkind_from in H | apply nkind_to in H]; destruct H as [H1 H2];
      rewrite Hmk in H1; rewrite Hck in H2; split; auto; [now left | now right].
  Qed.

  Definition chunk_ok (R : list raw) (ct0 : list nevent) : Prop :=
    forall ct, collapse (emit_all full rec root ct (group_batch C R)) = collapse ct0.

  Lemma burst_seq ops : forall w kk r, RSync C w kk r -> burst_ok w ops ->
    exists r' Rs,
      (forall t kx acc, read_batch C t (r, kx, acc) (concat (seq_qs kk w ops)) = Done (r', kx, acc ++ concat Rs)) /\
      RSync C (snd (seq_end kk w ops)) (fst (seq_end kk w ops)) r' /\
      Forall2 chunk_ok Rs (contracts_of C full w ops) /\
      Forall (fun x => is_directory (r_mask x) = false) (concat Rs) /\ Forall (root_safe C) (concat Rs) /\
      (forall x c, In x (concat Rs) -> mv_raw x c -> (k_next_cookie kk <= c)%N) /\
      group_batch C (concat Rs) = concat (map (group_batch C) Rs) /\
      G C (concat Rs).
  Proof.
    induction ops as [|o ops IH]; intros w kk r S Hb; cbn [seq_qs seq_end burst_ok contracts_of] in *.
    - exists r, []. cbn [concat map]. split; [intros; cbn [read_batch]; now rewrite app_nil_r|]. split; [exact S|].
      split; [constructor|]. split; [constructor|]. split; [constructor|]. split; [intros x c []|]. split; [reflexivity|].
      intros X t Y c E. destruct X; discriminate.
    - destruct (apply_op w o) as [w'|] eqn:Ea; [|now apply IH].
      destruct Hb as (Hx & Hfo & Hb).
      assert (M : mask_ok C) by (unfold mask_ok; rewrite Hm; repeat split; vm_compute; discriminate).
      assert (Hq := rs_queue _ _ _ _ S). assert (Hpd := rs_pend _ _ _ _ S).
      set (K := kernel_op kk (w_fs w) o) in *.
      assert (Hcov' : covered_op C w o).
      { destruct Hx as [o' Ho|p q ep Np Nq Hrec El De Sp Hpr Sq Elq]; [now apply c01_op_covered|]. cbn [file_op] in Hfo.
        unfold fisdir in Hfo. rewrite El in Hfo. congruence. }
      destruct (cover_step_safe C Hfaults w kk r o w' M S Hcov' Ea) as (r1 & k1 & R1 & Hrd & S1 & Hsafe1).
      fold K in Hrd.
      assert (Hnd : Forall nondir (k_queue K)) by (apply (kernel_op_file_nondir w kk o w' Ea Hfo); rewrite Hq; constructor).
      destruct (read_batch_file C (k_queue K) Hnd r (w_fs w') (drainq K) [] r1 k1 R1 Hpd Hrd) as (Ek1 & Hp1 & ev & Eev & Hof & Hall).
      cbn [app] in Eev. subst ev k1.
      assert (Hcol := rsync_contract C full Hm w kk r o w' r1 (drainq K) R1 S Hx Ea Hrd).
      destruct (IH w' (drainq K) r1 S1 Hb) as (r' & Rs & Hread & Send & Hch & Hfile & Hsafe & Hck & Hgb & HG).
      assert (HG1 : G C R1) by (apply W_G; exact (gs_raws_W C w kk r None o w' r1 (drainq K) R1 Hmo (RSync_JSync _ _ _ _ S) Hrd)).
      destruct (kernel_op_file_cookies w kk o w' Ea Hfo Hq) as [Hc1 Hc2]. fold K in Hc1, Hc2.
      assert (Hmask1 : Forall (fun x => is_directory (r_mask x) = false) R1).
      { eapply Forall_impl; [|exact Hof]. intros x (e & He & [Hmk _]). rewrite Hmk. rewrite Forall_forall in Hnd. now apply Hnd. }
      assert (Hck1 : forall x c, In x R1 -> mv_raw x c -> c = k_next_cookie kk /\ k_next_cookie (drainq K) = (k_next_cookie kk + 1)%N).
      { intros x c Hx1 Hmv. rewrite Forall_forall in Hof. destruct (Hof x Hx1) as (e & He & Hofe).
        destruct (mv_raw_rec x c e Hofe Hmv) as [Hmr Hce]. destruct (Hc1 e He Hmr) as [H1 H2]. split; [congruence | exact H2]. }
      exists r', (R1 :: Rs). cbn [concat map].
      assert (Hsep : forall f t c, In f R1 -> In t (concat Rs) -> nkind_of C f = KFrom c -> nkind_of C t = KTo c -> False).
      { intros f t c Hf Ht Hkf Hkt. destruct (Hck1 f c Hf (or_introl Hkf)) as [Ec En].
        specialize (Hck t c Ht (or_intror Hkt)). rewrite En in Hck. lia. }
      split; [|split; [exact Send|split; [|split; [|split; [|split; [|split]]]]]].
      + intros t kx acc. rewrite (CoverProofs.read_batch_app C). rewrite (Hall t kx acc). rewrite Hread. now rewrite app_assoc.
      + constructor; [|exact Hch]. intros ct. rewrite <- Hcol. unfold delivered. f_equal.
        apply emit_all_file_ct. now apply group_batch_file.
      + apply Forall_app. split; assumption.
      + apply Forall_app. split; assumption.
      + intros x c Hin Hmv. apply in_app_iff in Hin as [Hin|Hin].
        * destruct (Hck1 x c Hin Hmv) as [-> _]. lia.
        * specialize (Hck x c Hin Hmv). cbn [drainq kset_queue k_next_cookie] in Hck. lia.
      + rewrite group_batch_app, Hgb; [reflexivity | exact Hsep].
      + now apply G_app.
  Qed.
End Burst.

(* ---- the kernel fields other than the queue do not depend on the queue *)
Lemma knotify_drainq k1 k2 ino bit isd c name : drainq k1 = drainq k2 ->
  drainq (knotify k1 ino bit isd c name) = drainq (knotify k2 ino bit isd c name).
Proof.
  intros H. unfold drainq, kset_queue in H. injection H as H1 H2 H3.
  unfold knotify, watch_of_ino. rewrite H1. destruct (find _ (k_watches k2)) as [kw|];
    [destruct (N.eqb (N.land bit (kw_mask kw)) 0)|]; unfold drainq, kset_queue; cbn; now rewrite ?H1, ?H2, ?H3.
Qed.

Lemma kernel_op_file_drainq w k1 k2 o w' : apply_op w o = Some w' -> file_op w o -> drainq k1 = drainq k2 ->
  drainq (kernel_op k1 (w_fs w) o) = drainq (kernel_op k2 (w_fs w) o).
Proof.
  intros Ha Hf H. destruct o as [p|p|p|p|p|p|p q]; cbn [file_op] in Hf; try contradiction; cbn [kernel_op].
  - now repeat apply knotify_drainq.
  - now repeat apply knotify_drainq.
  - rewrite Hf. now apply knotify_drainq.
  - now apply knotify_drainq.
  - rewrite Hf, (rename_file_target w p q w' Ha Hf).
    assert (H' := H). unfold drainq, kset_queue in H'. injection H' as H1 H2 H3. rewrite H3.
    repeat apply knotify_drainq. unfold drainq, kset_queue. cbn. now rewrite H1, H2.
Qed.

Lemma emit_all_concat_safe C full rec ct Ls : Forall (Forall (item_safe C)) Ls ->
  emit_all full rec (c_root C) ct (concat Ls) = concat (map (emit_all full rec (c_root C) ct) Ls).
Proof.
  induction 1 as [|L Ls HL HLs IH]; [reflexivity|]. cbn [concat map]. rewrite emit_all_app_safe by exact HL. now rewrite IH.
Qed.

Lemma Forall_concat_in {A} (P : A -> Prop) Ls : Forall P (concat Ls) -> Forall (Forall P) Ls.
Proof.
  induction Ls as [|L Ls IH]; intros H; [constructor|]. cbn [concat] in H. apply Forall_app in H as [H1 H2].
  constructor; [exact H1 | now apply IH].
Qed.

Lemma justified_in rec root recs o e : In o recs -> justified rec root [o] e = true -> justified rec root recs e = true.
Proof.
  intros Hin. unfold justified. destruct (what_of (ev_cls e)) as [what isdir].
  intros H. apply andb_true_iff in H as [H1 H2]. rewrite H1. cbn [andb].
  destruct what, isdir; cbn [existsb] in H2; rewrite orb_false_r in H2; apply existsb_exists; exists o; (split; [exact Hin | exact H2]).
Qed.

Lemma chunks_justified rec root recsall : forall chunks cts recs0,
  Forall2 (fun ch ct0 => collapse ch = collapse ct0) chunks cts ->
  Forall2 (fun ct0 rc => forall e, In e ct0 -> justified rec root [rc] e = true) cts recs0 ->
  (forall rc, In rc recs0 -> In rc recsall) ->
  forall e, In e (concat chunks) -> justified rec root recsall e = true.
Proof.
  intros chunks cts recs0 Hch. revert recs0. induction Hch as [|ch ct0 chunks cts Hc Hch IH]; intros recs0 Hj Hsub e He; [destruct He|].
  inversion Hj as [|? rc ? recs1 Hj1 Hj2]; subst. cbn [concat] in He. apply in_app_iff in He as [He|He].
  - apply (justified_in _ _ recsall rc); [apply Hsub; now left|]. apply Hj1.
    apply (proj2 (collapse_in ct0 e)). rewrite <- Hc. now apply (proj1 (collapse_in ch e)).
  - apply (IH recs1 Hj2); [|exact He]. intros x Hx. apply Hsub. now right.
Qed.

(* what the oracle records about the operations of the burst *)
Fixpoint burst_recs (w : world) (ops : list op) : list oprec :=
  match ops with
  | [] => []
  | o :: ops' => match apply_op w o with
                 | None => burst_recs w ops'
                 | Some w' => oprec_of (w_fs w) o :: burst_recs w' ops'
                 end
  end.

Section BurstMain.
  Variable C : cfg.
  Variable full : bool.
  Hypothesis Hfaults : c_faults C = [].
  Hypothesis Hmo : c_fix_moveout C = true.
  Hypothesis Hm : c_mask C = WATCHDOG_ALL.

  Lemma burst_seq_kernel ops : forall k1 k2 w, burst_ok C w ops -> drainq k1 = k2 -> drainq k2 = k2 ->
    drainq (fst (burst_end k1 w ops)) = fst (seq_end k2 w ops).
  Proof.
    induction ops as [|o ops IH]; intros k1 k2 w Hb H Hd; cbn [burst_end seq_end burst_ok] in *; [exact H|].
    destruct (apply_op w o) as [w'|] eqn:Ea; [|now apply IH]. destruct Hb as (_ & Hf & Hb).
    apply IH; [exact Hb | | reflexivity].
    apply (kernel_op_file_drainq w k1 k2 o w' Ea Hf). now rewrite H, Hd.
  Qed.

  (* COMPLETENESS of a burst of file-level operations, at the read_batch / delivered level *)
  Theorem burst_files_contract w k r ops : RSync C w k r -> burst_ok C w ops ->
    let KB := fst (burst_end k w ops) in let wn := snd (burst_end k w ops) in
    k_queue KB = concat (seq_qs k w ops) ->
    exists r' raws chunks,
      read_batch C (w_fs wn) (r, drainq KB, []) (k_queue KB) = Done (r', drainq KB, raws) /\
      RSync C wn (drainq KB) r' /\
      delivered C full wn raws = concat chunks /\
      Forall2 (fun ch ct0 => collapse ch = collapse ct0) chunks (contracts_of C full w ops).
  Proof.
    intros S Hb KB wn Hnc.
    destruct (burst_seq C full Hfaults Hmo Hm ops w k r S Hb) as (r' & Rs & Hread & Send & Hch & Hfile & Hsafe & _ & Hgb & _).
    exists r', (concat Rs), (map (fun R => emit_all full (c_recursive C) (c_root C) (content (w_fs wn)) (group_batch C R)) Rs).
    split; [rewrite Hnc; exact (Hread (w_fs wn) (drainq KB) [])|]. split.
    - unfold wn. rewrite (burst_seq_world ops k k w).
      assert (Hk : drainq KB = fst (seq_end k w ops)).
      { apply burst_seq_kernel; [exact Hb | | ].
        - assert (Hq := rs_queue _ _ _ _ S). destruct k; cbn in *. subst. reflexivity.
        - assert (Hq := rs_queue _ _ _ _ S). destruct k; cbn in *. subst. reflexivity. }
      rewrite Hk. exact Send.
    - split.
      + unfold delivered. rewrite Hgb. rewrite emit_all_concat_safe; [now rewrite map_map|].
        apply Forall_forall. intros L HL. apply in_map_iff in HL as (R & <- & HR). apply group_batch_safe.
        apply Forall_concat_in in Hsafe. rewrite Forall_forall in Hsafe. now apply Hsafe.
      + clear -Hch. induction Hch as [|R ct0 Rs cts H Hrest IH]; cbn [map]; constructor; [apply H | exact IH].
  Qed.

  Lemma burst_contracts_justified ops : forall w, burst_ok C w ops ->
    Forall2 (fun ct0 rc => forall e, In e ct0 -> justified (c_recursive C) (c_root C) [rc] e = true)
            (contracts_of C full w ops) (burst_recs w ops).
  Proof.
    induction ops as [|o ops IH]; intros w Hb; cbn [burst_ok contracts_of burst_recs] in *; [constructor|].
    destruct (apply_op w o) as [w'|]; [|now apply IH]. destruct Hb as (Hx & _ & Hb). constructor; [|now apply IH].
    intros e He. apply (contract_justified (c_recursive C) full (c_root C) (w_fs w) o); [|exact He].
    exact (proj1 (c01x_np C w o Hx)).
  Qed.

  (* SOUNDNESS of the burst: every delivered event is justified by an operation of the burst *)
  Theorem burst_files_sound w k r ops : RSync C w k r -> burst_ok C w ops ->
    let KB := fst (burst_end k w ops) in let wn := snd (burst_end k w ops) in
    k_queue KB = concat (seq_qs k w ops) ->
    exists r' raws, read_batch C (w_fs wn) (r, drainq KB, []) (k_queue KB) = Done (r', drainq KB, raws) /\
      forallb (justified (c_recursive C) (c_root C) (burst_recs w ops)) (delivered C full wn raws) = true.
  Proof.
    intros S Hb KB wn Hnc.
    destruct (burst_files_contract w k r ops S Hb Hnc) as (r' & raws & chunks & Hrd & _ & Hdel & Hch).
    exists r', raws. split; [exact Hrd|]. subst wn. rewrite Hdel. apply forallb_forall. intros e He.
    exact (chunks_justified _ _ (burst_recs w ops) chunks _ (burst_recs w ops) Hch (burst_contracts_justified ops w Hb)
                            (fun rc H => H) e He).
  Qed.
End BurstMain.

(* ================================================================== an instance *)
(* world of ReplaceProofs: /s/R (watched), /s/O, /s/R/d, /s/R/d/f (file), /s/R/e.  Burst:
   touch R/d/a; mv R/d/f R/e/f (inside); mv R/d/a O/a (out); chmod R/e/f; write R/e/f; unlink R/e/f *)
Definition bf_a : bytes := sub rp_d 97.
Definition bf_ef : bytes := sub rp_e 102.
Definition bf_oa : bytes := sub pO 97.
Definition burst_ops : list op :=
  [Touch bf_a; Rename rp_df bf_ef; Rename bf_a bf_oa; Chmod bf_ef; Write bf_ef; Unlink bf_ef].

Lemma burst_ops_ok : burst_ok (cfgx true true) rp_world burst_ops.
Proof.
  assert (GR : gpath pR) by (split; [discriminate | reflexivity]).
  assert (GO : gpath pO) by (split; [discriminate | reflexivity]).
  assert (ND : npath rp_d) by (apply npath_sub; [exact GR | reflexivity]).
  assert (NE : npath rp_e) by (apply npath_sub; [exact GR | reflexivity]).
  assert (N1 : forall n, valid_name [n] = true -> npath (sub rp_d n)) by (intros; apply npath_sub; [now apply npath_gpath | assumption]).
  assert (N2 : forall n, valid_name [n] = true -> npath (sub rp_e n)) by (intros; apply npath_sub; [now apply npath_gpath | assumption]).
  assert (N3 : forall n, valid_name [n] = true -> npath (sub pO n)) by (intros; now apply npath_sub).
  unfold burst_ops. cbn [burst_ok].
  repeat match goal with |- context [apply_op ?w ?o] =>
    let x := eval vm_compute in (apply_op w o) in change (apply_op w o) with x; cbv iota beta end.
  repeat split; try exact I; try (vm_compute; reflexivity).
  - apply c1_op. left. split; [|exact I]. apply co_quiet; [exact I | now apply N1].
  - apply c1_op. left. split; [|intros H; vm_compute in H; discriminate].
    eapply co_rename_file; try (now apply N1); try (now apply N2); try (vm_compute; reflexivity).
  - apply c1_op. left. split; [|intros H; vm_compute in H; discriminate].
    eapply co_rename_file; try (now apply N1); try (now apply N3); try (vm_compute; reflexivity).
  - apply c1_op. left. split; [|vm_compute; discriminate]. apply co_quiet; [exact I | now apply N2].
  - apply c1_op. left. split; [|exact I]. apply co_quiet; [exact I | now apply N2].
  - apply c1_op. left. split; [|exact I]. apply co_quiet; [exact I | now apply N2].
Qed.

(* ================================================================== 6. on the Pipeline model *)
Section ReadsTie.
  Variable P : pcfg.
  Hypothesis HF : pc_filter P = None.
  Let C := pc_reader P.

  (* the reads of everything the kernel has queued (cut arbitrarily), any ticks / queue_events calls, the delay, the emits -
     from any state with an idle buffer; no operation at the head *)
  Theorem tie_reads s cuts L r' k' Rs acc : Forall tick_or_emit L ->
    buffer_idle (p_buf s) -> p_stopped s = false -> (forall id, In id (map fst (p_tbl s)) -> (id < p_next s)%N) ->
    rcut C (w_fs (p_world s)) (p_r s) (p_k s) cuts = Done (r', k', Rs) ->
    Forall (root_safe C) (concat Rs) -> cuts_ok C [] Rs ->
    exists nit s' obs, prun P s (map ARead cuts ++ L ++ ATick (pc_delay P) :: repeat AEmit nit) acc = Done (s', obs) /\
      p_out s' = p_out s ++ emit_all (pc_full P) (c_recursive C) (c_root C) (content (w_fs (p_world s))) (group_batch C (concat Rs)) /\
      p_world s' = p_world s /\ p_k s' = k' /\ p_r s' = r' /\
      buffer_idle (p_buf s') /\ p_stopped s' = false /\ (forall id, In id (map fst (p_tbl s')) -> (id < p_next s')%N).
  Proof.
    intros HL Hidle Hstop Hfresh Hrc Hsafe Hok.
    destruct s as [w k r [d rs] tbl0 nx out stopped]. cbn [p_world p_k p_r p_buf p_tbl p_next p_out p_stopped] in *.
    subst stopped. destruct Hidle as [Hq [Hcl [Hpc [Hb [Hg [Hds Hfr]]]]]]. cbn [fst snd] in *.
    destruct rs as [b0 g0 ds0 n0 its0 nr0]. cbn [batch grouped deleted_self items next_el] in *. subst b0 g0 ds0.
    set (s0 := {| p_world := w; p_k := k; p_r := r; p_buf := (d, mkrst [] [] false n0 its0 nr0);
                  p_tbl := tbl0; p_next := nx; p_out := out; p_stopped := false |}).
    assert (HB0 : BInv P s0 (clock d) [] []).
    { constructor; cbn [s0 p_buf p_tbl p_next p_stopped]; [|constructor|exact Hfresh|reflexivity].
      exists d, n0, its0, nr0. split; [reflexivity|]. split; [|reflexivity].
      constructor; [rewrite Hq; constructor | rewrite Hq; intros en [] | exact Hpc | exact Hcl | exact Hfr]. }
    destruct (reads_loop P cuts s0 (clock d) [] [] acc r' k' Rs HB0 Hrc Hsafe Hok)
      as (s1 & obs1 & B & Hrun1 & [(d1 & n1 & its1 & nr1 & Hb1 & HI1 & Hclk1) Hrel1 Htbl1 Hstop1] & Ew1 & Ek1 & Er1 & Eo1).
    cbn [app] in Hrel1. set (R := concat Rs) in *. set (K := filter kept (ggo B [])) in *.
    destruct HI1 as [H1 H2 H3 H4 H5].
    assert (HRK : Forall2 (relI C (p_tbl s1)) K (group_batch C R)).
    { unfold K, group_batch. apply Forall2_filter; [apply kept_put|]. apply ggo_rel; [exact Hrel1 | constructor]. }
    assert (HSF : Forall (item_safe C) (group_batch C R)) by now apply group_batch_safe.
    destruct (loose_loop P HF L HL s1 d1 (mkrst [] [] false n1 its1 nr1) K (group_batch C R) obs1 Hb1 H3 H4 Hstop1 H1 HRK HSF)
      as (s2 & obs2 & d2 & K2 & raws1 & raws2 & Hrun2 & Er & Hout2 & A1 & A2 & A3 & A4 & A5 & A6 & A7 & A8 & A9 & A10 & A11 & A12 & A13 & A14).
    set (d3 := tickd d2 (pc_delay P)).
    set (s3 := {| p_world := p_world s2; p_k := p_k s2; p_r := p_r s2; p_buf := (d3, mkrst [] [] false n1 its1 nr1); p_tbl := p_tbl s2;
                  p_next := p_next s2; p_out := p_out s2; p_stopped := p_stopped s2 |}).
    assert (HR3 : Forall2 (relI (pc_reader P) (p_tbl s3)) K2 raws2) by (cbn [s3 p_tbl]; rewrite A4; exact A11).
    destruct (emit_loop_strong P HF K2 raws2 s3 d3 (mkrst [] [] false n1 its1 nr1) (obs2 ++ [ONone]))
      as (s' & obs & d4 & Hrun' & Hout & E1 & E2 & E3 & E4 & E5 & E6 & E7 & E8 & E9 & E10); try reflexivity; try assumption.
    - intros en Hin. cbn [d3 tickd q clock] in *. apply A14, H2 in Hin. lia.
    - exists (length K2), s', obs. split.
      + match goal with |- prun P ?sx _ _ = _ => change sx with s0 end.
        rewrite (cprun_app P (map ARead cuts)), Hrun1. rewrite (cprun_app P L), Hrun2.
        rewrite (prun_cons P _ _ _ _ _ _ (tick_step P s2 d2 _ (pc_delay P) A7)). exact Hrun'.
      + cbn [s3 p_out p_world p_k p_r p_tbl p_next p_stopped] in *.
        split; [|split; [rewrite E1, A1, Ew1; reflexivity|split; [rewrite E2, A2; exact Ek1|split; [rewrite E3, A3; exact Er1|split; [|split; [exact E6|]]]]]].
        * rewrite Hout, Hout2, Eo1, A1, Ew1. cbn [s0 p_out p_world]. rewrite <- app_assoc. f_equal.
          rewrite Er. symmetry. apply emit_all_app_safe. rewrite Er in HSF. now apply Forall_app in HSF.
        * rewrite E7. unfold buffer_idle. cbn [fst snd batch grouped deleted_self items next_el mkrst]. repeat split; assumption.
        * rewrite E4, E5, A4, A5. exact Htbl1.
  Qed.
End ReadsTie.

Lemma burst_KQ ops : forall k w, KQ k -> KQ (fst (burst_end k w ops)).
Proof.
  induction ops as [|o ops IH]; intros k w H; cbn [burst_end]; [exact H|].
  destruct (apply_op w o); [apply IH; now apply kernel_op_KQ | now apply IH].
Qed.

Section BurstPipe.
  Variable P : pcfg.
  Hypothesis HF : pc_filter P = None.
  Let C := pc_reader P.
  Hypothesis Hfaults : c_faults C = [].
  Hypothesis Hmo : c_fix_moveout C = true.
  Hypothesis Hm : c_mask C = WATCHDOG_ALL.

  (* the state after the operations of the burst: only the world and the kernel have changed *)
  Definition after_burst (s : pstate) (ops : list op) : pstate :=
    {| p_world := snd (burst_end (p_k s) (p_world s) ops); p_k := fst (burst_end (p_k s) (p_world s) ops); p_r := p_r s;
       p_buf := p_buf s; p_tbl := p_tbl s; p_next := p_next s; p_out := p_out s; p_stopped := p_stopped s |}.

  Lemma aops_run ops : forall s acc h2 recs,
    (exists obs, prun P s (map AOp ops) acc = Done (after_burst s ops, obs)) /\
    sound_along P s recs (map AOp ops ++ h2) = sound_along P (after_burst s ops) (recs ++ burst_recs (p_world s) ops) h2.
  Proof.
    induction ops as [|o ops IH]; intros s acc h2 recs.
    - cbn [map prun app burst_recs]. rewrite app_nil_r. split; [exists acc; destruct s; reflexivity | destruct s; reflexivity].
    - cbn [map app]. destruct (apply_op (p_world s) o) as [w'|] eqn:Ea.
      + assert (Hop : pstep P s (AOp o) =
                      Done ({| p_world := w'; p_k := kernel_op (p_k s) (w_fs (p_world s)) o; p_r := p_r s; p_buf := p_buf s;
                               p_tbl := p_tbl s; p_next := p_next s; p_out := p_out s; p_stopped := p_stopped s |}, ONone))
          by (cbn [pstep]; rewrite Ea; reflexivity).
        set (s1 := {| p_world := w'; p_k := kernel_op (p_k s) (w_fs (p_world s)) o; p_r := p_r s; p_buf := p_buf s;
                      p_tbl := p_tbl s; p_next := p_next s; p_out := p_out s; p_stopped := p_stopped s |}) in *.
        assert (Eab : after_burst s (o :: ops) = after_burst s1 ops) by (unfold after_burst; cbn [burst_end]; rewrite Ea; reflexivity).
        destruct (IH s1 (acc ++ [ONone]) h2 (recs ++ [oprec_of (w_fs (p_world s)) o])) as [[obs Hr] Hs].
        split.
        * exists obs. rewrite (prun_cons P _ _ _ _ _ _ Hop), Eab. exact Hr.
        * cbn [sound_along]. rewrite Hop, Ea. cbn [andb]. rewrite Hs, Eab. cbn [burst_recs]. rewrite Ea.
          cbn [s1 p_world]. now rewrite <- app_assoc.
      + assert (Hop : pstep P s (AOp o) = Done (s, OSkip)) by (cbn [pstep]; rewrite Ea; reflexivity).
        assert (Eab : after_burst s (o :: ops) = after_burst s ops) by (unfold after_burst; cbn [burst_end]; rewrite Ea; reflexivity).
        destruct (IH s (acc ++ [OSkip]) h2 recs) as [[obs Hr] Hs].
        split.
        * exists obs. rewrite (prun_cons P _ _ _ _ _ _ Hop), Eab. exact Hr.
        * cbn [sound_along]. rewrite Hop, Ea. cbn [andb]. rewrite Hs, Eab. cbn [burst_recs]. now rewrite Ea.
  Qed.

  (* the burst history: the operations back to back, the reads (cut arbitrarily), ticks / queue_events, the delay, the emits *)
  Definition burst_hist (ops : list op) (cuts : list nat) (L : list action) (nit : nat) : list action :=
    map AOp ops ++ map ARead cuts ++ L ++ ATick (pc_delay P) :: repeat AEmit nit.

  Theorem burst_pipeline s ops cuts L recs :
    RSync C (p_world s) (p_k s) (p_r s) -> buffer_idle (p_buf s) -> p_stopped s = false ->
    (forall id, In id (map fst (p_tbl s)) -> (id < p_next s)%N) ->
    burst_ok C (p_world s) ops ->
    let KB := fst (burst_end (p_k s) (p_world s) ops) in let wn := snd (burst_end (p_k s) (p_world s) ops) in
    k_queue KB = concat (seq_qs (p_k s) (p_world s) ops) ->
    CutsPipeProofs.sum cuts = length (k_queue KB) -> Forall tick_or_emit L ->
    exists nit s' obs chunks, prun P s (burst_hist ops cuts L nit) [] = Done (s', obs) /\
      sound_along P s recs (burst_hist ops cuts L nit) = true /\
      p_out s' = p_out s ++ concat chunks /\
      Forall2 (fun ch ct0 => collapse ch = collapse ct0) chunks (contracts_of C (pc_full P) (p_world s) ops) /\
      p_world s' = wn /\ RSync C wn (p_k s') (p_r s') /\ buffer_idle (p_buf s') /\ p_stopped s' = false /\
      (forall id, In id (map fst (p_tbl s')) -> (id < p_next s')%N).
  Proof.
    intros S Hidle Hal Htbl Hb KB wn Hnc Hsum HL.
    destruct (burst_seq C (pc_full P) Hfaults Hmo Hm ops (p_world s) (p_k s) (p_r s) S Hb)
      as (r' & Rs & Hread & _ & _ & _ & Hsafe & _ & _ & HG).
    destruct (burst_files_contract C (pc_full P) Hfaults Hmo Hm (p_world s) (p_k s) (p_r s) ops S Hb Hnc)
      as (r'' & raws & chunks & Hrd & Send & Hdel & Hch).
    fold KB wn in Hrd, Send, Hdel.
    assert (Eraws : raws = concat Rs /\ r'' = r').
    { assert (H := Hread (w_fs wn) (drainq KB) []). rewrite <- Hnc in H. rewrite Hrd in H. inversion H. auto. }
    destruct Eraws as [-> ->].
    assert (HK : KQ KB) by (apply burst_KQ; exact (GS_KQ C _ _ _ None (RSync_JSync _ _ _ _ S))).
    destruct (rcut_eq C Hmo (w_fs wn) (p_r s) KB cuts r' (drainq KB) (concat Rs) (proj2 HK) Hsum Hrd) as (Rc & Hrc & Econc).
    assert (Hok : cuts_ok C [] Rc) by (apply G_cuts_ok; cbn [app]; rewrite Econc; exact HG).
    assert (Hsafe' : Forall (root_safe C) (concat Rc)) by (rewrite Econc; exact Hsafe).
    destruct (aops_run ops s [] (map ARead cuts ++ L ++ ATick (pc_delay P) :: repeat AEmit 0) recs) as [[obs0 Hr0] _].
    destruct (tie_reads P HF (after_burst s ops) cuts L r' (drainq KB) Rc obs0 HL Hidle Hal Htbl Hrc Hsafe' Hok)
      as (nit & s' & obs & Hrun & Hout & E1 & E2 & E3 & Hidle' & Hal' & Htbl').
    cbn [after_burst p_out p_world] in Hout, E1. fold wn in Hout, E1. rewrite Econc in Hout.
    exists nit, s', obs, chunks. split; [|split; [|split; [|split; [exact Hch|split; [exact E1|split; [|split; [exact Hidle'|split; [exact Hal' | exact Htbl']]]]]]]].
    - unfold burst_hist. rewrite (ReplayPipeProofs.prun_app P (map AOp ops)), Hr0. exact Hrun.
    - unfold burst_hist. rewrite (proj2 (aops_run ops s [] _ recs)).
      assert (Hnoop : Forall noop (map ARead cuts ++ L ++ ATick (pc_delay P) :: repeat AEmit nit)) by (now apply loose_rest_noop).
      destruct (sa_noop P _ Hnoop (after_burst s ops) obs0 s' obs [] (recs ++ burst_recs (p_world s) ops) Hrun) as (new & Hn & Hsa).
      rewrite app_nil_r in Hsa. rewrite Hsa. cbn [sound_along]. rewrite andb_true_r.
      cbn [after_burst p_out] in Hn. rewrite Hout in Hn. apply app_inv_head in Hn. subst new.
      unfold delivered in Hdel. unfold C in Hdel. rewrite Hdel.
      apply forallb_forall. intros e He.
      apply (chunks_justified _ _ (recs ++ burst_recs (p_world s) ops) chunks _ (burst_recs (p_world s) ops) Hch
               (burst_contracts_justified C (pc_full P) ops (p_world s) Hb)); [|exact He].
      intros rc Hrc'. apply in_app_iff. now right.
    - unfold delivered in Hdel. unfold C in Hdel, Hout. now rewrite Hout, Hdel.
    - rewrite E2, E3. exact Send.
  Qed.
End BurstPipe.

(* on the Pipeline model: the six AOp back to back, then the 11 records read as 2 + 2 + 7 (the first rename is cut between
   IN_MOVED_FROM and IN_MOVED_TO: records 4 and 5), the delay, queue_events until the buffer is empty *)
Definition burst_history : list action := burst_hist (Px true) burst_ops [2; 2; 7]%nat [] 14.

Lemma burst_example :
  exists r k, construct (cfgx true true) kinit (w_fs rp_world) = Some (r, k) /\ RSync (cfgx true true) rp_world k r /\
    k_queue (fst (burst_end k rp_world burst_ops)) = concat (seq_qs k rp_world burst_ops) /\
    length (k_queue (fst (burst_end k rp_world burst_ops))) = 11%nat /\
    exists s0 s obs, pinit (Px true) rp_world = Some s0 /\ prun (Px true) s0 burst_history [] = Done (s, obs) /\
      sound_along (Px true) s0 [] burst_history = true /\
      collapse (p_out s) = collapse (concat (contracts_of (cfgx true true) false rp_world burst_ops)) /\
      In (mk FileMoved rp_df bf_ef) (p_out s) /\ length (p_out s) = 17%nat.
Proof.
  destruct (construct_cover (cfgx true true) eq_refl rp_world rp_world_wf eq_refl) as (r & k & Hc & I & Cv & Hq & _ & Hp).
  exists r, k. split; [exact Hc|]. split.
  { constructor; try assumption; [exact rp_world_wf|]. eexists. split; [left; reflexivity | split; reflexivity]. }
  vm_compute in Hc. inversion Hc; subst r k. clear Hc.
  split; [vm_compute; reflexivity|]. split; [vm_compute; reflexivity|].
  eexists; eexists; eexists. split; [vm_compute; reflexivity|]. split; [vm_compute; reflexivity|].
  split; [vm_compute; reflexivity|]. split; [vm_compute; reflexivity|]. split; [|vm_compute; reflexivity].
  vm_compute. do 5 right. left. reflexivity.
Qed.


(* the side condition is needed for the chunk-wise statement: `chmod f; chmod f` back to back - the kernel coalesces the
   second IN_ATTRIB with the first (one record, one FileModified); the stream still equals the two contracts up to collapse
   of the WHOLE stream *)
Lemma burst_coalesce_example :
  exists r k, construct (cfgx true true) kinit (w_fs rp_world) = Some (r, k) /\
    let ops := [Chmod rp_df; Chmod rp_df] in
    burst_ok (cfgx true true) rp_world ops /\
    length (k_queue (fst (burst_end k rp_world ops))) = 1%nat /\ length (concat (seq_qs k rp_world ops)) = 2%nat /\
    exists s0 s obs, pinit (Px true) rp_world = Some s0 /\
      prun (Px true) s0 (burst_hist (Px true) ops [1%nat] [] 2) [] = Done (s, obs) /\
      p_out s = [mk FileModified rp_df []] /\
      collapse (p_out s) = collapse (concat (contracts_of (cfgx true true) false rp_world ops)).
Proof.
  assert (GR : gpath pR) by (split; [discriminate | reflexivity]).
  assert (ND : npath rp_d) by (apply npath_sub; [exact GR | reflexivity]).
  assert (NF : npath rp_df) by (apply npath_sub; [now apply npath_gpath | reflexivity]).
  eexists; eexists. split; [vm_compute; reflexivity|]. cbv zeta. split.
  { cbn [burst_ok]. repeat match goal with |- context [apply_op ?w ?o] =>
      let x := eval vm_compute in (apply_op w o) in change (apply_op w o) with x; cbv iota beta end.
    repeat split; try exact I; try (vm_compute; reflexivity);
      (apply c1_op; left; split; [apply co_quiet; [exact I | exact NF] | vm_compute; discriminate]). }
  split; [vm_compute; reflexivity|]. split; [vm_compute; reflexivity|].
  eexists; eexists; eexists. split; [vm_compute; reflexivity|]. split; [vm_compute; reflexivity|]. split; vm_compute; reflexivity.
Qed.
