(* wire:  (enc ((wd mask cookie name pad) ...)) -> bytes
          (dec xHEX) -> (some ((wd mask cookie name) ...)) | none
          (valid (wd mask cookie name pad)) -> 0/1 *)
open Sexp
open Conv

let rec_of = function
  | L [wd; mask; cookie; name; pad] ->
    ({ CodecInotify.i_wd = z_of wd; i_mask = n_of mask; i_cookie = n_of cookie; i_name = bytes_of name }, nat_of pad)
  | _ -> failwith "codecinotify: record"
let sx_rec (r : CodecInotify.irec) =
  L [sx_z r.CodecInotify.i_wd; sx_n r.CodecInotify.i_mask; sx_n r.CodecInotify.i_cookie; sx_bytes r.CodecInotify.i_name]

let run = function
  | L [A "enc"; L rs] -> sx_bytes (CodecInotify.encode (Stdlib.List.map rec_of rs))
  | L [A "dec"; b] ->
    (match CodecInotify.decode (bytes_of b) with
     | Some l -> L [A "some"; sx_list sx_rec l]
     | None -> A "none")
  | L [A "valid"; r] -> sx_bool (CodecInotify.valid_recb (rec_of r))
  | _ -> failwith "codecinotify: bad case"
