(* C11, the lag bisimulation for drained histories (repaired reader, F10).
   Each world - the unfiltered watch and the watch with an event filter - is compared with its own NORMAL FORM at every
   drained point: the candidate settled, the kernel queue emptied.  Normal forms of the two worlds are twins. *)
Require Import WD.Base.Prelude WD.Base.BStr WD.Model.SubEvents WD.Model.Emitter WD.Model.MaskTable
               WD.Model.Fs WD.Model.Reader WD.Model.DelayQueue WD.Model.Grouping WD.Model.Pipeline WD.Model.Contract.
Require Import WD.Gen.MaskTableGen WD.Proofs.MaskTableProofs WD.Proofs.C11Proofs WD.Proofs.ReaderFixProofs WD.Proofs.ContractProofs
               WD.Proofs.C11KernelProofs WD.Proofs.C11ReaderProofs WD.Proofs.C11TwinProofs WD.Proofs.C11GroupProofs
               WD.Proofs.C11SeqProofs WD.Proofs.C11InertProofs WD.Proofs.C11KInvProofs WD.Proofs.C11KExtProofs
               WD.Proofs.C11KShapeProofs WD.Proofs.C11KQueueProofs.
Local Open Scope N_scope.
Local Notation delivered := MaskTable.delivered.

(* ------------------------------------------------------------------ kernel: the junk the reader leaves behind *)
Definition wds (k : kst) : list N := map kw_wd (k_watches k).

(* after a read: only IN_IGNORED records of descriptors that are no longer watched, pairwise different, below the counter *)
Definition jk (k : kst) : Prop :=
  kwf k /\ junkq (wds k) (k_queue k) /\ (forall x, In x (k_queue k) -> k_wd x < k_next_wd k /\ k_cookie x = 0).

Lemma krm_watches_eq k wd : k_watches (krm_watch k wd) = filter (fun x => negb (N.eqb (kw_wd x) wd)) (k_watches k).
Proof.
  unfold krm_watch. destruct (find (fun w => N.eqb (kw_wd w) wd) (k_watches k)) eqn:E; [reflexivity|].
  symmetry. apply filter_all. intros x Hx. pose proof (find_none _ _ E x Hx) as H. cbn beta in H. now rewrite H.
Qed.

Lemma jk_add k t p m k' wd : jk k -> kadd_watch k t p m = Some (k', wd) -> jk k'.
Proof.
  intros [Hw [[J1 J2] J3]] E. pose proof (kwf_add _ _ _ _ _ _ Hw E) as Hw'. split; [exact Hw'|].
  pose proof (kadd_watch_queue _ _ _ _ _ _ E) as Q. rewrite Q.
  assert (Hsub : forall x, In x (wds k') -> In x (wds k) \/ x = k_next_wd k).
  { revert E. unfold kadd_watch. destruct (flookup p t) as [e|]; [|discriminate].
    destruct (watch_of_ino k (f_ino e)) as [w0|]; intros X; inversion X; subst; unfold wds; cbn [k_watches]; intros x Hx.
    - left. rewrite map_map in Hx. erewrite map_ext in Hx; [exact Hx|]. intros y. destruct (N.eqb (kw_wd y) (kw_wd w0)); reflexivity.
    - rewrite map_app in Hx. apply in_app_or in Hx as [Hx|[<-|[]]]; [now left | now right]. }
  assert (Hnw : (k_next_wd k <= k_next_wd k')%N).
  { revert E. unfold kadd_watch. destruct (flookup p t) as [e|]; [|discriminate].
    destruct (watch_of_ino k (f_ino e)); intros X; inversion X; subst; cbn [k_next_wd]; lia. }
  split.
  - split; [exact J1|]. intros x Hx. destruct (J2 x Hx) as [A B]. split; [exact A|].
    intros Hin. destruct (Hsub _ Hin) as [H|H]; [exact (B H)|]. destruct (J3 x Hx) as [C _]. lia.
  - intros x Hx. destruct (J3 x Hx) as [A B]. split; [lia | exact B].
Qed.

Lemma jk_rm k wd : jk k -> jk (krm_watch k wd).
Proof.
  intros HJ. destruct (find (fun w => N.eqb (kw_wd w) wd) (k_watches k)) as [w|] eqn:E.
  2:{ assert (X : krm_watch k wd = k) by (unfold krm_watch; now rewrite E). now rewrite X. }
  destruct HJ as [Hw [[J1 J2] J3]]. split; [apply kwf_rm; exact Hw|].
  assert (Hsub : forall x, In x (wds (krm_watch k wd)) -> In x (wds k) /\ x <> wd).
  { intros x Hx. unfold wds in Hx. rewrite krm_watches_eq in Hx. apply in_map_iff in Hx as [w0 [<- Hw0]].
    apply filter_In in Hw0 as [Hw0 Hne]. split; [now apply in_map|]. apply negb_true_iff, N.eqb_neq in Hne. exact Hne. }
  assert (Q : k_queue (krm_watch k wd) = kpush (k_queue k) {| k_wd := wd; k_mask := IN_IGNORED; k_cookie := 0; k_name := [] |})
    by (unfold krm_watch; now rewrite E).
  assert (NW : k_next_wd (krm_watch k wd) = k_next_wd k) by (unfold krm_watch; now rewrite E).
  rewrite Q, NW. apply find_some in E as [Ein Ewd]. apply N.eqb_eq in Ewd.
  set (e := {| k_wd := wd; k_mask := IN_IGNORED; k_cookie := 0; k_name := [] |}).
  assert (Hfresh : forall x, In x (k_queue k) -> kraw_eqb x e = false).
  { intros x Hx. destruct (kraw_eqb x e) eqn:El; [|reflexivity]. apply kraw_eqb_key in El. unfold kkey in El. cbn [e k_wd] in El.
    destruct (J2 x Hx) as [_ B]. exfalso. apply B. replace (k_wd x) with wd by congruence. rewrite <- Ewd. unfold wds. now apply in_map. }
  rewrite (kpush_fresh _ _ Hfresh). split.
  - split.
    + rewrite map_app. cbn [map]. apply NoDup_snoc; [exact J1|]. intros Hin. apply in_map_iff in Hin as [x [Hx Hxi]].
      assert (X : kraw_eqb x e = true) by (apply kraw_eqb_key; exact Hx). rewrite (Hfresh x Hxi) in X. discriminate.
    + intros x Hx. apply in_app_or in Hx as [Hx|[<-|[]]].
      * destruct (J2 x Hx) as [A B]. split; [exact A|]. intros Hin. apply Hsub in Hin as [Hin _]. exact (B Hin).
      * split; [reflexivity|]. cbn [e k_wd]. intros Hin. apply Hsub in Hin as [_ Hne]. now apply Hne.
  - intros x Hx. apply in_app_or in Hx as [Hx|[<-|[]]]; [exact (J3 x Hx)|]. cbn [e k_wd k_cookie]. split; [|reflexivity].
    destruct Hw as [_ [_ Hb]]. rewrite <- Ewd. apply Hb. exact Ein.
Qed.

Lemma jk_read_batch C t b r k acc r' k' out : jk k -> read_batch C t (r, k, acc) b = Done (r', k', out) -> jk k'.
Proof. apply (cl_read_batch C jk (fun k t p => jk_add k t p (c_mask C)) jk_rm). Qed.

Lemma jk_drained k : kwf k -> jk (kdrained k).
Proof.
  intros H. split; [exact H|]. split; [split; [constructor | intros x []] | intros x []].
Qed.

(* counters and masks are untouched / uniform *)
Definition allmask (M : N) (k : kst) : Prop := forall w, In w (k_watches k) -> kw_mask w = M.

Lemma allmask_rm M k wd : allmask M k -> allmask M (krm_watch k wd).
Proof. intros H w Hw. rewrite krm_watches_eq in Hw. apply filter_In in Hw as [Hw _]. now apply H. Qed.

Lemma allmask_add M k t p k' wd : allmask M k -> kadd_watch k t p M = Some (k', wd) -> allmask M k'.
Proof.
  intros H. unfold kadd_watch. destruct (flookup p t) as [e|]; [|discriminate].
  destruct (watch_of_ino k (f_ino e)) as [w0|]; intros X; inversion X; subst; intros w Hw; cbn [k_watches] in Hw.
  - apply in_map_iff in Hw as [x [<- Hx]]. destruct (N.eqb (kw_wd x) (kw_wd w0)); [reflexivity | now apply H].
  - apply in_app_or in Hw as [Hw|[<-|[]]]; [now apply H | reflexivity].
Qed.

Lemma cookie_rm k wd : k_next_cookie (krm_watch k wd) = k_next_cookie k.
Proof. unfold krm_watch. destruct (find _ _); reflexivity. Qed.

Lemma cookie_add k t p m k' wd : kadd_watch k t p m = Some (k', wd) -> k_next_cookie k' = k_next_cookie k.
Proof.
  unfold kadd_watch. destruct (flookup p t) as [e|]; [|discriminate].
  destruct (watch_of_ino k (f_ino e)); intros X; inversion X; reflexivity.
Qed.

(* ------------------------------------------------------------------ what settling does to the kernel's watches *)
Lemma krm_counters k wd : k_next_wd (krm_watch k wd) = k_next_wd k /\ k_next_cookie (krm_watch k wd) = k_next_cookie k.
Proof. unfold krm_watch. destruct (find _ _); split; reflexivity. Qed.

(* the descriptors whose watches _forget_tree removes depend on the reader's tables only *)
Lemma forget_tree_watches keys p : forall r, exists R, forall k,
  k_watches (snd (forget_tree keys p r k)) = filter (fun w => negb (memN (kw_wd w) R)) (k_watches k) /\
  k_next_wd (snd (forget_tree keys p r k)) = k_next_wd k /\
  k_next_cookie (snd (forget_tree keys p r k)) = k_next_cookie k.
Proof.
  induction keys as [|[q x] keys IH]; intros r; cbn [forget_tree].
  - exists []. intros k. split; [symmetry; apply filter_all; reflexivity | split; reflexivity].
  - destruct (beqb q p || starts (p ++ [sep]) q); [|apply IH].
    destruct (alookup beqb q (wfp r)) as [wd|]; [|apply IH].
    destruct (alookup N.eqb wd (pfw r)) as [q'|]; [|apply IH].
    destruct (beqb q' q); [|apply IH].
    destruct (IH {| wfp := aremove beqb q (wfp r); pfw := aremove N.eqb wd (pfw r); mvf := mvf r; calls := calls r;
                    pend := pend r |}) as [R HR].
    exists (wd :: R). intros k. destruct (HR (krm_watch k wd)) as [A [B D]]. destruct (krm_counters k wd) as [B' D'].
    split; [|split; [rewrite <- B'; exact B | rewrite <- D'; exact D]].
    transitivity (filter (fun w => negb (memN (kw_wd w) R)) (k_watches (krm_watch k wd))); [exact A|]. rewrite krm_watches_eq.
    clear. induction (k_watches k) as [|w l IHl]; [reflexivity|]. cbn [filter memN].
    destruct (N.eqb (kw_wd w) wd) eqn:E; cbn [negb filter].
    + exact IHl.
    + cbn [orb]. destruct (negb (memN (kw_wd w) R)); now rewrite IHl.
Qed.

Lemma filter_tt {A} (l : list A) : filter (fun _ => true) l = l.
Proof. induction l as [|a l IH]; simpl; [reflexivity | now rewrite IH]. Qed.

Lemma memN_out x l : memN x l = true -> In x l.
Proof.
  induction l as [|y l IH]; simpl; [discriminate|]. intros H. apply orb_true_iff in H as [H|H];
    [left; symmetry; now apply N.eqb_eq | right; auto].
Qed.

Lemma memN_in x l : In x l -> memN x l = true.
Proof.
  induction l as [|y l IH]; simpl; [tauto|]. intros [->|H]; [now rewrite N.eqb_refl | rewrite (IH H); apply orb_true_r].
Qed.

Section Norm.
  Variable C : cfg.
  Let M := c_mask C.

  (* the normal form of a drained state *)
  Definition nform (r : rstate) (k : kst) : rstate * kst :=
    (fst (settle_now C r k), kdrained (snd (settle_now C r k))).

  Lemma settle_now_watches r : exists R, forall k,
    k_watches (snd (settle_now C r k)) = filter (fun w => negb (memN (kw_wd w) R)) (k_watches k) /\
    k_next_wd (snd (settle_now C r k)) = k_next_wd k /\ k_next_cookie (snd (settle_now C r k)) = k_next_cookie k.
  Proof.
    unfold settle_now. destruct (c_fix_moveout C).
    2:{ exists []. intros k. split; [symmetry; apply filter_all; reflexivity | split; reflexivity]. }
    destruct (pend r) as [[c p]|].
    - apply forget_tree_watches.
    - exists []. intros k. split; [symmetry; apply filter_all; reflexivity | split; reflexivity].
  Qed.

  (* removing the watches of a fixed set of descriptors = keeping the descriptors that survive *)
  Lemma filter_R_inW (R : list N) (l l' : list kwatch) :
    (forall w, In w l' -> In w l) ->
    filter (fun w => negb (memN (kw_wd w) R)) l'
    = filter (fun w => memN (kw_wd w) (map kw_wd (filter (fun w => negb (memN (kw_wd w) R)) l))) l'.
  Proof.
    intros Hsub. apply filter_ext_in'. intros w Hw.
    destruct (negb (memN (kw_wd w) R)) eqn:E.
    - symmetry. apply memN_in. apply in_map. apply filter_In. split; [apply Hsub; exact Hw | exact E].
    - symmetry. destruct (memN (kw_wd w) (map kw_wd (filter (fun w0 => negb (memN (kw_wd w0) R)) l))) eqn:E2; [|reflexivity].
      apply memN_out in E2. apply in_map_iff in E2 as [w' [Hwd Hw']]. apply filter_In in Hw' as [_ Hw'].
      rewrite Hwd in Hw'. congruence.
  Qed.
End Norm.

(* ------------------------------------------------------------------ small facts about kernel_op *)
Lemma knotify_cookie_bound k ino bit isdir c name :
  (forall x, In x (k_queue k) -> k_cookie x < k_next_cookie k) -> c < k_next_cookie k ->
  forall x, In x (k_queue (knotify k ino bit isdir c name)) -> k_cookie x < k_next_cookie (knotify k ino bit isdir c name).
Proof.
  intros H Hc x. rewrite (proj2 (knotify_counters k ino bit isdir c name)). unfold knotify.
  destruct (watch_of_ino k ino); [|apply H]. destruct (N.eqb _ 0); [apply H|]. cbn [k_queue].
  intros Hx. apply kpush_in in Hx as [Hx| ->]; [now apply H | exact Hc].
Qed.

Lemma kgone_cookie_bound k ino af :
  (forall x, In x (k_queue k) -> k_cookie x < k_next_cookie k) -> 0 < k_next_cookie k ->
  forall x, In x (k_queue (kgone k ino af)) -> k_cookie x < k_next_cookie (kgone k ino af).
Proof.
  intros H H0 x. rewrite (proj2 (kgone_counters k ino af)). unfold kgone.
  destruct (watch_of_ino k ino); [|apply H]. cbn [k_queue]. intros Hx. apply kpush_in in Hx as [Hx| ->]; [|exact H0].
  set (k1 := if af then knotify k ino IN_ATTRIB true 0 [] else k) in *.
  assert (H1 : forall y, In y (k_queue k1) -> k_cookie y < k_next_cookie k).
  { subst k1. destruct af; [|exact H]. intros y Hy.
    rewrite <- (proj2 (knotify_counters k ino IN_ATTRIB true 0 [])). eapply knotify_cookie_bound; eassumption. }
  assert (C1 : k_next_cookie k1 = k_next_cookie k) by (subst k1; destruct af; [apply knotify_counters | reflexivity]).
  rewrite <- C1. rewrite <- (proj2 (knotify_counters k1 ino IN_DELETE_SELF false 0 [])).
  eapply knotify_cookie_bound; [rewrite C1; exact H1 | rewrite C1; exact H0 | exact Hx].
Qed.

Lemma kernel_op_cookie_bound k t o :
  (forall x, In x (k_queue k) -> k_cookie x < k_next_cookie k) -> 0 < k_next_cookie k ->
  (forall x, In x (k_queue (kernel_op k t o)) -> k_cookie x < k_next_cookie (kernel_op k t o)) /\
  k_next_cookie k <= k_next_cookie (kernel_op k t o).
Proof.
  intros H H0.
  assert (K1 : forall a ino bit isdir name, (forall x, In x (k_queue a) -> k_cookie x < k_next_cookie a) -> 0 < k_next_cookie a ->
               (forall x, In x (k_queue (knotify a ino bit isdir 0 name)) -> k_cookie x < k_next_cookie (knotify a ino bit isdir 0 name)) /\
               0 < k_next_cookie (knotify a ino bit isdir 0 name) /\
               k_next_cookie (knotify a ino bit isdir 0 name) = k_next_cookie a).
  { intros a ino bit isdir name Ha Ha0. split; [apply knotify_cookie_bound; assumption|].
    rewrite (proj2 (knotify_counters a ino bit isdir 0 name)). split; [exact Ha0 | reflexivity]. }
  destruct o as [p|p|p|p|p|p|p q]; cbn [kernel_op].
  - destruct (K1 k (ino_of t (dirname p)) IN_CREATE false (basename p) H H0) as [A [A0 A1]].
    destruct (K1 _ (ino_of t (dirname p)) IN_OPEN false (basename p) A A0) as [B [B0 B1]].
    destruct (K1 _ (ino_of t (dirname p)) IN_CLOSE_WRITE false (basename p) B B0) as [D [D0 D1]]. split; [exact D | lia].
  - destruct (K1 k (ino_of t (dirname p)) IN_OPEN false (basename p) H H0) as [A [A0 A1]].
    destruct (K1 _ (ino_of t (dirname p)) IN_MODIFY false (basename p) A A0) as [B [B0 B1]].
    destruct (K1 _ (ino_of t (dirname p)) IN_CLOSE_WRITE false (basename p) B B0) as [D [D0 D1]]. split; [exact D | lia].
  - destruct (K1 k (ino_of t (dirname p)) IN_ATTRIB (fisdir p t) (basename p) H H0) as [A [A0 A1]].
    destruct (fisdir p t); [|split; [exact A | lia]].
    destruct (K1 _ (ino_of t p) IN_ATTRIB true [] A A0) as [B [B0 B1]]. split; [exact B | lia].
  - destruct (K1 k (ino_of t (dirname p)) IN_DELETE false (basename p) H H0) as [A [A0 A1]]. split; [exact A | lia].
  - destruct (K1 k (ino_of t (dirname p)) IN_CREATE true (basename p) H H0) as [A [A0 A1]]. split; [exact A | lia].
  - pose proof (kgone_cookie_bound k (ino_of t p) false H H0) as G.
    pose proof (proj2 (kgone_counters k (ino_of t p) false)) as GC.
    destruct (K1 _ (ino_of t (dirname p)) IN_DELETE true (basename p) G ltac:(rewrite GC; exact H0)) as [A [A0 A1]].
    split; [exact A | lia].
  - set (k0 := {| k_watches := k_watches k; k_next_wd := k_next_wd k; k_queue := k_queue k;
                  k_next_cookie := k_next_cookie k + 1 |}).
    assert (Hk0 : forall x, In x (k_queue k0) -> k_cookie x < k_next_cookie k0).
    { intros x Hx. specialize (H x Hx). cbn [k0 k_next_cookie]. lia. }
    assert (Hc : k_next_cookie k < k_next_cookie k0) by (cbn [k0 k_next_cookie]; lia).
    pose proof (knotify_cookie_bound k0 (ino_of t (dirname p)) IN_MOVED_FROM (fisdir p t) (k_next_cookie k) (basename p) Hk0 Hc) as A.
    pose proof (proj2 (knotify_counters k0 (ino_of t (dirname p)) IN_MOVED_FROM (fisdir p t) (k_next_cookie k) (basename p))) as A1.
    set (k1 := knotify k0 (ino_of t (dirname p)) IN_MOVED_FROM (fisdir p t) (k_next_cookie k) (basename p)) in *.
    pose proof (knotify_cookie_bound k1 (ino_of t (dirname q)) IN_MOVED_TO (fisdir p t) (k_next_cookie k) (basename q) A
                  ltac:(rewrite A1; exact Hc)) as B.
    pose proof (proj2 (knotify_counters k1 (ino_of t (dirname q)) IN_MOVED_TO (fisdir p t) (k_next_cookie k) (basename q))) as B1.
    set (k2 := knotify k1 (ino_of t (dirname q)) IN_MOVED_TO (fisdir p t) (k_next_cookie k) (basename q)) in *.
    assert (E2 : k_next_cookie k2 = k_next_cookie k + 1) by (rewrite B1, A1; reflexivity).
    destruct (fisdir q t).
    + split; [apply kgone_cookie_bound; [exact B | lia]|]. rewrite (proj2 (kgone_counters k2 (ino_of t q) true)). lia.
    + split; [exact B | lia].
Qed.

Lemma kernel_op_next_wd k t o : k_next_wd (kernel_op k t o) = k_next_wd k.
Proof.
  destruct o; cbn [kernel_op];
    repeat first [ rewrite (proj1 (knotify_counters _ _ _ _ _ _)) | rewrite (proj1 (kgone_counters _ _ _)) ]; try reflexivity.
  - destruct (fisdir p t); repeat rewrite (proj1 (knotify_counters _ _ _ _ _ _)); reflexivity.
  - destruct (fisdir q t); repeat first [ rewrite (proj1 (kgone_counters _ _ _)) | rewrite (proj1 (knotify_counters _ _ _ _ _ _)) ]; reflexivity.
Qed.

Lemma kgone_watches_sub k ino af w : In w (k_watches (kgone k ino af)) -> In w (k_watches k).
Proof.
  unfold kgone. destruct (watch_of_ino k ino); [|tauto]. cbn [k_watches]. intros H. apply filter_In in H as [H _].
  rewrite knotify_watches in H. destruct af; [rewrite knotify_watches in H|]; exact H.
Qed.

Lemma kernel_op_watches_sub k t o w : In w (k_watches (kernel_op k t o)) -> In w (k_watches k).
Proof.
  destruct o; cbn [kernel_op]; rewrite ?knotify_watches; try tauto.
  - destruct (fisdir p t); rewrite ?knotify_watches; tauto.
  - intros H. apply kgone_watches_sub in H. exact H.
  - destruct (fisdir q t); [intros H; apply kgone_watches_sub in H; rewrite !knotify_watches in H; exact H|].
    rewrite !knotify_watches. tauto.
Qed.

Lemma allmask_kernel_op M k t o : allmask M k -> allmask M (kernel_op k t o).
Proof. intros H w Hw. apply H. eapply kernel_op_watches_sub. exact Hw. Qed.

(* ------------------------------------------------------------------ where a remembered candidate comes from *)
Section PendSrc.
  Variable C : cfg.

  Lemma settle_pend_src r k e : pend (fst (settle_pending C r k e)) = None \/ pend (fst (settle_pending C r k e)) = pend r.
  Proof.
    unfold settle_pending. destruct (c_fix_moveout C); [|now right]. destruct (pend r) as [[c p]|] eqn:E; [|left; cbn [fst]; exact E].
    left. destruct (is_moved_to (k_mask e) && N.eqb (k_cookie e) c && amem N.eqb (k_wd e) (pfw r)); [reflexivity|].
    rewrite forget_tree_pend. reflexivity.
  Qed.

  Lemma read_batch_pend_src t b : forall r k acc r' k' out,
    read_batch C t (r, k, acc) b = Done (r', k', out) ->
    pend r' = None \/ pend r' = pend r \/ exists e p, In e b /\ pend r' = Some (k_cookie e, p).
  Proof.
    induction b as [|e b IH]; intros r k acc r' k' out H; cbn [read_batch] in H.
    - inversion H; subst. right. now left.
    - destruct (read_one C t (r, k, acc) e) as [[[r1 k1] a1]|] eqn:E1; [|discriminate].
      rewrite read_one_settle in E1.
      assert (S1 : pend r1 = None \/ pend r1 = pend r \/ exists p, pend r1 = Some (k_cookie e, p)).
      { destruct (read_one_body_pend_cookie C _ _ _ _ _ _ _ _ E1) as [E|[p E]]; [|right; right; exists p; exact E].
        rewrite E. destruct (settle_pend_src r k e) as [X|X]; [now left | right; now left]. }
      destruct (IH _ _ _ _ _ _ H) as [X|[X|[e' [p [He' X]]]]].
      + now left.
      + rewrite X. destruct S1 as [Y|[Y|[p Y]]]; [now left | right; now left|].
        right. right. exists e, p. split; [now left | exact Y].
      + right. right. exists e', p. split; [now right | exact X].
  Qed.
End PendSrc.

(* ------------------------------------------------------------------ one world against its normal form *)
Section World.
  Variable C : cfg.
  Let M := c_mask C.

  (* what holds of every drained state of a world (proved to be kept) *)
  Record wi (r : rstate) (k : kst) : Prop := {
    wi_jk : jk k;
    wi_mask : allmask M k;
    wi_cookie0 : 0 < k_next_cookie k;
    wi_pend : forall c p, pend r = Some (c, p) -> c < k_next_cookie k }.

  (* the reader's tables mention live watches only (a consequence of C02's cover invariant; a hypothesis here) *)
  Definition tidy (r : rstate) (k : kst) : Prop :=
    (forall wd, In wd (map fst (pfw r)) -> In wd (wds k)) /\ (forall wd, In wd (map snd (wfp r)) -> In wd (wds k)).

  Lemma map_remask_id l : (forall w, In w l -> kw_mask w = M) -> map (remask M) l = l.
  Proof.
    induction l as [|w l IH]; intros H; [reflexivity|]. cbn [map]. rewrite IH by (intros x Hx; apply H; now right).
    f_equal. unfold remask. rewrite <- (H w (or_introl eq_refl)). destruct w; reflexivity.
  Qed.

  Lemma ksame_intro k1 k2 :
    k_watches k2 = k_watches k1 -> allmask M k1 -> k_next_wd k2 = k_next_wd k1 -> k_next_cookie k2 = k_next_cookie k1 ->
    ksame C k1 k2.
  Proof.
    intros W A N1 N2. constructor; [|exact A | exact N1 | exact N2]. rewrite W. symmetry. apply map_remask_id. exact A.
  Qed.

  Lemma ksame_watches k1 k2 : ksame C k1 k2 ->
    k_watches k2 = k_watches k1 /\ k_next_wd k2 = k_next_wd k1 /\ k_next_cookie k2 = k_next_cookie k1.
  Proof.
    intros [W A N1 N2]. split; [|split; assumption]. rewrite W. apply map_remask_id. exact A.
  Qed.

  Lemma ksame_sym k1 k2 : ksame C k1 k2 -> ksame C k2 k1.
  Proof.
    intros S. destruct (ksame_watches k1 k2 S) as [W [N1 N2]]. destruct S as [_ Am _ _].
    apply ksame_intro; [congruence | | congruence | congruence]. intros w Hw. apply Am. rewrite <- W. exact Hw.
  Qed.

  Section Step.
    Variables (t t' : fs) (o : op) (r : rstate) (k : kst).
    Hypothesis HW : wi r k.
    Hypothesis HT : tidy (fst (nform C r k)) (snd (nform C r k)).
    Let rn := fst (nform C r k).
    Let kn := snd (nform C r k).
    Let k' := kernel_op k t o.
    Let kn' := kernel_op kn t o.
    Let Wl := wds kn.
    Let inW := fun wd => memN wd Wl.
    Let dead := fun wd => negb (inW wd) && N.ltb wd (k_next_wd k).

    Lemma rn_idle : pending_of C rn = false.
    Proof. apply settle_now_not_pending. Qed.

    (* the normal kernel is the kernel without its dead watches, with an empty queue *)
    Lemma norm_kext : kext inW k kn /\ kqx inW k kn.
    Proof.
      destruct (settle_now_watches C r) as [R HR]. destruct (HR k) as [A [B D]].
      destruct HW as [[[Hi [Hd Hb]] [[J1 J2] J3]] Hm H0 Hp].
      assert (Wkn : k_watches kn = filter (fun w => negb (memN (kw_wd w) R)) (k_watches k)) by exact A.
      split.
      - constructor; [|exact B | exact D | exact Hi].
        rewrite Wkn. unfold inW, Wl, wds. rewrite Wkn. apply filter_R_inW. tauto.
      - unfold kqx. change (k_queue kn) with (@nil kraw).
        rewrite (filter_nil (live inW) (k_queue k)); [reflexivity|].
        intros x Hx. destruct (J2 x Hx) as [_ Hn]. unfold live, inW. destruct (memN (k_wd x) Wl) eqn:E; [|reflexivity].
        exfalso. apply Hn. apply memN_out in E. unfold Wl, wds in E. rewrite Wkn in E.
        apply in_map_iff in E as [w [<- Hw]]. apply filter_In in Hw as [Hw _]. unfold wds. now apply in_map.
    Qed.

    (* the records of the operation: over junk, nothing coalesces; what the normal kernel queues is the live part *)
    Lemma norm_queue :
      NoDup (map kkey (k_queue k')) /\ k_queue kn' = filter (live inW) (k_queue k') /\ kext inW k' kn' /\
      (forall x, In x (k_queue k') -> k_wd x < k_next_wd k) /\
      (forall x, In x (k_queue k') -> matching C r x = false) /\
      (forall x, In x (k_queue k) -> quiet C x).
    Proof.
      destruct norm_kext as [X Q]. destruct (kernel_op_ext inW k kn t o X Q) as [X' Q']. fold k' kn' in X', Q'.
      destruct HW as [[[Hi [Hd Hb]] [[J1 J2] J3]] Hm H0 Hp].
      destruct (kernel_op_new k t o) as [g [Eg [Ng Kg]]]. fold k' in Eg.
      assert (ND : NoDup (map kkey (k_queue k'))).
      { rewrite Eg. apply (nodup_over_junk (wds k)); [split; assumption | exact Kg|].
        intros y Hy _. rewrite Forall_forall in Ng. apply (nr_wd _ _ _ (Ng y Hy)). }
      split; [exact ND|]. split.
      { unfold kqx in Q'. rewrite Q'. apply kcollapse_keys. apply NoDup_key_filter. exact ND. }
      split; [exact X'|]. split; [|split].
      - intros x Hx. rewrite Eg in Hx. apply in_app_or in Hx as [Hx|Hx]; [apply (J3 x Hx)|].
        rewrite Forall_forall in Ng. pose proof (nr_wd _ _ _ (Ng x Hx)) as Hin. unfold wds in Hin.
        apply in_map_iff in Hin as [w [<- Hw]]. apply Hb. exact Hw.
      - intros x Hx. destruct (pend r) as [[c p]|] eqn:Ep.
        2:{ apply matching_idle. unfold pending_of. rewrite Ep. apply andb_false_r. }
        rewrite Eg in Hx. apply in_app_or in Hx as [Hx|Hx].
        + apply matching_not_to. destruct (J2 x Hx) as [Hm' _]. rewrite Hm'. reflexivity.
        + destruct (is_moved_to (k_mask x)) eqn:Et; [|now apply matching_not_to].
          rewrite Forall_forall in Ng. pose proof (nr_to _ _ _ (Ng x Hx) Et) as Hc.
          eapply matching_cookie; [exact Ep|]. specialize (Hp c p eq_refl). lia.
      - intros x Hx. destruct (J2 x Hx) as [Hm' _]. unfold quiet. rewrite Hm'. split; [apply sets_pend_not_from|]; reflexivity.
    Qed.

    (* the starting states of the two reads are skewed in the sense of C11_inert *)
    Lemma norm_inv : inv C dead (k_queue k') r (kdrained k') rn (kdrained kn').
    Proof.
      destruct norm_queue as [ND [EQ [X' [Bd [Sf Qt]]]]].
      destruct (settle_now_watches C r) as [R HR]. destruct (HR k) as [A [B D]]. destruct (HR (kdrained k')) as [A' [B' D']].
      pose proof HW as [[[Hi [Hd Hb]] [[J1 J2] J3]] Hm H0 Hp].
      assert (Wkn : k_watches kn = filter (fun w => negb (memN (kw_wd w) R)) (k_watches k)) by exact A.
      assert (E1 : fst (settle_now C r (kdrained k')) = rn) by (apply settle_now_fst).
      assert (E2' : settle_now C rn (kdrained kn') = (rn, kdrained kn')) by (apply settle_now_idle; apply rn_idle).
      assert (Wa : k_watches (snd (settle_now C r (kdrained k'))) = k_watches kn').
      { rewrite A'. cbn [kdrained k_watches]. rewrite (kx_watches _ _ _ X').
        unfold inW, Wl, wds. rewrite Wkn. apply filter_R_inW. intros w Hw. eapply kernel_op_watches_sub. exact Hw. }
      right. split; [|split; [|split]].
      - split; [rewrite E1, E2'; reflexivity|]. rewrite E2'. cbn [snd]. apply ksame_intro.
        + cbn [kdrained k_watches]. symmetry. exact Wa.
        + intros w Hw. rewrite A' in Hw. apply filter_In in Hw as [Hw _]. cbn [kdrained k_watches] in Hw.
          apply (allmask_kernel_op M k t o Hm). exact Hw.
        + cbn [kdrained k_next_wd]. rewrite B'. cbn [kdrained k_next_wd]. apply (kx_wd _ _ _ X').
        + cbn [kdrained k_next_cookie]. rewrite D'. cbn [kdrained k_next_cookie]. apply (kx_cookie _ _ _ X').
      - exact Sf.
      - intros e _. apply matching_idle. apply rn_idle.
      - intros wd Hdead. unfold dead in Hdead. apply andb_true_iff in Hdead as [Hn Hlt]. apply negb_true_iff in Hn. apply N.ltb_lt in Hlt.
        destruct HT as [T1 T2].
        assert (Hnw : forall w, In w (k_watches kn') -> kw_wd w <> wd).
        { intros w Hw Heq. rewrite (kx_watches _ _ _ X') in Hw. apply filter_In in Hw as [_ Hw]. cbn beta in Hw. rewrite Heq in Hw.
          rewrite Hw in Hn. discriminate. }
        assert (Hnp : ~ In wd (map fst (pfw rn))).
        { intros Hin. apply T1 in Hin. apply memN_in in Hin. change (inW wd = true) in Hin. rewrite Hin in Hn. discriminate. }
        assert (Hnv : ~ In wd (map snd (wfp rn))).
        { intros Hin. apply T2 in Hin. apply memN_in in Hin. change (inW wd = true) in Hin. rewrite Hin in Hn. discriminate. }
        rewrite E1, E2'. cbn [fst snd]. split.
        + split; [rewrite B'; cbn [kdrained k_next_wd]; unfold k'; rewrite kernel_op_next_wd; exact Hlt|].
          split; [rewrite Wa; exact Hnw | split; assumption].
        + split; [cbn [kdrained k_next_wd]; rewrite (kx_wd _ _ _ X'); unfold k'; rewrite kernel_op_next_wd; exact Hlt|].
          split; [exact Hnw | split; assumption].
    Qed.

    Lemma norm_sel :
      (forall e, In e (k_queue k') -> live inW e = false ->
                 dead (k_wd e) = true \/ (structural (c_recursive C) (k_mask e) = false /\ (fun _ : N => true) (k_mask e) = false)) /\
      shapeP C (k_queue k').
    Proof.
      destruct norm_queue as [ND [EQ [X' [Bd [Sf Qt]]]]]. split.
      - intros e He Hl. left. unfold dead. unfold live in Hl. rewrite Hl. cbn [negb andb]. apply N.ltb_lt. apply Bd. exact He.
      - apply kernel_op_shape. exact Qt.
    Qed.

    (* THE REAL READ AGAINST THE NORMAL READ, both directions *)
    Theorem norm_fwd r1 k1 raws :
      read_batch C t' (r, kdrained k', []) (k_queue k') = Done (r1, k1, raws) ->
      exists rn1 kn1, read_batch C t' (rn, kdrained kn', []) (k_queue kn') = Done (rn1, kn1, raws) /\ E2 C r1 k1 rn1 kn1.
    Proof.
      intros H. destruct norm_queue as [ND [EQ _]]. destruct norm_sel as [Hdel Hsh].
      destruct (inert C (fun _ => true) (live inW) dead (fun _ => conj eq_refl eq_refl) t' (k_queue k') r (kdrained k') rn (kdrained kn')
                      [] r1 k1 raws Hdel (fun _ _ _ => eq_refl) Hsh norm_inv H) as [rn1 [kn1 [Hr HE]]].
      exists rn1, kn1. split; [|exact HE]. rewrite EQ. cbn [filter] in Hr. rewrite filter_tt in Hr. exact Hr.
    Qed.

    Theorem norm_bwd (Hfix : c_fix_moveout C = true) rn1 kn1 raws :
      read_batch C t' (rn, kdrained kn', []) (k_queue kn') = Done (rn1, kn1, raws) ->
      exists r1 k1 raws', read_batch C t' (r, kdrained k', []) (k_queue k') = Done (r1, k1, raws').
    Proof.
      intros H. destruct norm_queue as [ND [EQ _]]. destruct norm_sel as [Hdel Hsh]. rewrite EQ in H.
      eapply (inert_back C (fun _ => true) (live inW) dead (fun _ => conj eq_refl eq_refl) t' Hfix (k_queue k') r (kdrained k')
                         rn (kdrained kn') [] rn1 kn1 raws Hdel (fun _ _ _ => eq_refl) Hsh norm_inv). exact H.
    Qed.

    (* the invariant of the world is kept *)
    Theorem wi_step r1 k1 raws :
      read_batch C t' (r, kdrained k', []) (k_queue k') = Done (r1, k1, raws) -> wi r1 k1.
    Proof.
      intros H. pose proof HW as [[Hk [J J3]] Hm H0 Hp].
      assert (CB : (forall x, In x (k_queue k') -> k_cookie x < k_next_cookie k') /\ k_next_cookie k <= k_next_cookie k').
      { apply kernel_op_cookie_bound; [|exact H0]. intros x Hx. destruct (J3 x Hx) as [_ Hc]. rewrite Hc. exact H0. }
      destruct CB as [CB1 CB2].
      assert (NC : k_next_cookie k1 = k_next_cookie k').
      { apply (cl_read_batch C (fun kk => k_next_cookie kk = k_next_cookie k')
                 (fun kk tt pp kk' wd Hk0 E => eq_trans (cookie_add _ _ _ _ _ _ E) Hk0)
                 (fun kk wd Hk0 => eq_trans (cookie_rm kk wd) Hk0) t' (k_queue k') r (kdrained k') [] r1 k1 raws eq_refl H). }
      constructor.
      - eapply jk_read_batch; [|exact H]. apply jk_drained. apply kwf_kernel_op. exact Hk.
      - apply (cl_read_batch C (allmask M) (fun kk tt pp kk' wd Ha E => allmask_add M _ _ _ _ _ Ha E) (allmask_rm M)
                 t' (k_queue k') r (kdrained k') [] r1 k1 raws (allmask_kernel_op M k t o Hm) H).
      - rewrite NC. lia.
      - intros c p Ep. rewrite NC. destruct (read_batch_pend_src C _ _ _ _ _ _ _ _ H) as [X|[X|[e [p' [He X]]]]].
        + congruence.
        + rewrite X in Ep. specialize (Hp c p Ep). lia.
        + rewrite X in Ep. inversion Ep; subst. apply CB1. exact He.
    Qed.
  End Step.
End World.

(* ------------------------------------------------------------------ the two worlds *)
Lemma settle_now_with_mask C M' r k : settle_now (with_mask C M') r k = settle_now C r k.
Proof. reflexivity. Qed.

Lemma wds_kwt M M' k k' : kwt M M' k k' -> wds k' = wds k.
Proof.
  intros T. unfold wds. rewrite (kwt_watches _ _ _ _ T), map_map. apply map_ext. intros w. reflexivity.
Qed.

Lemma kwt_drained M M' k k' : kwt M M' k k' -> kwt M M' (kdrained k) (kdrained k').
Proof. intros [a b c d]. constructor; assumption. Qed.

(* ------------------------------------------------------------------ tidiness along the unfiltered run (executable) *)
Definition tidyb (r : rstate) (k : kst) : bool :=
  forallb (fun wd => memN wd (wds k)) (map fst (pfw r)) && forallb (fun wd => memN wd (wds k)) (map snd (wfp r)).

Lemma tidyb_sound r k : tidyb r k = true -> tidy r k.
Proof.
  unfold tidyb, tidy. intros H. apply andb_true_iff in H as [H1 H2]. rewrite forallb_forall in H1, H2.
  split; intros wd Hwd; apply memN_out; auto.
Qed.

(* at every drained point of the UNFILTERED run, the normal form of the state is tidy *)
Fixpoint tidy_along (C : cfg) (full_events : bool) (w : world) (k : kst) (r : rstate) (ops : list op) : Prop :=
  tidy (fst (nform C r k)) (snd (nform C r k)) /\
  match ops with
  | [] => True
  | o :: rest =>
    match apply_op w o with
    | None => tidy_along C full_events w k r rest
    | Some _ =>
      match run_one None C full_events w k r o with
      | Some (w1, k1, r1, _) => tidy_along C full_events w1 k1 r1 rest
      | None => True
      end
    end
  end.

Fixpoint tidy_alongb (C : cfg) (full_events : bool) (w : world) (k : kst) (r : rstate) (ops : list op) : bool :=
  tidyb (fst (nform C r k)) (snd (nform C r k)) &&
  match ops with
  | [] => true
  | o :: rest =>
    match apply_op w o with
    | None => tidy_alongb C full_events w k r rest
    | Some _ =>
      match run_one None C full_events w k r o with
      | Some (w1, k1, r1, _) => tidy_alongb C full_events w1 k1 r1 rest
      | None => true
      end
    end
  end.

Lemma tidy_alongb_sound C full ops : forall w k r, tidy_alongb C full w k r ops = true -> tidy_along C full w k r ops.
Proof.
  induction ops as [|o ops IH]; intros w k r H; cbn [tidy_along tidy_alongb] in *; apply andb_true_iff in H as [H1 H2];
    (split; [apply tidyb_sound; exact H1|]); [exact I|].
  destruct (apply_op w o); [|apply IH; exact H2].
  destruct (run_one None C full w k r o) as [[[[w1 k1] r1] e1]|]; [apply IH; exact H2 | exact I].
Qed.

Definition tidy_from (C : cfg) (full_events : bool) (w : world) (ops : list op) : Prop :=
  match construct C kinit (w_fs w) with
  | None => True
  | Some (r, k) => tidy_along C full_events w k r ops
  end.

Definition tidy_fromb (C : cfg) (full_events : bool) (w : world) (ops : list op) : bool :=
  match construct C kinit (w_fs w) with
  | None => true
  | Some (r, k) => tidy_alongb C full_events w k r ops
  end.

Lemma tidy_fromb_sound C full w ops : tidy_fromb C full w ops = true -> tidy_from C full w ops.
Proof.
  unfold tidy_fromb, tidy_from. destruct (construct C kinit (w_fs w)) as [[r k]|]; [apply tidy_alongb_sound | intros _; exact I].
Qed.

(* Inotify.__init__ establishes the invariant of the world *)
Lemma construct_wi C t r k : construct C kinit t = Some (r, k) -> wi C r k /\ pend r = None.
Proof.
  intros Hc. pose proof (construct_queue _ _ _ _ Hc) as Q.
  assert (Gen : forall (P : rstate -> kst -> Prop),
            P rinit0 kinit ->
            (forall r0 k0 p r1 k1 wd, P r0 k0 -> add_watch C r0 k0 t p = Some (r1, k1, wd) -> P r1 k1) -> P r k).
  { intros P P0 Pstep. revert Hc. unfold construct. destruct (fisdir (c_root C) t); [|discriminate].
    destruct (add_watch C rinit0 kinit t (c_root C)) as [[[r1 k1] wd]|] eqn:Ea; [|discriminate].
    pose proof (Pstep _ _ _ _ _ _ P0 Ea) as P1. destruct (c_recursive C); [|intros H; inversion H; subst; exact P1].
    clear Ea. generalize (walk_dirs t (c_root C)). intros ps. revert r1 k1 P1.
    induction ps as [|p ps IH]; intros r1 k1 P1 H; [inversion H; subst; exact P1|].
    destruct (add_watch C r1 k1 t p) as [[[r2 k2] wd2]|] eqn:Ea2; [|discriminate].
    apply (IH r2 k2 (Pstep _ _ _ _ _ _ P1 Ea2) H). }
  assert (Hk : kwf k).
  { apply (Gen (fun _ kk => kwf kk)); [split; [constructor | split; [constructor | intros w []]]|].
    intros r0 k0 p r1 k1 wd H0 Ea. eapply (cl_add_watch C kwf (fun kk tt pp => kwf_add kk tt pp (c_mask C))); eassumption. }
  assert (Hm : allmask (c_mask C) k).
  { apply (Gen (fun _ kk => allmask (c_mask C) kk)); [intros w []|].
    intros r0 k0 p r1 k1 wd H0 Ea.
    eapply (cl_add_watch C (allmask (c_mask C)) (fun kk tt pp kk' wd0 Ha E => allmask_add (c_mask C) _ _ _ _ _ Ha E)); eassumption. }
  assert (Hc1 : k_next_cookie k = 1).
  { apply (Gen (fun _ kk => k_next_cookie kk = 1)); [reflexivity|].
    intros r0 k0 p r1 k1 wd H0 Ea.
    eapply (cl_add_watch C (fun kk => k_next_cookie kk = 1) (fun kk tt pp kk' wd0 Ha E => eq_trans (cookie_add _ _ _ _ _ _ E) Ha)); eassumption. }
  assert (Hp : pend r = None).
  { apply (Gen (fun rr _ => pend rr = None)); [reflexivity|].
    intros r0 k0 p r1 k1 wd H0 Ea. rewrite (add_watch_pend C _ _ _ _ _ _ _ Ea). exact H0. }
  split; [|exact Hp]. constructor.
  - split; [exact Hk|]. rewrite Q. split; [split; [constructor | intros x []] | intros x []].
  - exact Hm.
  - rewrite Hc1. lia.
  - intros c p E. rewrite Hp in E. discriminate.
Qed.

Section Two.
  Variable F : option (list evbase).
  Variable C : cfg.
  Let rec := c_recursive C.
  Let M' := kmask F rec.
  Let C' := with_mask C M'.
  Hypothesis HM : c_mask C = WATCHDOG_ALL.
  Hypothesis Hvis : visible F rec.

  Let kp := fun x : raw => kkeep M' (r_mask x).

  (* settling twins gives twins *)
  Lemma settle_now_twin r k k' : kwt WATCHDOG_ALL M' k k' ->
    fst (settle_now C r k) = fst (settle_now C' r k') /\
    kwt WATCHDOG_ALL M' (snd (settle_now C r k)) (snd (settle_now C' r k')).
  Proof.
    intros T. unfold C'. rewrite settle_now_with_mask. split; [apply settle_now_fst|].
    unfold settle_now. destruct (c_fix_moveout C); [|exact T]. destruct (pend r) as [[c p]|]; [|exact T].
    apply (forget_tree_twin WATCHDOG_ALL M'). exact T.
  Qed.

  Lemma ksame_then_kwt a b c : ksame C a b -> kwt WATCHDOG_ALL M' b c -> kwt WATCHDOG_ALL M' a c.
  Proof.
    intros S T. destruct (ksame_watches C a b S) as [W [N1 N2]]. destruct S as [_ Am _ _]. rewrite HM in Am.
    destruct T as [Tw Tm Tn Tc]. constructor; [rewrite Tw, W; reflexivity | exact Am | congruence | congruence].
  Qed.

  Lemma kwt_then_ksame a b c : kwt WATCHDOG_ALL M' a b -> ksame C' b c -> kwt WATCHDOG_ALL M' a c.
  Proof.
    intros T S. destruct (ksame_watches C' b c S) as [W [N1 N2]].
    destruct T as [Tw Tm Tn Tc]. constructor; [rewrite W, Tw; reflexivity | exact Tm | congruence | congruence].
  Qed.

  (* NORMAL FORMS ARE TWINS AND STAY TWINS (up to settling): no guard needed *)
  Theorem norm_twin t t' o rn knU knF rU1 kU1 rawsU :
    pending_of C rn = false -> kwt WATCHDOG_ALL M' knU knF -> k_queue knU = [] -> k_queue knF = [] ->
    read_batch C t' (rn, kdrained (kernel_op knU t o), []) (k_queue (kernel_op knU t o)) = Done (rU1, kU1, rawsU) ->
    exists rF1 kF1,
      read_batch C' t' (rn, kdrained (kernel_op knF t o), []) (k_queue (kernel_op knF t o)) = Done (rF1, kF1, filter kp rawsU) /\
      fst (settle_now C rU1 kU1) = fst (settle_now C' rF1 kF1) /\
      kwt WATCHDOG_ALL M' (snd (settle_now C rU1 kU1)) (snd (settle_now C' rF1 kF1)).
  Proof.
    intros Hidle T QU QF Hrd.
    set (kU' := kernel_op knU t o) in *. set (kF' := kernel_op knF t o).
    assert (Q0 : kq M' knU knF) by (unfold kq; rewrite QU, QF; reflexivity).
    destruct (kernel_op_twin WATCHDOG_ALL M' (kmask_sub F rec) (kmask_nodir F rec) knU knF t o T Q0) as [T1 Q1].
    fold kU' kF' in T1, Q1. unfold kq in Q1.
    rewrite (kcollapse_keys _ (NoDup_key_filter kkey _ _ (kernel_op_nodup knU t o QU))) in Q1. fold kU' in Q1.
    (* drop the records the filtered watch is not sent, in the unfiltered world *)
    assert (Hsh : shapeP C (k_queue kU')).
    { apply kernel_op_shape. intros x Hx. rewrite QU in Hx. destruct Hx. }
    assert (KU : ksame C (kdrained kU') (kdrained kU')).
    { apply ksame_intro; try reflexivity. intros w Hw. rewrite HM. apply (kwt_mask _ _ _ _ T1). exact Hw. }
    assert (I0 : inv C (fun _ => false) (k_queue kU') rn (kdrained kU') rn (kdrained kU')).
    { left. split; [reflexivity|]. split; [exact KU|]. split; [intros Hp; congruence | intros wd Hd; discriminate]. }
    destruct (inert C (kkeep M') (fun e => kkeep M' (k_mask e)) (fun _ => false) (sim_kept F C Hvis) t' (k_queue kU')
                    rn (kdrained kU') rn (kdrained kU') [] rU1 kU1 rawsU) as [r2 [k2 [Hr HE]]]; try assumption.
    { intros e He Hs. cbn beta in Hs. right. split; [|exact Hs].
      destruct (structural (c_recursive C) (k_mask e)) eqn:Es; [|reflexivity].
      pose proof (structural_kept F C Hvis _ Es) as Hk. fold rec M' in Hk. rewrite Hk in Hs. discriminate. }
    { intros e _ Hs. exact Hs. }
    cbn [filter] in Hr.
    pose proof (read_batch_twin C WATCHDOG_ALL M' HM t' (filter (fun e => kkeep M' (k_mask e)) (k_queue kU'))
                  rn (kdrained kU') (kdrained kF') [] (kwt_drained _ _ _ _ T1)) as Tw.
    rewrite Hr in Tw. fold C' in Tw. rewrite Q1.
    destruct (read_batch C' t' (rn, kdrained kF', []) (filter (fun e => kkeep M' (k_mask e)) (k_queue kU')))
      as [[[r3 k3] raws3]|]; [|contradiction].
    destruct Tw as [H1 [H2 H3]]. cbn [fst snd] in *. subst r3 raws3.
    exists r2, k3. split; [reflexivity|].
    destruct HE as [E1 E2]. destruct (settle_now_twin r2 k2 k3 H3) as [S1 S2]. split.
    - rewrite E1. exact S1.
    - eapply ksame_then_kwt; eassumption.
  Qed.

  (* ---------------------------------------------------------------- one drained operation, real states *)
  Hypothesis Hfix : c_fix_moveout C = true.

  (* the two real states have twin normal forms *)
  Definition tw (rU : rstate) (kU : kst) (rF : rstate) (kF : kst) : Prop :=
    fst (nform C rU kU) = fst (nform C' rF kF) /\ kwt WATCHDOG_ALL M' (snd (nform C rU kU)) (snd (nform C' rF kF)).

  Lemma tidy_twin rU kU rF kF : tw rU kU rF kF -> tidy (fst (nform C rU kU)) (snd (nform C rU kU)) ->
    tidy (fst (nform C' rF kF)) (snd (nform C' rF kF)).
  Proof.
    intros [E T] [T1 T2]. unfold tidy. rewrite <- E, (wds_kwt _ _ _ _ T). split; assumption.
  Qed.

  Theorem lag_step full w kU rU kF rF o w1 kU1 rU1 evs :
    wi C rU kU -> wi C' rF kF -> tw rU kU rF kF -> tidy (fst (nform C rU kU)) (snd (nform C rU kU)) ->
    run_one None C full w kU rU o = Some (w1, kU1, rU1, evs) ->
    exists kF1 rF1, run_one F C' full w kF rF o = Some (w1, kF1, rF1, filter (acc F) evs) /\
                    wi C rU1 kU1 /\ wi C' rF1 kF1 /\ tw rU1 kU1 rF1 kF1.
  Proof.
    intros WU WF [TE TK] TU Hrun. pose proof (tidy_twin _ _ _ _ (conj TE TK) TU) as TF.
    unfold run_one in *. destruct (apply_op w o) as [w'|]; [|discriminate].
    destruct (read_batch C (w_fs w') (rU, kdrained (kernel_op kU (w_fs w) o), []) (k_queue (kernel_op kU (w_fs w) o)))
      as [[[rU1' kU1'] rawsU]|] eqn:HrdU; [|discriminate].
    inversion Hrun; subst w1 kU1 rU1 evs; clear Hrun.
    (* unfiltered: real -> normal *)
    destruct (norm_fwd C (w_fs w) (w_fs w') o rU kU WU TU _ _ _ HrdU) as [rnU1 [knU1 [HnU EU]]].
    (* normal unfiltered -> normal filtered *)
    assert (Hidle : pending_of C (fst (nform C rU kU)) = false) by apply settle_now_not_pending.
    destruct (norm_twin (w_fs w) (w_fs w') o (fst (nform C rU kU)) (snd (nform C rU kU)) (snd (nform C' rF kF))
                        rnU1 knU1 rawsU Hidle TK eq_refl eq_refl HnU) as [rnF1 [knF1 [HnF [SE SK]]]].
    rewrite TE in HnF.
    (* normal filtered -> real filtered (no crash), and back to relate the final states *)
    destruct (norm_bwd C' (w_fs w) (w_fs w') o rF kF WF TF Hfix _ _ _ HnF) as [rF1 [kF1 [rawsF HrdF]]].
    destruct (norm_fwd C' (w_fs w) (w_fs w') o rF kF WF TF _ _ _ HrdF) as [rnF1' [knF1' [HnF' EF]]].
    rewrite HnF in HnF'. inversion HnF'; subst rnF1' knF1' rawsF. clear HnF'.
    rewrite HrdF. exists kF1, rF1. split; [|split; [|split]].
    - f_equal. f_equal. unfold C'. rewrite group_batch_with_mask. cbn [with_mask c_recursive c_root].
      assert (Hsh : Forall (fun x => kshaped (r_mask x)) rawsU).
      { destruct (read_batch_masks _ _ _ _ _ _ _ _ _ HrdU) as [new [E Hn]]. cbn [app] in E. subst new.
        eapply Forall_impl; [|exact Hn]. intros x [[e [He ->]]|Hx]; [|apply sim_raw_shaped; exact Hx].
        assert (QS : qshaped (kernel_op kU (w_fs w) o)).
        { apply kernel_op_shaped. intros e0 He0. left. destruct WU as [[_ [[_ J2] _]] _ _ _]. apply (J2 e0 He0). }
        apply QS. exact He. }
      unfold kp. rewrite (group_batch_handed C M' (kmask_events F rec) (kmask_nodir F rec) (whole_kmask F C) rawsU Hsh).
      rewrite emit_all_f_none. apply emit_all_handed.
    - eapply (wi_step C (w_fs w) (w_fs w') o rU kU WU). exact HrdU.
    - eapply (wi_step C' (w_fs w) (w_fs w') o rF kF WF). exact HrdF.
    - destruct EU as [EU1 EU2]. destruct EF as [EF1 EF2]. unfold tw, nform. cbn [fst snd]. split.
      + rewrite EU1, SE. symmetry. exact EF1.
      + apply kwt_drained. eapply ksame_then_kwt; [exact EU2|].
        eapply kwt_then_ksame; [exact SK|]. apply ksame_sym. exact EF2.
  Qed.

  Theorem lag_seq full ops : forall w kU rU kF rF evs,
    wi C rU kU -> wi C' rF kF -> tw rU kU rF kF -> tidy_along C full w kU rU ops ->
    run_seq None C full w kU rU ops = Some evs ->
    run_seq F C' full w kF rF ops = Some (filter (acc F) evs).
  Proof.
    induction ops as [|o ops IH]; intros w kU rU kF rF evs WU WF T [TU TA] H; cbn [run_seq] in *.
    - inversion H; subst. reflexivity.
    - destruct (apply_op w o) eqn:Ea; [|eapply IH; eassumption].
      destruct (run_one None C full w kU rU o) as [[[[w1 kU1] rU1] e1]|] eqn:E1; [|discriminate].
      destruct (lag_step full w kU rU kF rF o w1 kU1 rU1 e1 WU WF T TU E1) as [kF1 [rF1 [E2 [WU1 [WF1 T1]]]]].
      rewrite E2.
      destruct (run_seq None C full w1 kU1 rU1 ops) as [e2|] eqn:E3; [|discriminate].
      cbn [option_map] in H. inversion H; subst evs.
      rewrite (IH w1 kU1 rU1 kF1 rF1 e2 WU1 WF1 T1 TA E3). cbn [option_map]. now rewrite filter_app.
  Qed.

  (* FROM Inotify.__init__ ON: no hypothesis that mentions the filter *)
  Theorem lag_from full w ops evs :
    tidy_from C full w ops ->
    run_from None C full w ops = Some evs ->
    run_from F C' full w ops = Some (filter (acc F) evs).
  Proof.
    unfold run_from, tidy_from. intros TA H.
    pose proof (construct_twin C WATCHDOG_ALL M' HM (w_fs w)) as T. fold C' in T.
    destruct (construct C kinit (w_fs w)) as [[r k]|] eqn:Ec; [|discriminate].
    destruct (construct C' kinit (w_fs w)) as [[r' k']|] eqn:Ec'; [|contradiction].
    destruct T as [<- K].
    destruct (construct_wi C _ _ _ Ec) as [WU Hp]. destruct (construct_wi C' _ _ _ Ec') as [WF _].
    eapply lag_seq; try eassumption.
    assert (NU : settle_now C r k = (r, k)) by (apply settle_now_idle; unfold pending_of; rewrite Hp; apply andb_false_r).
    assert (NF : settle_now C' r k' = (r, k')) by (apply settle_now_idle; unfold pending_of; rewrite Hp; apply andb_false_r).
    unfold tw, nform. rewrite NU, NF. cbn [fst snd]. split; [reflexivity | apply kwt_drained; exact K].
  Qed.
End Two.
