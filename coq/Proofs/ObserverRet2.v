(* C05, emitter half in Return-label form: a non-raised Return of unschedule(w) by t is preceded, since the begin
   of that call, by t's own removal event GUnsched t w e0 and, after it, t's own join GEmJoin t e0 _.
   Second instance of the ret-invariant technique of ObserverRet.v. *)
Require Import WD.Base.Prelude WD.Model.Observer WD.Proofs.ObserverProofs WD.Proofs.ObserverInv WD.Proofs.ObserverRet
  WD.Proofs.ObserverDisp WD.Proofs.ObserverLive WD.Proofs.ObserverEm.

Definition is_ucall (x : gev) (t : tid) (w : watch) : bool := is_call_of x t (CUnschedule w).

(* newest first: t's own removal of emitter e for watch w, not older than the begin of t's unschedule(w) *)
Fixpoint su (g : list gev) (t : tid) (w : watch) (e : emid) : bool :=
  match g with
  | [] => false
  | x :: l =>
      match x with
      | GUnsched t' w' e' => if tid_eqb t t' && N.eqb w w' && Nat.eqb e e' then true else su l t w e
      | _ => if is_ucall x t w then false else su l t w e
      end
  end.

(* newest first: one of t's own joins, of an emitter that t removed before it, all since the begin of the call *)
Fixpoint sj (g : list gev) (t : tid) (w : watch) : bool :=
  match g with
  | [] => false
  | x :: l =>
      match x with
      | GEmJoin t' e _ => (tid_eqb t t' && su l t w e) || sj l t w
      | _ => if is_ucall x t w then false else sj l t w
      end
  end.

Fixpoint ret_ok2 (g : list gev) : bool :=
  match g with
  | [] => true
  | GRet t (CUnschedule w) false :: l => sj l t w && ret_ok2 l
  | _ :: l => ret_ok2 l
  end.

(* what is still pending in the current call segment *)
Definition pinstr (g : list gev) (t : tid) (w : watch) (i : instr) : bool :=
  match i with IUnsched w' => N.eqb w w' | IEmJoin e => su g t w e | _ => false end.
Definition pend (g : list gev) (t : tid) (w : watch) (acc : list instr) : bool := existsb (pinstr g t w) acc.

Section RI2.
  Variable g : list gev.
  Variable t : tid.
  Fixpoint ri2 (acc : list instr) (k : list instr) : bool :=
    match k with
    | [] => true
    | IRet (CUnschedule w) :: k' => (pend g t w acc || sj g t w) && ri2 [] k'
    | IRet _ :: k' => ri2 [] k'
    | IRetX _ :: k' => ri2 [] k'
    | i :: k' => ri2 (i :: acc) k'
    end.
End RI2.

Lemma ri2_norets g t k : norets k = true -> forall acc, ri2 g t acc k = true.
Proof.
  induction k as [|i k IH]; simpl; auto. intros H acc. apply andb_true_iff in H as [H1 H2].
  destruct i; simpl in H1; try discriminate; auto.
Qed.

Lemma ri2_unwind g t k : forall acc acc', ri2 g t acc k = true -> ri2 g t acc' (unwind k) = true.
Proof.
  induction k as [|i k IH]; simpl; auto. intros acc acc' H.
  destruct i; simpl; try (eapply IH; exact H); auto.
  destruct c; auto. apply andb_true_iff in H. tauto.
Qed.

Lemma ri2_transfer g g' t k : forall acc acc',
  (forall w, pend g t w acc = true -> pend g' t w acc' = true \/ sj g' t w = true) ->
  (forall w e, su g t w e = true -> su g' t w e = true) ->
  (forall w, sj g t w = true -> sj g' t w = true) ->
  ri2 g t acc k = true -> ri2 g' t acc' k = true.
Proof.
  induction k as [|i k IH]; cbn [ri2]; auto. intros acc acc' HA HU HM H.
  assert (Hc : forall j, forall w, pend g t w (j :: acc) = true -> pend g' t w (j :: acc') = true \/ sj g' t w = true).
  { intros j w. unfold pend. simpl. intros E. apply orb_true_iff in E as [E|E].
    - left. apply orb_true_iff. left. destruct j; simpl in *; try discriminate; auto.
    - destruct (HA w E) as [E'|E']; [left; unfold pend in E'; rewrite E'; apply orb_true_r | auto]. }
  destruct i; try (eapply IH; [apply Hc | exact HU | exact HM | exact H]); auto.
  - destruct c; try (eapply IH; [ | exact HU | exact HM | exact H]; intros w0 E; unfold pend in E; simpl in E; discriminate).
    apply andb_true_iff in H as [H1 H2]. apply andb_true_iff. split.
    + apply orb_true_iff in H1 as [H1|H1].
      * destruct (HA _ H1) as [E|E]; rewrite E; auto. apply orb_true_r.
      * rewrite (HM _ H1). apply orb_true_r.
    + eapply IH; [ | exact HU | exact HM | exact H2]. intros w0 E. unfold pend in E. simpl in E. discriminate.
  - eapply IH; [ | exact HU | exact HM | exact H]. intros w0 E. unfold pend in E. simpl in E. discriminate.
Qed.

Lemma ri2_app_norets g t new k : norets new = true -> forall acc, ri2 g t acc (new ++ k) = ri2 g t (rev new ++ acc) k.
Proof.
  induction new as [|i new IH]; simpl; auto. intros H acc. apply andb_true_iff in H as [H1 H2].
  destruct i; simpl in H1; try discriminate; rewrite IH by auto; rewrite <- app_assoc; reflexivity.
Qed.

(* a new log entry that is not the begin of t's unschedule(w) keeps su / sj *)
Lemma su_cons x g t w e : is_ucall x t w = false -> su g t w e = true -> su (x :: g) t w e = true.
Proof. intros H1 H2. simpl. rewrite H1, H2. destruct x; auto. destruct (tid_eqb t t0 && N.eqb w w0 && Nat.eqb e e0); auto. Qed.
Lemma sj_cons x g t w : is_ucall x t w = false -> sj g t w = true -> sj (x :: g) t w = true.
Proof. intros H1 H2. simpl. rewrite H1, H2. destruct x; auto. apply orb_true_r. Qed.
Lemma su_app new g t w e : (forall x, In x new -> is_ucall x t w = false) -> su g t w e = true -> su (new ++ g) t w e = true.
Proof. induction new as [|x new IH]; simpl app; auto. intros H E. apply su_cons; [apply H; left; auto | apply IH; auto; intros; apply H; right; auto]. Qed.
Lemma sj_app new g t w : (forall x, In x new -> is_ucall x t w = false) -> sj g t w = true -> sj (new ++ g) t w = true.
Proof. induction new as [|x new IH]; simpl app; auto. intros H E. apply sj_cons; [apply H; left; auto | apply IH; auto; intros; apply H; right; auto]. Qed.

Lemma pend_mono g g' t w acc : (forall w e, su g t w e = true -> su g' t w e = true) ->
  pend g t w acc = true -> pend g' t w acc = true.
Proof.
  intros HU. unfold pend. induction acc as [|i acc IH]; simpl; auto. intros E. apply orb_true_iff in E as [E|E].
  - apply orb_true_iff. left. destruct i; simpl in *; auto.
  - rewrite IH by auto. apply orb_true_r.
Qed.

Ltac su_mono := let w := fresh "w" in let e := fresh "e" in let E := fresh "E" in
  intros w e E; repeat (apply su_cons; [reflexivity|]); exact E.
Ltac sj_mono := let w := fresh "w" in let E := fresh "E" in
  intros w E; repeat (apply sj_cons; [reflexivity|]); exact E.

Lemma exec_ri2 s t i k inp s' : exec s t i k inp = Some s' ->
  ri2 (glog s) t [] (i :: k) = true -> rets_first (i :: k) = true ->
  ri2 (glog s') t [] (cont s' t) = true /\ (ret_ok2 (glog s) = true -> ret_ok2 (glog s') = true).
Proof.
  intros H Hri Hrf.
  destruct i; crush_exec H; rewrite cont_set_cont_same, glog_set_cont;
    cbn [glog say set_handlers set_watches set_emitters set_efw set_ems set_queue set_lock set_dstarted set_dstop
         set_dexited set_dcur set_dtodo set_dcont set_aconts set_glog set_qlast upd_em];
    cbn [ri2] in Hri; (split; [| try (cbn [ret_ok2]; auto; fail)]).
  (* raise branches *)
  all: try (eapply ri2_unwind;
            eapply ri2_transfer; [ | | | exact Hri];
            [ intros w0 E0; left; eapply pend_mono; [|exact E0]; su_mono | su_mono | sj_mono ]; fail).
  all: try reflexivity.
  (* plain pushes *)
  all: try (cbn [ri2 app]; rewrite ?ri2_app_norets by fb_solve; cbn [ri2];
            eapply ri2_transfer; [ | | | exact Hri];
            [ intros w0 E0; unfold pend in E0; simpl in E0; discriminate | su_mono | sj_mono ]; fail).
  - (* ICall *) simpl in Hrf.
    destruct (fixed s), c; cbn [body app ri2]; rewrite (ri2_norets _ _ k Hrf); try reflexivity;
      unfold pend; simpl; rewrite N.eqb_refl; reflexivity.
  - (* IUnsched: the join is pending now, the removal is logged *)
    cbn [ri2 app]. eapply ri2_transfer; [ | | | exact Hri]; [ | su_mono | sj_mono].
    intros w0 E0. left. unfold pend in *. simpl in E0 |- *. rewrite orb_false_r in E0.
    rewrite tid_eqb_refl, E0, Nat.eqb_refl. simpl. reflexivity.
  - (* IEmJoin, exited *) eapply ri2_transfer; [ | | | exact Hri]; [ | su_mono | sj_mono].
    intros w0 E0. right. unfold pend in E0. simpl in E0. rewrite orb_false_r in E0. simpl. rewrite tid_eqb_refl, E0. reflexivity.
  - (* IEmJoin, never started *) eapply ri2_transfer; [ | | | exact Hri]; [ | su_mono | sj_mono].
    intros w0 E0. right. unfold pend in E0. simpl in E0. rewrite orb_false_r in E0. simpl. rewrite tid_eqb_refl, E0. reflexivity.
  - (* IClear *) repeat (rewrite ri2_app_norets by fb_solve; cbn [ri2]).
    eapply ri2_transfer; [ | | | exact Hri]; [ intros w0 E0; unfold pend in E0; simpl in E0; discriminate | su_mono | sj_mono].
  - (* IRet *) assert (Hk : ri2 (glog s) t [] k = true) by (destruct c; auto; apply andb_true_iff in Hri; tauto).
    eapply ri2_transfer; [ | | | exact Hk]; [ intros w0 E0; unfold pend in E0; simpl in E0; discriminate | su_mono | sj_mono].
  - (* ret_ok2 *) intros Hok. destruct c; cbn [ret_ok2]; auto. rewrite Hok, andb_true_r.
    apply andb_true_iff in Hri as [Hri _]. unfold pend in Hri. simpl in Hri. exact Hri.
  - intros Hok. destruct c; cbn [ret_ok2]; auto.
Qed.

Lemma ret_ok2_app new g : (forall t c, ~ In (GRet t c false) new) -> ret_ok2 (new ++ g) = ret_ok2 g.
Proof.
  induction new as [|x new IH]; simpl; auto. intros H.
  assert (IH' : ret_ok2 (new ++ g) = ret_ok2 g) by (apply IH; intros t c Hin; apply (H t c); auto).
  destruct x; auto. destruct c; auto. destruct raised; auto. exfalso. eapply H. left. reflexivity.
Qed.

Definition RetInv2 (s : state) : Prop :=
  (forall t, ri2 (glog s) t [] (cont s t) = true) /\ ret_ok2 (glog s) = true.

Lemma ri2_other_thread g new t k : (forall x t' c, In x new -> is_call_of x t' c = true -> t' <> t) ->
  ri2 g t [] k = true -> ri2 (new ++ g) t [] k = true.
Proof.
  intros Hc H. eapply ri2_transfer; [ | | | exact H].
  - intros w E. unfold pend in E. simpl in E. discriminate.
  - intros w e E. apply su_app; auto. intros x Hin. unfold is_ucall. destruct (is_call_of x t (CUnschedule w)) eqn:Ei; auto.
    exfalso. eapply Hc; eauto.
  - intros w E. apply sj_app; auto. intros x Hin. unfold is_ucall. destruct (is_call_of x t (CUnschedule w)) eqn:Ei; auto.
    exfalso. eapply Hc; eauto.
Qed.

Lemma RetInv2_exec s t i k inp s' : RetInv s -> RetInv2 s -> cont s t = i :: k -> exec s t i k inp = Some s' -> RetInv2 s'.
Proof.
  intros [HT _] [HT2 Hok] Ec H.
  destruct (HT t) as [_ Hrf]. rewrite Ec in Hrf.
  pose proof (HT2 t) as Hri. rewrite Ec in Hri.
  destruct (exec_ri2 _ _ _ _ _ _ H Hri Hrf) as [Hri' Hok'].
  split; [|auto]. intros t'. destruct (tid_eq_dec t' t) as [->|Hne]; auto.
  destruct (exec_glog _ _ _ _ _ _ H) as [new [Eg [Hcalls _]]].
  destruct (exec_others _ _ _ _ _ _ H t' Hne) as [E | [_ [_ [_ E]]]]; rewrite E; [|reflexivity].
  rewrite Eg. apply ri2_other_thread; auto. intros x t0 c Hin Hc. apply Hcalls in Hc; auto. congruence.
Qed.

Lemma RetInv2_call s n c : RetInv2 s -> cont s (TA n) = [] ->
  RetInv2 (set_cont (TA n) (body (fixed s) c) (say (GCall (TA n) c) s)).
Proof.
  intros [HT2 Hok] Ec. split; [|exact Hok]. intros t'. destruct (tid_eq_dec t' (TA n)) as [->|Hne].
  - rewrite cont_set_cont_same. destruct (fixed s), c; cbn; try reflexivity; unfold pend; simpl; rewrite N.eqb_refl; reflexivity.
  - rewrite cont_set_cont_other by congruence. rewrite glog_set_cont.
    assert (E : cont (say (GCall (TA n) c) s) t' = cont s t') by (destruct t'; reflexivity). rewrite E.
    apply (ri2_other_thread (glog s) [GCall (TA n) c]); auto.
    intros x t0 c0 [<-|[]] Hc. simpl in Hc. apply andb_true_iff in Hc as [Hc _]. apply tid_eqb_eq in Hc. congruence.
Qed.

Lemma RetInv2_em s l s' : RetInv2 s -> em_label l = true -> step s l = Some s' -> RetInv2 s'.
Proof.
  intros [HT2 Hok] Hl H.
  destruct (em_step_frame _ _ _ Hl H) as [Ec _].
  destruct (em_step_glog _ _ _ Hl H) as [new [Eg [Hc [Hr _]]]].
  split.
  - intros t. rewrite Ec, Eg. apply ri2_other_thread; auto. intros x t0 c Hin Hcc. rewrite (Hc x t0 c Hin) in Hcc. discriminate.
  - rewrite Eg, ret_ok2_app; auto.
Qed.

Lemma RetInv2_reachable s : reachable s -> RetInv2 s.
Proof.
  intros Hs. assert (G : RetInv s /\ RetInv2 s); [|tauto]. revert s Hs.
  apply (reach_P (fun s => RetInv s /\ RetInv2 s)).
  - intros s t i k inp s' [H1 H2] Ec H. split; [eapply RetInv_exec; eauto | eapply RetInv2_exec; eauto].
  - intros s n c [H1 H2] Ec. split; [apply RetInv_call; auto | apply RetInv2_call; auto].
  - intros s l s' [H1 H2] Hl H. split; [eapply RetInv_em; eauto | eapply RetInv2_em; eauto].
  - split; [apply RetInv_reachable; exists []; reflexivity|]. split; [intros t; destruct t; reflexivity | reflexivity].
Qed.

Lemma su_split g t w e : su g t w e = true ->
  exists la lb, g = la ++ GUnsched t w e :: lb /\ (forall x, In x la -> is_ucall x t w = false).
Proof.
  induction g as [|x g IH]; simpl; try discriminate. intros H.
  assert (Hrec : is_ucall x t w = false -> su g t w e = true ->
                 exists la lb, x :: g = la ++ GUnsched t w e :: lb /\ (forall y, In y la -> is_ucall y t w = false)).
  { intros Hx Hs. destruct (IH Hs) as [la [lb [E Hl]]]. exists (x :: la), lb. subst. split; auto.
    intros y [<-|Hin]; auto. }
  destruct x; try (match type of H with context [is_ucall ?y t w] => destruct (is_ucall y t w) eqn:Eu end; [discriminate | apply Hrec; auto]).
  destruct (tid_eqb t t0 && N.eqb w w0 && Nat.eqb e e0) eqn:Em.
  - apply andb_true_iff in Em as [Em E3]. apply andb_true_iff in Em as [E1 E2].
    apply tid_eqb_eq in E1. apply N.eqb_eq in E2. apply Nat.eqb_eq in E3. subst.
    exists (@nil gev). exists g. split; auto. intros y [].
  - apply Hrec; auto.
Qed.

Lemma sj_split g t w : sj g t w = true ->
  exists la1 e0 ok la2 lb, g = la1 ++ GEmJoin t e0 ok :: la2 ++ GUnsched t w e0 :: lb /\
    (forall x, In x (la1 ++ la2) -> is_ucall x t w = false).
Proof.
  induction g as [|x g IH]; simpl; try discriminate. intros H.
  assert (Hrec : is_ucall x t w = false -> sj g t w = true ->
                 exists la1 e0 ok la2 lb, x :: g = la1 ++ GEmJoin t e0 ok :: la2 ++ GUnsched t w e0 :: lb /\
                   (forall y, In y (la1 ++ la2) -> is_ucall y t w = false)).
  { intros Hx Hs. destruct (IH Hs) as [la1 [e0 [ok [la2 [lb [E Hl]]]]]]. exists (x :: la1), e0, ok, la2, lb. subst. split; auto.
    intros y [<-|Hin]; auto. }
  destruct x; try (match type of H with context [is_ucall ?y t w] => destruct (is_ucall y t w) eqn:Eu end; [discriminate | apply Hrec; auto]).
  apply orb_true_iff in H as [H|H]; [|apply Hrec; auto].
  apply andb_true_iff in H as [E1 H]. apply tid_eqb_eq in E1. subst t0.
  destruct (su_split _ _ _ _ H) as [la [lb [E Hl]]]. exists [], e, ok, la, lb. subst. split; auto.
Qed.

Lemma ret_ok2_split g : ret_ok2 g = true -> forall l2 t w l1, g = l2 ++ GRet t (CUnschedule w) false :: l1 -> sj l1 t w = true.
Proof.
  induction g as [|x g IH]; intros H l2 t w l1 E.
  - destruct l2; discriminate.
  - destruct l2 as [|y l2]; simpl in E; inversion E; subst.
    + simpl in H. apply andb_true_iff in H. tauto.
    + eapply IH; eauto. destruct y; simpl in H; auto. destruct c; auto. destruct raised; auto. apply andb_true_iff in H. tauto.
Qed.

(* C05, emitter half, Return-label form. *)
Theorem no_put_after_unschedule_return s : reachable s ->
  forall l3 e w ev l2 t l1, glog s = l3 ++ GPut e w ev :: l2 ++ GRet t (CUnschedule w) false :: l1 ->
    exists la e0 lb, l1 = la ++ GUnsched t w e0 :: lb /\ (exists ok, In (GEmJoin t e0 ok) la) /\
      (forall x, In x la -> is_call_of x t (CUnschedule w) = false) /\ e <> e0.
Proof.
  intros Hs l3 e w ev l2 t l1 Hg.
  destruct (RetInv2_reachable s Hs) as [_ Hok].
  assert (Hsj : sj l1 t w = true).
  { eapply ret_ok2_split with (l2 := l3 ++ GPut e w ev :: l2); eauto. rewrite Hg. rewrite <- app_assoc. reflexivity. }
  destruct (sj_split _ _ _ Hsj) as [la1 [e0 [ok [la2 [lb [E Hl]]]]]].
  exists (la1 ++ GEmJoin t e0 ok :: la2), e0, lb. subst l1. repeat split.
  - rewrite <- app_assoc. reflexivity.
  - exists ok. apply in_or_app. right. left. reflexivity.
  - intros x Hin. apply in_app_or in Hin as [Hin|[<-|Hin]]; [apply Hl; apply in_or_app; auto | reflexivity | apply Hl; apply in_or_app; auto].
  - intros ->. eapply (removed_joined_never_puts s Hs l3 e0 w ev (l2 ++ GRet t (CUnschedule w) false :: la1 ++ GEmJoin t e0 ok :: la2) t w lb t ok).
    + rewrite Hg. rewrite <- !app_assoc. simpl. rewrite <- !app_assoc. reflexivity.
    + apply in_or_app. right. right. apply in_or_app. right. left. reflexivity.
Qed.
