"""Import shims that let the Windows and macOS back ends of watchdog be imported and run on Linux (C20).

Nothing in /repo is touched: the shims only install stand-ins for things the modules look up at
*import* time.

* `winapi()` - `ctypes.WinDLL` / `ctypes.WinError` stubs and `ctypes.wintypes.DWORD/BOOL` rebound to the
  32-bit types they are on Windows (on Linux `c_ulong` is 64-bit: the unshimmed FileNotifyInformation
  would have 8-byte fields and `_parse_event_buffer` walks off the buffer).  Returns the imported
  `watchdog.observers.winapi` module.  Every kernel32 symbol is a dummy that accepts attribute
  assignment (`restype`/`argtypes`/`errcheck`) and raises when called - no check calls them.
* `read_directory_changes()` - the emitter module on top of that.
* `fsevents()` - a fake `_watchdog_fsevents` module (NativeEvent with the flag properties of
  src/watchdog_fsevents.c, no-op add_watch/remove_watch/read_events/stop) and the imported
  `watchdog.observers.fsevents`.
"""
from __future__ import annotations

import ctypes
import ctypes.wintypes
import importlib
import sys
import types


class _Sym:
    """A kernel32 entry point: attribute assignment allowed, calling it is an error."""

    def __init__(self, name):
        self.__dict__["_name"] = name

    def __call__(self, *a, **kw):
        raise OSError(f"shim: kernel32.{self._name} called - not available in this sandbox")


class _WinDLL:
    def __init__(self, name, *a, **kw):
        self._name = name
        self._syms = {}

    def __getattr__(self, item):
        if item.startswith("__"):
            raise AttributeError(item)
        s = self.__dict__["_syms"].get(item)
        if s is None:
            s = self.__dict__["_syms"][item] = _Sym(item)
        return s


def _win_error(*a, **kw):
    e = OSError(*(a or (0, "shim WinError")))
    e.winerror = a[0] if a else 0
    return e


_state: dict = {}


def winapi():
    """Import watchdog.observers.winapi with 32-bit DWORD/BOOL; idempotent."""
    if "winapi" in _state:
        return _state["winapi"]
    saved = (getattr(ctypes, "WinDLL", None), getattr(ctypes, "WinError", None),
             ctypes.wintypes.DWORD, ctypes.wintypes.BOOL)
    ctypes.WinDLL = _WinDLL
    ctypes.WinError = _win_error
    ctypes.wintypes.DWORD = ctypes.c_uint32
    ctypes.wintypes.BOOL = ctypes.c_int32
    try:
        sys.modules.pop("watchdog.observers.winapi", None)
        mod = importlib.import_module("watchdog.observers.winapi")
    finally:
        # the module has bound its own names; restore the process-wide ones except WinDLL/WinError,
        # which the module's error paths look up lazily (`ctypes.WinError()`)
        ctypes.wintypes.DWORD, ctypes.wintypes.BOOL = saved[2], saved[3]
    assert ctypes.sizeof(mod.FileNotifyInformation) == 16 and mod.FileNotifyInformation.FileName.offset == 12
    _state["winapi"] = mod
    return mod


def read_directory_changes():
    if "rdc" in _state:
        return _state["rdc"]
    winapi()
    mod = importlib.import_module("watchdog.observers.read_directory_changes")
    _state["rdc"] = mod
    return mod


# FSEvents flag values (CoreServices/FSEvents.h) - the C extension tests `flags & constant`.
FSE = dict(
    must_scan_subdirs=0x1, is_user_dropped=0x2, is_kernel_dropped=0x4, is_event_ids_wrapped=0x8,
    is_history_done=0x10, is_root_changed=0x20, is_mount=0x40, is_unmount=0x80,
    is_created=0x100, is_removed=0x200, is_inode_meta_mod=0x400, is_renamed=0x800, is_modified=0x1000,
    is_item_finder_info_modified=0x2000, is_owner_change=0x4000, is_xattr_mod=0x8000,
    is_file=0x10000, is_directory=0x20000, is_symlink=0x40000, is_own_event=0x80000,
    is_hardlink=0x100000, is_last_hardlink=0x200000, is_cloned=0x400000,
)


def _make_native_event():
    class NativeEvent:
        """Stand-in for _watchdog_fsevents.NativeEvent(path, inode, flags, event_id)."""

        def __init__(self, path, inode, flags, event_id):
            self.path = path
            self.inode = inode
            self.flags = flags
            self.event_id = event_id

        @property
        def is_coalesced(self):
            # src/watchdog_fsevents.c: more than one of created/removed/renamed set
            n = sum(1 for f in (0x100, 0x200, 0x800) if self.flags & f)
            return n > 1

        def __repr__(self):
            return f'NativeEvent(path="{self.path}", inode={self.inode}, flags={self.flags:x}, id={self.event_id})'

    for name, bit in FSE.items():
        setattr(NativeEvent, name, property(lambda self, _b=bit: bool(self.flags & _b)))
    return NativeEvent


def fsevents():
    if "fsevents" in _state:
        return _state["fsevents"]
    fake = types.ModuleType("_watchdog_fsevents")
    fake.NativeEvent = _make_native_event()
    fake.add_watch = lambda *a, **kw: None
    fake.remove_watch = lambda *a, **kw: None
    fake.read_events = lambda *a, **kw: None
    fake.stop = lambda *a, **kw: None
    fake.CALLBACK_ERROR_EVENT_ID = 0
    sys.modules["_watchdog_fsevents"] = fake
    mod = importlib.import_module("watchdog.observers.fsevents")
    _state["fsevents"] = mod
    return mod
