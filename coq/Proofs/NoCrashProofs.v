(* C07: the reader thread never dies.  Invariant: every raw event still to be read carries a watch
   descriptor that the reader knows (is a key of _path_for_wd) at the moment it is processed. *)
Require Import WD.Base.Prelude WD.Base.BStr WD.Model.SubEvents WD.Model.Emitter WD.Model.Fs WD.Model.Reader
               WD.Model.DelayQueue WD.Model.Grouping WD.Model.Pipeline.
Local Open Scope N_scope.

(* ------------------------------------------------------------------ association lists keyed by N *)
Lemma alookup_in {V} (x : N) (m : list (N * V)) : In x (map fst m) -> exists v, alookup N.eqb x m = Some v.
Proof.
  induction m as [|[k v] m IH]; simpl; intros H; [contradiction|].
  destruct (N.eqb x k) eqn:E; [eauto|]. destruct H as [H|H]; [subst; rewrite N.eqb_refl in E; discriminate | auto].
Qed.

Lemma alookup_some_in {V} (x : N) (m : list (N * V)) v : alookup N.eqb x m = Some v -> In x (map fst m).
Proof.
  induction m as [|[k w] m IH]; simpl; intros H; [discriminate|].
  destruct (N.eqb x k) eqn:E; [apply N.eqb_eq in E; auto | auto].
Qed.

Lemma aset_dom {V} (x : N) (v : V) m y : In y (map fst (aset N.eqb x v m)) <-> y = x \/ In y (map fst m).
Proof.
  induction m as [|[k w] m IH]; simpl.
  - split; intros [H|H]; auto; contradiction.
  - destruct (N.eqb x k) eqn:E; simpl.
    + apply N.eqb_eq in E. subst. split; intros [H|H]; auto.
    + rewrite IH. split; intros H; intuition.
Qed.

Lemma aremove_dom {V} (x : N) (m : list (N * V)) y :
  In y (map fst (aremove N.eqb x m)) <-> In y (map fst m) /\ y <> x.
Proof.
  induction m as [|[k w] m IH]; simpl.
  - split; [contradiction | intros [[] _]].
  - destruct (N.eqb x k) eqn:E.
    + apply N.eqb_eq in E. subst. rewrite IH. split; intros H; [intuition|].
      destruct H as [[H|H] Hn]; [congruence | auto].
    + apply N.eqb_neq in E. simpl. rewrite IH. split; intros H.
      * destruct H as [H|[H Hn]]; [subst; split; auto | split; auto].
      * destruct H as [[H|H] Hn]; auto.
Qed.

Lemma kpush_cases q e : kpush q e = q \/ kpush q e = q ++ [e].
Proof. unfold kpush. destruct (rev q); [auto|]. destruct (kraw_eqb k e); auto. Qed.

(* ------------------------------------------------------------------ the invariant *)
Definition rdom (r : rstate) : list N := map fst (pfw r).

Record KI (pending : list kraw) (k : kst) (r : rstate) : Prop := {
  ki_live : forall w, In w (k_watches k) -> In (kw_wd w) (rdom r);
  ki_noign : forall e, In e (pending ++ k_queue k) -> Emitter.is_ignored (k_mask e) = true ->
                       forall w, In w (k_watches k) -> kw_wd w <> k_wd e;
  ki_nodup : NoDup (map kw_wd (k_watches k));
  ki_bw : forall w, In w (k_watches k) -> kw_wd w < k_next_wd k;
  ki_bq : forall e, In e (pending ++ k_queue k) -> k_wd e < k_next_wd k;
}.

Lemma ki_init : KI [] kinit rinit0.
Proof. constructor; simpl; try (intros; contradiction); auto. constructor. Qed.

(* the reader's table changes in a way that keeps every live descriptor known: the invariant survives *)
Lemma ki_grow pending k r r' :
  KI pending k r -> (forall w, In w (k_watches k) -> In (kw_wd w) (rdom r')) -> KI pending k r'.
Proof. intros [H1 H3 H4 H5 H6] Hs. constructor; auto. Qed.

Lemma ki_sup pending k r r' :
  KI pending k r -> (forall x, In x (rdom r) -> In x (rdom r')) -> KI pending k r'.
Proof. intros H Hs. eapply ki_grow; [exact H|]. intros w Hw. apply Hs. destruct H as [L _ _ _ _]. auto. Qed.

Lemma find_some_in {A} f (l : list A) x : find f l = Some x -> In x l /\ f x = true.
Proof. apply find_some. Qed.

Lemma watch_of_ino_in k ino w : watch_of_ino k ino = Some w -> In w (k_watches k).
Proof. unfold watch_of_ino. intros H. apply find_some in H. tauto. Qed.

(* ------------------------------------------------------------------ kernel side *)
Lemma ki_push pending k r e :
  KI pending k r ->
  (exists w, In w (k_watches k) /\ kw_wd w = k_wd e) ->
  Emitter.is_ignored (k_mask e) = false ->
  KI pending {| k_watches := k_watches k; k_next_wd := k_next_wd k; k_queue := kpush (k_queue k) e;
                k_next_cookie := k_next_cookie k |} r.
Proof.
  intros [H1 H3 H4 H5 H6] [w [Hw Hwd]] Hni.
  destruct (kpush_cases (k_queue k) e) as [Hc|Hc]; simpl.
  - constructor; simpl; rewrite ?Hc; auto.
  - constructor; simpl; rewrite ?Hc; auto.
    + intros e' He' Hi. rewrite app_assoc in He'. apply in_app_iff in He' as [He'|[<-|[]]]; [eauto | congruence].
    + intros e' He'. rewrite app_assoc in He'. apply in_app_iff in He' as [He'|[<-|[]]]; [eauto|].
      rewrite <- Hwd. auto.
Qed.

Definition plain (bit : N) : Prop :=
  Emitter.is_ignored bit = false /\ Emitter.is_ignored (N.lor bit IN_ISDIR) = false.

Lemma ki_knotify pending k r ino bit isdir cookie name :
  plain bit -> KI pending k r -> KI pending (knotify k ino bit isdir cookie name) r.
Proof.
  intros [Hp1 Hp2] H. unfold knotify. destruct (watch_of_ino k ino) as [w|] eqn:E; [|exact H].
  destruct (N.eqb (N.land bit (kw_mask w)) 0); [exact H|].
  apply ki_push; [exact H | | ].
  - exists w. split; [eapply watch_of_ino_in; eauto | reflexivity].
  - simpl. destruct isdir; assumption.
Qed.

Lemma knotify_watches k ino bit isdir cookie name :
  k_watches (knotify k ino bit isdir cookie name) = k_watches k /\
  k_next_wd (knotify k ino bit isdir cookie name) = k_next_wd k.
Proof.
  unfold knotify. destruct (watch_of_ino k ino); [|auto]. destruct (N.eqb _ 0); auto.
Qed.

Lemma plain_attrib : plain IN_ATTRIB. Proof. split; reflexivity. Qed.
Lemma plain_delete_self : plain IN_DELETE_SELF. Proof. split; reflexivity. Qed.
Lemma plain_create : plain IN_CREATE. Proof. split; reflexivity. Qed.
Lemma plain_open : plain IN_OPEN. Proof. split; reflexivity. Qed.
Lemma plain_close_write : plain IN_CLOSE_WRITE. Proof. split; reflexivity. Qed.
Lemma plain_modify : plain IN_MODIFY. Proof. split; reflexivity. Qed.
Lemma plain_delete : plain IN_DELETE. Proof. split; reflexivity. Qed.
Lemma plain_moved_from : plain IN_MOVED_FROM. Proof. split; reflexivity. Qed.
Lemma plain_moved_to : plain IN_MOVED_TO. Proof. split; reflexivity. Qed.

Lemma in_filter_wd w wd l : In w (filter (fun x => negb (N.eqb (kw_wd x) wd)) l) <-> In w l /\ kw_wd w <> wd.
Proof. rewrite filter_In, negb_true_iff, N.eqb_neq. tauto. Qed.

Lemma nodup_map_filter {A B} (f : A -> B) p (l : list A) : NoDup (map f l) -> NoDup (map f (filter p l)).
Proof.
  induction l as [|a l IH]; simpl; intros H; [constructor|].
  inversion H as [|? ? Hn Hd]; subst. destruct (p a); simpl; [|auto].
  constructor; [|auto]. intros Hin. apply Hn. apply in_map_iff in Hin as [x [Hx Hf]].
  apply filter_In in Hf as [Hf _]. rewrite <- Hx. apply in_map. exact Hf.
Qed.

Lemma nodup_wd_unique l w w' : NoDup (map kw_wd l) -> In w l -> In w' l -> kw_wd w = kw_wd w' -> w = w'.
Proof.
  induction l as [|a l IH]; simpl; intros Hn Hw Hw' Heq; [contradiction|].
  inversion Hn as [|? ? Hna Hnd]; subst.
  destruct Hw as [->|Hw], Hw' as [->|Hw']; auto.
  - exfalso. apply Hna. rewrite Heq. apply in_map. exact Hw'.
  - exfalso. apply Hna. rewrite <- Heq. apply in_map. exact Hw.
Qed.

(* a watch disappears (inode gone, or inotify_rm_watch): it is filtered out and IN_IGNORED is queued for it *)
Lemma ki_unwatch pending k r wd :
  KI pending k r -> (exists w, In w (k_watches k) /\ kw_wd w = wd) ->
  KI pending {| k_watches := filter (fun x => negb (N.eqb (kw_wd x) wd)) (k_watches k); k_next_wd := k_next_wd k;
                k_queue := kpush (k_queue k) {| k_wd := wd; k_mask := IN_IGNORED; k_cookie := 0; k_name := [] |};
                k_next_cookie := k_next_cookie k |} r.
Proof.
  intros [L NI ND BW BQ] [w [Hw Hwd]].
  set (e := {| k_wd := wd; k_mask := IN_IGNORED; k_cookie := 0; k_name := [] |}).
  assert (Hlive : forall x, In x (filter (fun x0 => negb (N.eqb (kw_wd x0) wd)) (k_watches k)) ->
                            In x (k_watches k) /\ kw_wd x <> wd) by (intros x Hx; apply in_filter_wd; exact Hx).
  destruct (kpush_cases (k_queue k) e) as [Hc|Hc]; constructor; simpl; rewrite ?Hc.
  - intros x Hx. apply Hlive in Hx as [Hx _]. auto.
  - intros e' He' Hi x Hx. apply Hlive in Hx as [Hx _]. eauto.
  - apply nodup_map_filter. exact ND.
  - intros x Hx. apply Hlive in Hx as [Hx _]. auto.
  - exact BQ.
  - intros x Hx. apply Hlive in Hx as [Hx _]. auto.
  - intros e' He' Hi x Hx. apply Hlive in Hx as [Hx Hne]. rewrite app_assoc in He'.
    apply in_app_iff in He' as [He'|[<-|[]]]; [eauto | simpl; exact Hne].
  - apply nodup_map_filter. exact ND.
  - intros x Hx. apply Hlive in Hx as [Hx _]. auto.
  - intros e' He'. rewrite app_assoc in He'. apply in_app_iff in He' as [He'|[<-|[]]]; [auto | simpl; subst wd; auto].
Qed.

Lemma ki_kgone pending k r ino attrib_first : KI pending k r -> KI pending (kgone k ino attrib_first) r.
Proof.
  intros H. unfold kgone. destruct (watch_of_ino k ino) as [w|] eqn:E; [|exact H].
  assert (Hw : In w (k_watches k)) by (eapply watch_of_ino_in; eauto).
  set (k1 := if attrib_first then knotify k ino IN_ATTRIB true 0 [] else k).
  set (k2 := knotify k1 ino IN_DELETE_SELF false 0 []).
  assert (H1 : KI pending k1 r) by (unfold k1; destruct attrib_first; [apply ki_knotify; [apply plain_attrib | exact H] | exact H]).
  assert (H2 : KI pending k2 r) by (apply ki_knotify; [apply plain_delete_self | exact H1]).
  assert (Hw2 : k_watches k2 = k_watches k /\ k_next_wd k2 = k_next_wd k).
  { unfold k2. destruct (knotify_watches k1 ino IN_DELETE_SELF false 0 []) as [-> ->].
    unfold k1. destruct attrib_first; [apply knotify_watches | auto]. }
  destruct Hw2 as [Hw2 Hn2].
  apply (ki_unwatch pending k2 r (kw_wd w) H2). exists w. split; [rewrite Hw2; exact Hw | reflexivity].
Qed.

(* inotify_rm_watch on a descriptor the reader no longer maps (or never did): live descriptors stay known *)
Lemma ki_krm pending k r wd : KI pending k r -> KI pending (krm_watch k wd) r.
Proof.
  intros H. unfold krm_watch. destruct (find (fun w => N.eqb (kw_wd w) wd) (k_watches k)) as [w|] eqn:E; [|exact H].
  apply find_some in E as [Hw Hwd]. apply N.eqb_eq in Hwd. apply ki_unwatch; [exact H|]. exists w. auto.
Qed.

Lemma krm_watches k wd x : In x (k_watches (krm_watch k wd)) -> In x (k_watches k) /\ kw_wd x <> wd.
Proof.
  unfold krm_watch. destruct (find (fun w => N.eqb (kw_wd w) wd) (k_watches k)) as [w|] eqn:E; simpl.
  - apply in_filter_wd.
  - intros Hx. split; [exact Hx|]. intros Heq.
    apply (find_none _ _ E) in Hx. apply N.eqb_neq in Hx. contradiction.
Qed.

Lemma ki_cookie pending k r c :
  KI pending k r ->
  KI pending {| k_watches := k_watches k; k_next_wd := k_next_wd k; k_queue := k_queue k; k_next_cookie := c |} r.
Proof. intros [H1 H3 H4 H5 H6]. constructor; auto. Qed.

Lemma ki_kernel_op k r t o : KI [] k r -> KI [] (kernel_op k t o) r.
Proof.
  intros H. destruct o; simpl.
  - repeat apply ki_knotify; auto using plain_create, plain_open, plain_close_write.
  - repeat apply ki_knotify; auto using plain_modify, plain_open, plain_close_write.
  - destruct (fisdir p t); repeat apply ki_knotify; auto using plain_attrib.
  - apply ki_knotify; auto using plain_delete.
  - apply ki_knotify; auto using plain_create.
  - apply ki_knotify; [apply plain_delete|]. apply ki_kgone. exact H.
  - destruct (fisdir q t); [apply ki_kgone|]; repeat apply ki_knotify; auto using plain_moved_from, plain_moved_to;
      apply ki_cookie; exact H.
Qed.

(* ------------------------------------------------------------------ reader side *)
Section Reader.
  Variable C : cfg.

  Lemma ki_bump pending k r : KI pending k r -> KI pending k (bump r).
  Proof. intros H. eapply ki_sup; eauto. Qed.

  Lemma kadd_watch_ki pending k r t p mask k' wd :
    KI pending k r -> kadd_watch k t p mask = Some (k', wd) ->
    forall r', (forall x, In x (rdom r') <-> x = wd \/ In x (rdom r)) -> KI pending k' r'.
  Proof.
    intros [L NI ND BW BQ] Hk r' Hd. unfold kadd_watch in Hk.
    destruct (flookup p t) as [e|]; [|discriminate].
    destruct (watch_of_ino k (f_ino e)) as [w|] eqn:E; inversion Hk; subst; clear Hk.
    - (* already watched: mask replaced *)
      assert (Hmap : map kw_wd (map (fun x => if N.eqb (kw_wd x) (kw_wd w)
                 then {| kw_wd := kw_wd x; kw_ino := kw_ino x; kw_mask := mask |} else x) (k_watches k))
                 = map kw_wd (k_watches k)).
      { rewrite map_map. apply map_ext. intros x. destruct (N.eqb (kw_wd x) (kw_wd w)); reflexivity. }
      assert (Hin : forall x, In x (map (fun x => if N.eqb (kw_wd x) (kw_wd w)
                 then {| kw_wd := kw_wd x; kw_ino := kw_ino x; kw_mask := mask |} else x) (k_watches k)) ->
                 exists y, In y (k_watches k) /\ kw_wd y = kw_wd x).
      { intros x Hx. apply in_map_iff in Hx as [y [Hy Hin]]. exists y. split; [exact Hin|].
        destruct (N.eqb (kw_wd y) (kw_wd w)); subst; reflexivity. }
      constructor; simpl.
      + intros x Hx. destruct (Hin x Hx) as [y [Hy <-]]. apply Hd. right. auto.
      + intros e' He' Hi x Hx. destruct (Hin x Hx) as [y [Hy <-]]. eauto.
      + rewrite Hmap. exact ND.
      + intros x Hx. destruct (Hin x Hx) as [y [Hy <-]]. auto.
      + exact BQ.
    - (* a new watch with a fresh descriptor *)
      constructor; simpl.
      + intros x Hx. apply in_app_iff in Hx as [Hx|[<-|[]]]; apply Hd; [right; auto | left; reflexivity].
      + intros e' He' Hi x Hx. apply in_app_iff in Hx as [Hx|[<-|[]]]; [eauto|].
        simpl. apply BQ in He'. lia.
      + rewrite map_app. simpl. clear -ND BW. induction (k_watches k) as [|a l IH]; simpl.
        * constructor; [intros [] | constructor].
        * inversion ND; subst. constructor.
          -- intros Hin. apply in_app_iff in Hin as [Hin|[Hin|[]]]; [contradiction|].
             assert (kw_wd a < k_next_wd k) by (apply BW; left; reflexivity). lia.
          -- apply IH; auto. intros w Hw. apply BW. right. exact Hw.
      + intros x Hx. apply in_app_iff in Hx as [Hx|[<-|[]]]; [apply BW in Hx; lia | simpl; lia].
      + intros e' He'. apply BQ in He'. lia.
  Qed.

  Lemma add_watch_ki pending k r t p r' k' wd :
    KI pending k r -> add_watch C r k t p = Some (r', k', wd) -> KI pending k' r'.
  Proof.
    intros H Ha. unfold add_watch in Ha. destruct (mem_nat (calls r) (c_faults C)); [discriminate|].
    destruct (kadd_watch k t p (c_mask C)) as [[k1 w1]|] eqn:Ek; [|discriminate].
    inversion Ha; subst; clear Ha.
    eapply kadd_watch_ki; eauto. intros x. unfold rdom. simpl. apply aset_dom.
  Qed.

  Lemma sim_dirs_ki pending t root ds : forall r k acc r' k' acc',
    KI pending k r -> sim_dirs C r k t root ds acc = (r', k', acc') -> KI pending k' r'.
  Proof.
    induction ds as [|d ds IH]; simpl; intros r k acc r' k' acc' H Hs.
    - inversion Hs; subst. exact H.
    - destruct (add_watch C r k t (join root d)) as [[[r1 k1] wd]|] eqn:E.
      + eapply IH; [|exact Hs]. eapply add_watch_ki; eauto.
      + eapply IH; [|exact Hs]. apply ki_bump. exact H.
  Qed.

  Lemma sim_files_fixed r root fls : c_fix_simulate C = true -> forall acc, exists acc', sim_files C r root fls acc = Done acc'.
  Proof.
    intros Hf. induction fls as [|f fls IH]; simpl; intros acc; [eauto|].
    destruct (alookup beqb (dirname (join root f)) (wfp r)); [apply IH|]. rewrite Hf. apply IH.
  Qed.

  Lemma simulate_ki pending t w : c_fix_simulate C = true -> forall r k acc,
    KI pending k r -> exists r' k' acc', simulate C r k t w acc = Done (r', k', acc') /\ KI pending k' r'.
  Proof.
    intros Hf. induction w as [|[[root ds] fls] w IH]; simpl; intros r k acc H.
    - eauto.
    - destruct (sim_dirs C r k t root ds acc) as [[r1 k1] acc1] eqn:E.
      assert (H1 : KI pending k1 r1) by (eapply sim_dirs_ki; eauto).
      destruct (sim_files_fixed r1 root fls Hf acc1) as [acc2 ->]. apply IH. exact H1.
  Qed.

  Lemma rekey_loop_dom keys src dst : forall r x, In x (rdom r) -> In x (rdom (rekey_loop keys src dst r)).
  Proof.
    induction keys as [|[p w] keys IH]; simpl; intros r x Hx; [exact Hx|].
    destruct (starts (src ++ [sep]) p); [|auto].
    destruct (alookup beqb p (wfp r)); [|auto]. apply IH. unfold rdom. simpl. apply aset_dom. auto.
  Qed.

  Lemma add_dirs_ki pending t ps : forall r k r' k',
    KI pending k r -> add_dirs C r k t ps = (r', k') -> KI pending k' r'.
  Proof.
    induction ps as [|p ps IH]; simpl; intros r k r' k' H Ha.
    - inversion Ha; subst. exact H.
    - destruct (add_watch C r k t p) as [[[r1 k1] wd]|] eqn:E.
      + eapply IH; [|exact Ha]. eapply add_watch_ki; eauto.
      + inversion Ha; subst. apply ki_bump. exact H.
  Qed.

  Lemma ki_tail e rest k r : KI (e :: rest) k r -> KI rest k r.
  Proof.
    intros [L NI ND BW BQ]. constructor; auto.
    - intros e' He'. apply NI. right. exact He'.
    - intros e' He'. apply BQ. right. exact He'.
  Qed.

  Lemma ki_tail_ignored e rest k r r' :
    KI (e :: rest) k r -> Emitter.is_ignored (k_mask e) = true ->
    (forall x, In x (rdom r') <-> In x (rdom r) /\ x <> k_wd e) -> KI rest k r'.
  Proof.
    intros [L NI ND BW BQ] Hi Hd. constructor; auto.
    - intros w Hw. apply Hd. split; [auto|]. apply (NI e); [left; reflexivity | exact Hi | exact Hw].
    - intros e' He'. apply NI. right. exact He'.
    - intros e' He'. apply BQ. right. exact He'.
  Qed.

  (* _forget_tree: whenever an entry of _path_for_wd goes, the watch goes with it *)
  Lemma forget_tree_ki pending p keys : forall r k r' k',
    KI pending k r -> forget_tree keys p r k = (r', k') -> KI pending k' r'.
  Proof.
    induction keys as [|[q x] keys IH]; simpl; intros r k r' k' H Hf.
    - inversion Hf; subst. exact H.
    - destruct (beqb q p || starts (p ++ [sep]) q); [|eauto].
      destruct (alookup beqb q (wfp r)) as [wd|]; [|eauto].
      assert (H1 : KI pending k {| wfp := aremove beqb q (wfp r); pfw := pfw r; mvf := mvf r; calls := calls r; pend := pend r |})
        by (eapply ki_sup; [exact H | auto]).
      destruct (alookup N.eqb wd (pfw r)) as [q'|]; [|eauto].
      destruct (beqb q' q); [|eauto].
      eapply IH; [|exact Hf].
      eapply ki_grow; [apply ki_krm; exact H1|].
      intros w Hw. apply krm_watches in Hw as [Hw Hne]. unfold rdom. simpl. apply aremove_dom.
      split; [|exact Hne]. destruct H as [L _ _ _ _]. apply L. exact Hw.
  Qed.

  Lemma settle_pending_ki pending r k e r' k' :
    KI pending k r -> settle_pending C r k e = (r', k') -> KI pending k' r'.
  Proof.
    intros H Hs. unfold settle_pending in Hs. destruct (c_fix_moveout C); [|inversion Hs; subst; exact H].
    destruct (pend r) as [[c p]|]; [|inversion Hs; subst; exact H].
    assert (H0 : KI pending k {| wfp := wfp r; pfw := pfw r; mvf := mvf r; calls := calls r; pend := None |})
      by (eapply ki_sup; [exact H | auto]).
    destruct (is_moved_to (k_mask e) && N.eqb (k_cookie e) c && amem N.eqb (k_wd e) (pfw r)); [inversion Hs; subst; exact H0|].
    eapply forget_tree_ki; eauto.
  Qed.

  Hypothesis Hfix_ign : c_fix_ignored C = true.
  Hypothesis Hfix_sim : c_fix_simulate C = true.
  Hypothesis Hfix_mo : c_fix_moveout C = true.

  (* the loop body for one raw event: no crash, invariant for what remains *)
  Lemma read_one_body_ki t e rest r k acc :
    KI (e :: rest) k r ->
    exists r' k' acc', read_one_body C t (r, k, acc) e = Done (r', k', acc') /\ KI rest k' r'.
  Proof.
    intros H. unfold read_one_body.
    destruct (alookup N.eqb (k_wd e) (pfw r)) as [wd_path|] eqn:Ewd.
    2: { rewrite Hfix_mo. do 3 eexists. split; [reflexivity|]. eapply ki_tail; eauto. }
    assert (Hhead : In (k_wd e) (rdom r)) by (eapply alookup_some_in; eauto).
    set (m := k_mask e).
    set (src_path := match k_name e with [] => wd_path | _ :: _ => join wd_path (k_name e) end).
    (* the move branches: the invariant still holds for the whole pending list, the domain only grows *)
    set (MV := if is_moved_from m then _ else _).
    assert (HMV : exists r1 k1 ev1, MV = (r1, k1, ev1) /\ KI (e :: rest) k1 r1 /\ In (k_wd e) (rdom r1)).
    { unfold MV. destruct (is_moved_from m).
      { do 3 eexists. split; [reflexivity|]. split; [eapply ki_sup; eauto | exact Hhead]. }
      destruct (is_moved_to m); [|do 3 eexists; split; [reflexivity | split; [exact H | exact Hhead]]].
      assert (Hdirs : forall ps r0 k0, add_dirs C r k t ps = (r0, k0) -> In (k_wd e) (rdom r0)).
      { intros ps. generalize Hhead. generalize r k. induction ps as [|p ps IH]; simpl; intros ra ka Ha r0 k0 Hd.
        - inversion Hd; subst. exact Ha.
        - destruct (add_watch C ra ka t p) as [[[r2 k2] wd2]|] eqn:Ea.
          + eapply IH; [|exact Hd]. unfold add_watch in Ea. destruct (mem_nat (calls ra) (c_faults C)); [discriminate|].
            destruct (kadd_watch ka t p (c_mask C)) as [[k3 w3]|]; [|discriminate]. inversion Ea; subst.
            unfold rdom. simpl. apply aset_dom. auto.
          + inversion Hd; subst. exact Ha. }
      assert (Hmovein : forall ev' : raw,
        exists r1 k1 ev1,
          (if c_fix_movein C && c_recursive C && is_directory m && fisdir src_path t
           then let '(r', k') := add_dirs C r k t (src_path :: walk_dirs t src_path) in (r', k', ev')
           else (r, k, ev')) = (r1, k1, ev1) /\ KI (e :: rest) k1 r1 /\ In (k_wd e) (rdom r1)).
      { intros ev'. destruct (c_fix_movein C && c_recursive C && is_directory m && fisdir src_path t).
        - destruct (add_dirs C r k t (src_path :: walk_dirs t src_path)) as [r' k'] eqn:Ea.
          do 3 eexists. split; [reflexivity|]. split; [eapply add_dirs_ki; eauto | eapply Hdirs; eauto].
        - do 3 eexists. split; [reflexivity | split; [exact H | exact Hhead]]. }
      destruct (alookup N.eqb (k_cookie e) (mvf r)) as [msrc|]; [|apply Hmovein].
      destruct (alookup beqb msrc (wfp r)) as [mwd|]; [|apply Hmovein].
      do 3 eexists. split; [reflexivity|].
      destruct (c_recursive C).
      - split; [eapply ki_sup; [exact H | intros x Hx] | ]; apply rekey_loop_dom; unfold rdom; simpl; apply aset_dom; auto.
      - split; [eapply ki_sup; [exact H | intros x Hx] | ]; unfold rdom; simpl; apply aset_dom; auto. }
    destruct HMV as [r1 [k1 [ev1 [-> [H1 Hhead1]]]]].
    (* ignored *)
    destruct (Emitter.is_ignored m) eqn:Eign.
    - destruct (alookup_in _ _ Hhead1) as [path ->].
      set (rp := {| wfp := wfp r1; pfw := aremove N.eqb (k_wd e) (pfw r1); mvf := mvf r1; calls := calls r1; pend := pend r1 |}).
      assert (Hrp : forall r2, pfw r2 = pfw rp -> KI rest k1 r2).
      { intros r2 Hp. eapply ki_tail_ignored; [exact H1 | exact Eign |].
        intros x. unfold rdom. rewrite Hp. unfold rp. simpl. apply aremove_dom. }
      assert (Hr2 : exists r2,
        match alookup beqb path (wfp rp) with
        | Some w => if N.eqb w (k_wd e)
                    then Done {| wfp := aremove beqb path (wfp rp); pfw := pfw rp; mvf := mvf rp; calls := calls rp;
                                 pend := pend rp |}
                    else Done rp
        | None => if c_fix_ignored C then Done rp else Crash SITE_IGNORED
        end = Done r2 /\ pfw r2 = pfw rp).
      { destruct (alookup beqb path (wfp rp)) as [w|].
        - destruct (N.eqb w (k_wd e)); eexists; split; reflexivity.
        - rewrite Hfix_ign. eexists; split; reflexivity. }
      destruct Hr2 as [r2 [-> Hp2]]. assert (H2 := Hrp r2 Hp2).
      destruct (c_recursive C && is_directory m && is_create m).
      + destruct (add_watch C r2 k1 t (r_path ev1)) as [[[r3 k3] wd]|] eqn:Ea.
        * apply simulate_ki; [exact Hfix_sim|]. eapply add_watch_ki; eauto.
        * do 3 eexists. split; [reflexivity|]. apply ki_bump. exact H2.
      + do 3 eexists. split; [reflexivity | exact H2].
    - assert (H2 : KI rest k1 r1) by (eapply ki_tail; eauto).
      destruct (c_recursive C && is_directory m && is_create m).
      + destruct (add_watch C r1 k1 t (r_path ev1)) as [[[r3 k3] wd]|] eqn:Ea.
        * apply simulate_ki; [exact Hfix_sim|]. eapply add_watch_ki; eauto.
        * do 3 eexists. split; [reflexivity|]. apply ki_bump. exact H2.
      + do 3 eexists. split; [reflexivity | exact H2].
  Qed.

  (* one raw event: settle the pending move-out candidate, then the loop body *)
  Lemma read_one_ki t e rest r k acc :
    KI (e :: rest) k r ->
    exists r' k' acc', read_one C t (r, k, acc) e = Done (r', k', acc') /\ KI rest k' r'.
  Proof.
    intros H. unfold read_one. destruct (settle_pending C r k e) as [r0 k0] eqn:Es.
    apply read_one_body_ki. eapply settle_pending_ki; eauto.
  Qed.

  Lemma read_batch_ki t b : forall r k acc,
    KI b k r -> exists r' k' acc', read_batch C t (r, k, acc) b = Done (r', k', acc') /\ KI [] k' r'.
  Proof.
    induction b as [|e b IH]; intros r k acc H; cbn [read_batch]; [eauto|].
    destruct (read_one_ki t e b r k acc H) as [r1 [k1 [acc1 [Heq H1]]]]. rewrite Heq. apply IH. exact H1.
  Qed.

  Lemma construct_ki t r k : construct C kinit t = Some (r, k) -> KI [] k r.
  Proof.
    unfold construct. destruct (fisdir (c_root C) t); [|discriminate].
    destruct (add_watch C rinit0 kinit t (c_root C)) as [[[r1 k1] wd]|] eqn:E; [|discriminate].
    assert (H1 : KI [] k1 r1) by (eapply add_watch_ki; [apply ki_init | exact E]).
    destruct (c_recursive C); [|intros Hc; inversion Hc; subst; exact H1].
    generalize (walk_dirs t (c_root C)). intros ps. clear E. revert r1 k1 H1.
    induction ps as [|p ps IH]; intros r1 k1 H1 Hc.
    - inversion Hc; subst. exact H1.
    - destruct (add_watch C r1 k1 t p) as [[[r2 k2] wd2]|] eqn:E2; [|discriminate].
      eapply IH; [|exact Hc]. eapply add_watch_ki; eauto.
  Qed.
End Reader.

(* ------------------------------------------------------------------ the pipeline *)
Section Pipe.
  Variable P : pcfg.
  Hypothesis Hfix_ign : c_fix_ignored (pc_reader P) = true.
  Hypothesis Hfix_sim : c_fix_simulate (pc_reader P) = true.
  Hypothesis Hfix_mo : c_fix_moveout (pc_reader P) = true.

  Definition PI (s : pstate) : Prop := KI [] (p_k s) (p_r s).

  Lemma pstep_safe s a : PI s -> exists s' o, pstep P s a = Done (s', o) /\ PI s'.
  Proof.
    intros H. unfold PI in *. destruct a as [o|n| |d]; simpl.
    - destruct (apply_op (p_world s) o); [|eauto].
      do 2 eexists. split; [reflexivity|]. simpl. apply ki_kernel_op. exact H.
    - destruct (deleted_self (snd (p_buf s))); [eauto|].
      set (k0 := {| k_watches := k_watches (p_k s); k_next_wd := k_next_wd (p_k s);
                    k_queue := skipn n (k_queue (p_k s)); k_next_cookie := k_next_cookie (p_k s) |}).
      assert (H0 : KI (firstn n (k_queue (p_k s))) k0 (p_r s)).
      { destruct H as [L NI ND BW BQ]. simpl in *. constructor; simpl; rewrite ?firstn_skipn; auto. }
      destruct (read_batch_ki (pc_reader P) Hfix_ign Hfix_sim Hfix_mo (w_fs (p_world s)) _ (p_r s) k0 [] H0)
        as [r' [k' [evs [-> H1]]]].
      destruct (number (pc_reader P) (p_next s) evs) as [nevs tbl].
      destruct (gstep (pc_delay P) (p_buf s) (RRead nevs)); [|eauto].
      do 2 eexists. split; [reflexivity | exact H1].
    - destruct (p_stopped s); [eauto|].
      destruct (gstep (pc_delay P) (p_buf s) (Q GetEnter)) as [b1|]; [|eauto].
      destruct (gstep (pc_delay P) b1 (Q GetDelay)) as [b2|]; [|eauto].
      destruct (gstep (pc_delay P) b2 (Q GetPop)) as [b3|]; [|eauto].
      destruct (rev (delivered b3)) as [|it l]; [eauto|].
      destruct (item_to_emit (p_tbl s) it) as [eit|]; [|eauto].
      do 2 eexists. split; [reflexivity | exact H].
    - destruct (gstep (pc_delay P) (p_buf s) (Q (Tick d))); eauto.
  Qed.

  Lemma prun_safe h : forall s acc, PI s -> exists s' obs, prun P s h acc = Done (s', obs) /\ PI s'.
  Proof.
    induction h as [|a h IH]; simpl; intros s acc H; [eauto|].
    destruct (pstep_safe s a H) as [s1 [o [-> H1]]]. apply IH. exact H1.
  Qed.

  Lemma pinit_pi w s0 : pinit P w = Some s0 -> PI s0.
  Proof.
    unfold pinit. destruct (construct (pc_reader P) kinit (w_fs w)) as [[r k]|] eqn:E; [|discriminate].
    intros Hs. inversion Hs; subst. unfold PI. simpl. eapply construct_ki; eauto.
  Qed.

  (* For every world, every history of operations / reads of any size / emitter steps / clock ticks,
     every set of failing inotify_add_watch calls: the reader thread never raises. *)
  Theorem no_crash w s0 h : pinit P w = Some s0 -> exists s' obs, prun P s0 h [] = Done (s', obs).
  Proof.
    intros Hi. destruct (prun_safe h s0 [] (pinit_pi _ _ Hi)) as [s' [obs [Hr _]]]. eauto.
  Qed.

  (* every live kernel watch is known to the reader; an IN_IGNORED record still queued never refers to a live watch
     (so the clean-up it triggers cannot forget a live descriptor); descriptors are never re-used *)
  Theorem descriptors_known w s0 h s' obs : pinit P w = Some s0 -> prun P s0 h [] = Done (s', obs) ->
    (forall x, In x (k_watches (p_k s')) -> In (kw_wd x) (map fst (pfw (p_r s')))) /\
    (forall e, In e (k_queue (p_k s')) -> Emitter.is_ignored (k_mask e) = true ->
               forall x, In x (k_watches (p_k s')) -> kw_wd x <> k_wd e) /\
    NoDup (map kw_wd (k_watches (p_k s'))).
  Proof.
    intros Hi Hr.
    destruct (prun_safe h s0 [] (pinit_pi w s0 Hi)) as [s2 [o2 [Hr2 HP]]].
    rewrite Hr in Hr2. inversion Hr2; subst. destruct HP as [L NI ND _ _]. split; [exact L|]. split; [exact NI | exact ND].
  Qed.

  (* a record for a descriptor the reader does not (or no longer) know is skipped: no event, no state change
     beyond settling the pending move-out candidate *)
  Lemma unknown_descriptor_skipped t r k acc e :
    alookup N.eqb (k_wd e) (pfw r) = None -> read_one_body (pc_reader P) t (r, k, acc) e = Done (r, k, acc).
  Proof. intros H. unfold read_one_body. now rewrite H, Hfix_mo. Qed.
End Pipe.

Lemma root_deleted_event full recursive root content e :
  r_mask e = IN_DELETE_SELF -> r_path e = root ->
  emit full recursive root content (Single e) = ([mk DirDeleted root []], true).
Proof.
  intros Hm Hp. unfold emit, emit_single. rewrite Hm, Hp. rewrite beqb_refl. reflexivity.
Qed.

Lemma stopped_is_silent P s : p_stopped s = true -> pstep P s AEmit = Done (s, OSkip).
Proof. intros H. simpl. rewrite H. reflexivity. Qed.
