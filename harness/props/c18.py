"""C18 - tricks: EventDebouncer, AutoRestartTrick, ShellCommandTrick under the deterministic scheduler.

Part 1 (debouncer).  The real EventDebouncer runs on the scheduler twins (harness/detsched.py); client
threads issue start/handle_event/stop/join sequences with virtual sleeps around the debounce interval.
* correspondence (lock-step): the scheduler trace of the run is mapped to the model's labels
  (one label per critical section / lock hand-over of the thread, `Tick` per clock advance) and replayed
  by the extracted Coq model `debouncer`; the batches (content, decision time, callback time), the final
  thread state and stuck-ness are compared.
* oracle: the property text, evaluated on the public history only (calls made/returned, callbacks).
Parts 2 and 3 (AutoRestartTrick, ShellCommandTrick) use harness/procsim.py, see below.
"""
from __future__ import annotations

import json

from harness import core
from harness.core import Atom, Failure, Mismatch, Result, sx

MANIFEST = dict(
    design_ref="DESIGN.md §6 Group T (C18)",
    text="Coq theorems, for every label list (interleaving of client critical sections, thread steps and clock ticks; no "
         "length bound), about an LTS model of EventDebouncer.run/handle_event/stop with the repaired wait loop (exactly once "
         "in arrival order, non-empty batches, nothing after stop, quiet-interval rule, no deadlock, exit within 5 own steps "
         "after stop, delivery progress; the pinned loop is refuted: F5) and about a model of ShellCommandTrick's "
         "wait/drop options (no overlapping commands); and about an LTS model of AutoRestartTrick's stop/start/restart "
         "protocol over a process table with an unbounded family of ProcessWatcher threads: for the repaired protocol "
         "(_restart_process under the re-entrant lock, fix F15) at most one child alive in every reachable state and after "
         "every Popen, after stop() returned no child alive / no later Popen / every watcher finished or told to stop, "
         "children started = 1 + admitted restart calls - the at most one pending call (C18_restart_one_child, "
         "_after_stop, _count; proof by an inductive mutual-exclusion invariant); the pinned protocol is refuted by "
         "witness runs (two children alive, orphan survives stop(), child alive when stop() returns), and a watcher that "
         "does not read its stop flag again after poll() is refuted (two restarts for one trigger); the watcher's poll(), "
         "wait and flag re-check are separate model steps and poll() is a scheduling point of the harness; the debouncer "
         "runs also schedule right after every lock release (a callback made outside the lock is overtaken by complete "
         "calls of other threads) and order the public history by scheduling steps. The models are tied "
         "to /repo by replaying, in the extracted debouncer model, the scheduler trace of every real run lock-step, and by "
         "outcome-level comparisons for the restart (non-overlapping operation sequences) and shell (paced runs) models; "
         "the property text is evaluated as an oracle on the public history / process-table log of every run.",
    note="Trusted: Coq kernel; the scheduler twins of threading/time (documented behaviour of Lock/RLock/Condition/"
         "Event/Thread; no spurious wake-ups, as in CPython); the simulated process table (a child dies when "
         "signalled according to a scripted behaviour, SIGKILL always kills). Correspondence and oracle runs are sampled "
         "(quick: seeded random schedules; thorough: additionally all schedules with <= 2 pre-emptions of small programs). "
         "AutoRestartTrick model vs code: outcome-level on sequential scenarios + oracle on all schedules (no lock-step "
         "replay of interleaved restart runs). Not claimed (false, known finding): that every superseded watcher thread "
         "has finished when stop() returns. Assumes start() has returned before events/"
         "stop() are issued, one stop() caller, one dispatching thread for ShellCommandTrick.",
    technique="Coq proof (LTS invariants) + lock-step trace replay in the extracted model + deterministic-scheduler "
              "exploration of the real code with a property oracle",
)

TRUSTED = [
    "modelled, not verified: CPython's threading primitives as implemented by the scheduler twins in harness/detsched.py "
    "(Condition without spurious wake-ups; notify wakes the oldest waiter); virtual clock instead of real time",
    "harness/procsim.py: simulated process table behind subprocess.Popen / kill_process in the watchdog.tricks namespace",
]
ASSUMPTIONS = [
    "the debouncer's callback does not call back into the debouncer and returns",
    "one EventDebouncer thread per Condition (as in the source); handle_event/stop may be called from any number of threads",
    "a child process that is sent SIGKILL is gone; a child sent the stop signal exits at once, after a delay, or never "
    "(scripted); os.killpg on a reaped child raises ProcessLookupError",
    "AutoRestartTrick.start() has returned before on_any_event()/stop() are called; stop() is called by one thread; "
    "ShellCommandTrick.on_any_event is called by one thread at a time (the observer's dispatch thread)",
]

UNIT = 0.25          # seconds per model time unit (exactly representable)
T0 = 1000.0


def units(t: float) -> int:
    return int(round((t - T0) / UNIT))


def deep(ctx) -> bool:
    """Exhaustive (bounded-pre-emption) blocks: the thorough tier only."""
    return ctx.tier == "thorough"


def size(ctx, quick, thorough, search=None):
    """Sample sizes.  The failure search of a quick run (ctx.search: model and code disagreed, or the proof broke, and the
    first pass had no oracle failure) draws a fresh sample of about twice the quick size from a different random
    stream and explores the fixed programs one pre-emption deeper - not the whole thorough tier."""
    if ctx.tier == "thorough":
        return thorough
    if ctx.search:
        return 2 * quick if search is None else search
    return quick


def stream(ctx, tag):
    return ctx.rng(tag + ("/search" if ctx.search else ""))


def new_sched(chooser, max_steps=4000):
    from harness import detsched as ds
    return ds.Scheduler(chooser, max_steps=max_steps)


# ====================================================================== part 1: debouncer
def deb_program(rng, interval, n_clients):
    """Client scripts.  Client 0 starts the thread first; join only in client 0."""
    progs = []
    ev = [0]

    def ops(first):
        out = [["start"]] if first else []
        n = rng.randint(1, 4)
        stopped = False
        for _ in range(n):
            r = rng.random()
            if r < 0.5:
                ev[0] += 1
                out.append(["ev", ev[0]])
            elif r < 0.8:
                base = interval if interval else 1
                out.append(["sleep", max(0, base + rng.choice([-1, 0, 0, 1]))] if rng.random() < 0.7 else ["sleep", 1])
            elif r < 0.95:
                out.append(["stop"])
                stopped = True
            else:
                if first and stopped:
                    out.append(["join"])
        if first and stopped and rng.random() < 0.7 and ["join"] not in out:
            out.append(["join"])
        return out
    for i in range(n_clients):
        progs.append(ops(i == 0))
    return progs


def deb_run(case, chooser):
    """Run one case under the scheduler. Returns (scheduler, info)."""
    from harness import detsched as ds
    from watchdog.events import FileModifiedEvent
    from watchdog.utils.event_debouncer import EventDebouncer

    interval = case["interval"]
    s = new_sched(chooser, max_steps=4000)
    d = EventDebouncer(interval * UNIT, lambda evs: s.log("CB", [int(e.src_path[1:]) for e in evs], s.clock, len(s.trace)))

    def deb_ts():
        for t in s.threads:
            if t.role == "lib":
                return t
        return None

    def quiescent():
        t = deb_ts()
        if t is None or t.done:
            return True
        return t.label == "Condition.wait" and t.deadline is None and not t.pred()

    def client(prog):
        def body():
            for op in prog:
                if op[0] == "start":
                    d.start()
                    s.log("started", s.clock, len(s.trace))
                elif op[0] == "ev":
                    s.log("H-call", op[1], s.clock, len(s.trace))
                    d.handle_event(FileModifiedEvent(f"e{op[1]}"))
                    s.log("H", op[1], s.clock, len(s.trace))
                elif op[0] == "sleep":
                    ds._sleep(op[1] * UNIT)
                elif op[0] == "stop":
                    s.log("S-call", s.clock, len(s.trace))
                    d.stop()
                    s.log("S", s.clock, len(s.trace))
                elif op[0] == "join":
                    d.join()
                    s.log("J", s.clock, len(s.trace))
            # let the debouncer come to rest (virtual time): the run ends when all clients are done
            for _ in range(12):
                if quiescent():
                    break
                ds._sleep((interval + 1) * UNIT)
            s.log("rest", quiescent(), s.clock, len(s.trace))
        return body

    for i, prog in enumerate(case["clients"]):
        s.spawn(f"c{i}", client(prog))
    # also schedule right after every lock release: whatever a thread does between leaving a critical section and its
    # next synchronisation operation (a callback made outside the lock, say) can be overtaken by complete calls of others
    saved_yar = ds.YIELD_AFTER_RELEASE
    ds.YIELD_AFTER_RELEASE = True
    try:
        s.run()
    finally:
        ds.YIELD_AFTER_RELEASE = saved_yar
    t = deb_ts()
    info = {"deb": t.name if t else None,
            "deb_alive": bool(t and t.name in s.alive_after),
            "deb_label": t.label if t else None,
            "deb_deadline": None if (t is None or t.deadline is None) else units(t.deadline)}
    return s, info


def log_step(ev):
    """Index in s.trace of the scheduling step during which the entry was logged."""
    return ev[-1] - 1


def section_step(s, ev):
    """The step in which the critical section of a handle_event()/stop() call ran.  The entry is logged after the call
    returned; with the scheduling point after the lock release that is one step of the same thread later."""
    k = log_step(ev)
    if 0 <= k < len(s.trace) and s.trace[k] == (ev[0], "RLock.released"):
        for j in range(k - 1, -1, -1):
            if s.trace[j][0] == ev[0]:
                return j
    return k


def deb_model_items(s, info):
    """Map the scheduler trace to model items (see ocaml/m_debouncer.ml)."""
    deb = info["deb"]
    by_step: dict[int, list] = {}
    for ev in s.events:
        if ev[1] in ("H", "S"):
            by_step.setdefault(section_step(s, ev), []).append(ev)
        elif ev[1] == "CB":
            by_step.setdefault(log_step(ev), []).append(ev)
    deb_idx = [k for k, (n, _) in enumerate(s.trace) if n == deb]
    nxt = {}
    for a, b in zip(deb_idx, deb_idx[1:]):
        nxt[a] = s.trace[b][1]
    if deb_idx:
        nxt[deb_idx[-1]] = ("<done>" if not info["deb_alive"] else info["deb_label"])
    items = []
    clock = 0
    decisions = []        # clock (units) at each wake-up of the thread from a wait
    for k, (name, label) in enumerate(s.trace):
        if name == "<clock>":
            new = units(T0 + float(label.split()[-1]))
            items.append([Atom("T"), new - clock])
            clock = new
            continue
        if name == deb:
            if label in ("RLock.acquire", "Condition.wait", "Condition.reacquire"):
                items.append(Atom("X"))
                if label == "Condition.wait":
                    decisions.append(clock)
        for ev in by_step.get(k, []):
            if ev[1] == "H":
                items.append([Atom("H"), ev[2]])
            elif ev[1] == "S":
                items.append(Atom("S"))
            elif ev[1] == "CB":
                items.append(Atom("C"))
        if name == deb and nxt.get(k) in ("Condition.wait", "RLock.released", "<done>") and label != "start":
            items.append(Atom("L"))
    return items


def deb_history(s):
    """Public history: what the clients called and what the callback got.  Order = order of scheduling steps:
    a handle_event()/stop() takes effect in the step of its critical section, stop() has RETURNED in the step of its
    "S" entry, a callback is made in the step of its "CB" entry."""
    h = {"handed": [], "called": [], "batches": [], "stop_call": None, "stop_ret": None, "stop_section": None,
         "joined": False, "started": False, "rest": []}
    for ev in s.events:
        k = ev[1]
        if k == "H-call":
            h["called"].append((ev[2], log_step(ev)))
        elif k == "H":
            h["handed"].append((ev[2], units(ev[3]), section_step(s, ev)))
        elif k == "CB":
            h["batches"].append((list(ev[2]), units(ev[3]), log_step(ev)))
        elif k == "S-call" and h["stop_call"] is None:
            h["stop_call"] = log_step(ev)
        elif k == "S" and h["stop_ret"] is None:
            h["stop_ret"] = log_step(ev)
            h["stop_section"] = section_step(s, ev)
        elif k == "J":
            h["joined"] = True
        elif k == "started":
            h["started"] = True
        elif k == "rest":
            h["rest"].append(ev[2])
    h["handed"].sort(key=lambda x: x[2])
    return h


def deb_oracle(case, s, info):
    """The property text on the public history. Returns list of (law, observed, expected)."""
    h = deb_history(s)
    interval = case["interval"]
    bad = []
    arrival = [e for e, _, _ in h["handed"]]
    at = {e: t for e, t, _ in h["handed"]}
    pos = {e: i for e, _, i in h["handed"]}
    flat = [e for b, _, _ in h["batches"] for e in b]
    # exactly once / nothing invented
    if len(set(flat)) != len(flat):
        bad.append(("an event is delivered twice", flat, "each event at most once"))
    called = {e for e, _ in h["called"]}
    if any(e not in called for e in flat):
        bad.append(("a delivered event was never handed over", flat, sorted(called)))
    # arrival order, nothing skipped: delivered events = a prefix of the arrival sequence
    if not bad:
        known = [e for e in flat if e in pos]
        if known != arrival[:len(known)] or len(known) != len(flat):
            bad.append(("batches are not the arrival sequence in order without gaps", flat, arrival))
    # nothing after stop() returned
    if h["stop_ret"] is not None:
        late = [b for b, _, i in h["batches"] if i > h["stop_ret"]]
        if late:
            bad.append(("a batch is delivered after stop() returned",
                        {"batches": late, "stop_returned_at_step": h["stop_ret"],
                         "callback_steps": [i for _, _, i in h["batches"] if i > h["stop_ret"]]},
                        "no callback after stop()"))
    # quiet interval
    if interval:
        for b, t, i in h["batches"]:
            noisy = [(e, a) for e, a, j in h["handed"] if j < i and t - interval < a < t]
            if noisy:
                bad.append(("a batch is delivered although an event arrived less than the debounce interval before",
                            {"batch": b, "at": t, "arrivals": noisy}, f"no arrival in ({t - interval}, {t})"))
                break
    # the thread exits on stop(); no deadlock
    if s.deadlock is not None:
        bad.append(("deadlock", [list(x) for x in s.deadlock.blocked],
                    "stop() wakes the debouncer thread and join() returns"))
    elif s.livelock:
        bad.append(("step limit reached", None, "termination"))
    else:
        at_rest = bool(h["rest"]) and all(h["rest"])
        if h["stop_ret"] is not None and info["deb"] is not None and info["deb_alive"] and at_rest:
            bad.append(("the debouncer thread is still alive although stop() returned and nothing can wake it",
                        info["deb_label"], "thread exits on stop()"))
        # until stop() is called every event is delivered: at rest, without stop, nothing may be pending
        if h["stop_call"] is None and h["started"] and at_rest:
            missing = [e for e in arrival if e not in flat]
            if missing:
                bad.append(("events were handed over, stop() was never called, the debouncer is at rest, "
                            "but they were not delivered", missing, "every event delivered exactly once"))
    for n, e in s.uncaught():
        if n not in s.alive_after:      # (a thread alive at the end is torn down by the scheduler: not an observation)
            bad.append(("uncaught exception in thread " + n, repr(e), "none"))
    return bad


def deb_compare(case, s, info, out):
    """Model result vs. real run. Returns None or (model, impl) description."""
    h = deb_history(s)
    impl_batches = [[t, b] for b, t, _ in h["batches"]]
    if not isinstance(out, list) or not out or out[0] != "ok":
        return (str(out), f"real run has {len(impl_batches)} batches, thread alive={info['deb_alive']} at {info['deb_label']}")
    _, pcs, stopped, pend, deliv, dead, clock = out
    model_batches = [[int(tc), [int(x) for x in ids]] for td, tc, ids in deliv]
    if model_batches != impl_batches:
        return (f"batches {model_batches}", f"batches {impl_batches}")
    flat = [e for _, b in impl_batches for e in b]
    impl_pend = [e for e, _, _ in h["handed"] if e not in flat]
    if [int(x) for x in pend] != impl_pend:
        return (f"pending {pend}", f"pending {impl_pend}")
    last = pcs[-1] if pcs else "Init"
    if info["deb"] is None:
        impl_pc = "Init"
    elif not info["deb_alive"]:
        impl_pc = "Done"
    else:
        lab = info["deb_label"]
        impl_pc = {"Condition.wait": "OW" if info["deb_deadline"] is None else ["IW", str(info["deb_deadline"])],
                   "Condition.reacquire": "reacq", "RLock.acquire": "Init", "start": "Init"}.get(lab, lab)
    model_pc = "reacq" if last in ("OR", "IR0", "IR1") else last
    if s.deadlock is None and not s.livelock and model_pc != impl_pc:
        return (f"final thread state {model_pc}", f"final thread state {impl_pc}")
    if (stopped == "1") != (h["stop_ret"] is not None):
        return (f"stopped={stopped}", f"stop returned={h['stop_ret'] is not None}")
    return None


def deb_case_key(case):
    return core.digest([case["interval"], case["clients"]])


def deb_nontrivial(case, s):
    n_ev = sum(1 for c in case["clients"] for op in c if op[0] == "ev")
    has_stop = any(op[0] == "stop" for c in case["clients"] for op in c)
    return n_ev >= 1 and (has_stop or n_ev >= 2)


class DebBatch:
    """Collects runs, then asks the model once."""

    def __init__(self, res: Result):
        self.res = res
        self.rows = []

    def add(self, case, s, info):
        res = self.res
        res.evaluations += 1
        choices = [c for _, c in s.choices]
        full = dict(case, choices=choices)
        for law, obs, exp in deb_oracle(case, s, info):
            res.failures.append(Failure(
                what="EventDebouncer: " + law, case=full,
                signature={"component": "EventDebouncer", "law": law.split(" although")[0][:60],
                           "interval": "zero" if case["interval"] == 0 else "positive"},
                observed=obs, expected=exp))
        items = deb_model_items(s, info)
        self.rows.append((full, sx([1, case["interval"], items]), s, info))
        if deb_nontrivial(case, s):
            res.nontrivial.add(core.digest([case["interval"], case["clients"], choices]))
        res.hist("deb_interval", case["interval"])
        res.hist("deb_clients", len(case["clients"]))
        res.hist("deb_batches", len([1 for e in s.events if e[1] == "CB"]))
        res.hist("deb_outcome", "deadlock" if s.deadlock else "livelock" if s.livelock else "ok")

    def flush(self):
        if not self.rows:
            return
        outs = core.run_model("debouncer", [w for _, w, _, _ in self.rows])
        for (full, wire, s, info), out in zip(self.rows, outs):
            self.res.traces_validated += 1
            diff = deb_compare(full, s, info, out)
            if diff:
                self.res.mismatches.append(Mismatch(pair="EventDebouncer lock-step", case=full, model=diff[0], impl=diff[1]))
            if len(self.res.samples) < 3 and len(s.events) > 6:
                self.res.samples.append({"case": {k: full[k] for k in ("kind", "interval", "clients")},
                                         "schedule": " ".join(full["choices"][:60]),
                                         "history": [" ".join(map(str, e[:-1])) for e in s.events][:16],
                                         "model_items": wire[:200], "model_result": str(out)[:200]})
        self.rows = []


DEB_FIXED = [
    {"kind": "deb", "interval": 0, "clients": [[["start"], ["stop"], ["join"]]]},
    {"kind": "deb", "interval": 0, "clients": [[["start"], ["ev", 1]]]},
    {"kind": "deb", "interval": 2, "clients": [[["start"], ["ev", 1], ["sleep", 1], ["ev", 2], ["sleep", 2], ["ev", 3]]]},
    {"kind": "deb", "interval": 2, "clients": [[["start"], ["ev", 1], ["sleep", 3], ["stop"], ["join"]], [["ev", 2], ["sleep", 2], ["ev", 3]]]},
    {"kind": "deb", "interval": 1, "clients": [[["start"], ["sleep", 1], ["stop"]], [["ev", 1], ["sleep", 1], ["ev", 2]]]},
    # stop() from another thread while a batch is in flight: interval 0 (delivery at once) and stop() arriving at the very
    # instant the debounce interval expires - nothing may be delivered after stop() has returned
    {"kind": "deb", "interval": 0, "clients": [[["start"], ["ev", 1], ["ev", 2]], [["ev", 3], ["stop"]]]},
    {"kind": "deb", "interval": 2, "clients": [[["start"], ["ev", 1], ["sleep", 1], ["ev", 2]], [["sleep", 3], ["stop"]]]},
]


def run_debouncer(ctx, res: Result):
    from harness import detsched as ds
    batch = DebBatch(res)
    rng = stream(ctx, "deb")
    fixed = [c for c in ctx.corpus() if c.get("kind") == "deb"] + DEB_FIXED
    # corpus / fixed programs: replayed schedule if given, a few random ones, and a bounded exhaustive exploration
    for case in fixed:
        base = {k: case[k] for k in ("kind", "interval", "clients")}
        if case.get("choices"):
            s, info = deb_run(base, ds.ReplayChooser(case["choices"]))
            batch.add(base, s, info)
        bound, cap = (2, 1500) if deep(ctx) else (2, 400) if ctx.search else (1, 60)
        for s in ds.explore(lambda ch: _deb_explore(base, ch), preemption_bound=bound, max_runs=cap):
            batch.add(base, s, s._c18_info)
        batch.flush()
    n_prog = size(ctx, 600, 1500)
    for i in range(n_prog):
        interval = rng.choice([0, 0, 1, 2, 2, 3])
        case = {"kind": "deb", "interval": interval, "clients": deb_program(rng, interval, rng.choice([1, 2, 2, 3]))}
        for j in range(2):
            s, info = deb_run(case, ds.RandomChooser(rng.randrange(1 << 30), switch_prob=rng.choice([0.2, 0.5]), tick_prob=0.0))
            batch.add(case, s, info)
        if i % 100 == 99:
            batch.flush()
    batch.flush()
    if deep(ctx):
        # exhaustive (<= 2 pre-emptions) exploration of small random programs
        for i in range(40):
            interval = rng.choice([0, 2])
            case = {"kind": "deb", "interval": interval, "clients": deb_program(rng, interval, 2)}
            for s in ds.explore(lambda ch: _deb_explore(case, ch), preemption_bound=2, max_runs=800):
                batch.add(case, s, s._c18_info)
            batch.flush()
        res.notes.append("debouncer: schedules with <= 2 pre-emptions enumerated (cap 1500/800 runs per program) for the fixed "
                         "programs and 40 random two-client programs")


def _deb_explore(case, chooser):
    s, info = deb_run(case, chooser)
    s._c18_info = info
    return s


# ====================================================================== part 2: AutoRestartTrick
KILL_AFTER = 1          # seconds (4 units): keeps the signal/poll/kill loop short on the virtual clock


def rs_program(rng):
    """A case: trick options, child behaviours, the observer thread's script and the main thread's script."""
    interval = rng.choice([0, 0, 0, 2])
    restart_on_exit = rng.random() < 0.7
    n_ops = rng.randint(1, 4)
    ev_ops, main_ops = [], [["start"]]
    for _ in range(n_ops):
        r = rng.random()
        if r < 0.55:
            ev_ops.append(["ev"])
            if rng.random() < 0.5:
                ev_ops.append(["sleep", rng.choice([0, 1, 2, 3])])
        elif r < 0.8:
            main_ops.append(["sleep", rng.choice([0, 1, 2, 4])])
        else:
            main_ops.append(["stop"])
    if rng.random() < 0.5 and ["stop"] not in main_ops:
        main_ops.append(["sleep", rng.choice([1, 2, 5])])
        main_ops.append(["stop"])
    children = []
    for _ in range(6):
        children.append({"self_exit": rng.choice([None, None, 1, 2, 3]) if restart_on_exit or rng.random() < 0.3 else None,
                         "on_signal": rng.choice(["now", "now", 1, 2, "never"])})
    return {"kind": "restart", "interval": interval, "restart_on_exit": restart_on_exit, "children": children,
            "ev": ev_ops, "main": main_ops}


def rs_run(case, chooser, yield_attrs=True):
    from harness import detsched as ds
    from harness import procsim
    from watchdog.events import FileModifiedEvent
    import watchdog.tricks as tricks

    s = new_sched(chooser, max_steps=6000)
    script = [{"self_exit": None if c["self_exit"] is None else c["self_exit"] * UNIT,
               "on_signal": c["on_signal"] if isinstance(c["on_signal"], str) else c["on_signal"] * UNIT}
              for c in case["children"]]
    table = procsim.ProcTable(s, script)
    undo = procsim.install(table)
    saved_attrs = {}
    if yield_attrs:
        # unlocked shared accesses become yield points (private names only PLACE yield points)
        for name, default in (("process", None), ("process_watcher", None), ("_is_process_stopping", False),
                              ("_is_trick_stopping", False)):
            saved_attrs[name] = tricks.AutoRestartTrick.__dict__.get(name)
            setattr(tricks.AutoRestartTrick, name, ds.YieldAttr(name, default))
    state = {"started": False}
    try:
        trick = tricks.AutoRestartTrick(["cmd"], debounce_interval_seconds=case["interval"] * UNIT,
                                        restart_on_command_exit=case["restart_on_exit"], kill_after=KILL_AFTER)

        def libs_alive():
            return [t.name for t in s.threads if t.role == "lib" and not t.done]

        def main():
            for op in case["main"]:
                if op[0] == "start":
                    trick.start()
                    state["started"] = True
                    s.log("started", s.clock, len(s.trace))
                elif op[0] == "sleep":
                    ds._sleep(op[1] * UNIT)
                elif op[0] == "stop":
                    s.log("stop-call", s.clock, len(s.trace))
                    trick.stop()
                    s.log("stop-ret", table.alive(), libs_alive(), s.clock, len(s.trace))
            ds._sleep(12 * UNIT)
            s.log("end", table.alive(), libs_alive(), s.clock, len(s.trace))

        def observer():
            s.yield_point("await-start", lambda: state["started"])
            n = 0
            for op in case["ev"]:
                if op[0] == "ev":
                    n += 1
                    s.log("ev-call", n, s.clock, len(s.trace))
                    trick.on_any_event(FileModifiedEvent("x"))
                    s.log("ev-ret", n, s.clock, len(s.trace))
                elif op[0] == "sleep":
                    ds._sleep(op[1] * UNIT)
            ds._sleep(12 * UNIT)

        s.spawn("main", main)
        s.spawn("obs", observer)
        s.run()
    finally:
        undo()
        for name, old in saved_attrs.items():
            if old is None:
                delattr(tricks.AutoRestartTrick, name)
            else:
                setattr(tricks.AutoRestartTrick, name, old)
    return s, table


def rs_oracle(case, s, table):
    """The property text on the process-table log and the call history."""
    bad = []
    ev = {e[1]: e for e in s.events}
    stop_call = next((e for e in s.events if e[1] == "stop-call"), None)
    stop_ret = next((e for e in s.events if e[1] == "stop-ret"), None)
    spawns = [e for e in table.log if e[0] == "Spawn"]
    # never more than one child alive
    for kind, pid, t, step, alive in spawns:
        if len(alive) > 1:
            bad.append(("two children alive at a time", {"spawned": pid, "alive": alive, "at": units(t),
                                                          "process_log": [list(map(str, x)) for x in table.log]},
                        "at most one child alive"))
            break
    if s.deadlock is not None:
        bad.append(("deadlock", [list(x) for x in s.deadlock.blocked], "no deadlock"))
    elif s.livelock:
        bad.append(("step limit reached", None, "termination"))
    if stop_ret is not None:
        _, _, alive, libs, t, step = stop_ret
        if alive:
            bad.append(("a child is alive when stop() returns", {"alive": alive, "at": units(t)}, "no child alive after stop()"))
        late = [e[1] for e in spawns if e[3] >= step]
        if late:
            bad.append(("a child is started after stop() returned", late, "no Spawn after stop()"))
        if libs:
            bad.append(("a helper thread is alive when stop() returns", libs, "all helper threads gone"))
    # restart accounting
    if s.deadlock is None and not s.livelock:
        n_spawn = len(spawns)
        lim = stop_call[-1] if stop_call else 10 ** 9
        started = any(e[1] == "started" for e in s.events)
        trig_all = len([e for e in s.events if e[1] == "ev-call"])        # debounced: batches <= events
        self_exits = len([p for p in table.procs if p.exit_cause == "self" and p.dead(s.clock)]) if case["restart_on_exit"] else 0
        # "restarts it once per triggering event or batch (and once when the child exits by itself)": every child
        # start after the first is owed to an event (batch) or to a child that exited by itself
        if started and n_spawn > 1 + trig_all + self_exits:
            bad.append(("more restarts than triggering events plus children that exited by themselves",
                        {"spawns": n_spawn, "events": trig_all, "self_exits": self_exits,
                         "process_log": [f"{k} {pid} t={units(t)} {x}" for k, pid, t, _, x in table.log][:14]},
                        "spawns <= 1 + events + self-exits"))
        if started and case["interval"] == 0:
            trig_done = len([e for e in s.events if e[1] == "ev-ret" and e[-1] <= lim])
            if n_spawn < 1 + trig_done:
                bad.append(("an event handled before stop() did not restart the child",
                            {"spawns": n_spawn, "events_before_stop": trig_done}, "spawns >= 1 + events returned before stop()"))
        end = ev.get("end")
        if end is not None and stop_call is None and case["restart_on_exit"] and any(e[1] == "started" for e in s.events):
            last = max([units(e[2]) for e in table.log] + [units(p.exit_time) for p in table.procs if p.exit_time is not None
                                                            and p.exit_time <= end[-2]])
            # judged only when the process table has been quiet for 0.5 s (the watcher polls every 0.1 s)
            if len(end[2]) != 1 and last <= units(end[-2]) - 2:
                bad.append(("no child is running although the trick was not stopped (restart on exit enabled)",
                            {"alive": end[2], "last_process_event": last, "end": units(end[-2])}, "exactly one child alive"))
    for n, e in s.uncaught():
        bad.append(("uncaught exception in thread " + n, repr(e), "none"))
    return bad


RS_DIRECTED = [
    # child 0 exits by itself at 0.5 s; an event arrives at 0.5 s: self-exit restart races event restart
    {"kind": "restart", "interval": 0, "restart_on_exit": True,
     "children": [{"self_exit": 2, "on_signal": "now"}] + [{"self_exit": None, "on_signal": "now"}] * 5,
     "ev": [["sleep", 2], ["ev"]], "main": [["start"], ["sleep", 8], ["stop"]]},
    # an event restart is waiting for a slow child when stop() is called
    {"kind": "restart", "interval": 0, "restart_on_exit": False,
     "children": [{"self_exit": None, "on_signal": 2}] + [{"self_exit": None, "on_signal": "now"}] * 5,
     "ev": [["ev"]], "main": [["start"], ["stop"]]},
    # debounced: two batches, a child that ignores the signal (SIGKILL path), then stop
    {"kind": "restart", "interval": 2, "restart_on_exit": True,
     "children": [{"self_exit": None, "on_signal": "never"}] + [{"self_exit": None, "on_signal": "now"}] * 5,
     "ev": [["ev"], ["sleep", 1], ["ev"], ["sleep", 8], ["ev"]], "main": [["start"], ["sleep", 16], ["stop"]]},
    # one event while the first watcher is in its poll loop, nobody exits by itself: exactly one restart
    # (a watcher that was told to stop between its flag test and poll() must not restart)
    {"kind": "restart", "interval": 0, "restart_on_exit": True,
     "children": [{"self_exit": None, "on_signal": "now"}] * 6,
     "ev": [["ev"]], "main": [["start"], ["sleep", 8], ["stop"]]},
    {"kind": "restart", "interval": 0, "restart_on_exit": True,
     "children": [{"self_exit": None, "on_signal": "now"}] * 6,
     "ev": [["sleep", 2], ["ev"], ["sleep", 1], ["ev"]], "main": [["start"], ["sleep", 12]]},
]


def rs_signature(law):
    key = {"two children alive at a time": "two-children",
           "a child is alive when stop() returns": "child-alive-after-stop",
           "a child is started after stop() returned": "spawn-after-stop",
           "a helper thread is alive when stop() returns": "helper-thread-alive-after-stop"}.get(law, law[:50])
    return {"component": "AutoRestartTrick", "law": key}


def rs_add(res, case, s, table, tick):
    res.evaluations += 1
    choices = [c for _, c in s.choices]
    full = dict(case, choices=choices)
    dead_names = set(s.alive_after)
    for law, obs, exp in rs_oracle(case, s, table):
        if law.startswith("uncaught exception in thread ") and law.split()[-1] in dead_names:
            continue      # raised by the scheduler's tear-down of a thread that was still alive at the end
        if law.startswith("no child is running") and tick:
            continue      # needs the watcher to have had its turn: only judged on schedules without forced ticks
        res.failures.append(Failure(what="AutoRestartTrick: " + law, case=full, signature=rs_signature(law),
                                    observed=obs, expected=exp))
    n_ev = len([1 for op in case["ev"] if op[0] == "ev"])
    if n_ev and (any(op[0] == "stop" for op in case["main"]) or case["restart_on_exit"]):
        res.nontrivial.add(core.digest(["rs", case["interval"], case["restart_on_exit"], case["ev"], case["main"],
                                        case["children"], choices]))
    res.hist("restart_spawns", len([1 for e in table.log if e[0] == "Spawn"]))
    res.hist("restart_interval", case["interval"])
    res.hist("restart_max_alive", table.max_alive)
    if len([1 for x in res.samples if isinstance(x, dict) and x.get("part") == "restart"]) < 2 and len(table.log) >= 4:
        res.samples.append({"part": "restart", "case": {k: case[k] for k in ("interval", "restart_on_exit", "ev", "main")},
                            "children": case["children"][:3],
                            "process_log": [f"{k} {pid} t={units(t)} {x}" for k, pid, t, _, x in table.log][:12],
                            "history": [" ".join(map(str, e[:-1])) for e in s.events][:8]})


def rs_sequential(ctx, res):
    """Outcome-level correspondence with the extracted Restart model on non-overlapping operation sequences."""
    from harness import detsched as ds
    from harness import procsim
    from watchdog.events import FileModifiedEvent
    import watchdog.tricks as tricks
    rng = stream(ctx, "rs-seq")
    cases, impls, metas = [], [], []
    for i in range(size(ctx, 30, 120)):
        roe = rng.random() < 0.6
        ops = [rng.choice(["ev", "ev", "selfexit", "ev"]) for _ in range(rng.randint(1, 4))]
        if rng.random() < 0.7:
            ops.append("stop")
        s = new_sched(ds.FirstChooser(), max_steps=6000)
        table = procsim.ProcTable(s, [])
        undo = procsim.install(table)
        out = {}
        try:
            trick = tricks.AutoRestartTrick(["cmd"], restart_on_command_exit=roe, kill_after=KILL_AFTER)

            def main():
                trick.start()
                for op in ops:
                    if op == "ev":
                        trick.on_any_event(FileModifiedEvent("x"))
                    elif op == "selfexit":
                        table.procs[-1]._die_at(s.clock, "self")
                    elif op == "stop":
                        trick.stop()
                        out["returned"] = True
                    ds._sleep(2 * UNIT)
                out["alive"] = len(table.alive())
            s.spawn("main", main)
            s.run()
        finally:
            undo()
        # model labels
        items, cur, alive, watcher = [], 0, True, 0
        stopped = False
        for op in ops:
            if op == "ev":
                items.append(Atom("G")); items.append(Atom("Tstar"))
                if not stopped:
                    if alive:
                        items += [[Atom("X"), cur], Atom("Tstar")]
                    cur += 1
                    alive = True
            elif op == "selfexit":
                if alive:
                    items.append([Atom("X"), cur])
                    alive = False
                    if roe and not stopped:
                        items.append([Atom("Wstar"), cur])
                        cur += 1
                        alive = True
            elif op == "stop":
                items += [Atom("C"), Atom("Mstar")]
                if alive:
                    items += [[Atom("X"), cur], Atom("Mstar")]
                    alive = False
                if roe:
                    items += [[Atom("Wstar"), cur], Atom("Mstar")]
                stopped = True
        spawns = len([1 for e in table.log if e[0] == "Spawn"])
        cases.append(sx([1, roe, int(KILL_AFTER / UNIT), items]))
        impls.append([str(spawns), str(out.get("alive")), str(table.max_alive), "1" if out.get("returned") else "0"])
        metas.append({"kind": "restart-sequential", "restart_on_exit": roe, "ops": ops})
        res.evaluations += 1
        res.hist("restart_seq_ops", len(ops))
        if len(ops) >= 2:
            res.nontrivial.add(core.digest(["rs-seq", roe, ops]))
        if s.deadlock or s.uncaught():
            res.failures.append(Failure(what="AutoRestartTrick: sequential scenario deadlocks or raises",
                                        case=metas[-1], signature={"component": "AutoRestartTrick", "law": "sequential"},
                                        observed=str(s.deadlock or s.uncaught())))
    outs = core.run_model("restart", cases)
    for c, o, im, me in zip(cases, outs, impls, metas):
        res.traces_validated += 1
        if not (isinstance(o, list) and o and o[0] == "ok" and o[1:5] == im):
            res.mismatches.append(Mismatch(pair="AutoRestartTrick sequential outcome (spawns, alive, max alive, stop returned)",
                                           case=me, model=str(o), impl=str(im)))


def run_restart(ctx, res: Result):
    from harness import detsched as ds
    rng = stream(ctx, "restart")
    directed = [c for c in ctx.corpus() if c.get("kind") == "restart"] + RS_DIRECTED
    for case in directed:
        base = {k: case[k] for k in ("kind", "interval", "restart_on_exit", "children", "ev", "main")}
        if case.get("choices"):
            s, table = rs_run(base, ds.ReplayChooser(case["choices"]))
            rs_add(res, base, s, table, True)
        for j in range(size(ctx, 200, 600)):
            tick = rng.choice([0.0, 0.3])
            s, table = rs_run(base, ds.RandomChooser(rng.randrange(1 << 30), switch_prob=0.4, tick_prob=tick))
            rs_add(res, base, s, table, tick > 0)
        if deep(ctx):
            def once(ch, base=base):
                s, table = rs_run(base, ch)
                s._c18_table = table
                return s
            for s in ds.explore(once, preemption_bound=2, max_runs=1500):
                rs_add(res, base, s, s._c18_table, False)
    for i in range(size(ctx, 600, 2500)):
        case = rs_program(rng)
        for j in range(2):
            tick = rng.choice([0.0, 0.0, 0.2])
            s, table = rs_run(case, ds.RandomChooser(rng.randrange(1 << 30), switch_prob=rng.choice([0.2, 0.5]), tick_prob=tick))
            rs_add(res, case, s, table, tick > 0)
    rs_sequential(ctx, res)


# ====================================================================== part 3: ShellCommandTrick
def sh_program(rng):
    wait = rng.random() < 0.4
    drop = rng.random() < 0.6 if wait else True
    ops = []
    for _ in range(rng.randint(1, 4)):
        ops.append(["ev"])
        if rng.random() < 0.7:
            ops.append(["sleep", rng.choice([0, 1, 2, 3])])
    children = [{"self_exit": rng.choice([1, 2, 3, 5]), "on_signal": "now"} for _ in range(5)]
    return {"kind": "shell", "wait": wait, "drop": drop, "ops": ops, "children": children}


def sh_run(case, chooser):
    from harness import detsched as ds
    from harness import procsim
    from watchdog.events import FileModifiedEvent
    import watchdog.tricks as tricks
    s = new_sched(chooser, max_steps=4000)
    table = procsim.ProcTable(s, [{"self_exit": c["self_exit"] * UNIT, "on_signal": "now"} for c in case["children"]])
    undo = procsim.install(table)
    try:
        trick = tricks.ShellCommandTrick("cmd ${watch_src_path}", wait_for_process=case["wait"],
                                         drop_during_process=case["drop"])

        def dispatcher():
            for op in case["ops"]:
                if op[0] == "ev":
                    s.log("ev-call", s.clock, len(s.trace))
                    trick.on_any_event(FileModifiedEvent("x"))
                    s.log("ev-ret", s.clock, len(s.trace))
                else:
                    ds._sleep(op[1] * UNIT)
            ds._sleep(8 * UNIT)
        s.spawn("obs", dispatcher)
        s.run()
    finally:
        undo()
    return s, table


def sh_oracle(case, s, table):
    bad = []
    if case["wait"] or case["drop"]:
        for kind, pid, t, step, alive in table.log:
            if kind == "Spawn" and len(alive) > 1:
                bad.append(("commands overlap although wait_for_process/drop_during_process is set",
                            {"spawned": pid, "running": alive, "at": units(t)}, "at most one command running"))
                break
    if s.deadlock is not None:
        bad.append(("deadlock", [list(x) for x in s.deadlock.blocked], "no deadlock"))
    n_ev = len([1 for e in s.events if e[1] == "ev-ret"])
    n_sp = len([1 for e in table.log if e[0] == "Spawn"])
    if not case["drop"] and n_sp != n_ev and s.deadlock is None:
        bad.append(("without drop_during_process every event runs the command", {"events": n_ev, "spawns": n_sp}, "equal"))
    dead = set(s.alive_after)
    for n, e in s.uncaught():
        if n not in dead:
            bad.append(("uncaught exception in thread " + n, repr(e), "none"))
    return bad


def sh_model_case(case, s, table):
    """Label sequence for the extracted model when the run is 'paced' (no exit within 0.2 s before an event): else None."""
    evs = [units(e[2]) for e in s.events if e[1] == "ev-call"]
    items, exited = [], set()
    n_spawned = 0
    spawn_times = {p.pid - 100: (units(p.spawn_time), None if p.exit_time is None else (p.exit_time - T0) / UNIT) for p in table.procs}
    k = 0
    for t in evs:
        # children that died clearly before this event: Exit + watcher discards itself (drop mode without wait)
        for c, (st, et) in sorted(spawn_times.items()):
            if c < n_spawned and c not in exited and et is not None:
                if et <= t - 1:
                    items.append([Atom("X"), c])
                    if not case["wait"]:
                        items.append([Atom("W"), c])
                    else:
                        items.append(Atom("D"))
                    exited.add(c)
                elif et <= t + 0.01:
                    return None            # too close to call: exit within one poll period of the event
        items.append(Atom("E"))
        n_spawned = len([1 for c, (st, et) in spawn_times.items() if st <= t and (c < n_spawned or st == t)])
        n_spawned = max(n_spawned, len([1 for c, (st, _) in spawn_times.items() if st < t or (st == t)]))
    return items


def run_shell(ctx, res: Result):
    from harness import detsched as ds
    rng = stream(ctx, "shell")
    rows = []
    for i in range(size(ctx, 400, 1500)):
        case = sh_program(rng)
        s, table = sh_run(case, ds.RandomChooser(rng.randrange(1 << 30), switch_prob=0.4, tick_prob=rng.choice([0.0, 0.2])))
        res.evaluations += 1
        full = dict(case, choices=[c for _, c in s.choices])
        for law, obs, exp in sh_oracle(case, s, table):
            res.failures.append(Failure(what="ShellCommandTrick: " + law, case=full,
                                        signature={"component": "ShellCommandTrick", "law": law[:50]}, observed=obs, expected=exp))
        n_sp = len([1 for e in table.log if e[0] == "Spawn"])
        n_ev = len([1 for op in case["ops"] if op[0] == "ev"])
        if n_ev >= 2:
            res.nontrivial.add(core.digest(["sh", case["wait"], case["drop"], case["ops"], case["children"][:n_ev]]))
        res.hist("shell_mode", f"wait={int(case['wait'])} drop={int(case['drop'])}")
        res.hist("shell_spawns_of_events", f"{n_sp}/{n_ev}")
        if not case["wait"] or True:
            items = sh_model_case(case, s, table) if s.choices and not any(c == "<tick>" for _, c in s.choices) else None
            if items is not None:
                rows.append((full, sx([case["wait"], case["drop"], items]), n_sp, n_ev - n_sp, table.max_alive))
    outs = core.run_model("shelltrick", [r[1] for r in rows])
    for (full, wire, n_sp, n_drop, mx), o in zip(rows, outs):
        res.traces_validated += 1
        impl = [str(n_sp), str(n_drop), str(mx)]
        if not (isinstance(o, list) and o and o[0] == "ok" and o[1:4] == impl):
            res.mismatches.append(Mismatch(pair="ShellCommandTrick paced outcome (started, dropped, max running)",
                                           case=full, model=str(o) + " on " + wire, impl=str(impl)))


# ====================================================================== driver entry points
def run(ctx) -> Result:
    from harness import detsched as ds
    ds.install()
    import logging
    logging.disable(logging.CRITICAL)      # the tricks log exceptions of racing threads; the oracle sees their effects
    res = Result()
    res.rule = ("debouncer: client scripts (start/handle_event/sleep/stop/join, 1-3 client threads, interval 0-3 units of "
                "0.25 s) x schedules (seeded random; bounded-pre-emption enumeration for the fixed programs); distinct = "
                "(program, schedule); non-trivial = at least one event and (a stop or a second event)")
    import watchdog
    res.notes.append(f"watchdog under test: {watchdog.__file__} (WATCHDOG_REPO={core.REPO})")
    run_debouncer(ctx, res)
    run_restart(ctx, res)
    run_shell(ctx, res)
    res.rule += ("; restart: (options, child behaviours, observer script, main script with stop) x schedules, non-trivial = "
                 ">= 1 event and (a stop or restart-on-exit); shell: (options, event script, child life times), non-trivial = >= 2 events")
    res.failures.sort(key=lambda f: (0 if f.what == "EventDebouncer: deadlock" else 1 if "deadlock" in f.what else 2,
                                     len(json.dumps(f.case.get("clients", []))) if isinstance(f.case, dict) else 0,
                                     len(f.case.get("choices", [])) if isinstance(f.case, dict) else 0))
    return res


def replay(ctx, obj) -> int:
    from harness import detsched as ds
    ds.install()
    import logging
    logging.disable(logging.CRITICAL)
    case = obj.get("case", obj)
    print("replay case:", json.dumps(case)[:600])
    rc = 0
    if case.get("kind") == "restart":
        base = {k: case[k] for k in ("kind", "interval", "restart_on_exit", "children", "ev", "main")}
        s, table = rs_run(base, ds.ReplayChooser(case.get("choices", [])))
        for e in table.log:
            print("  process table:", e[0], e[1], "t=%d" % units(e[2]), e[4])
        for e in s.events:
            print("  event", e)
        for law, obs, exp in rs_oracle(base, s, table):
            print("FAIL: AutoRestartTrick:", law, "| observed:", str(obs)[:600], "| expected:", exp)
            rc = 1
    if case.get("kind") == "shell":
        base = {k: case[k] for k in ("kind", "wait", "drop", "ops", "children")}
        s, table = sh_run(base, ds.ReplayChooser(case.get("choices", [])))
        for e in table.log:
            print("  process table:", e[0], e[1], "t=%d" % units(e[2]), e[4])
        for law, obs, exp in sh_oracle(base, s, table):
            print("FAIL: ShellCommandTrick:", law, "| observed:", obs, "| expected:", exp)
            rc = 1
    if case.get("kind") == "deb":
        base = {k: case[k] for k in ("kind", "interval", "clients")}
        s, info = deb_run(base, ds.ReplayChooser(case.get("choices", [])))
        for t in s.trace:
            print("  step", t)
        for e in s.events:
            print("  event", e)
        print("  deadlock:", s.deadlock, " alive after:", s.alive_after)
        for law, obs, exp in deb_oracle(base, s, info):
            print("FAIL: EventDebouncer:", law, "| observed:", obs, "| expected:", exp)
            rc = 1
        out = core.run_model("debouncer", [sx([1, base["interval"], deb_model_items(s, info)])])[0]
        diff = deb_compare(base, s, info, out)
        print("  model:", out)
        if diff:
            print("MISMATCH: model", diff[0], "| impl", diff[1])
            rc = 1
    return rc
