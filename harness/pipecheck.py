"""Shared runner of the pipeline properties C01, C02, C03, C07 (C19 has its own generator): executes
histories on the real gated observer, compares every action with the extracted Pipeline model in
lock-step, and applies the property's oracle."""
from __future__ import annotations

import os

from harness import core, pipe, pipeprops
from harness.core import Failure, Mismatch, Result

TRUSTED = [
    "modelled, not verified: the Linux kernel's inotify behaviour (coq/Model/Fs.v: kernel_op, kadd_watch) - validated on every "
    "run by comparing, record by record, the raw stream the real kernel hands to the reader with the model's stream",
    "gated driver (harness/gated.py): reader and emitter threads parked on gates, virtual clock for the pairing delay, "
    "directory-scan noise (IN_OPEN/IN_CLOSE_NOWRITE|IN_ISDIR) dropped before the reader sees it",
    "paths: the model works on os.fsencode'd byte strings; str.replace/startswith/os.path.join/dirname are modelled by "
    "BStr.v (validated against CPython in C14)",
]
ASSUMPTIONS = [
    "operations: create, append, chmod, unlink, mkdir, rmdir, rename (replace of a file / of an empty directory, move in and "
    "out of the tree); recursive delete is expanded bottom-up into unlink/rmdir; no hard links, no symlinks",
    "one step of the reader thread (read_events + grouping + put) and of the emitter thread (one queue_events call) is atomic "
    "with respect to file-system operations (the gates are at poll() and read_event()); interleavings inside a step are not explored",
]

CONFIGS = [  # (recursive, full, path_kind)
    (True, False, "str"), (True, False, "bytes"), (False, False, "str"), (True, True, "str"), (False, True, "bytes"),
]


def hist_stats(res: Result, hist, run: pipe.Run):
    nops = sum(1 for e in run.log if e["a"] == "op" and e["ok"])
    res.hist("ops_applied", nops)
    res.hist("ops_skipped", run.skipped)
    res.hist("reads", min(20, sum(1 for e in run.log if e["a"] == "read")))
    res.hist("config", f"rec={run.recursive} full={run.full} {run.path_kind}")
    for e in run.log:
        if e["a"] == "op" and e["ok"]:
            k = e["kind"]
            if k == "rename":
                k = "rename:" + e["path"][0] + ">" + e["path2"][0] + (":dir" if e["was_dir"] else ":file")
            res.hist("op_kinds", k)


def execute(hist, cfg, init_tree=None, before_close=None, late_at=()):
    recursive, full, kind = cfg
    from harness import gated
    run = pipe.Run(recursive=recursive, full=full, path_kind=kind, init_tree=init_tree, late_at=late_at)
    extra = None
    case = None
    run.hang = None
    try:
        try:
            run.execute(hist)
            if before_close:
                extra = before_close(run)
        except gated.Hang as e:
            run.hang = str(e)          # a library thread (or the queue's task accounting) got stuck: a failure with this history
        case = run.model_case() if not late_at else None
    finally:
        try:
            stopped = run.close()
        except gated.Hang as e:
            run.hang = run.hang or str(e)
            stopped = False
    return run, case, stopped, extra


def meta_of(hist, cfg, run=None):
    m = {"history": hist, "recursive": cfg[0], "full_events": cfg[1], "path_kind": cfg[2]}
    if run is not None:
        m["actions"] = [{k: v for k, v in e.items() if k in ("a", "kind", "path", "path2", "ok", "k", "d")} for e in run.log]
    return m


def printable(x):
    if isinstance(x, bytes):
        return x.decode("latin1")
    if isinstance(x, (list, tuple)):
        return [printable(y) for y in x]
    if isinstance(x, dict):
        return {k: printable(v) for k, v in x.items() if k != "objs"}
    return x


def check_model(res: Result, prop, batch):
    """batch: list of (meta, run, case). Lock-step comparison with the extracted model."""
    outs = core.run_model("pipeline", [c for _, _, c in batch])
    for (meta, run, _), o in zip(batch, outs):
        if getattr(run, "hang", None):
            res.hist("model_scope", "skipped: the run got stuck (reported as a failure)")
            continue
        if getattr(run, "lagged", False):
            res.hist("model_scope", "oracle only: dispatcher held back (events collected at release)")
            continue
        if run.g.file_watch:
            res.hist("model_scope", "skipped: watch on a non-directory (name of a directory re-used by a file before the read)")
            continue
        res.hist("model_scope", "compared")
        res.traces_validated += 1
        diffs = pipe.compare(run, o)
        if diffs:
            what, idx, m, r = diffs[0]
            res.mismatches.append(Mismatch(f"Pipeline model vs real observer: {what}", {**meta, "at_action": idx},
                                           printable(m), printable(r)))


def thread_failures(run: pipe.Run, stopped, meta, prop, sig_extra=None):
    out = []
    for name, exc in run.g.thread_errors:
        out.append(Failure(what=f"a library thread died with an unhandled error: {name}: {exc}", case=meta,
                           signature={"law": "thread-died", "exception": exc.split("(")[0], **(sig_extra or {})},
                           observed=exc, expected="no unhandled error in any library thread"))
    if getattr(run, "hang", None):
        out.append(Failure(what="the pipeline got stuck: " + run.hang[:300], case=meta, signature={"law": "hang"},
                           observed=run.hang[:300], expected="every step completes"))
    if not stopped:
        out.append(Failure(what="observer.stop()+join() did not terminate the observer", case=meta,
                           signature={"law": "stop-hangs"}, observed="alive", expected="stopped"))
    return out
